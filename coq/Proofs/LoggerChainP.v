(** Lemmas for C03: the heap model of handler derivation refines the heap-free meaning of a chain. *)
From Coq Require Import List NArith Arith Bool Lia.
Import ListNotations.
From Glb Require Import Lib.GoSlice Proofs.GoSliceP Model.LoggerChain.

Lemma wf_app : forall H X s, wf H s -> wf (H ++ X) s /\ read (H ++ X) s = read H s.
Proof.
  intros H X s [Hl [Hc | [Ha Hb]]].
  - split; [split; auto|]. rewrite !read_nil_cap; auto.
  - split.
    + split; auto. right. rewrite app_length, arr_app_l by auto. split; [lia | auto].
    + apply read_ext. apply arr_app_l; auto.
Qed.

Lemma Forall2_nth_def : forall A B (P : A -> B -> Prop) l1 l2 da db n,
  Forall2 P l1 l2 -> P da db -> P (nth n l1 da) (nth n l2 db).
Proof.
  intros A B P l1 l2 da db n HF Hd; revert n; induction HF; intros [|n]; simpl; auto.
Qed.

Lemma Forall2_mono : forall A B (P Q : A -> B -> Prop) l1 l2,
  (forall a b, P a b -> Q a b) -> Forall2 P l1 l2 -> Forall2 Q l1 l2.
Proof. intros A B P Q l1 l2 HPQ HF; induction HF; constructor; auto. Qed.

Lemma fold_left_chains_prefix : forall A G M (ops : list (op A G M)) cs,
  exists X, fold_left (chains_step A G M) ops cs = cs ++ X.
Proof.
  intros A G M ops; induction ops as [|o r IH]; intros cs; simpl.
  - exists []. now rewrite app_nil_r.
  - destruct o as [p d | n rc]; simpl.
    + destruct (IH (cs ++ [nth p cs [] ++ [d]])) as [X HX]. rewrite HX, <- app_assoc. eexists; reflexivity.
    + apply IH.
Qed.

Section ChainP.
  Variables C A G M : Type.
  Variable render_attrs : C -> list A -> list (list N) * C.
  Variable render_group : C -> G -> list (list N) * C.
  Variable header : M -> list N.
  Variable closer : C -> list N.
  Variable ctx0 : C.

  Local Notation derive := (LoggerChain.derive C A G render_attrs render_group).
  Local Notation pure_step := (LoggerChain.pure_step C A G render_attrs render_group).
  Local Notation pure_chain := (LoggerChain.pure_chain C A G render_attrs render_group ctx0).
  Local Notation pure_line := (LoggerChain.pure_line C A G M render_attrs render_group header closer ctx0).
  Local Notation line := (LoggerChain.line C A M render_attrs header closer).
  Local Notation line_bytes := (LoggerChain.line_bytes C A M render_attrs header closer).
  Local Notation exec := (LoggerChain.exec C A G M render_attrs render_group header closer ctx0).
  Local Notation exec_all := (LoggerChain.exec_all C A G M render_attrs render_group header closer ctx0).
  Local Notation line_in_tree := (LoggerChain.line_in_tree C A G M render_attrs render_group header closer ctx0).
  Local Notation line_alone := (LoggerChain.line_alone C A G M render_attrs render_group header closer ctx0).
  Local Notation replay := (LoggerChain.replay C A G render_attrs render_group ctx0).
  Local Notation replay_step := (LoggerChain.replay_step C A G render_attrs render_group).
  Local Notation root := (LoggerChain.root C ctx0).
  Local Notation tinit := (LoggerChain.tinit C ctx0).
  Local Notation node_of := (LoggerChain.node_of C ctx0).
  Local Notation chains_of := (LoggerChain.chains_of A G M).
  Local Notation chain_of := (LoggerChain.chain_of A G M).
  Local Notation chains_step := (LoggerChain.chains_step A G M).

  (** one derivation under the discipline: the old heap is a prefix of the new one (nothing that
      existed is written), and the new handler means "parent's meaning, then this step". *)
  Lemma derive_sound : forall f grow H h d, clips f = true -> wf H (pre h) ->
    exists X, fst (derive f grow H h d) = H ++ X
      /\ wf (H ++ X) (pre (snd (derive f grow H h d)))
      /\ (read (H ++ X) (pre (snd (derive f grow H h d))), ctx (snd (derive f grow H h d)))
         = pure_step (group_noop f) (read H (pre h), ctx h) d.
  Proof.
    intros f grow H h d Hclip Hwf.
    assert (forall chunks,
      exists X, fst (append_all grow H (pre (clone C f h)) chunks) = H ++ X
        /\ wf (H ++ X) (snd (append_all grow H (pre (clone C f h)) chunks))
        /\ read (H ++ X) (snd (append_all grow H (pre (clone C f h)) chunks)) = read H (pre h) ++ concat chunks) as Happ.
    { intros chunks. unfold clone; rewrite Hclip; simpl.
      destruct (append_all_clipped grow chunks H (clip (pre h)) (wf_clip _ _ Hwf) eq_refl) as (X & HX & HwfX & HrdX).
      exists X. split; [exact HX|]. split; [exact HwfX|]. rewrite HrdX, read_clip. reflexivity. }
    destruct d as [l | g]; simpl.
    - destruct l as [|a l].
      + exists []. simpl. rewrite !app_nil_r. auto.
      + unfold with_attrs. set (l' := a :: l).
        replace (ctx (clone C f h)) with (ctx h) by reflexivity.
        destruct (render_attrs (ctx h) l') as [chunks c'] eqn:Er. simpl.
        destruct (Happ chunks) as (X & HX & HwfX & HrdX).
        destruct (append_all grow H (pre (clone C f h)) chunks) as [H' s'] eqn:Ea; simpl in *.
        try rewrite Ea. simpl. exists X. subst H'. split; [reflexivity|]. split; [exact HwfX|]. rewrite HrdX. reflexivity.
    - unfold with_group. destruct (group_noop f).
      + exists []. simpl. rewrite !app_nil_r. auto.
      + replace (ctx (clone C f h)) with (ctx h) by reflexivity.
        destruct (render_group (ctx h) g) as [chunks c'] eqn:Er. simpl.
        destruct (Happ chunks) as (X & HX & HwfX & HrdX).
        destruct (append_all grow H (pre (clone C f h)) chunks) as [H' s'] eqn:Ea; simpl in *.
        try rewrite Ea. simpl. exists X. subst H'. split; [reflexivity|]. split; [exact HwfX|]. rewrite HrdX. reflexivity.
  Qed.

  (** handler [h] in heap [H] means chain [c] *)
  Definition good (noop : bool) (H : heap) (h : handler C) (c : chain A G) : Prop :=
    wf H (pre h) /\ read H (pre h) = fst (pure_chain noop c) /\ ctx h = snd (pure_chain noop c).

  Lemma good_root : forall noop H, good noop H root [].
  Proof. intros; unfold good; simpl. split; [split; simpl; auto|]. split; reflexivity. Qed.

  Lemma good_app : forall noop H X h c, good noop H h c -> good noop (H ++ X) h c.
  Proof.
    intros noop H X h c (Hwf & Hrd & Hctx). destruct (wf_app H X _ Hwf) as [Hwf' Hrd'].
    split; [exact Hwf'|]. split; [congruence | exact Hctx].
  Qed.

  Lemma good_derive : forall f grow H h c d, clips f = true -> good (group_noop f) H h c ->
    exists X, fst (derive f grow H h d) = H ++ X /\ good (group_noop f) (H ++ X) (snd (derive f grow H h d)) (c ++ [d]).
  Proof.
    intros f grow H h c d Hclip (Hwf & Hrd & Hctx).
    destruct (derive_sound f grow H h d Hclip Hwf) as (X & HX & HwfX & Heq).
    exists X. split; [exact HX|]. split; [exact HwfX|].
    unfold LoggerChain.pure_chain. rewrite fold_left_app. simpl.
    fold (pure_chain (group_noop f) c).
    rewrite Hrd, Hctx, <- surjective_pairing in Heq.
    rewrite <- Heq. split; reflexivity.
  Qed.

  (** *** the tree *)
  Definition tinv (noop : bool) (st : tstate C) (cs : list (chain A G)) : Prop :=
    Forall2 (good noop (theap C st)) (nodes C st) cs.

  Lemma tinv_init : forall noop, tinv noop tinit [[]].
  Proof. intros; constructor; [apply good_root | constructor]. Qed.

  Lemma exec_inv : forall f grow st cs o, clips f = true -> fresh_only f = true ->
    tinv (group_noop f) st cs ->
    tinv (group_noop f) (exec f grow st o) (chains_step cs o)
    /\ exists X, theap C (exec f grow st o) = theap C st ++ X.
  Proof.
    intros f grow st cs o Hclip Hfresh Hinv. destruct o as [p d | n r]; simpl.
    - assert (good (group_noop f) (theap C st) (node_of st p) (nth p cs [])) as Hg.
      { apply Forall2_nth_def; [exact Hinv | apply good_root]. }
      destruct (good_derive f grow _ _ _ d Hclip Hg) as (X & HX & HgX).
      destruct (derive f grow (theap C st) (node_of st p) d) as [H' h'] eqn:Ed; simpl in *.
      rewrite Hfresh. subst H'. split; [| exists X; reflexivity].
      unfold tinv; simpl. apply Forall2_app.
      + eapply Forall2_mono; [| exact Hinv]. intros a b Hab. apply good_app; exact Hab.
      + constructor; [exact HgX | constructor].
    - split; [exact Hinv | exists []; simpl; now rewrite app_nil_r].
  Qed.

  Lemma exec_all_inv_gen : forall f grow ops st cs, clips f = true -> fresh_only f = true ->
    tinv (group_noop f) st cs ->
    tinv (group_noop f) (fold_left (exec f grow) ops st) (fold_left chains_step ops cs)
    /\ exists X, theap C (fold_left (exec f grow) ops st) = theap C st ++ X.
  Proof.
    intros f grow ops; induction ops as [|o r IH]; intros st cs Hclip Hfresh Hinv; simpl.
    - split; [exact Hinv | exists []; now rewrite app_nil_r].
    - destruct (exec_inv f grow st cs o Hclip Hfresh Hinv) as [Hinv1 [X1 HX1]].
      destruct (IH _ _ Hclip Hfresh Hinv1) as [Hinv2 [X2 HX2]].
      split; [exact Hinv2|]. exists (X1 ++ X2). rewrite HX2, HX1, app_assoc. reflexivity.
  Qed.

  Lemma tree_refines_pure : forall f grow ops n r, clips f = true -> fresh_only f = true ->
    line_in_tree f grow ops n r = pure_line (group_noop f) (chain_of ops n) r.
  Proof.
    intros f grow ops n r Hclip Hfresh.
    destruct (exec_all_inv_gen f grow ops tinit [[]] Hclip Hfresh (tinv_init _)) as [Hinv _].
    assert (good (group_noop f) (theap C (exec_all f grow ops)) (node_of (exec_all f grow ops) n) (chain_of ops n)) as (Hwf & Hrd & Hctx).
    { unfold LoggerChain.node_of, LoggerChain.chain_of.
      apply (Forall2_nth_def _ _ (good (group_noop f) (theap C (exec_all f grow ops)))); [exact Hinv | apply good_root]. }
    unfold LoggerChain.line_in_tree, LoggerChain.line, LoggerChain.pure_line.
    fold (exec_all f grow ops). rewrite Hrd, Hctx. reflexivity.
  Qed.

  Lemma replay_good_gen : forall f grow c2 H h c1, clips f = true -> good (group_noop f) H h c1 ->
    good (group_noop f) (fst (fold_left (replay_step f grow) c2 (H, h))) (snd (fold_left (replay_step f grow) c2 (H, h))) (c1 ++ c2).
  Proof.
    intros f grow c2; induction c2 as [|d r IH]; intros H h c1 Hclip Hg; simpl.
    - rewrite app_nil_r. exact Hg.
    - destruct (good_derive f grow H h c1 d Hclip Hg) as (X & HX & HgX).
      change (replay_step f grow (H, h) d) with (derive f grow H h d).
      destruct (derive f grow H h d) as [H' h'] eqn:Ed; simpl in *. subst H'.
      replace (c1 ++ d :: r) with ((c1 ++ [d]) ++ r) by (rewrite <- app_assoc; reflexivity).
      apply IH; auto.
  Qed.

  Lemma alone_refines_pure : forall f grow c r, clips f = true ->
    line_alone f grow c r = pure_line (group_noop f) c r.
  Proof.
    intros f grow c r Hclip.
    destruct (replay_good_gen f grow c [] root [] Hclip (good_root _ _)) as (Hwf & Hrd & Hctx).
    unfold LoggerChain.line_alone, LoggerChain.line, LoggerChain.pure_line, LoggerChain.replay.
    simpl in Hrd, Hctx. simpl. f_equal; [exact Hrd | exact Hctx].
  Qed.

  (** ISOLATION *)
  Lemma isolation : forall f grow grow' ops n r, clips f = true -> fresh_only f = true ->
    line_in_tree f grow ops n r = line_alone f grow' (chain_of ops n) r.
  Proof.
    intros. rewrite tree_refines_pure, alone_refines_pure by auto. reflexivity.
  Qed.

  (** a node's chain never changes once the node exists *)
  Lemma chain_of_stable : forall ops1 ops2 n, n < length (chains_of ops1) ->
    chain_of (ops1 ++ ops2) n = chain_of ops1 n.
  Proof.
    intros ops1 ops2 n Hn. unfold LoggerChain.chain_of, LoggerChain.chains_of.
    rewrite fold_left_app.
    destruct (fold_left_chains_prefix A G M ops2 (fold_left chains_step ops1 [[]])) as [X HX].
    rewrite HX. apply app_nth1. exact Hn.
  Qed.

  (** the line a Log operation writes in the middle of a history is the isolated line, whatever
      came before and whatever comes after *)
  Lemma logged_line_isolated : forall f grow grow' ops1 n r ops2, clips f = true -> fresh_only f = true ->
    n < length (chains_of ops1) ->
    line_in_tree f grow ops1 n r = line_alone f grow' (chain_of (ops1 ++ Log n r :: ops2) n) r.
  Proof.
    intros. rewrite chain_of_stable by auto. apply isolation; auto.
  Qed.

  Lemma written_snoc : forall f grow ops n r,
    written C (exec_all f grow (ops ++ [Log n r]))
    = written C (exec_all f grow ops) ++ [(n, line_in_tree f grow ops n r)].
  Proof.
    intros. unfold LoggerChain.exec_all. rewrite fold_left_app. reflexivity.
  Qed.

  (** no later operation writes into an array that exists: published bytes are immutable *)
  Lemma published_immutable : forall f grow ops1 ops2 a, clips f = true -> fresh_only f = true ->
    a < length (theap C (exec_all f grow ops1)) ->
    arr (theap C (exec_all f grow (ops1 ++ ops2))) a = arr (theap C (exec_all f grow ops1)) a.
  Proof.
    intros f grow ops1 ops2 a Hclip Hfresh Ha.
    destruct (exec_all_inv_gen f grow ops1 tinit [[]] Hclip Hfresh (tinv_init _)) as [Hinv1 _].
    unfold LoggerChain.exec_all. rewrite fold_left_app.
    destruct (exec_all_inv_gen f grow ops2 _ _ Hclip Hfresh Hinv1) as [_ [X HX]].
    rewrite HX. apply arr_app_l. exact Ha.
  Qed.

  (** With is call site *)
  Lemma with_is_callsite_pure : forall noop c l r,
    compositional C A render_attrs closer ->
    pure_line noop (c ++ [DAttrs l]) r = pure_line noop c (prepend A M l r).
  Proof.
    intros noop c l r [Hcat Hclose].
    unfold LoggerChain.pure_line, LoggerChain.pure_chain. rewrite fold_left_app. simpl.
    fold (pure_chain noop c). destruct (pure_chain noop c) as [bs cx]. simpl.
    destruct l as [|a l]; [reflexivity|]. simpl.
    unfold LoggerChain.line_bytes. simpl. rewrite Hclose. rewrite <- !app_assoc. do 2 f_equal.
    destruct (rattrs r) as [|b rs].
    - simpl. rewrite app_nil_r. reflexivity.
    - simpl. change (a :: l ++ b :: rs) with ((a :: l) ++ (b :: rs)).
      rewrite Hcat by discriminate. rewrite <- app_assoc. reflexivity.
  Qed.

  Lemma with_is_callsite : forall f grow grow' c l r, clips f = true ->
    compositional C A render_attrs closer ->
    line_alone f grow (c ++ [DAttrs l]) r = line_alone f grow' c (prepend A M l r).
  Proof.
    intros. rewrite !alone_refines_pure by auto. apply with_is_callsite_pure; auto.
  Qed.

  (** facts extracted from the source select the flags *)
  Lemma discipline_flags : forall x, chain_discipline x = true ->
    clips (chain_flags x) = true /\ fresh_only (chain_flags x) = true.
  Proof.
    intros x H. unfold chain_discipline in H. apply andb_prop in H as [H H4]. apply andb_prop in H as [H H3]. apply andb_prop in H as [H1 H2].
    unfold chain_flags; simpl. rewrite H1, H2, H3, H4. auto.
  Qed.
End ChainP.

(** *** the token rendering is compositional (non-vacuity of the hypothesis of With-is-callsite) *)
Lemma tok_compositional : compositional (list N) (N * nat) tok_render_attrs tok_closer.
Proof.
  split.
  - intros c a b _ _. simpl. rewrite map_app, concat_app. reflexivity.
  - reflexivity.
Qed.

(** a JSON-like rendering with a separator threaded through the context is compositional too *)
Definition sep_render_attrs (c : bool) (l : list N) : list (list N) * bool :=
  fold_left (fun (acc : list (list N) * bool) a => (fst acc ++ [(if snd acc then [44%N] else []) ++ [a]], true)) l ([], c).
Lemma sep_fold : forall l acc,
  fold_left (fun (acc : list (list N) * bool) a => (fst acc ++ [(if snd acc then [44%N] else []) ++ [a]], true)) l acc
  = (fst acc ++ fst (sep_render_attrs (snd acc) l), snd (sep_render_attrs (snd acc) l)).
Proof.
  induction l as [|a l IH]; intros [ch c]; simpl.
  - now rewrite app_nil_r.
  - unfold sep_render_attrs. simpl. rewrite IH. rewrite (IH ([(if c then [44%N] else []) ++ [a]], true)).
    simpl. rewrite <- app_assoc. reflexivity.
Qed.
Lemma sep_compositional : compositional bool N sep_render_attrs (fun _ => [125%N; 10%N]).
Proof.
  split; [| reflexivity].
  intros c a b _ _. unfold sep_render_attrs at 1. rewrite fold_left_app.
  fold (sep_render_attrs c a). rewrite sep_fold. simpl. rewrite concat_app. reflexivity.
Qed.

(** *** what the discipline buys: the same model without it violates isolation (token rendering) *)
Definition tokA := (N * nat)%type.
Definition tok_line_in_tree (kind : nat) (f : flags) (grow : growth) (ops : list (op tokA tokA unit)) (n : nat) (r : record tokA unit) :=
  line_in_tree (list N) tokA tokA unit tok_render_attrs (tok_render_group kind) tok_header tok_closer [] f grow ops n r.
Definition tok_line_alone (kind : nat) (f : flags) (grow : growth) (c : chain tokA tokA) (r : record tokA unit) :=
  line_alone (list N) tokA tokA unit tok_render_attrs (tok_render_group kind) tok_header tok_closer [] f grow c r.

(** parent := root.With(p); c1 := parent.With(a); c2 := parent.With(b): c1 prints b *)
Definition siblings : list (op tokA tokA unit) :=
  [Derive 0 (DAttrs [(1%N, 1)]); Derive 1 (DAttrs [(2%N, 1)]); Derive 1 (DAttrs [(3%N, 1)])].

Lemma no_clip_refuted_w :
  exists ops grow n r,
    tok_line_in_tree 0 (mkFlags false true false) grow ops n r
    <> tok_line_alone 0 (mkFlags false true false) grow (chain_of tokA tokA unit ops n) r.
Proof.
  exists siblings, (fun _ _ _ => 4), 2, (mkRecord tt []). vm_compute. discriminate.
Qed.

(** assigning to the receiver instead of the clone: the parent's own line changes *)
Lemma assign_receiver_refuted_w :
  exists ops grow n r,
    tok_line_in_tree 1 (mkFlags true false false) grow ops n r
    <> tok_line_alone 1 (mkFlags true false false) grow (chain_of tokA tokA unit ops n) r.
Proof.
  exists [Derive 0 (DGroup (7%N, 1))], (fun _ _ _ => 0), 0, (mkRecord tt []). vm_compute. discriminate.
Qed.
