(** Lemmas about the file-system model and CopyFile / MoveFile. *)
From Coq Require Import List NArith Bool Lia.
Import ListNotations.
From Glb Require Import Model.FileOps Lib.FsScenarios.
Open Scope N_scope.

Lemma upd_same : forall (A : Type) (f : N -> A) k v, upd f k v k = v.
Proof. intros. unfold upd. now rewrite N.eqb_refl. Qed.

Lemma upd_other : forall (A : Type) (f : N -> A) k v x, x <> k -> upd f k v x = f x.
Proof. intros A f k v x H. unfold upd. apply N.eqb_neq in H. now rewrite H. Qed.

Lemma write_at0_nil : forall c, write_at0 [] c = c.
Proof. intros c. unfold write_at0. rewrite skipn_nil. apply app_nil_r. Qed.

(** * path resolution *)

Definition nonsym (v : slotv) : Prop := match v with Sym _ => False | _ => True end.

Lemma follow_nonsym : forall n s e d, parent s e = POk d -> nonsym (slot s e) -> follow n s e = Ok e.
Proof.
  intros n s e d Hp Hs. destruct n; cbn [follow]; rewrite Hp; destruct (slot s e); cbn in Hs; auto; contradiction.
Qed.

(** resolution only looks at parents and at symbolic links *)
Lemma follow_ext : forall s s',
  (forall x, parent s' x = parent s x) ->
  (forall x, slot s' x = slot s x \/ (nonsym (slot s x) /\ nonsym (slot s' x))) ->
  forall n x, follow n s' x = follow n s x.
Proof.
  intros s s' Hp Hs. induction n as [|n IH]; intros x; cbn [follow]; rewrite Hp;
    destruct (parent s x); auto; destruct (Hs x) as [E | [E1 E2]].
  - rewrite E. reflexivity.
  - destruct (slot s x), (slot s' x); cbn in E1, E2; auto; contradiction.
  - rewrite E. destruct (slot s x); auto.
  - destruct (slot s x), (slot s' x); cbn in E1, E2; auto; contradiction.
Qed.

Lemma follow_final : forall n s x e, follow n s x = Ok e ->
  nonsym (slot s e) /\ exists d, parent s e = POk d.
Proof.
  induction n as [|n IH]; intros s x e; cbn [follow]; destruct (parent s x) eqn:Hp; try discriminate;
    destruct (slot s x) eqn:Hs; try discriminate; intros H;
    try (injection H as <-; rewrite Hs; split; [exact I | eauto]).
  eapply IH; eassumption.
Qed.

Lemma stat_inv : forall s p i, stat s p = Ok i ->
  exists e, resolve s p = Ok e /\ slot s e = Link i /\ inode s i <> None.
Proof.
  intros s p i. unfold stat. destruct (resolve s p) as [e|] eqn:E; [|discriminate].
  destruct (slot s e) as [|j|] eqn:Es; try discriminate.
  destruct (inode s j) eqn:Ei; [|discriminate]. intros H. injection H as <-.
  exists e. repeat split; auto. congruence.
Qed.

Lemma stat_intro : forall s p e i n, resolve s p = Ok e -> slot s e = Link i -> inode s i = Some n -> stat s p = Ok i.
Proof. intros s p e i n H1 H2 H3. unfold stat. now rewrite H1, H2, H3. Qed.

Lemma stat_direct_link : forall s p i, slot s p = Link i -> forall j, stat s p = Ok j -> j = i /\ exists d, parent s p = POk d.
Proof.
  intros s p i Hs j H. apply stat_inv in H as (e & He & Hl & _).
  unfold resolve, max_links in He. cbn [follow] in He.
  destruct (parent s p) eqn:Hp; try discriminate. rewrite Hs in He. injection He as <-.
  rewrite Hs in Hl. injection Hl as ->. eauto.
Qed.

(** * CopyFile after the same-file test *)

Record copy_post (s : fs) (i : N) (c : list N) (dst : N) (s' : fs) (r : option err) : Prop := {
  cp_parent : forall x, parent s' x = parent s x;
  cp_slots : forall e, slot s e <> Empty -> slot s' e = slot s e;
  cp_slots_nonsym : forall x, slot s' x = slot s x \/ (nonsym (slot s x) /\ nonsym (slot s' x));
  cp_source : inode s' i = Some (File c);
  cp_others : forall j n, inode s j = Some n -> stat s dst <> Ok j -> inode s' j = Some n;
  cp_alloc : forall j, inode s j <> None -> inode s' j <> None;
  cp_dest : r = None -> exists d, d <> i /\ stat s' dst = Ok d /\ inode s' d = Some (File c)
}.

Lemma copy_post_refl : forall s i c dst e, inode s i = Some (File c) -> copy_post s i c dst s (Some e).
Proof. intros. constructor; auto; discriminate. Qed.

Lemma copy_tail_spec : forall s i c dst s' r,
  wf s -> inode s i = Some (File c) -> stat s dst <> Ok i ->
  copy_tail s i dst = (s', r) -> copy_post s i c dst s' r.
Proof.
  intros s i c dst s' r Hwf Hi Hne. unfold copy_tail, create.
  destruct (resolve s dst) as [e|] eqn:Er; [|intros H; injection H as <- <-; now apply copy_post_refl].
  assert (Hi_lt : i <> next s).
  { intros ->. rewrite (Hwf (next s)) in Hi by lia. discriminate. }
  destruct (slot s e) as [|d0|] eqn:Es.
  - (* new file in an empty slot *)
    set (n := next s) in *. unfold io_copy. cbn [inode fst snd].
    rewrite upd_other by assumption. rewrite Hi, upd_same.
    intros H. injection H as <- <-. rewrite write_at0_nil.
    assert (Hslots : forall x, upd (slot s) e (Link n) x = slot s x \/ (nonsym (slot s x) /\ nonsym (upd (slot s) e (Link n) x))).
    { intros x. destruct (N.eq_dec x e) as [-> | Hx].
      - right. rewrite Es, upd_same. split; exact I.
      - left. now apply upd_other. }
    constructor; cbn [parent slot inode set_inode]; auto.
    + intros x Hx. apply upd_other. intros ->. contradiction.
    + rewrite upd_other by assumption. rewrite upd_other by assumption. exact Hi.
    + intros j nd Hj _. assert (j <> n) by (intros ->; unfold n in Hj; rewrite (Hwf (next s)) in Hj by lia; discriminate).
      rewrite !upd_other by assumption. exact Hj.
    + intros j Hj. destruct (N.eq_dec j n) as [-> | Hjn]; [rewrite upd_same; discriminate|].
      rewrite !upd_other by assumption. exact Hj.
    + intros _. exists n. split; [congruence|]. split.
      * eapply stat_intro with (e := e).
        -- unfold resolve in *. rewrite <- Er. apply follow_ext; cbn [parent slot]; auto.
        -- cbn [slot]. apply upd_same.
        -- cbn [inode]. apply upd_same.
      * apply upd_same.
  - (* existing inode: truncated, then written *)
    destruct (inode s d0) as [[old|]|] eqn:Ed; try (intros H; injection H as <- <-; now apply copy_post_refl).
    assert (Hd0 : d0 <> i).
    { intros ->. apply Hne. eapply stat_intro; eassumption. }
    unfold io_copy, set_inode. cbn [inode slot next parent].
    rewrite upd_other by congruence. rewrite Hi, upd_same.
    intros H. injection H as <- <-. rewrite write_at0_nil.
    constructor; cbn [parent slot inode]; auto.
    + rewrite !upd_other by congruence. exact Hi.
    + intros j nd Hj Hnd. assert (j <> d0).
      { intros ->. apply Hnd. eapply stat_intro; eassumption. }
      rewrite !upd_other by assumption. exact Hj.
    + intros j Hj. destruct (N.eq_dec j d0) as [-> | Hjn]; [rewrite upd_same; discriminate|].
      rewrite !upd_other by assumption. exact Hj.
    + intros _. exists d0. split; [assumption|]. split.
      * eapply stat_intro with (e := e).
        -- unfold resolve in *. rewrite <- Er. apply follow_ext; cbn [parent slot]; auto.
        -- exact Es.
        -- cbn [inode]. apply upd_same.
      * apply upd_same.
  - intros H; injection H as <- <-; now apply copy_post_refl.
Qed.

Lemma copy_file_spec : forall s src dst i c s' r,
  wf s -> stat s src = Ok i -> inode s i = Some (File c) ->
  copy_file s src dst = (s', r) -> copy_post s i c dst s' r.
Proof.
  intros s src dst i c s' r Hwf Hs Hi. unfold copy_file, open. rewrite Hs.
  destruct (stat s dst) as [di|] eqn:Ed.
  - destruct (i =? di) eqn:E.
    + intros H. injection H as <- <-. now apply copy_post_refl.
    + apply N.eqb_neq in E. apply copy_tail_spec; auto. congruence.
  - apply copy_tail_spec; auto. rewrite Ed. discriminate.
Qed.

(** paths that named a file still name the same file afterwards *)
Lemma copy_post_stat : forall s i c dst s' r p j, copy_post s i c dst s' r -> stat s p = Ok j -> stat s' p = Ok j.
Proof.
  intros s i c dst s' r p j P H. apply stat_inv in H as (e & He & Hl & Hn).
  assert (Hn' := cp_alloc _ _ _ _ _ _ P j Hn).
  destruct (inode s' j) as [nd|] eqn:Ej; [|congruence].
  eapply stat_intro with (e := e); [| |exact Ej].
  - unfold resolve in *. rewrite <- He. apply follow_ext; [apply (cp_parent _ _ _ _ _ _ P) | apply (cp_slots_nonsym _ _ _ _ _ _ P)].
  - rewrite (cp_slots _ _ _ _ _ _ P); [assumption | congruence].
Qed.

Lemma read_path_intro : forall s p i c, stat s p = Ok i -> inode s i = Some (File c) -> read_path s p = Some c.
Proof. intros s p i c H1 H2. unfold read_path. now rewrite H1, H2. Qed.

(** the C18 statement for CopyFile *)
Lemma copy_file_safe : forall s src dst i c s' r,
  wf s -> stat s src = Ok i -> inode s i = Some (File c) ->
  copy_file s src dst = (s', r) ->
  (r = None -> read_path s' dst = Some c /\ stat s' dst <> Ok i)
  /\ read_path s' src = Some c
  /\ stat s' src = Ok i /\ inode s' i = Some (File c)
  /\ (forall j n, inode s j = Some n -> stat s dst <> Ok j -> inode s' j = Some n)
  /\ (forall e, slot s e <> Empty -> slot s' e = slot s e).
Proof.
  intros s src dst i c s' r Hwf Hs Hi H.
  pose proof (copy_file_spec _ _ _ _ _ _ _ Hwf Hs Hi H) as P.
  pose proof (copy_post_stat _ _ _ _ _ _ _ _ P Hs) as Hs'.
  pose proof (cp_source _ _ _ _ _ _ P) as Hi'.
  split; [|split; [|split; [|split; [|split]]]]; auto.
  - intros Hr. destruct (cp_dest _ _ _ _ _ _ P Hr) as (d & Hd & Hst & Hc).
    split; [eapply read_path_intro; eassumption | congruence].
  - eapply read_path_intro; eassumption.
  - apply (cp_others _ _ _ _ _ _ P).
  - apply (cp_slots _ _ _ _ _ _ P).
Qed.

Lemma copy_file_open_error : forall s src dst e, stat s src = Err e -> copy_file s src dst = (s, Some e).
Proof. intros s src dst e H. unfold copy_file, open. now rewrite H. Qed.

(** * MoveFile *)

Lemma is_dir_slot_file : forall s i c, inode s i = Some (File c) -> is_dir_slot s (Link i) = false.
Proof. intros s i c H. cbn. now rewrite H. Qed.

(** a successful rename of a regular file: nothing happened between aliases, or the link moved *)
Lemma rename_ok : forall s src dst i c s1,
  slot s src = Link i -> inode s i = Some (File c) -> rename s src dst = Ok s1 ->
  (s1 = s /\ stat s dst = Ok i)
  \/ (slot s1 src = Empty /\ stat s1 dst = Ok i /\ inode s1 = inode s).
Proof.
  intros s src dst i c s1 Hs Hi. unfold rename.
  destruct (parent s src) as [d1| |] eqn:Hp1; destruct (parent s dst) as [d2| |] eqn:Hp2; try discriminate.
  rewrite Hs. destruct (negb (d1 =? d2)); [discriminate|].
  destruct (src =? dst) eqn:Esd.
  - apply N.eqb_eq in Esd. subst dst. intros H. injection H as <-. left. split; auto.
    eapply stat_intro with (e := src); eauto. unfold resolve. eapply follow_nonsym; eauto. rewrite Hs. exact I.
  - apply N.eqb_neq in Esd.
    assert (Moved : forall s2, s2 = set_slot (set_slot s dst (Link i)) src Empty ->
              slot s2 src = Empty /\ stat s2 dst = Ok i /\ inode s2 = inode s).
    { intros s2 ->. cbn [set_slot slot inode parent]. split; [apply upd_same|]. split; [|reflexivity].
      eapply stat_intro with (e := dst); cbn [slot inode set_slot]; eauto.
      - unfold resolve. eapply follow_nonsym; cbn [set_slot parent slot]; eauto.
        rewrite upd_other by congruence. rewrite upd_same. exact I.
      - rewrite upd_other by congruence. apply upd_same. }
    rewrite (is_dir_slot_file _ _ _ Hi).
    destruct (slot s dst) as [|j|e'] eqn:Hd.
    + cbn [is_dir_slot]. intros H. injection H as <-. right. now apply Moved.
    + destruct (i =? j) eqn:Eij.
      * apply N.eqb_eq in Eij. subst j. intros H. injection H as <-. left. split; auto.
        eapply stat_intro with (e := dst); eauto. unfold resolve. eapply follow_nonsym; eauto. rewrite Hd. exact I.
      * destruct (is_dir_slot s (Link j)); [discriminate|]. intros H. injection H as <-. right. now apply Moved.
    + cbn [is_dir_slot]. intros H. injection H as <-. right. now apply Moved.
Qed.

Lemma move_file_safe : forall s src dst i c s' r,
  wf s -> slot s src = Link i -> inode s i = Some (File c) ->
  move_file s src dst = (s', r) ->
  (r = None ->
     read_path s' dst = Some c
     /\ (slot s' src = Empty \/ (stat s dst = Ok i /\ slot s' src = Link i /\ inode s' i = Some (File c))))
  /\ (r <> None -> slot s' src = Link i /\ inode s' i = Some (File c))
  /\ (forall j n, inode s j = Some n -> stat s dst <> Ok j -> inode s' j = Some n).
Proof.
  intros s src dst i c s' r Hwf Hs Hi. unfold move_file.
  destruct (rename s src dst) as [s1|re] eqn:Hr.
  - intros H. injection H as <- <-.
    destruct (rename_ok _ _ _ _ _ _ Hs Hi Hr) as [[-> Hst] | (Hempty & Hst & Hino)].
    + split; [|split]; [| congruence | auto].
      intros _. split; [eapply read_path_intro; eassumption | right; auto].
    + split; [|split]; [| congruence | intros j n Hj _; now rewrite Hino].
      intros _. split; [| left; assumption].
      eapply read_path_intro; [eassumption | now rewrite Hino].
  - destruct (stat s src) as [i'|e] eqn:Hst.
    + destruct (stat_direct_link _ _ _ Hs _ Hst) as [-> [d Hpar]].
      destruct (copy_file s src dst) as [s1 r1] eqn:Hc.
      pose proof (copy_file_spec _ _ _ _ _ _ _ Hwf Hst Hi Hc) as P.
      assert (Hs1 : slot s1 src = Link i) by (rewrite (cp_slots _ _ _ _ _ _ P); [assumption | congruence]).
      pose proof (cp_source _ _ _ _ _ _ P) as Hi1.
      destruct r1 as [e1|].
      * intros H. injection H as <- <-. split; [discriminate|]. split; auto. apply (cp_others _ _ _ _ _ _ P).
      * destruct (cp_dest _ _ _ _ _ _ P eq_refl) as (dd & Hdd & Hstd & Hcd).
        unfold remove. rewrite (cp_parent _ _ _ _ _ _ P), Hpar, Hs1, (is_dir_slot_file _ _ _ Hi1).
        intros H. injection H as <- <-.
        split; [|split]; [| congruence | apply (cp_others _ _ _ _ _ _ P)].
        intros _. split; [| left; cbn [set_slot slot]; apply upd_same].
        apply stat_inv in Hstd as (e & He & Hl & _).
        assert (e <> src) by (intros ->; rewrite Hs1 in Hl; congruence).
        eapply read_path_intro with (i := dd); [|exact Hcd].
        eapply stat_intro with (e := e); cbn [set_slot slot inode]; [| rewrite upd_other by assumption; exact Hl | exact Hcd].
        unfold resolve in *. rewrite <- He. apply follow_ext; cbn [set_slot parent slot]; auto.
        intros x. destruct (N.eq_dec x src) as [-> | Hx].
        -- right. rewrite upd_same, Hs1. split; exact I.
        -- left. now apply upd_other.
    + rewrite (copy_file_open_error _ _ _ _ Hst). intros H. injection H as <- <-.
      split; [discriminate|]. split; auto.
Qed.

(** * the defect of the earlier CopyFile (no same-file test) *)

Definition self_fs : fs :=
  mkFs (fun e => if e =? 0 then Link 0 else Empty)
       (fun i => if i =? 0 then Some (File [1; 2; 3]) else None)
       1
       (fun _ => POk 0).

Lemma self_fs_wf : wf self_fs.
Proof.
  intros j H. cbn [self_fs inode next] in *. destruct (j =? 0) eqn:E; [|reflexivity].
  apply N.eqb_eq in E. subst. lia.
Qed.

Lemma copy_old_loses_content :
  exists s src dst i c,
    wf s /\ stat s src = Ok i /\ inode s i = Some (File c) /\ c <> []
    /\ snd (copy_file_old s src dst) = None
    /\ read_path (fst (copy_file_old s src dst)) src = Some [].
Proof.
  exists self_fs, 0, 0, 0, [1; 2; 3].
  split; [exact self_fs_wf|]. repeat split; try (vm_compute; reflexivity). discriminate.
Qed.

(** * the replayed scenarios are instances of the theorems *)

Lemma scenario_wf : forall k od sm c, wf (scenario k od sm c).
Proof.
  intros k od sm c j H. cbn [scenario inode next] in *.
  destruct (j =? 0) eqn:E0; [apply N.eqb_eq in E0; lia|].
  destruct (j =? 1) eqn:E1; [apply N.eqb_eq in E1; lia|].
  destruct (j =? 2) eqn:E2; [apply N.eqb_eq in E2; lia|]. reflexivity.
Qed.

Lemma scenario_source : forall k od c,
  slot (scenario k od false c) src_path = Link 0 /\ stat (scenario k od false c) src_path = Ok 0
  /\ inode (scenario k od false c) 0 = Some (File c).
Proof. intros k od c. repeat split. Qed.
