(** Lemmas about the file-system model and CopyFile / MoveFile. *)
From Coq Require Import List NArith Bool Lia.
Import ListNotations.
From Glb Require Import Model.FileOps Lib.FsScenarios.
Open Scope N_scope.

Lemma upd_same : forall (A : Type) (f : N -> A) k v, upd f k v k = v.
Proof. intros. unfold upd. now rewrite N.eqb_refl. Qed.

Lemma upd_other : forall (A : Type) (f : N -> A) k v x, x <> k -> upd f k v x = f x.
Proof. intros A f k v x H. unfold upd. apply N.eqb_neq in H. now rewrite H. Qed.

Lemma write_at0_nil : forall c, write_at0 [] c = c.
Proof. intros c. unfold write_at0. rewrite skipn_nil. apply app_nil_r. Qed.

(** * path resolution *)

Definition nonsym (v : slotv) : Prop := match v with Sym _ => False | _ => True end.

Lemma follow_nonsym : forall n s e d, parent s e = POk d -> nonsym (slot s e) -> follow n s e = Ok e.
Proof.
  intros n s e d Hp Hs. destruct n; cbn [follow]; rewrite Hp; destruct (slot s e); cbn in Hs; auto; contradiction.
Qed.

(** resolution only looks at parents and at symbolic links *)
Lemma follow_ext : forall s s',
  (forall x, parent s' x = parent s x) ->
  (forall x, slot s' x = slot s x \/ (nonsym (slot s x) /\ nonsym (slot s' x))) ->
  forall n x, follow n s' x = follow n s x.
Proof.
  intros s s' Hp Hs. induction n as [|n IH]; intros x; cbn [follow]; rewrite Hp;
    destruct (parent s x); auto; destruct (Hs x) as [E | [E1 E2]].
  - rewrite E. reflexivity.
  - destruct (slot s x), (slot s' x); cbn in E1, E2; auto; contradiction.
  - rewrite E. destruct (slot s x); auto.
  - destruct (slot s x), (slot s' x); cbn in E1, E2; auto; contradiction.
Qed.

Lemma follow_final : forall n s x e, follow n s x = Ok e ->
  nonsym (slot s e) /\ exists d, parent s e = POk d.
Proof.
  induction n as [|n IH]; intros s x e; cbn [follow]; destruct (parent s x) eqn:Hp; try discriminate;
    destruct (slot s x) eqn:Hs; try discriminate; intros H;
    try (injection H as <-; rewrite Hs; split; [exact I | eauto]).
  eapply IH; eassumption.
Qed.

Lemma stat_inv : forall s p i, stat s p = Ok i ->
  exists e, resolve s p = Ok e /\ slot s e = Link i /\ inode s i <> None.
Proof.
  intros s p i. unfold stat. destruct (resolve s p) as [e|] eqn:E; [|discriminate].
  destruct (slot s e) as [|j|] eqn:Es; try discriminate.
  destruct (inode s j) eqn:Ei; [|discriminate]. intros H. injection H as <-.
  exists e. repeat split; auto. congruence.
Qed.

Lemma stat_intro : forall s p e i n, resolve s p = Ok e -> slot s e = Link i -> inode s i = Some n -> stat s p = Ok i.
Proof. intros s p e i n H1 H2 H3. unfold stat. now rewrite H1, H2, H3. Qed.

Lemma stat_direct_link : forall s p i, slot s p = Link i -> forall j, stat s p = Ok j -> j = i /\ exists d, parent s p = POk d.
Proof.
  intros s p i Hs j H. apply stat_inv in H as (e & He & Hl & _).
  unfold resolve, max_links in He. cbn [follow] in He.
  destruct (parent s p) eqn:Hp; try discriminate. rewrite Hs in He. injection He as <-.
  rewrite Hs in Hl. injection Hl as ->. eauto.
Qed.

(** * CopyFile after the same-file test *)

Record copy_post (s : fs) (i : N) (c : list N) (dst : N) (s' : fs) (r : option err) : Prop := {
  cp_parent : forall x, parent s' x = parent s x;
  cp_slots : forall e, slot s e <> Empty -> slot s' e = slot s e;
  cp_slots_nonsym : forall x, slot s' x = slot s x \/ (nonsym (slot s x) /\ nonsym (slot s' x));
  cp_source : inode s' i = Some (File c);
  cp_others : forall j n, inode s j = Some n -> stat s dst <> Ok j -> inode s' j = Some n;
  cp_alloc : forall j, inode s j <> None -> inode s' j <> None;
  cp_dest : r = None -> exists d, d <> i /\ stat s' dst = Ok d /\ inode s' d = Some (File c);
  (* an existing destination file is left as it was, or holds a prefix of the source (empty = truncated) *)
  cp_dest_partial : forall d old, stat s dst = Ok d -> inode s d = Some (File old) ->
      inode s' d = Some (File old) \/ exists k, inode s' d = Some (File (firstn k c))
}.

Lemma copy_post_refl : forall s i c dst e, inode s i = Some (File c) -> copy_post s i c dst s (Some e).
Proof. intros. constructor; auto; discriminate. Qed.

Lemma faulty_ok : forall (A : Type) ch (r : res A) a, faulty ch r = Ok a -> r = Ok a.
Proof. intros A ch r a. destruct ch; cbn; congruence. Qed.

Lemma faulty_err : forall (A : Type) ch (r : res A) e, faulty ch r = Err e -> r = Err e \/ ch <> Pass.
Proof. intros A ch r e. destruct ch; cbn; intros H; [left; assumption | right; discriminate | right; discriminate]. Qed.

Lemma faulty_pass : forall (A : Type) (r : res A), faulty Pass r = r.
Proof. reflexivity. Qed.

Lemma firstn_all_self : forall (c : list N), firstn (length c) c = c.
Proof. intros c. apply firstn_all. Qed.

Lemma copy_tail_spec : forall F s i c dst s' r,
  wf s -> inode s i = Some (File c) -> stat s dst <> Ok i ->
  copy_tail F s i dst = (s', r) -> copy_post s i c dst s' r.
Proof.
  intros F s i c dst s' r Hwf Hi Hne. unfold copy_tail.
  destruct (faulty (F SCreate) (create s dst)) as [[s1 d]|ce] eqn:Hcr;
    [|intros H; injection H as <- <-; now apply copy_post_refl].
  apply faulty_ok in Hcr. revert Hcr. unfold create.
  destruct (resolve s dst) as [e|] eqn:Er; [|discriminate].
  assert (Hi_lt : i <> next s).
  { intros ->. rewrite (Hwf (next s)) in Hi by lia. discriminate. }
  destruct (slot s e) as [|d0|] eqn:Es; [| |discriminate].
  - (* new file in an empty slot *)
    intros Hcr. injection Hcr as <- <-.
    set (n := next s) in *. unfold io_copy. cbn [inode fst snd].
    rewrite upd_other by assumption. rewrite Hi, upd_same.
    assert (Hslots : forall x, upd (slot s) e (Link n) x = slot s x \/ (nonsym (slot s x) /\ nonsym (upd (slot s) e (Link n) x))).
    { intros x. destruct (N.eq_dec x e) as [-> | Hx].
      - right. rewrite Es, upd_same. split; exact I.
      - left. now apply upd_other. }
    assert (Hnodst : forall d old, stat s dst = Ok d -> inode s d = Some (File old) -> False).
    { intros d old Hst _. apply stat_inv in Hst as (e' & He' & Hl & _). congruence. }
    assert (Common : forall cont r0,
      (r0 = None -> cont = c) ->
      copy_post s i c dst
        (set_inode (mkFs (upd (slot s) e (Link n)) (upd (inode s) n (Some (File []))) (N.succ n) (parent s)) n (File cont)) r0).
    { intros cont r0 Hr0.
      constructor; cbn [parent slot inode set_inode]; auto.
      + intros x Hx. apply upd_other. intros ->. contradiction.
      + rewrite upd_other by assumption. rewrite upd_other by assumption. exact Hi.
      + intros j nd Hj _. assert (j <> n) by (intros ->; unfold n in Hj; rewrite (Hwf (next s)) in Hj by lia; discriminate).
        rewrite !upd_other by assumption. exact Hj.
      + intros j Hj. destruct (N.eq_dec j n) as [-> | Hjn]; [rewrite upd_same; discriminate|].
        rewrite !upd_other by assumption. exact Hj.
      + intros Hr. rewrite (Hr0 Hr). exists n. split; [congruence|]. split.
        * eapply stat_intro with (e := e).
          -- unfold resolve in *. rewrite <- Er. apply follow_ext; cbn [parent slot]; auto.
          -- cbn [slot]. apply upd_same.
          -- cbn [inode]. apply upd_same.
        * apply upd_same.
      + intros d old Hst Hd. exfalso. eapply Hnodst; eassumption. }
    destruct (F SCopy) as [|fe|k fe]; intros H; injection H as <- <-.
    + rewrite write_at0_nil. apply Common. auto.
    + constructor; cbn [parent slot inode]; auto; try discriminate.
      * intros x Hx. apply upd_other. intros ->. contradiction.
      * rewrite upd_other by assumption. exact Hi.
      * intros j nd Hj _. assert (j <> n) by (intros ->; unfold n in Hj; rewrite (Hwf (next s)) in Hj by lia; discriminate).
        rewrite upd_other by assumption. exact Hj.
      * intros j Hj. destruct (N.eq_dec j n) as [-> | Hjn]; [rewrite upd_same; discriminate|].
        rewrite upd_other by assumption. exact Hj.
      * intros d old Hst Hd. exfalso. eapply Hnodst; eassumption.
    + rewrite write_at0_nil. apply Common. discriminate.
  - (* existing inode: truncated, then written *)
    destruct (inode s d0) as [[old|]|] eqn:Ed; try discriminate.
    intros Hcr. injection Hcr as <- <-.
    assert (Hd0 : d0 <> i).
    { intros ->. apply Hne. eapply stat_intro; eassumption. }
    assert (Hdst : stat s dst = Ok d0) by (eapply stat_intro; eassumption).
    unfold io_copy, set_inode. cbn [inode slot next parent].
    rewrite upd_other by congruence. rewrite Hi, upd_same.
    assert (Common : forall cont r0,
      (r0 = None -> cont = c) -> (exists k, cont = firstn k c) ->
      copy_post s i c dst (mkFs (slot s) (upd (upd (inode s) d0 (Some (File []))) d0 (Some (File cont))) (next s) (parent s)) r0).
    { intros cont r0 Hr0 Hpre.
      constructor; cbn [parent slot inode]; auto.
      + rewrite !upd_other by congruence. exact Hi.
      + intros j nd Hj Hnd. assert (j <> d0) by (intros ->; contradiction).
        rewrite !upd_other by assumption. exact Hj.
      + intros j Hj. destruct (N.eq_dec j d0) as [-> | Hjn]; [rewrite upd_same; discriminate|].
        rewrite !upd_other by assumption. exact Hj.
      + intros Hr. rewrite (Hr0 Hr). exists d0. split; [assumption|]. split.
        * eapply stat_intro with (e := e).
          -- unfold resolve in *. rewrite <- Er. apply follow_ext; cbn [parent slot]; auto.
          -- exact Es.
          -- cbn [inode]. apply upd_same.
        * apply upd_same.
      + intros d old' Hst Hd. right. destruct Hpre as [k ->]. exists k.
        assert (d = d0) by congruence. subst d. apply upd_same. }
    destruct (F SCopy) as [|fe|k fe]; intros H; injection H as <- <-.
    + rewrite write_at0_nil. apply Common; [auto | exists (length c); symmetry; apply firstn_all_self].
    + (* create truncated the destination, nothing was written *)
      constructor; cbn [parent slot inode]; auto; try discriminate.
      * rewrite upd_other by congruence. exact Hi.
      * intros j nd Hj Hnd. assert (j <> d0) by (intros ->; contradiction). rewrite upd_other by assumption. exact Hj.
      * intros j Hj. destruct (N.eq_dec j d0) as [-> | Hjn]; [rewrite upd_same; discriminate|]. rewrite upd_other by assumption. exact Hj.
      * intros d old' Hst Hd. right. exists 0%nat. assert (d = d0) by congruence. subst d. rewrite upd_same. reflexivity.
    + rewrite write_at0_nil. apply Common; [discriminate | eauto].
Qed.

(** the one fault the code does not survive is excluded: a spurious failure of os.Stat(dest)
    while dest really is the source (see [copy_stat_fault_on_alias_loses]) *)
Definition stat_fault_harmless (F : faults) (s : fs) (dst i : N) : Prop :=
  F SStatDst = Pass \/ stat s dst <> Ok i.

Lemma copy_file_spec : forall F s src dst i c s' r,
  wf s -> stat s src = Ok i -> inode s i = Some (File c) -> stat_fault_harmless F s dst i ->
  copy_file_f F s src dst = (s', r) -> copy_post s i c dst s' r.
Proof.
  intros F s src dst i c s' r Hwf Hs Hi HF. unfold copy_file_f, open.
  destruct (faulty (F SOpen) (stat s src)) as [si|oe] eqn:Ho;
    [|intros H; injection H as <- <-; now apply copy_post_refl].
  apply faulty_ok in Ho. assert (si = i) by congruence. subst si.
  destruct (F SFstat); try (intros H; injection H as <- <-; now apply copy_post_refl).
  destruct (faulty (F SStatDst) (stat s dst)) as [di|de] eqn:Ed.
  - apply faulty_ok in Ed. destruct (i =? di) eqn:E.
    + intros H. injection H as <- <-. now apply copy_post_refl.
    + apply N.eqb_neq in E. apply copy_tail_spec; auto. congruence.
  - apply copy_tail_spec; auto. apply faulty_err in Ed as [Ed | Ed].
    + rewrite Ed. discriminate.
    + destruct HF as [HF | HF]; [contradiction | assumption].
Qed.

(** paths that named a file still name the same file afterwards *)
Lemma copy_post_stat : forall s i c dst s' r p j, copy_post s i c dst s' r -> stat s p = Ok j -> stat s' p = Ok j.
Proof.
  intros s i c dst s' r p j P H. apply stat_inv in H as (e & He & Hl & Hn).
  assert (Hn' := cp_alloc _ _ _ _ _ _ P j Hn).
  destruct (inode s' j) as [nd|] eqn:Ej; [|congruence].
  eapply stat_intro with (e := e); [| |exact Ej].
  - unfold resolve in *. rewrite <- He. apply follow_ext; [apply (cp_parent _ _ _ _ _ _ P) | apply (cp_slots_nonsym _ _ _ _ _ _ P)].
  - rewrite (cp_slots _ _ _ _ _ _ P); [assumption | congruence].
Qed.

Lemma read_path_intro : forall s p i c, stat s p = Ok i -> inode s i = Some (File c) -> read_path s p = Some c.
Proof. intros s p i c H1 H2. unfold read_path. now rewrite H1, H2. Qed.

(** the C18 statement for CopyFile, under every fault oracle *)
Lemma copy_file_f_safe : forall F s src dst i c s' r,
  wf s -> stat s src = Ok i -> inode s i = Some (File c) -> stat_fault_harmless F s dst i ->
  copy_file_f F s src dst = (s', r) ->
  (r = None -> read_path s' dst = Some c /\ stat s' dst <> Ok i)
  /\ read_path s' src = Some c
  /\ stat s' src = Ok i /\ inode s' i = Some (File c)
  /\ (forall j n, inode s j = Some n -> stat s dst <> Ok j -> inode s' j = Some n)
  /\ (forall e, slot s e <> Empty -> slot s' e = slot s e)
  /\ (forall d old, stat s dst = Ok d -> inode s d = Some (File old) ->
        inode s' d = Some (File old) \/ exists k, inode s' d = Some (File (firstn k c))).
Proof.
  intros F s src dst i c s' r Hwf Hs Hi HF H.
  pose proof (copy_file_spec _ _ _ _ _ _ _ _ Hwf Hs Hi HF H) as P.
  pose proof (copy_post_stat _ _ _ _ _ _ _ _ P Hs) as Hs'.
  pose proof (cp_source _ _ _ _ _ _ P) as Hi'.
  split; [|split; [|split; [|split; [|split; [|split]]]]]; auto.
  - intros Hr. destruct (cp_dest _ _ _ _ _ _ P Hr) as (d & Hd & Hst & Hc).
    split; [eapply read_path_intro; eassumption | congruence].
  - eapply read_path_intro; eassumption.
  - apply (cp_others _ _ _ _ _ _ P).
  - apply (cp_slots _ _ _ _ _ _ P).
  - apply (cp_dest_partial _ _ _ _ _ _ P).
Qed.

Lemma no_faults_harmless : forall s dst i, stat_fault_harmless no_faults s dst i.
Proof. intros. left. reflexivity. Qed.

(** corollary: no faults *)
Lemma copy_file_safe : forall s src dst i c s' r,
  wf s -> stat s src = Ok i -> inode s i = Some (File c) ->
  copy_file s src dst = (s', r) ->
  (r = None -> read_path s' dst = Some c /\ stat s' dst <> Ok i)
  /\ read_path s' src = Some c
  /\ stat s' src = Ok i /\ inode s' i = Some (File c)
  /\ (forall j n, inode s j = Some n -> stat s dst <> Ok j -> inode s' j = Some n)
  /\ (forall e, slot s e <> Empty -> slot s' e = slot s e).
Proof.
  intros s src dst i c s' r Hwf Hs Hi H.
  destruct (copy_file_f_safe no_faults _ _ _ _ _ _ _ Hwf Hs Hi (no_faults_harmless _ _ _) H)
    as (H1 & H2 & H3 & H4 & H5 & H6 & _).
  repeat split; auto; apply H1; assumption.
Qed.

Lemma copy_file_open_error : forall F s src dst e, stat s src = Err e -> exists e', copy_file_f F s src dst = (s, Some e').
Proof.
  intros F s src dst e H. unfold copy_file_f, open. rewrite H. destruct (F SOpen); cbn; eauto.
Qed.

(** * MoveFile *)

Lemma is_dir_slot_file : forall s i c, inode s i = Some (File c) -> is_dir_slot s (Link i) = false.
Proof. intros s i c H. cbn. now rewrite H. Qed.

(** a successful rename of a regular file: nothing happened between aliases, or the link moved *)
Lemma rename_ok : forall s src dst i c s1,
  slot s src = Link i -> inode s i = Some (File c) -> rename s src dst = Ok s1 ->
  (s1 = s /\ stat s dst = Ok i)
  \/ (slot s1 src = Empty /\ stat s1 dst = Ok i /\ inode s1 = inode s).
Proof.
  intros s src dst i c s1 Hs Hi. unfold rename.
  destruct (parent s src) as [d1| |] eqn:Hp1; destruct (parent s dst) as [d2| |] eqn:Hp2; try discriminate.
  rewrite Hs. destruct (negb (d1 =? d2)); [discriminate|].
  destruct (src =? dst) eqn:Esd.
  - apply N.eqb_eq in Esd. subst dst. intros H. injection H as <-. left. split; auto.
    eapply stat_intro with (e := src); eauto. unfold resolve. eapply follow_nonsym; eauto. rewrite Hs. exact I.
  - apply N.eqb_neq in Esd.
    assert (Moved : forall s2, s2 = set_slot (set_slot s dst (Link i)) src Empty ->
              slot s2 src = Empty /\ stat s2 dst = Ok i /\ inode s2 = inode s).
    { intros s2 ->. cbn [set_slot slot inode parent]. split; [apply upd_same|]. split; [|reflexivity].
      eapply stat_intro with (e := dst); cbn [slot inode set_slot]; eauto.
      - unfold resolve. eapply follow_nonsym; cbn [set_slot parent slot]; eauto.
        rewrite upd_other by congruence. rewrite upd_same. exact I.
      - rewrite upd_other by congruence. apply upd_same. }
    rewrite (is_dir_slot_file _ _ _ Hi).
    destruct (slot s dst) as [|j|e'] eqn:Hd.
    + cbn [is_dir_slot]. intros H. injection H as <-. right. now apply Moved.
    + destruct (i =? j) eqn:Eij.
      * apply N.eqb_eq in Eij. subst j. intros H. injection H as <-. left. split; auto.
        eapply stat_intro with (e := dst); eauto. unfold resolve. eapply follow_nonsym; eauto. rewrite Hd. exact I.
      * destruct (is_dir_slot s (Link j)); [discriminate|]. intros H. injection H as <-. right. now apply Moved.
    + cbn [is_dir_slot]. intros H. injection H as <-. right. now apply Moved.
Qed.

(** what the fallback's final Remove does after a successful copy *)
Lemma remove_after_copy : forall s1 src i c d,
  parent s1 src = POk d -> slot s1 src = Link i -> inode s1 i = Some (File c) ->
  remove s1 src = Ok (set_slot s1 src Empty).
Proof. intros s1 src i c d Hp Hs Hi. unfold remove. now rewrite Hp, Hs, (is_dir_slot_file _ _ _ Hi). Qed.

(** removing the source entry does not disturb a destination that is a different file *)
Lemma read_dst_after_remove : forall s1 src dst i c dd,
  slot s1 src = Link i -> dd <> i -> stat s1 dst = Ok dd -> inode s1 dd = Some (File c) ->
  read_path (set_slot s1 src Empty) dst = Some c.
Proof.
  intros s1 src dst i c dd Hs1 Hdd Hstd Hcd.
  apply stat_inv in Hstd as (e & He & Hl & _).
  assert (e <> src) by (intros ->; rewrite Hs1 in Hl; congruence).
  eapply read_path_intro with (i := dd); [|exact Hcd].
  eapply stat_intro with (e := e); cbn [set_slot slot inode]; [| rewrite upd_other by assumption; exact Hl | exact Hcd].
  unfold resolve in *. rewrite <- He. apply follow_ext; cbn [set_slot parent slot]; auto.
  intros x. destruct (N.eq_dec x src) as [-> | Hx].
  - right. rewrite upd_same, Hs1. split; exact I.
  - left. now apply upd_other.
Qed.

(** the C18 statement for MoveFile, under every fault oracle *)
Lemma move_file_f_safe : forall F s src dst i c s' r,
  wf s -> slot s src = Link i -> inode s i = Some (File c) -> stat_fault_harmless F s dst i ->
  move_file_f F s src dst = (s', r) ->
  (r = None ->
     read_path s' dst = Some c
     /\ (slot s' src = Empty \/ (stat s dst = Ok i /\ slot s' src = Link i /\ inode s' i = Some (File c))))
  /\ (r <> None -> slot s' src = Link i /\ inode s' i = Some (File c))
  /\ (forall j n, inode s j = Some n -> stat s dst <> Ok j -> inode s' j = Some n)
  /\ (slot s' src = Empty -> read_path s' dst = Some c).
Proof.
  intros F s src dst i c s' r Hwf Hs Hi HF. unfold move_file_f.
  destruct (faulty (F SRename) (rename s src dst)) as [s1|re] eqn:Hr.
  - apply faulty_ok in Hr. intros H. injection H as <- <-.
    destruct (rename_ok _ _ _ _ _ _ Hs Hi Hr) as [[-> Hst] | (Hempty & Hst & Hino)].
    + split; [|split; [|split]]; [| congruence | auto | intros E; rewrite Hs in E; discriminate].
      intros _. split; [eapply read_path_intro; eassumption | right; auto].
    + assert (Hrd : read_path s1 dst = Some c) by (eapply read_path_intro; [eassumption | now rewrite Hino]).
      split; [|split; [|split]]; [| congruence | intros j n Hj _; now rewrite Hino | auto].
      intros _. split; [assumption | left; assumption].
  - clear Hr. destruct (stat s src) as [i'|e] eqn:Hst.
    + destruct (stat_direct_link _ _ _ Hs _ Hst) as [-> [d Hpar]].
      destruct (copy_file_f F s src dst) as [s1 r1] eqn:Hc.
      pose proof (copy_file_spec _ _ _ _ _ _ _ _ Hwf Hst Hi HF Hc) as P.
      assert (Hs1 : slot s1 src = Link i) by (rewrite (cp_slots _ _ _ _ _ _ P); [assumption | congruence]).
      pose proof (cp_source _ _ _ _ _ _ P) as Hi1.
      assert (Hp1 : parent s1 src = POk d) by (rewrite (cp_parent _ _ _ _ _ _ P); assumption).
      destruct r1 as [e1|].
      * intros H. injection H as <- <-. split; [discriminate|]. split; [auto|]. split; [apply (cp_others _ _ _ _ _ _ P)|].
        intros E. rewrite Hs1 in E. discriminate.
      * destruct (cp_dest _ _ _ _ _ _ P eq_refl) as (dd & Hdd & Hstd & Hcd).
        rewrite (remove_after_copy _ _ _ _ _ Hp1 Hs1 Hi1).
        assert (Hrd : read_path (set_slot s1 src Empty) dst = Some c) by (eapply read_dst_after_remove; eassumption).
        destruct (F SRemove) as [|fe|k fe]; cbn [faulty]; intros H; injection H as <- <-.
        -- split; [|split; [|split]]; [| congruence | apply (cp_others _ _ _ _ _ _ P) | auto].
           intros _. split; [assumption | left; cbn [set_slot slot]; apply upd_same].
        -- split; [discriminate|]. split; [auto|]. split; [apply (cp_others _ _ _ _ _ _ P)|].
           intros E. rewrite Hs1 in E. discriminate.
        -- split; [discriminate|]. split; [auto|]. split; [apply (cp_others _ _ _ _ _ _ P)|].
           intros E. rewrite Hs1 in E. discriminate.
    + destruct (copy_file_open_error F _ src dst _ Hst) as [e' ->]. intros H. injection H as <- <-.
      split; [discriminate|]. split; [auto|]. split; [auto|]. intros E. rewrite Hs in E. discriminate.
Qed.

(** a failing final Remove: MoveFile returns that error, and both copies are there *)
Lemma move_file_remove_fails : forall F s src dst i c s1 e,
  wf s -> slot s src = Link i -> inode s i = Some (File c) -> stat_fault_harmless F s dst i ->
  (forall s0, faulty (F SRename) (rename s src dst) <> Ok s0) ->
  copy_file_f F s src dst = (s1, None) -> F SRemove = Fail e ->
  move_file_f F s src dst = (s1, Some e)
  /\ read_path s1 dst = Some c /\ read_path s1 src = Some c /\ slot s1 src = Link i /\ stat s1 dst <> Ok i.
Proof.
  intros F s src dst i c s1 e Hwf Hs Hi HF Hren Hc Hrm. unfold move_file_f.
  destruct (faulty (F SRename) (rename s src dst)) as [s0|re] eqn:Hr; [exfalso; eapply Hren; reflexivity|].
  rewrite Hc, Hrm. cbn [faulty].
  destruct (stat s src) as [i'|oe] eqn:Hst.
  - destruct (stat_direct_link _ _ _ Hs _ Hst) as [-> _].
    destruct (copy_file_f_safe _ _ _ _ _ _ _ _ Hwf Hst Hi HF Hc) as (H1 & H2 & H3 & H4 & H5 & H6 & _).
    destruct (H1 eq_refl). repeat split; auto. rewrite H6; [assumption | congruence].
  - destruct (copy_file_open_error F _ src dst _ Hst) as [e' He']. rewrite He' in Hc. discriminate.
Qed.

Lemma move_file_safe : forall s src dst i c s' r,
  wf s -> slot s src = Link i -> inode s i = Some (File c) ->
  move_file s src dst = (s', r) ->
  (r = None ->
     read_path s' dst = Some c
     /\ (slot s' src = Empty \/ (stat s dst = Ok i /\ slot s' src = Link i /\ inode s' i = Some (File c))))
  /\ (r <> None -> slot s' src = Link i /\ inode s' i = Some (File c))
  /\ (forall j n, inode s j = Some n -> stat s dst <> Ok j -> inode s' j = Some n).
Proof.
  intros s src dst i c s' r Hwf Hs Hi H.
  destruct (move_file_f_safe no_faults _ _ _ _ _ _ _ Hwf Hs Hi (no_faults_harmless _ _ _) H) as (H1 & H2 & H3 & _).
  auto.
Qed.

(** * the replace strategy (temporary file + rename over the destination name) *)

Lemma follow_mono : forall k s y e, follow k s y = Ok e -> forall n, (k <= n)%nat -> follow n s y = Ok e.
Proof.
  induction k as [|k IH]; intros s y e H n Hn.
  - cbn [follow] in H. destruct (parent s y) eqn:Hp; try discriminate.
    destruct (slot s y) eqn:Hs; try discriminate; injection H as <-;
      (eapply follow_nonsym; [exact Hp | rewrite Hs; exact I]).
  - destruct n as [|n]; [lia|]. cbn [follow] in *. destruct (parent s y); try discriminate.
    destruct (slot s y); auto. apply IH; [assumption | lia].
Qed.

(** when one entry [y] is replaced (and others change only between non-links), a path still resolves
    as before unless its resolution went through [y] *)
Lemma follow_change : forall s s' y,
  (forall z, parent s' z = parent s z) ->
  (forall z, z <> y -> slot s' z = slot s z \/ (nonsym (slot s z) /\ nonsym (slot s' z))) ->
  forall n x e, follow n s x = Ok e ->
  follow n s' x = Ok e \/ exists k, (k <= n)%nat /\ follow k s y = Ok e.
Proof.
  intros s s' y Hp Hs. induction n as [|n IH]; intros x e H.
  - destruct (N.eq_dec x y) as [-> | Hx]; [right; exists 0%nat; split; [lia | exact H]|].
    left. cbn [follow] in *. rewrite Hp. destruct (parent s x); try discriminate.
    destruct (Hs x Hx) as [E | [E1 E2]].
    + rewrite E. exact H.
    + destruct (slot s x), (slot s' x); cbn in E1, E2; try contradiction; exact H.
  - destruct (N.eq_dec x y) as [-> | Hx]; [right; exists (S n); split; [lia | exact H]|].
    cbn [follow] in *. rewrite Hp. destruct (parent s x); try discriminate.
    destruct (Hs x Hx) as [E | [E1 E2]].
    + rewrite E. destruct (slot s x) as [| |x'] eqn:Es; [left; exact H | left; exact H |].
      destruct (IH _ _ H) as [L | (k & Hk & R)]; [left; exact L | right; exists k; split; [lia | exact R]].
    + left. destruct (slot s x), (slot s' x); cbn in E1, E2; try contradiction; exact H.
Qed.

Lemma create_excl_inv : forall s t s1 d, create_excl s t = Ok (s1, d) ->
  slot s t = Empty /\ d = next s
  /\ s1 = mkFs (upd (slot s) t (Link d)) (upd (inode s) d (Some (File []))) (N.succ d) (parent s).
Proof.
  intros s t s1 d. unfold create_excl. destruct (parent s t); try discriminate.
  destruct (slot s t); try discriminate. intros H. injection H as <- <-. auto.
Qed.

Lemma cleanup_spec : forall F s t,
  (forall z, parent (cleanup F s t) z = parent s z)
  /\ inode (cleanup F s t) = inode s
  /\ (forall z, z <> t -> slot (cleanup F s t) z = slot s z)
  /\ (slot (cleanup F s t) t = slot s t \/ slot (cleanup F s t) t = Empty).
Proof.
  intros F s t. unfold cleanup. destruct (faulty (F STmpRemove) (remove s t)) as [s'|e] eqn:H; [|auto].
  apply faulty_ok in H. revert H. unfold remove. destruct (parent s t); try discriminate.
  destruct (slot s t) eqn:Hs; try discriminate;
    (destruct (is_dir_slot s _); [discriminate|]); intros H; injection H as <-; cbn [set_slot parent inode slot];
    (repeat split; auto; [intros z Hz; now apply upd_other | right; apply upd_same]).
Qed.

(** renaming the finished temporary file (a fresh regular file) over the destination name *)
Lemma rename_tmp_ok : forall s2 tmp dst d c s3,
  slot s2 tmp = Link d -> inode s2 d = Some (File c) -> tmp <> dst -> rename s2 tmp dst = Ok s3 ->
  slot s3 dst = Link d /\ inode s3 = inode s2 /\ (forall z, parent s3 z = parent s2 z)
  /\ (forall z, z <> dst -> z <> tmp -> slot s3 z = slot s2 z)
  /\ (slot s3 tmp = Empty \/ slot s3 tmp = Link d)
  /\ exists dd, parent s2 dst = POk dd.
Proof.
  intros s2 tmp dst d c s3 Ht Hd Hne. unfold rename.
  destruct (parent s2 tmp) as [d1| |] eqn:Hp1; destruct (parent s2 dst) as [d2| |] eqn:Hp2; try discriminate.
  rewrite Ht. destruct (negb (d1 =? d2)); [discriminate|].
  apply N.eqb_neq in Hne. rewrite Hne. apply N.eqb_neq in Hne.
  assert (Moved : forall s', s' = set_slot (set_slot s2 dst (Link d)) tmp Empty ->
     slot s' dst = Link d /\ inode s' = inode s2 /\ (forall z, parent s' z = parent s2 z)
     /\ (forall z, z <> dst -> z <> tmp -> slot s' z = slot s2 z)
     /\ (slot s' tmp = Empty \/ slot s' tmp = Link d)).
  { intros s' ->. cbn [set_slot slot inode parent]. repeat split; eauto.
    - rewrite upd_other by congruence. apply upd_same.
    - intros z H1 H2. rewrite !upd_other by assumption. reflexivity.
    - left. apply upd_same. }
  assert (Fin : forall s', s' = set_slot (set_slot s2 dst (Link d)) tmp Empty ->
     slot s' dst = Link d /\ inode s' = inode s2 /\ (forall z, parent s' z = parent s2 z)
     /\ (forall z, z <> dst -> z <> tmp -> slot s' z = slot s2 z)
     /\ (slot s' tmp = Empty \/ slot s' tmp = Link d) /\ exists dd, POk d2 = POk dd).
  { intros s' E. destruct (Moved s' E) as (M1 & M2 & M3 & M4 & M5). repeat split; eauto. }
  rewrite (is_dir_slot_file _ _ _ Hd).
  destruct (slot s2 dst) as [|j|e'] eqn:Hdst.
  - cbn [is_dir_slot]. intros H. injection H as <-. now apply Fin.
  - destruct (d =? j) eqn:Edj.
    + apply N.eqb_eq in Edj. subst j. intros H. injection H as <-. repeat split; eauto.
    + destruct (is_dir_slot s2 (Link j)); [discriminate|]. intros H. injection H as <-. now apply Fin.
  - cbn [is_dir_slot]. intros H. injection H as <-. now apply Fin.
Qed.

Record replace_post (s : fs) (i : N) (c : list N) (dst tmp : N) (s' : fs) (r : option err) : Prop := {
  rp_parent : forall x, parent s' x = parent s x;
  (* every file that existed — the old destination included — is untouched *)
  rp_inodes : forall j n, inode s j = Some n -> inode s' j = Some n;
  rp_slots : forall e, e <> dst -> e <> tmp -> slot s' e = slot s e;
  (* the temporary name: as before, or it was free and now holds nothing or the (left-behind) temporary file *)
  rp_tmp : slot s' tmp = slot s tmp \/ (slot s tmp = Empty /\ nonsym (slot s' tmp));
  rp_err : r <> None -> slot s' dst = slot s dst;
  rp_ok : r = None -> exists d dd, d <> i /\ slot s' dst = Link d /\ inode s' d = Some (File c) /\ parent s dst = POk dd;
  rp_src : s' = s \/ stat s dst <> Ok i
}.

Lemma replace_post_refl : forall s i c dst tmp e, replace_post s i c dst tmp s (Some e).
Proof. intros. constructor; auto; discriminate. Qed.

Lemma replace_tail_spec : forall F s i c dst tmp s' r,
  wf s -> inode s i = Some (File c) -> stat s dst <> Ok i -> tmp <> dst ->
  replace_tail F s i dst tmp = (s', r) -> replace_post s i c dst tmp s' r.
Proof.
  intros F s i c dst tmp s' r Hwf Hi Hne Htd. unfold replace_tail.
  destruct (faulty (F SCreate) (create_excl s tmp)) as [[s1 d]|ce] eqn:Hcr;
    [|intros H; injection H as <- <-; apply replace_post_refl].
  apply faulty_ok, create_excl_inv in Hcr. destruct Hcr as (Hte & -> & ->).
  set (d := next s) in *.
  assert (Hid : i <> d) by (intros ->; unfold d in Hi; rewrite (Hwf (next s)) in Hi by lia; discriminate).
  assert (Hold : forall j n, inode s j = Some n -> j <> d).
  { intros j n Hj ->. unfold d in Hj. rewrite (Hwf (next s)) in Hj by lia. discriminate. }
  (* any state that only differs by the temporary entry and the new inode, cleaned up or not *)
  assert (Failed : forall s2 e,
            (forall x, parent s2 x = parent s x) ->
            (forall j n, inode s j = Some n -> inode s2 j = Some n) ->
            (forall z, slot s2 z = upd (slot s) tmp (Link d) z) ->
            replace_post s i c dst tmp (cleanup F s2 tmp) (Some e)).
  { intros s2 e H2p H2i H2s. destruct (cleanup_spec F s2 tmp) as (C1 & C2 & C3 & C4).
    constructor; auto; try discriminate.
    - intros x. now rewrite C1.
    - intros j n Hj. rewrite C2. eauto.
    - intros z Hz1 Hz2. rewrite C3, H2s by assumption. now apply upd_other.
    - right. split; [assumption|]. destruct C4 as [C4 | C4]; rewrite C4; [rewrite H2s, upd_same|]; exact I.
    - intros _. rewrite C3, H2s by congruence. apply upd_other. congruence. }
  unfold io_copy. cbn [inode]. rewrite upd_other by assumption. rewrite Hi, upd_same.
  destruct (F SCopy) as [|fe|k fe].
  - (* all bytes written: rename the temporary file over the destination name *)
    rewrite write_at0_nil.
    set (s2 := set_inode _ d (File c)).
    assert (H2t : slot s2 tmp = Link d) by (cbn [s2 set_inode slot]; apply upd_same).
    assert (H2d : inode s2 d = Some (File c)) by (cbn [s2 set_inode inode]; apply upd_same).
    assert (H2i : forall j n, inode s j = Some n -> inode s2 j = Some n).
    { intros j n Hj. cbn [s2 set_inode inode]. rewrite !upd_other by (eapply Hold; eassumption). exact Hj. }
    destruct (faulty (F STmpRename) (rename s2 tmp dst)) as [s3|re] eqn:Hr.
    + apply faulty_ok in Hr. intros H. injection H as <- <-.
      destruct (rename_tmp_ok _ _ _ _ _ _ H2t H2d Htd Hr) as (R1 & R2 & R3 & R4 & R5 & dd & R6).
      constructor; auto; try congruence.
      * intros j n Hj. rewrite R2. eauto.
      * intros z Hz1 Hz2. rewrite R4 by assumption. cbn [s2 set_inode slot]. now apply upd_other.
      * right. split; [assumption|]. destruct R5 as [R5 | R5]; rewrite R5; exact I.
      * intros _. exists d, dd. repeat split; auto. rewrite R2. exact H2d.
    + intros H. injection H as <- <-. apply Failed; auto.
  - intros H. injection H as <- <-. apply Failed; auto.
    intros j n Hj. cbn [inode]. rewrite upd_other by (eapply Hold; eassumption). exact Hj.
  - intros H. injection H as <- <-. apply Failed; auto.
    intros j n Hj. cbn [set_inode inode]. rewrite !upd_other by (eapply Hold; eassumption). exact Hj.
Qed.

Lemma copy_replace_spec : forall F s src dst tmp i c s' r,
  wf s -> stat s src = Ok i -> inode s i = Some (File c) -> stat_fault_harmless F s dst i -> tmp <> dst ->
  copy_replace_f F s src dst tmp = (s', r) -> replace_post s i c dst tmp s' r.
Proof.
  intros F s src dst tmp i c s' r Hwf Hs Hi HF Htd. unfold copy_replace_f, open.
  destruct (faulty (F SOpen) (stat s src)) as [si|oe] eqn:Ho;
    [|intros H; injection H as <- <-; apply replace_post_refl].
  apply faulty_ok in Ho. assert (si = i) by congruence. subst si.
  destruct (F SFstat); try (intros H; injection H as <- <-; apply replace_post_refl).
  destruct (faulty (F SStatDst) (stat s dst)) as [di|de] eqn:Ed.
  - apply faulty_ok in Ed. destruct (i =? di) eqn:E.
    + intros H. injection H as <- <-. apply replace_post_refl.
    + apply N.eqb_neq in E. apply replace_tail_spec; auto. congruence.
  - apply replace_tail_spec; auto. apply faulty_err in Ed as [Ed | Ed].
    + rewrite Ed. discriminate.
    + destruct HF as [HF | HF]; [contradiction | assumption].
Qed.

Lemma copy_replace_open_error : forall F s src dst tmp e, stat s src = Err e ->
  exists e', copy_replace_f F s src dst tmp = (s, Some e').
Proof.
  intros F s src dst tmp e H. unfold copy_replace_f, open. rewrite H. destruct (F SOpen); cbn; eauto.
Qed.

(** the source is found as before: its resolution cannot have gone through the replaced entry *)
Lemma replace_post_src : forall s i c dst tmp s' r src,
  replace_post s i c dst tmp s' r -> stat s src = Ok i -> inode s i = Some (File c) ->
  stat s' src = Ok i /\ (forall e, resolve s src = Ok e -> slot s' e = Link i).
Proof.
  intros s i c dst tmp s' r src P Hs Hi.
  destruct (rp_src _ _ _ _ _ _ _ P) as [-> | Hne].
  { split; [assumption|]. intros e He. apply stat_inv in Hs as (e0 & He0 & Hl & _). congruence. }
  apply stat_inv in Hs as (es & He & Hl & _).
  assert (Hi' : inode s' i = Some (File c)) by (apply (rp_inodes _ _ _ _ _ _ _ P); assumption).
  assert (Hes : es <> dst).
  { intros ->. apply Hne. destruct (follow_final _ _ _ _ He) as [_ [dd Hp]].
    eapply stat_intro with (e := dst); [| exact Hl | exact Hi].
    unfold resolve. eapply follow_nonsym; [exact Hp | rewrite Hl; exact I]. }
  assert (Hsl : slot s' es = Link i).
  { destruct (N.eq_dec es tmp) as [-> | Het].
    - destruct (rp_tmp _ _ _ _ _ _ _ P) as [E | [E _]]; congruence.
    - rewrite (rp_slots _ _ _ _ _ _ _ P); assumption. }
  assert (Hres : resolve s' src = Ok es).
  { unfold resolve in *.
    destruct (follow_change s s' dst (rp_parent _ _ _ _ _ _ _ P)) with (n := max_links) (x := src) (e := es) as [L | (k & Hk & R)]; auto.
    - intros z Hz. destruct (N.eq_dec z tmp) as [-> | Hzt].
      + destruct (rp_tmp _ _ _ _ _ _ _ P) as [E | [E1 E2]]; [left; assumption | right; rewrite E1; split; [exact I | assumption]].
      + left. apply (rp_slots _ _ _ _ _ _ _ P); assumption.
    - exfalso. apply Hne. eapply stat_intro with (e := es); [| exact Hl | exact Hi].
      unfold resolve. eapply follow_mono; eassumption. }
  split.
  - eapply stat_intro; eassumption.
  - intros e He'. assert (e = es) by congruence. subst. assumption.
Qed.

(** the C18 statement for CopyFile with the replace strategy, under every fault oracle *)
Lemma copy_replace_f_safe : forall F s src dst tmp i c s' r,
  wf s -> stat s src = Ok i -> inode s i = Some (File c) -> stat_fault_harmless F s dst i -> tmp <> dst ->
  copy_replace_f F s src dst tmp = (s', r) ->
  (r = None -> read_path s' dst = Some c /\ stat s' dst <> Ok i)
  /\ read_path s' src = Some c
  /\ stat s' src = Ok i /\ inode s' i = Some (File c)
  /\ (forall j n, inode s j = Some n -> inode s' j = Some n)
  /\ (forall e, e <> dst -> e <> tmp -> slot s' e = slot s e)
  /\ (r <> None -> slot s' dst = slot s dst).
Proof.
  intros F s src dst tmp i c s' r Hwf Hs Hi HF Htd H.
  pose proof (copy_replace_spec _ _ _ _ _ _ _ _ _ Hwf Hs Hi HF Htd H) as P.
  destruct (replace_post_src _ _ _ _ _ _ _ _ P Hs Hi) as [Hs' _].
  pose proof (rp_inodes _ _ _ _ _ _ _ P _ _ Hi) as Hi'.
  split; [|split; [|split; [|split; [|split; [|split]]]]]; auto.
  - intros Hr. destruct (rp_ok _ _ _ _ _ _ _ P Hr) as (d & dd & Hd & Hsl & Hc & Hp).
    assert (Hst : stat s' dst = Ok d).
    { eapply stat_intro with (e := dst); [| exact Hsl | exact Hc].
      unfold resolve. eapply follow_nonsym; [rewrite (rp_parent _ _ _ _ _ _ _ P); exact Hp | rewrite Hsl; exact I]. }
    split; [eapply read_path_intro; eassumption | congruence].
  - eapply read_path_intro; eassumption.
  - apply (rp_inodes _ _ _ _ _ _ _ P).
  - apply (rp_slots _ _ _ _ _ _ _ P).
  - apply (rp_err _ _ _ _ _ _ _ P).
Qed.

(** the C18 statement for MoveFile on top of the replace strategy, under every fault oracle *)
Lemma move_replace_f_safe : forall F s src dst tmp i c s' r,
  wf s -> slot s src = Link i -> inode s i = Some (File c) -> stat_fault_harmless F s dst i -> tmp <> dst ->
  move_replace_f F s src dst tmp = (s', r) ->
  (r = None ->
     read_path s' dst = Some c
     /\ (slot s' src = Empty \/ (stat s dst = Ok i /\ slot s' src = Link i /\ inode s' i = Some (File c))))
  /\ (r <> None -> slot s' src = Link i /\ inode s' i = Some (File c))
  /\ (forall j n, inode s j = Some n -> stat s dst <> Ok j -> inode s' j = Some n)
  /\ (slot s' src = Empty -> read_path s' dst = Some c).
Proof.
  intros F s src dst tmp i c s' r Hwf Hs Hi HF Htd. unfold move_replace_f.
  destruct (faulty (F SRename) (rename s src dst)) as [s1|re] eqn:Hr.
  - apply faulty_ok in Hr. intros H. injection H as <- <-.
    destruct (rename_ok _ _ _ _ _ _ Hs Hi Hr) as [[-> Hst] | (Hempty & Hst & Hino)].
    + split; [|split; [|split]]; [| congruence | auto | intros E; rewrite Hs in E; discriminate].
      intros _. split; [eapply read_path_intro; eassumption | right; auto].
    + assert (Hrd : read_path s1 dst = Some c) by (eapply read_path_intro; [eassumption | now rewrite Hino]).
      split; [|split; [|split]]; [| congruence | intros j n Hj _; now rewrite Hino | auto].
      intros _. split; [assumption | left; assumption].
  - clear Hr. destruct (stat s src) as [i'|e] eqn:Hst.
    + destruct (stat_direct_link _ _ _ Hs _ Hst) as [-> [d Hpar]].
      destruct (copy_replace_f F s src dst tmp) as [s1 r1] eqn:Hc.
      pose proof (copy_replace_spec _ _ _ _ _ _ _ _ _ Hwf Hst Hi HF Htd Hc) as P.
      assert (Hres : resolve s src = Ok src).
      { unfold resolve. eapply follow_nonsym; [exact Hpar | rewrite Hs; exact I]. }
      destruct (replace_post_src _ _ _ _ _ _ _ _ P Hst Hi) as [_ Hsl]. specialize (Hsl _ Hres).
      pose proof (rp_inodes _ _ _ _ _ _ _ P _ _ Hi) as Hi1.
      assert (Hp1 : parent s1 src = POk d) by (rewrite (rp_parent _ _ _ _ _ _ _ P); assumption).
      assert (Hoth : forall j n, inode s j = Some n -> stat s dst <> Ok j -> inode s1 j = Some n)
        by (intros j n Hj _; apply (rp_inodes _ _ _ _ _ _ _ P); assumption).
      destruct r1 as [e1|].
      * intros H. injection H as <- <-. split; [discriminate|]. split; [auto|]. split; [exact Hoth|].
        intros E. rewrite Hsl in E. discriminate.
      * destruct (rp_ok _ _ _ _ _ _ _ P eq_refl) as (dd & pd & Hdd & Hsd & Hcd & Hpd).
        assert (Hsrcdst : src <> dst) by (intros ->; rewrite Hsl in Hsd; congruence).
        rewrite (remove_after_copy _ _ _ _ _ Hp1 Hsl Hi1).
        assert (Hrd : read_path (set_slot s1 src Empty) dst = Some c).
        { eapply read_path_intro with (i := dd); [|exact Hcd].
          eapply stat_intro with (e := dst); cbn [set_slot slot inode]; [| rewrite upd_other by congruence; exact Hsd | exact Hcd].
          unfold resolve. eapply follow_nonsym; cbn [set_slot parent slot].
          - rewrite (rp_parent _ _ _ _ _ _ _ P). exact Hpd.
          - rewrite upd_other by congruence. rewrite Hsd. exact I. }
        destruct (F SRemove) as [|fe|k fe]; cbn [faulty]; intros H; injection H as <- <-.
        -- split; [|split; [|split]]; [| congruence | exact Hoth | auto].
           intros _. split; [assumption | left; cbn [set_slot slot]; apply upd_same].
        -- split; [discriminate|]. split; [auto|]. split; [exact Hoth|].
           intros E. rewrite Hsl in E. discriminate.
        -- split; [discriminate|]. split; [auto|]. split; [exact Hoth|].
           intros E. rewrite Hsl in E. discriminate.
    + destruct (copy_replace_open_error F _ src dst tmp _ Hst) as [e' ->]. intros H. injection H as <- <-.
      split; [discriminate|]. split; [auto|]. split; [auto|]. intros E. rewrite Hs in E. discriminate.
Qed.

(** * the no-op alias policy *)

Lemma alias_noop_cases : forall F s src dst k,
  alias_noop F s src dst k = k
  \/ (alias_noop F s src dst k = (s, None) /\ exists a, stat s src = Ok a /\ stat s dst = Ok a).
Proof.
  intros F s src dst k. unfold alias_noop, open.
  destruct (faulty (F SOpen) (stat s src)) as [si|] eqn:Ho; [|auto].
  destruct (F SFstat); auto.
  destruct (faulty (F SStatDst) (stat s dst)) as [di|] eqn:Hd; [|auto].
  destruct (si =? di) eqn:E; [|auto].
  right. split; [reflexivity|]. apply N.eqb_eq in E. subst di.
  apply faulty_ok in Ho, Hd. eauto.
Qed.

Lemma alias_noop_skip : forall F s src dst i k,
  stat s src = Ok i -> stat s dst <> Ok i -> alias_noop F s src dst k = k.
Proof.
  intros F s src dst i k Hs Hne. destruct (alias_noop_cases F s src dst k) as [E | [_ (a & Ha & Hb)]]; [assumption|].
  exfalso. apply Hne. congruence.
Qed.

(** CopyFile (write-through) with the no-op policy: as C18_copy_faults, except that a nil result on an
    alias means "nothing touched, the destination is the source" instead of "a different file" *)
Lemma copy_file_n_safe : forall F s src dst i c s' r,
  wf s -> stat s src = Ok i -> inode s i = Some (File c) -> stat_fault_harmless F s dst i ->
  copy_file_n F s src dst = (s', r) ->
  (r = None -> read_path s' dst = Some c /\ (stat s' dst <> Ok i \/ (s' = s /\ stat s dst = Ok i)))
  /\ read_path s' src = Some c
  /\ stat s' src = Ok i /\ inode s' i = Some (File c)
  /\ (forall j n, inode s j = Some n -> stat s dst <> Ok j -> inode s' j = Some n)
  /\ (forall e, slot s e <> Empty -> slot s' e = slot s e)
  /\ (forall d old, stat s dst = Ok d -> inode s d = Some (File old) ->
        inode s' d = Some (File old) \/ exists k, inode s' d = Some (File (firstn k c))).
Proof.
  intros F s src dst i c s' r Hwf Hs Hi HF. unfold copy_file_n.
  destruct (alias_noop_cases F s src dst (copy_file_f F s src dst)) as [E | [E (a & Ha & Hb)]]; rewrite E.
  - intros H. destruct (copy_file_f_safe _ _ _ _ _ _ _ _ Hwf Hs Hi HF H) as (H1 & H2 & H3 & H4 & H5 & H6 & H7).
    split; [intros Hr; destruct (H1 Hr); auto | auto 10].
  - intros H. injection H as <- <-. assert (a = i) by congruence. subst a.
    assert (Hrd : forall p, stat s p = Ok i -> read_path s p = Some c) by (intros p Hp; eapply read_path_intro; eassumption).
    split; [intros _; auto | auto 10].
Qed.

Lemma copy_replace_n_safe : forall F s src dst tmp i c s' r,
  wf s -> stat s src = Ok i -> inode s i = Some (File c) -> stat_fault_harmless F s dst i -> tmp <> dst ->
  copy_replace_n F s src dst tmp = (s', r) ->
  (r = None -> read_path s' dst = Some c /\ (stat s' dst <> Ok i \/ (s' = s /\ stat s dst = Ok i)))
  /\ read_path s' src = Some c
  /\ stat s' src = Ok i /\ inode s' i = Some (File c)
  /\ (forall j n, inode s j = Some n -> inode s' j = Some n)
  /\ (forall e, e <> dst -> e <> tmp -> slot s' e = slot s e)
  /\ (r <> None -> slot s' dst = slot s dst).
Proof.
  intros F s src dst tmp i c s' r Hwf Hs Hi HF Htd. unfold copy_replace_n.
  destruct (alias_noop_cases F s src dst (copy_replace_f F s src dst tmp)) as [E | [E (a & Ha & Hb)]]; rewrite E.
  - intros H. destruct (copy_replace_f_safe _ _ _ _ _ _ _ _ _ Hwf Hs Hi HF Htd H) as (H1 & H2 & H3 & H4 & H5 & H6 & H7).
    split; [intros Hr; destruct (H1 Hr); auto | auto 10].
  - intros H. injection H as <- <-. assert (a = i) by congruence. subst a.
    assert (Hrd : forall p, stat s p = Ok i -> read_path s p = Some c) by (intros p Hp; eapply read_path_intro; eassumption).
    split; [intros _; auto | ]. split; [auto|]. split; [auto|]. split; [auto|]. split; [auto|]. split; [auto|]. congruence.
Qed.

(** MoveFile's own alias test may be skipped by a fault only where it does not matter *)
Definition move_alias_harmless (F : faults) (s : fs) (dst i : N) : Prop :=
  F SMoveAlias = Pass \/ stat s dst <> Ok i.

Lemma alias_check_false : forall F s src dst i,
  stat s src = Ok i -> move_alias_harmless F s dst i -> alias_check F s src dst = false -> stat s dst <> Ok i.
Proof.
  intros F s src dst i Hs [HP | Hne] H; [|assumption]. unfold alias_check in H. rewrite HP in H. cbn [faulty] in H.
  rewrite Hs in H. destruct (stat s dst) as [b|]; [|discriminate]. apply N.eqb_neq in H. congruence.
Qed.

(** with the alias test answering "no" and the destination indeed no alias, the fallback is the one of
    the refusing variant *)
Lemma move_n_file_eq : forall F s src dst i,
  stat s src = Ok i -> stat s dst <> Ok i -> alias_check F s src dst = false ->
  move_file_n F s src dst = move_file_f F s src dst.
Proof.
  intros F s src dst i Hs Hne Hc. unfold move_file_n, move_n, move_file_f, copy_file_n.
  rewrite Hc, (alias_noop_skip _ _ _ _ _ _ Hs Hne). reflexivity.
Qed.

Lemma move_n_replace_eq : forall F s src dst tmp i,
  stat s src = Ok i -> stat s dst <> Ok i -> alias_check F s src dst = false ->
  move_replace_n F s src dst tmp = move_replace_f F s src dst tmp.
Proof.
  intros F s src dst tmp i Hs Hne Hc. unfold move_replace_n, move_n, move_replace_f, copy_replace_n.
  rewrite Hc, (alias_noop_skip _ _ _ _ _ _ Hs Hne). reflexivity.
Qed.

Definition move_statement (s : fs) (src dst i : N) (c : list N) (s' : fs) (r : option err) : Prop :=
  (r = None ->
     read_path s' dst = Some c
     /\ (slot s' src = Empty \/ (stat s dst = Ok i /\ slot s' src = Link i /\ inode s' i = Some (File c))))
  /\ (r <> None -> slot s' src = Link i /\ inode s' i = Some (File c))
  /\ (forall j n, inode s j = Some n -> stat s dst <> Ok j -> inode s' j = Some n)
  /\ (slot s' src = Empty -> read_path s' dst = Some c).

(** the generic argument: rename succeeded / alias refused / source cannot be opened / the refusing variant *)
Lemma move_n_safe : forall (mv mvf : faults -> fs -> N -> N -> fs * option err) copy F s src dst i c s' r,
  (forall F s src dst, mv F s src dst = move_n (copy F s src dst) F s src dst) ->
  (forall F s src dst e, stat s src = Err e -> exists e', copy F s src dst = (s, Some e')) ->
  (forall i, stat s src = Ok i -> stat s dst <> Ok i -> alias_check F s src dst = false -> mv F s src dst = mvf F s src dst) ->
  (forall s' r, mvf F s src dst = (s', r) -> move_statement s src dst i c s' r) ->
  slot s src = Link i -> inode s i = Some (File c) -> move_alias_harmless F s dst i ->
  mv F s src dst = (s', r) -> move_statement s src dst i c s' r.
Proof.
  intros mv mvf copy F s src dst i c s' r Hdef Hopen Heq Hf Hs Hi HA H.
  destruct (faulty (F SRename) (rename s src dst)) as [s1|re] eqn:Hr.
  - rewrite Hdef in H. unfold move_n in H. rewrite Hr in H. injection H as <- <-.
    apply faulty_ok in Hr.
    destruct (rename_ok _ _ _ _ _ _ Hs Hi Hr) as [[-> Hst] | (Hempty & Hst & Hino)]; unfold move_statement.
    + split; [|split; [|split]]; [| congruence | auto | intros E; rewrite Hs in E; discriminate].
      intros _. split; [eapply read_path_intro; eassumption | right; auto].
    + assert (Hrd : read_path s1 dst = Some c) by (eapply read_path_intro; [eassumption | now rewrite Hino]).
      split; [|split; [|split]]; [| congruence | intros j n Hj _; now rewrite Hino | auto].
      intros _. split; [assumption | left; assumption].
  - destruct (alias_check F s src dst) eqn:Hc.
    + rewrite Hdef in H. unfold move_n in H. rewrite Hr, Hc in H. injection H as <- <-. unfold move_statement.
      split; [discriminate|]. split; [auto|]. split; [auto|]. intros E. rewrite Hs in E. discriminate.
    + destruct (stat s src) as [i'|e] eqn:Hst.
      * destruct (stat_direct_link _ _ _ Hs _ Hst) as [-> _].
        pose proof (alias_check_false _ _ _ _ _ Hst HA Hc) as Hne.
        rewrite (Heq _ eq_refl Hne eq_refl) in H. apply Hf. exact H.
      * rewrite Hdef in H. unfold move_n in H. rewrite Hr, Hc in H.
        destruct (Hopen F s src dst _ Hst) as [e' He']. rewrite He' in H. injection H as <- <-. unfold move_statement.
        split; [discriminate|]. split; [auto|]. split; [auto|]. intros E. rewrite Hs in E. discriminate.
Qed.

Lemma copy_file_n_open_error : forall F s src dst e, stat s src = Err e -> exists e', copy_file_n F s src dst = (s, Some e').
Proof.
  intros F s src dst e H. unfold copy_file_n.
  destruct (alias_noop_cases F s src dst (copy_file_f F s src dst)) as [E | [_ (a & Ha & _)]]; [|congruence].
  rewrite E. eapply copy_file_open_error; eassumption.
Qed.

Lemma copy_replace_n_open_error : forall F s src dst tmp e, stat s src = Err e ->
  exists e', copy_replace_n F s src dst tmp = (s, Some e').
Proof.
  intros F s src dst tmp e H. unfold copy_replace_n.
  destruct (alias_noop_cases F s src dst (copy_replace_f F s src dst tmp)) as [E | [_ (a & Ha & _)]]; [|congruence].
  rewrite E. eapply copy_replace_open_error; eassumption.
Qed.

Lemma move_file_n_safe : forall F s src dst i c s' r,
  wf s -> slot s src = Link i -> inode s i = Some (File c) ->
  stat_fault_harmless F s dst i -> move_alias_harmless F s dst i ->
  move_file_n F s src dst = (s', r) -> move_statement s src dst i c s' r.
Proof.
  intros F s src dst i c s' r Hwf Hs Hi HF HA H.
  eapply (move_n_safe move_file_n move_file_f copy_file_n); eauto.
  - intros. eapply copy_file_n_open_error; eassumption.
  - intros i0 H1 H2 H3. eapply move_n_file_eq; eassumption.
  - intros s0 r0 H0. exact (move_file_f_safe _ _ _ _ _ _ _ _ Hwf Hs Hi HF H0).
Qed.

Lemma move_replace_n_safe : forall F s src dst tmp i c s' r,
  wf s -> slot s src = Link i -> inode s i = Some (File c) ->
  stat_fault_harmless F s dst i -> move_alias_harmless F s dst i -> tmp <> dst ->
  move_replace_n F s src dst tmp = (s', r) -> move_statement s src dst i c s' r.
Proof.
  intros F s src dst tmp i c s' r Hwf Hs Hi HF HA Htd H.
  eapply (move_n_safe (fun F s a b => move_replace_n F s a b tmp) (fun F s a b => move_replace_f F s a b tmp)
            (fun F s a b => copy_replace_n F s a b tmp)); eauto.
  - intros. eapply copy_replace_n_open_error; eassumption.
  - intros i0 H1 H2 H3. eapply move_n_replace_eq; eassumption.
  - intros s0 r0 H0. exact (move_replace_f_safe _ _ _ _ _ _ _ _ _ Hwf Hs Hi HF Htd H0).
Qed.

(** the test in MoveFile is needed: a no-op CopyFile under the unchanged MoveFile loses the file when the
    destination is a symbolic link to the source on another device *)
Definition move_unchecked_n (F : faults) (s : fs) (src dst : N) : fs * option err :=
  match faulty (F SRename) (rename s src dst) with
  | Ok s1 => (s1, None)
  | Err _ =>
      match copy_file_n F s src dst with
      | (s1, Some e) => (s1, Some e)
      | (s1, None) => match faulty (F SRemove) (remove s1 src) with Ok s2 => (s2, None) | Err e => (s1, Some e) end
      end
  end.

(** * the defect of the earlier CopyFile (no same-file test) *)

Definition self_fs : fs :=
  mkFs (fun e => if e =? 0 then Link 0 else Empty)
       (fun i => if i =? 0 then Some (File [1; 2; 3]) else None)
       1
       (fun _ => POk 0).

Lemma self_fs_wf : wf self_fs.
Proof.
  intros j H. cbn [self_fs inode next] in *. destruct (j =? 0) eqn:E; [|reflexivity].
  apply N.eqb_eq in E. subst. lia.
Qed.

Lemma copy_old_loses_content :
  exists s src dst i c,
    wf s /\ stat s src = Ok i /\ inode s i = Some (File c) /\ c <> []
    /\ snd (copy_file_old s src dst) = None
    /\ read_path (fst (copy_file_old s src dst)) src = Some [].
Proof.
  exists self_fs, 0, 0, 0, [1; 2; 3].
  split; [exact self_fs_wf|]. repeat split; try (vm_compute; reflexivity). discriminate.
Qed.

(** * the fault the present code does not survive: os.Stat(dest) failing spuriously on an alias *)

Definition stat_fault : faults := fun st => match st with SStatDst => Fail EIO | _ => Pass end.

Lemma copy_stat_fault_on_alias_loses :
  exists F s src dst i c,
    wf s /\ stat s src = Ok i /\ inode s i = Some (File c) /\ c <> []
    /\ (forall st, st <> SStatDst -> F st = Pass) /\ stat s dst = Ok i
    /\ snd (copy_file_f F s src dst) = None
    /\ read_path (fst (copy_file_f F s src dst)) src = Some [].
Proof.
  exists stat_fault, self_fs, 0, 0, 0, [1; 2; 3].
  split; [exact self_fs_wf|]. repeat split; try (vm_compute; reflexivity); try discriminate.
  intros st Hst. destruct st; try reflexivity. contradiction.
Qed.

(** * the replayed scenarios are instances of the theorems *)

Lemma scenario_wf : forall k od sm c, wf (scenario k od sm c).
Proof.
  intros k od sm c j H. cbn [scenario inode next] in *.
  destruct (j =? 0) eqn:E0; [apply N.eqb_eq in E0; lia|].
  destruct (j =? 1) eqn:E1; [apply N.eqb_eq in E1; lia|].
  destruct (j =? 2) eqn:E2; [apply N.eqb_eq in E2; lia|]. reflexivity.
Qed.

Lemma scenario_source : forall k od c,
  slot (scenario k od false c) src_path = Link 0 /\ stat (scenario k od false c) src_path = Ok 0
  /\ inode (scenario k od false c) 0 = Some (File c).
Proof. intros k od c. repeat split. Qed.

Lemma scenario_faults_harmless : forall b k s dst i, stat_fault_harmless (scenario_faults b k) s dst i.
Proof. intros b k s dst i. left. destruct k; reflexivity. Qed.

Lemma scenario_tmp : forall k od c,
  tmp_path <> dst_path k /\ slot (scenario k od false c) tmp_path = Empty
  /\ parent (scenario k od false c) tmp_path = parent (scenario k od false c) (dst_path k).
Proof. intros k od c. destruct k; repeat split; discriminate. Qed.

Lemma move_unchecked_noop_loses :
  exists s src dst i c,
    wf s /\ slot s src = Link i /\ inode s i = Some (File c) /\ c <> []
    /\ snd (move_unchecked_n no_faults s src dst) = None
    /\ slot (fst (move_unchecked_n no_faults s src dst)) src = Empty
    /\ read_path (fst (move_unchecked_n no_faults s src dst)) dst = None.
Proof.
  exists (scenario KSymlinkToSrc true false [1; 2; 3]), 0, 1, 0, [1; 2; 3].
  split; [apply scenario_wf|]. repeat split; try (vm_compute; reflexivity). discriminate.
Qed.
