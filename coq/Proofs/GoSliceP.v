(** Lemmas about Lib/GoSlice: what an append can and cannot change. *)
From Coq Require Import List NArith Arith Bool Lia.
Import ListNotations.
From Glb Require Import Lib.GoSlice.

Lemma set_nth_length : forall A n (x : A) l, length (set_nth n x l) = length l.
Proof. intros A n x l; revert n; induction l; intros [|n]; simpl; auto. Qed.

Lemma nth_set_nth_eq : forall A n (x d : A) l, n < length l -> nth n (set_nth n x l) d = x.
Proof. intros A n x d l; revert n; induction l; intros [|n] Hn; simpl in *; try lia; auto. apply IHl; lia. Qed.

Lemma nth_set_nth_neq : forall A n m (x d : A) l, n <> m -> nth m (set_nth n x l) d = nth m l d.
Proof.
  intros A n m x d l; revert n m; induction l; intros [|n] [|m] Hn; simpl; auto; try lia.
Qed.

Lemma set_nth_same : forall A n (d : A) l, set_nth n (nth n l d) l = l.
Proof. intros A n d l; revert n; induction l; intros [|n]; simpl; auto. f_equal; apply IHl. Qed.

Lemma set_nth_app_l : forall A n (x : A) l1 l2, n < length l1 -> set_nth n x (l1 ++ l2) = set_nth n x l1 ++ l2.
Proof. intros A n x l1; revert n; induction l1; intros [|n] l2 Hn; simpl in *; try lia; auto. f_equal; apply IHl1; lia. Qed.

Lemma set_nth_app_r : forall A n (x : A) l1 l2, length l1 <= n -> set_nth n x (l1 ++ l2) = l1 ++ set_nth (n - length l1) x l2.
Proof.
  intros A n x l1; revert n; induction l1; intros n l2 Hn; simpl in *.
  - now rewrite Nat.sub_0_r.
  - destruct n as [|n]; try lia. simpl. f_equal. apply IHl1; lia.
Qed.

Lemma overwrite_nil : forall l p, overwrite l p [] = l.
Proof. intros; unfold overwrite; simpl. rewrite Nat.add_0_r. apply firstn_skipn. Qed.

Lemma overwrite_length : forall l p bs, p + length bs <= length l -> length (overwrite l p bs) = length l.
Proof.
  intros; unfold overwrite. rewrite !app_length, firstn_length, skipn_length. lia.
Qed.

(** cells before the write position are untouched *)
Lemma overwrite_before : forall l p bs off n, off + n <= p -> p <= length l ->
  firstn n (skipn off (overwrite l p bs)) = firstn n (skipn off l).
Proof.
  intros l p bs off n Hle Hp. unfold overwrite.
  rewrite skipn_app, firstn_app.
  rewrite skipn_length, firstn_length, Nat.min_l by lia.
  replace (n - (p - off)) with 0 by lia. rewrite firstn_O, app_nil_r.
  rewrite skipn_firstn_comm, firstn_firstn. f_equal. lia.
Qed.

Lemma overwrite_read : forall l off n bs, off + n + length bs <= length l ->
  firstn (n + length bs) (skipn off (overwrite l (off + n) bs)) = firstn n (skipn off l) ++ bs.
Proof.
  intros l off n bs Hle. unfold overwrite.
  rewrite skipn_app, firstn_app.
  rewrite skipn_length, firstn_length, Nat.min_l by lia.
  rewrite skipn_firstn_comm. replace (off + n - off) with n by lia.
  rewrite firstn_firstn, Nat.min_r by lia.
  replace (off - (off + n)) with 0 by lia. rewrite skipn_O.
  replace (n + length bs - n) with (length bs) by lia.
  rewrite firstn_app, firstn_all, Nat.sub_diag, firstn_O, app_nil_r. reflexivity.
Qed.

Lemma read_nil_cap : forall H s, slen s <= scap s -> scap s = 0 -> read H s = [].
Proof. intros H s Hl Hc. unfold read. replace (slen s) with 0 by lia. reflexivity. Qed.

(** reading depends only on the slice's own array *)
Lemma read_ext : forall H H' s, arr H' (sa s) = arr H (sa s) -> read H' s = read H s.
Proof. intros; unfold read; congruence. Qed.

Lemma arr_app_l : forall H X a, a < length H -> arr (H ++ X) a = arr H a.
Proof. intros; unfold arr; apply app_nth1; auto. Qed.

Lemma wf_clip : forall H s, wf H s -> wf H (clip s).
Proof.
  intros H s [Hl [Hc | [Ha Hb]]]; unfold wf, clip; simpl.
  - split; auto. left; lia.
  - split; auto. right; split; auto. lia.
Qed.

Lemma read_clip : forall H s, read H (clip s) = read H s.
Proof. reflexivity. Qed.

(** *** one append *)

(** the result: old contents followed by the new bytes *)
Lemma append_read : forall grow H s bs, wf H s ->
  read (fst (append grow H s bs)) (snd (append grow H s bs)) = read H s ++ bs.
Proof.
  intros grow H s bs [Hl Hw]. unfold append.
  destruct (slen s + length bs <=? scap s) eqn:E; simpl.
  - apply Nat.leb_le in E.
    destruct Hw as [Hc | [Ha Hb]].
    + assert (slen s = 0) by lia. assert (length bs = 0) by lia.
      destruct bs; simpl in *; try lia. unfold read; simpl.
      replace (slen s + 0) with 0 by lia. replace (slen s) with 0 by lia. reflexivity.
    + unfold read; simpl. unfold arr at 1. rewrite nth_set_nth_eq by auto.
      apply overwrite_read. fold (arr H (sa s)). lia.
  - unfold read; simpl. unfold arr. rewrite app_nth2, Nat.sub_diag by lia. simpl.
    fold (arr H (sa s)). fold (read H s).
    assert (length (read H s) = slen s \/ length (read H s) <= slen s) as Hlen.
    { right. unfold read. rewrite firstn_length. lia. }
    (* the slice is well formed, so the read has exactly len cells *)
    assert (length (read H s) = slen s) as Hlen'.
    { unfold read. rewrite firstn_length, skipn_length.
      destruct Hw as [Hc | [Ha Hb]]; lia. }
    rewrite app_assoc, firstn_app, app_length, Hlen'.
    rewrite Nat.sub_diag, firstn_O, app_nil_r.
    apply firstn_all2. rewrite app_length; lia.
Qed.

Lemma append_wf : forall grow H s bs, wf H s ->
  wf (fst (append grow H s bs)) (snd (append grow H s bs)).
Proof.
  intros grow H s bs [Hl Hw]. unfold append.
  destruct (slen s + length bs <=? scap s) eqn:E; simpl.
  - apply Nat.leb_le in E. unfold wf; simpl. split; auto.
    destruct Hw as [Hc | [Ha Hb]]; [left; auto | right].
    rewrite set_nth_length. split; auto.
    unfold arr at 1. rewrite nth_set_nth_eq by auto.
    rewrite overwrite_length; fold (arr H (sa s)); lia.
  - unfold wf; simpl. split; [lia|]. right. rewrite app_length; simpl. split; [lia|].
    unfold arr. rewrite app_nth2, Nat.sub_diag by lia; simpl.
    assert (length (read H s) = slen s) as Hlen'.
    { unfold read. rewrite firstn_length, skipn_length.
      destruct Hw as [Hc | [Ha Hb]]; lia. }
    rewrite !app_length, repeat_length, Hlen'. lia.
Qed.

(** FRAME: an append on [s] leaves every other well-formed slice [t] readable as before, provided
    [t] lives in another array or ends at or before the position the append writes at. *)
Lemma append_frame : forall grow H s bs t, wf H s -> wf H t ->
  (sa t <> sa s \/ soff t + slen t <= soff s + slen s) ->
  read (fst (append grow H s bs)) t = read H t.
Proof.
  intros grow H s bs t [Hl Hw] [Hlt Hwt] Hd. unfold append.
  destruct (slen s + length bs <=? scap s) eqn:E; simpl.
  - apply Nat.leb_le in E.
    destruct (Nat.eq_dec (sa t) (sa s)) as [Heq | Hne].
    + destruct Hd as [Hd | Hd]; [contradiction|].
      destruct Hw as [Hc | [Ha Hb]].
      * assert (length bs = 0) by lia. destruct bs; simpl in *; try lia.
        rewrite overwrite_nil. unfold arr at 1. rewrite set_nth_same. reflexivity.
      * unfold read. rewrite Heq. unfold arr at 1. rewrite nth_set_nth_eq by auto.
        fold (arr H (sa s)). apply overwrite_before; lia.
    + apply read_ext. unfold arr. apply nth_set_nth_neq. auto.
  - destruct Hwt as [Hc | [Ha Hb]].
    + rewrite !read_nil_cap; auto.
    + apply read_ext. apply arr_app_l; auto.
Qed.

(** an append never shrinks the heap and never moves an array *)
Lemma append_heap_length : forall grow H s bs, length H <= length (fst (append grow H s bs)).
Proof.
  intros; unfold append. destruct (_ <=? _); simpl.
  - rewrite set_nth_length; lia.
  - rewrite app_length; simpl; lia.
Qed.

(** THE MECHANISM OF slices.Clip: appending at least one byte to a clipped slice (len = cap)
    allocates - the old heap is untouched and the result lives in a brand-new array. *)
Lemma append_clipped_allocates : forall grow H s b bs, slen s = scap s ->
  exists x, fst (append grow H s (b :: bs)) = H ++ [x] /\ sa (snd (append grow H s (b :: bs))) = length H.
Proof.
  intros grow H s b bs Hc. unfold append.
  destruct (slen s + length (b :: bs) <=? scap s) eqn:E.
  - apply Nat.leb_le in E. simpl in E. lia.
  - simpl. eexists; split; reflexivity.
Qed.

(** appending nothing changes nothing *)
Lemma append_nothing : forall grow H s, slen s <= scap s -> append grow H s [] = (H, s).
Proof.
  intros grow H s Hl. unfold append; simpl. rewrite Nat.add_0_r.
  destruct (slen s <=? scap s) eqn:E; [| apply Nat.leb_gt in E; lia].
  rewrite overwrite_nil. unfold arr. rewrite set_nth_same. destruct s; reflexivity.
Qed.

(** *** several appends starting from a clipped slice: the old heap is a prefix of the new one,
    untouched; the result holds the old contents followed by all chunks. *)
Lemma append_all_private : forall grow chunks H0 X s, wf (H0 ++ X) s -> length H0 <= sa s -> scap s <> 0 ->
  exists X', fst (append_all grow (H0 ++ X) s chunks) = H0 ++ X'
    /\ wf (H0 ++ X') (snd (append_all grow (H0 ++ X) s chunks))
    /\ read (H0 ++ X') (snd (append_all grow (H0 ++ X) s chunks)) = read (H0 ++ X) s ++ concat chunks.
Proof.
  intros grow chunks; induction chunks as [|bs r IH]; intros H0 X s Hwf Hsa Hcap; simpl.
  - exists X. rewrite app_nil_r. auto.
  - destruct (append grow (H0 ++ X) s bs) as [H1 s1] eqn:Ea.
    pose proof (append_wf grow (H0 ++ X) s bs Hwf) as Hwf1.
    pose proof (append_read grow (H0 ++ X) s bs Hwf) as Hrd1.
    rewrite Ea in Hwf1, Hrd1; simpl in Hwf1, Hrd1.
    assert (exists X1, H1 = H0 ++ X1 /\ length H0 <= sa s1 /\ scap s1 <> 0) as (X1 & -> & Hsa1 & Hcap1).
    { unfold append in Ea. destruct (slen s + length bs <=? scap s) eqn:E; inversion Ea; subst; clear Ea.
      - rewrite set_nth_app_r by auto. eexists; split; [reflexivity|]. simpl; auto.
      - rewrite <- app_assoc. eexists; split; [reflexivity|]. simpl. apply Nat.leb_gt in E.
        rewrite app_length. split; lia. }
    destruct (IH H0 X1 s1 Hwf1 Hsa1 Hcap1) as (X' & HX & Hwf' & Hrd').
    exists X'. rewrite HX. split; [reflexivity|]. split; [exact Hwf'|].
    rewrite Hrd', Hrd1, <- app_assoc. reflexivity.
Qed.

Lemma append_all_clipped : forall grow chunks H s, wf H s -> slen s = scap s ->
  exists X', fst (append_all grow H s chunks) = H ++ X'
    /\ wf (H ++ X') (snd (append_all grow H s chunks))
    /\ read (H ++ X') (snd (append_all grow H s chunks)) = read H s ++ concat chunks.
Proof.
  intros grow chunks; induction chunks as [|bs r IH]; intros H s Hwf Hc; simpl.
  - exists []. rewrite !app_nil_r. auto.
  - destruct bs as [|b bs].
    + rewrite append_nothing by lia. simpl. apply IH; auto.
    + destruct (append grow H s (b :: bs)) as [H1 s1] eqn:Ea.
      pose proof (append_wf grow H s (b :: bs) Hwf) as Hwf1.
      pose proof (append_read grow H s (b :: bs) Hwf) as Hrd1.
      destruct (append_clipped_allocates grow H s b bs Hc) as (x & Hx & Hsa).
      rewrite Ea in Hwf1, Hrd1, Hx, Hsa; simpl in Hwf1, Hrd1, Hx, Hsa. subst H1.
      assert (scap s1 <> 0) as Hcap1.
      { destruct Hwf1 as [Hl1 _]. unfold append in Ea.
        destruct (slen s + length (b :: bs) <=? scap s); inversion Ea; subst; simpl in *; lia. }
      destruct (append_all_private grow r H [x] s1 Hwf1 ltac:(lia) Hcap1) as (X' & HX & Hwf' & Hrd').
      exists X'. rewrite HX. split; [reflexivity|]. split; [exact Hwf'|].
      rewrite Hrd', Hrd1, <- app_assoc. reflexivity.
Qed.
