(** Lemmas about the go2coq runtime library [Lib/GoRt.v] and the tactics the FIXED proof scripts
    (coq/Go2coq/*.v.in) use to evaluate a regenerated definition symbolically. *)
From Coq Require Import List NArith ZArith Bool Lia.
Import ListNotations.
From Glb Require Import Lib.GoRt.

(** * the monad *)
Lemma bind_ret_r {A : Type} (m : option A) : bind m (fun x => Some x) = m.
Proof. destruct m; reflexivity. Qed.

Lemma bind_some {A B : Type} (x : A) (f : A -> option B) : bind (Some x) f = f x.
Proof. reflexivity. Qed.

(** * len *)
Lemma len_nil : len [] = 0%Z.
Proof. reflexivity. Qed.

Lemma len_cons x s : len (x :: s) = (len s + 1)%Z.
Proof. unfold len. cbn [length]. lia. Qed.

Lemma len_app a b : len (a ++ b) = (len a + len b)%Z.
Proof. unfold len. rewrite app_length. lia. Qed.

Lemma len_nonneg s : (0 <= len s)%Z.
Proof. unfold len. lia. Qed.

Lemma len_pos_app_cons b x y : (0 <? len (b ++ x :: y))%Z = true.
Proof. apply Z.ltb_lt. rewrite len_app, len_cons. pose proof (len_nonneg b). pose proof (len_nonneg y). lia. Qed.

Lemma len_zero s : len s = 0%Z -> s = [].
Proof. destruct s; [reflexivity|]. rewrite len_cons. pose proof (len_nonneg s). lia. Qed.

(** * indexing and slicing *)
Lemma byte_at_app_len pre c r : byte_at (pre ++ c :: r) (len pre) = Some c.
Proof.
  unfold byte_at, len. destruct (Z.ltb_spec (Z.of_nat (length pre)) 0); [lia|].
  rewrite Nat2Z.id. clear H. induction pre as [|x p IH]; [reflexivity | exact IH].
Qed.

Lemma byte_at_app_len_eq s pre c r : s = pre ++ c :: r -> byte_at s (len pre) = Some c.
Proof. intros ->. apply byte_at_app_len. Qed.

Lemma byte_at_app_len1 pre c d r : byte_at (pre ++ c :: d :: r) (len pre + 1) = Some d.
Proof.
  replace (pre ++ c :: d :: r) with ((pre ++ [c]) ++ d :: r) by (rewrite <- app_assoc; reflexivity).
  replace (len pre + 1)%Z with (len (pre ++ [c])) by (rewrite len_app; reflexivity).
  apply byte_at_app_len.
Qed.

Lemma byte_at_none s i : (len s <= i)%Z -> byte_at s i = None.
Proof.
  unfold byte_at, len. intros H. destruct (Z.ltb_spec i 0); [reflexivity|].
  apply nth_error_None. lia.
Qed.

Lemma byte_at_some s i : (0 <= i < len s)%Z -> exists c, byte_at s i = Some c.
Proof.
  unfold byte_at, len. intros H. destruct (Z.ltb_spec i 0); [lia|].
  destruct (nth_error s (Z.to_nat i)) eqn:E; [eauto|]. apply nth_error_None in E. lia.
Qed.

Lemma drop_app pre r : drop (length pre) (pre ++ r) = Some r.
Proof. induction pre as [|x p IH]; [reflexivity | exact IH]. Qed.

Lemma slice_from_app_len pre r : slice_from (pre ++ r) (len pre) = Some r.
Proof.
  unfold slice_from, len. destruct (Z.ltb_spec (Z.of_nat (length pre)) 0); [lia|].
  rewrite Nat2Z.id. apply drop_app.
Qed.

Lemma slice_from_0 s : slice_from s 0 = Some s.
Proof. reflexivity. Qed.

(** * prefixes *)
Lemma cut_prefix_some p : forall s r, cut_prefix p s = Some r -> s = p ++ r.
Proof.
  induction p as [|y p IH]; intros s r H; cbn [cut_prefix] in H.
  - injection H as ->. reflexivity.
  - destruct s as [|x s]; [discriminate|]. destruct (N.eqb_spec x y); [|discriminate].
    subst. cbn [app]. f_equal. apply IH. exact H.
Qed.

Lemma cut_prefix_app p r : cut_prefix p (p ++ r) = Some r.
Proof. induction p as [|y p IH]; [reflexivity|]. cbn [app cut_prefix]. rewrite N.eqb_refl. exact IH. Qed.

Lemma has_prefix_cut s p : has_prefix s p = match cut_prefix p s with Some _ => true | None => false end.
Proof.
  revert s. induction p as [|y p IH]; intros s; [reflexivity|].
  cbn [has_prefix cut_prefix]. destruct s as [|x s]; [reflexivity|].
  destruct (x =? y)%N; [apply IH | reflexivity].
Qed.

Lemma has_prefix_true s p : has_prefix s p = true <-> exists r, s = p ++ r.
Proof.
  rewrite has_prefix_cut. split.
  - destruct (cut_prefix p s) eqn:E; [|discriminate]. intros _. eexists. apply cut_prefix_some. exact E.
  - intros [r ->]. rewrite cut_prefix_app. reflexivity.
Qed.

(** * strings.Replace with a one-byte pattern is the bytewise substitution *)
Lemma replace_go_byte p r : forall fuel s, (length s < fuel)%nat ->
  replace_go fuel [p] r s = flat_map (fun b => if (b =? p)%N then r else [b]) s.
Proof.
  induction fuel as [|f IH]; intros s H; [lia|].
  destruct s as [|b t]; [reflexivity|].
  cbn [replace_go cut_prefix flat_map length] in *.
  destruct (b =? p)%N; rewrite IH by lia; reflexivity.
Qed.

Lemma str_replace_all_byte p r s :
  str_replace_all [p] r s = flat_map (fun b => if (b =? p)%N then r else [b]) s.
Proof. unfold str_replace_all. apply replace_go_byte. lia. Qed.

(** the general specification: nothing to replace when the pattern does not occur at any position *)
Lemma str_replace_all_nil old new : str_replace_all old new [] = [].
Proof. destruct old; reflexivity. Qed.

Lemma str_eqb_eq a : forall b, str_eqb a b = true <-> a = b.
Proof.
  induction a as [|x a IH]; intros [|y b]; cbn [str_eqb]; split; intros H; try reflexivity; try discriminate.
  - apply andb_true_iff in H as [H1 H2]. apply N.eqb_eq in H1. apply IH in H2. subst. reflexivity.
  - injection H as -> ->. rewrite N.eqb_refl. apply IH. reflexivity.
Qed.

Lemma str_eqb_nil_r s : str_eqb s [] = match s with [] => true | _ => false end.
Proof. destruct s; reflexivity. Qed.

(** * arithmetic *)
Lemma wrap64_small z : (-9223372036854775808 <= z < 9223372036854775808)%Z -> wrap64 z = z.
Proof.
  intros H. unfold wrap64. rewrite Z.mod_small by lia. lia.
Qed.

Lemma int_add_small a b : (-9223372036854775808 <= a + b < 9223372036854775808)%Z -> int_add a b = (a + b)%Z.
Proof. apply wrap64_small. Qed.

Lemma int_sub_small a b : (-9223372036854775808 <= a - b < 9223372036854775808)%Z -> int_sub a b = (a - b)%Z.
Proof. apply wrap64_small. Qed.

Lemma byte_sub_small a b : (b <= a)%N -> (a < 256)%N -> byte_sub a b = (a - b)%N.
Proof.
  intros H1 H2. unfold byte_sub. rewrite (N.mod_small b) by lia.
  replace (a + 256 - b)%N with ((a - b) + 1 * 256)%N by lia.
  rewrite N.mod_add by lia. apply N.mod_small. lia.
Qed.

Lemma byte_add_small a b : (a + b < 256)%N -> byte_add a b = (a + b)%N.
Proof. intros H. unfold byte_add. apply N.mod_small. exact H. Qed.

(** * loops *)
Lemma for_range_S {S R : Type} n i (body : Z -> S -> option (loop_res S R)) st :
  for_range (Datatypes.S n) i body st
  = match body i st with Some (Next st') => for_range n (i + 1)%Z body st' | other => other end.
Proof. reflexivity. Qed.

Lemma for_range_flat_map {R : Type} (f : N -> list N) (s : list N)
      (body : Z -> list N -> option (loop_res (list N) R)) :
  (forall pre c r sb, s = pre ++ c :: r -> body (len pre) sb = Some (Next (sb ++ f c))) ->
  forall r pre sb, s = pre ++ r ->
  for_range (length r) (len pre) body sb = Some (Next (sb ++ flat_map f r)).
Proof.
  intros Hb. induction r as [|c r IH]; intros pre sb Hs.
  - cbn [length for_range flat_map]. rewrite app_nil_r. reflexivity.
  - cbn [length]. rewrite for_range_S, (Hb pre c r sb Hs).
    replace (len pre + 1)%Z with (len (pre ++ [c])) by (rewrite len_app; reflexivity).
    rewrite (IH (pre ++ [c]) (sb ++ f c)) by (rewrite <- app_assoc; exact Hs).
    cbn [flat_map]. rewrite <- app_assoc. reflexivity.
Qed.

(** a loop that appends [f (s[i])] to an accumulator for every index is [flat_map f] *)
Lemma for_index_flat_map {R : Type} (f : N -> list N) (s : list N)
      (body : Z -> list N -> option (loop_res (list N) R)) :
  (forall pre c r sb, s = pre ++ c :: r -> body (len pre) sb = Some (Next (sb ++ f c))) ->
  forall sb, for_index s body sb = Some (Next (sb ++ flat_map f s)).
Proof. intros Hb sb. exact (for_range_flat_map f s body Hb s [] sb eq_refl). Qed.

(** * symbolic evaluation of generated definitions
    [g2c_cbn] computes the runtime functions on partially known strings ([c1 :: c2 :: tail]);
    [g2c_step] splits on the first remaining test (byte comparison with a literal, integer comparison
    decided by [lia] from the lengths); [g2c_eval] repeats both until nothing is left to decide. *)
Ltac g2c_cbn :=
  cbn [bind after_loop byte_at slice_from slice_to slice drop take str_eqb str_ltb has_prefix cut_prefix trim_prefix
       nth_error app andb orb negb Bool.eqb
       Z.ltb Z.leb Z.eqb Z.compare Z.to_nat Z.sub Z.add Z.opp Z.pos_sub Z.succ_double Z.pred_double Z.double
       Pos.compare Pos.compare_cont Pos.to_nat Pos.iter_op Pos.eqb Pos.succ Pos.add Pos.pred_double Nat.add
       CompOpp] in *.

(** [N.eqb] between two byte literals *)
Ltac g2c_lits :=
  repeat match goal with
  | |- context [N.eqb (N.pos ?a) (N.pos ?b)] =>
      let v := eval vm_compute in (N.eqb (N.pos a) (N.pos b)) in
      change (N.eqb (N.pos a) (N.pos b)) with v
  | |- context [Pos.to_nat ?p] =>
      let v := eval vm_compute in (Pos.to_nat p) in
      lazymatch v with
      | context [Pos.iter_op] => fail
      | _ => change (Pos.to_nat p) with v
      end
  | |- context [N.eqb N0 (N.pos ?b)] => change (N.eqb N0 (N.pos b)) with false
  | |- context [N.eqb (N.pos ?b) N0] => change (N.eqb (N.pos b) N0) with false
  | |- context [N.eqb N0 N0] => change (N.eqb N0 N0) with true
  end.

(** literal on the left: [47 =? c] becomes [c =? 47] *)
Ltac g2c_orient :=
  repeat match goal with
  | |- context [N.eqb (N.pos ?p) ?x] => is_var x; rewrite (N.eqb_sym (N.pos p) x)
  | |- context [N.eqb N0 ?x] => is_var x; rewrite (N.eqb_sym N0 x)
  end.

Ltac g2c_len :=
  repeat rewrite ?len_cons, ?len_nil, ?len_app in *;
  repeat match goal with
  | |- context [len ?s] =>
      lazymatch goal with
      | _ : (0 <= len s)%Z |- _ => fail
      | _ => pose proof (len_nonneg s)
      end
  end.

Ltac g2c_split c :=
  lazymatch c with
  | negb ?x => g2c_split x
  | andb ?x _ => g2c_split x
  | orb ?x _ => g2c_split x
  | Z.eqb ?a ?b => destruct (Z.eqb_spec a b); try (exfalso; lia)
  | Z.ltb ?a ?b => destruct (Z.ltb_spec a b); try (exfalso; lia)
  | Z.leb ?a ?b => destruct (Z.leb_spec a b); try (exfalso; lia)
  | N.leb ?a ?b => destruct (N.leb_spec a b); try (exfalso; lia)
  | N.ltb ?a ?b => destruct (N.ltb_spec a b); try (exfalso; lia)
  | N.eqb ?a ?b =>
      let H := fresh "E" in
      destruct (N.eqb_spec a b) as [H | H]; [try subst a | idtac]
  | _ => let H := fresh "E" in destruct c eqn:H
  end.

Ltac g2c_step :=
  match goal with
  | |- context [if ?c then _ else _] =>
      lazymatch c with
      | context [if _ then _ else _] => fail
      | _ => g2c_split c
      end
  end.

Ltac g2c_eval :=
  repeat (g2c_cbn; g2c_orient; g2c_lits; g2c_len; try g2c_step).
