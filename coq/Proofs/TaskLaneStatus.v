(** TaskLane: Status() — bounds of the non-atomic pending count, exact count at rest. *)
From Coq Require Import List Arith Bool Lia.
Import ListNotations.
From Glb Require Import Model.TaskLane Proofs.TaskLaneP Proofs.TaskLaneInv.

(* ---------- observers ---------- *)
Definition ostate_ok (qs n : nat) (x : ostate) : Prop :=
  match x with
  | OIdle => True
  | OLen k a => k <= n /\ a <= k * qs
  | OPanic a => a <= n * qs + n
  end.
Definition ObsInv (qs n : nat) (s : state) : Prop :=
  (forall o, ostate_ok qs n (ostate_of s o)) /\
  Forall (fun x => snd (fst x) <= n * (qs + 1)) (snaps s).

Definition Good (qs n : nat) (s : state) : Prop :=
  length (lanes s) = n /\ CntInv s /\ LaneInv qs s /\ ObsInv qs n s.

Lemma step_obsinv qs n s l s' :
  length (lanes s) = n -> CntInv s -> LaneInv qs s -> ObsInv qs n s -> step qs s l = Some s' -> ObsInv qs n s'.
Proof.
  intros Hlen HC HL [HO HS] Hs. pose proof (cnt_le_lanes s HC) as Hcnt. unfold ObsInv, ostate_of in *.
  step_cases Hs s' l; try (split; [exact HO | exact HS]); unfold ostate_of in *.
  - (* StatusBegin *)
    split; [|exact HS]. intros o'. rewrite aget_aset. destruct (o' =? o); [|apply HO]. cbn. lia.
  - (* StatusReadLen *)
    split; [|exact HS]. intros o'. rewrite aget_aset. destruct (o' =? o); [|apply HO].
    match goal with H : (_ =? _) = true |- _ => apply Nat.eqb_eq in H; subst end.
    match goal with H : aget OIdle (obs s) o = _ |- _ => pose proof (HO o) as Ho; rewrite H in Ho end.
    match goal with H : nth_error (lanes s) _ = Some ?a |- _ =>
      pose proof (Forall_nth_error _ _ _ _ HL H) as [Hb _];
      assert (Hlt : i < length (lanes s)) by (apply nth_error_Some; congruence) end.
    cbn [ostate_ok] in *. lia.
  - (* StatusReadCnt *)
    split; [|exact HS]. intros o'. rewrite aget_aset. destruct (o' =? o); [|apply HO].
    match goal with H : (_ <=? _) = true |- _ => apply Nat.leb_le in H end.
    match goal with H : aget OIdle (obs s) o = _ |- _ => pose proof (HO o) as Ho; rewrite H in Ho end.
    cbn [ostate_ok] in *. assert (k = n) by lia. subst k. lia.
  - (* StatusReadPanic *)
    match goal with H : aget OIdle (obs s) o = _ |- _ => pose proof (HO o) as Ho; rewrite H in Ho end.
    cbn [ostate_ok] in Ho.
    split.
    + intros o'. rewrite aget_aset. destruct (o' =? o); [exact I|apply HO].
    + constructor; [cbn [fst snd]; lia | exact HS].
Qed.

Lemma step_good qs n s l s' : Good qs n s -> step qs s l = Some s' -> Good qs n s'.
Proof.
  intros (H1 & H2 & H3 & H4) Hs. split; [|split; [|split]].
  - rewrite (step_length _ _ _ _ Hs). exact H1.
  - eapply step_cntinv; eauto.
  - eapply step_laneinv; eauto.
  - eapply step_obsinv; eauto.
Qed.

Lemma init_good qs n : Good qs n (init n).
Proof.
  split; [|split; [|split; [|split]]].
  - cbn [init lanes]. apply repeat_length.
  - apply init_cntinv.
  - apply init_laneinv.
  - intros o. cbn. exact I.
  - cbn. constructor.
Qed.

Theorem reachable_good qs n ls s : run qs (init n) ls = Some s -> Good qs n s.
Proof. apply (run_invariant (Good qs n) qs (step_good qs n)). apply init_good. Qed.

(* every completed Status() call, in any execution *)
Theorem pending_bounds qs n ls s o pend lp :
  run qs (init n) ls = Some s -> In (o, pend, lp) (snaps s) -> pend <= n * (qs + 1).
Proof.
  intros Hr Hin. destruct (reachable_good _ _ _ _ Hr) as (_ & _ & _ & _ & HS).
  rewrite Forall_forall in HS. apply (HS _ Hin).
Qed.

(* the LastPanic field of every completed Status() call is a panic that was raised, or none *)
Definition SnapPanicInv (s : state) : Prop :=
  forall o pend v, In (o, pend, Some v) (snaps s) -> In v (panics s).

Lemma step_snappanic qs s l s' : PanicInv s -> SnapPanicInv s -> step qs s l = Some s' -> SnapPanicInv s'.
Proof.
  unfold SnapPanicInv. intros HP HI Hs o' pend v.
  step_cases Hs s' l; try exact (HI o' pend v).
  - intros Hin. right. exact (HI o' pend v Hin).
  - intros [E|Hin]; [|exact (HI o' pend v Hin)]. injection E as _ _ E. apply HP. exact E.
Qed.

Theorem snapshot_panic_real qs n ls s o pend v :
  run qs (init n) ls = Some s -> In (o, pend, Some v) (snaps s) -> In v (panics s).
Proof.
  intros Hr. revert o pend v.
  apply (run_invariant (fun s => PanicInv s /\ SnapPanicInv s) qs) with (s := init n) (ls := ls); [| |exact Hr].
  - intros s0 l s1 [H1 H2] Hs. split; [eapply step_panicinv; eauto | eapply step_snappanic; eauto].
  - split; intros ?; cbn; [discriminate | contradiction].
Qed.

(* ---------- exact count ---------- *)
Definition qtook (x : qpc) : nat := match x with QTook _ => 1 | _ => 0 end.
Definition qsent (x : qpc) : nat := match x with QSent => 1 | _ => 0 end.

Lemma lanes_balance (L : list lane) :
  list_sum (map (fun l => length (buf l)) L) + list_sum (map lcounted L) + list_sum (map (fun l => qtook (q l)) L)
  = list_sum (map lheld L) + list_sum (map (fun l => qsent (q l)) L).
Proof.
  induction L as [|[b0 q0 w0] r IH]; cbn [map]; [reflexivity|].
  repeat change (list_sum (?a :: ?l)) with (a + list_sum l).
  unfold lheld at 1, ltasks, lcounted at 1. cbn [buf q]. rewrite app_length.
  destruct q0 as [| | | | | |[|]]; cbn [qtask qcounted qtook qsent length]; lia.
Qed.

Lemma at_rest_zero L :
  forallb (fun l => match q l with QTook _ | QSent => false | _ => true end) L = true ->
  list_sum (map (fun l => qtook (q l)) L) = 0 /\ list_sum (map (fun l => qsent (q l)) L) = 0.
Proof.
  induction L as [|[b0 q0 w0] r IH]; cbn [map forallb]; [split; reflexivity|].
  repeat change (list_sum (?a :: ?l)) with (a + list_sum l). cbn [q].
  intros H. apply andb_true_iff in H as [H1 H2]. destruct (IH H2) as [E1 E2].
  destruct q0; try discriminate; cbn [qtook qsent]; lia.
Qed.

Theorem pending_balance qs n ls s :
  run qs (init n) ls = Some s ->
  pending_of s + list_sum (map (fun l => qtook (q l)) (lanes s)) + length (started s)
  = length (accepted s) + list_sum (map (fun l => qsent (q l)) (lanes s)).
Proof.
  intros Hr. pose proof (reachable_cntinv _ _ _ _ Hr) as HC. pose proof (reachable_consinv _ _ _ _ Hr) as HK.
  pose proof (lanes_balance (lanes s)) as HB. unfold CntInv in HC. unfold ConsInv in HK. unfold pending_of. lia.
Qed.

Theorem pending_exact qs n ls s :
  run qs (init n) ls = Some s -> at_rest s = true ->
  pending_of s = length (accepted s) - length (started s).
Proof.
  intros Hr Hrest. pose proof (pending_balance _ _ _ _ Hr) as HB.
  destruct (at_rest_zero _ Hrest) as [E1 E2]. lia.
Qed.

(* Status() never blocks: whatever the rest of the lane does, the observer's next read is enabled *)
Theorem status_never_blocks qs s o :
  match ostate_of s o with
  | OIdle => step qs s (StatusBegin o) <> None
  | OLen k a => if k <? length (lanes s) then step qs s (StatusReadLen o k) <> None
                else step qs s (StatusReadCnt o) <> None
  | OPanic a => step qs s (StatusReadPanic o) <> None
  end.
Proof.
  destruct (ostate_of s o) as [|k a|a] eqn:E.
  - cbn [step]. rewrite E. discriminate.
  - destruct (Nat.ltb_spec k (length (lanes s))) as [Hlt|Hge]; cbn [step]; rewrite E.
    + rewrite Nat.eqb_refl. destruct (nth_error (lanes s) k) eqn:Hn; [discriminate|].
      apply nth_error_None in Hn. lia.
    + destruct (Nat.leb_spec (length (lanes s)) k); [discriminate|lia].
  - cbn [step]. rewrite E. discriminate.
Qed.

(* ---------- an uninterrupted Status() call ---------- *)
Definition status_labels (o n : nat) : list label :=
  StatusBegin o :: map (StatusReadLen o) (seq 0 n) ++ [StatusReadCnt o; StatusReadPanic o].

Lemma skipn_nth {A} (l : list A) k a : nth_error l k = Some a -> skipn k l = a :: skipn (S k) l.
Proof.
  revert k; induction l as [|h tl IH]; intros [|k] H; cbn [nth_error] in H; try discriminate.
  - injection H as ->. reflexivity.
  - cbn [skipn]. rewrite (IH _ H). reflexivity.
Qed.

Lemma set_obs_id s : set_obs s (obs s) = s.
Proof. destruct s; reflexivity. Qed.

Lemma read_len_loop qs o m : forall k a s,
  k + m = length (lanes s) -> ostate_of s o = OLen k a ->
  exists ob, run qs s (map (StatusReadLen o) (seq k m)) = Some (set_obs s ob) /\
             aget OIdle ob o = OLen (k + m) (a + list_sum (map (fun l => length (buf l)) (skipn k (lanes s)))).
Proof.
  induction m as [|m IH]; intros k a s Hlen Ho.
  - exists (obs s). cbn [seq map run]. rewrite set_obs_id. split; [reflexivity|].
    replace k with (length (lanes s)) at 2 by lia. rewrite skipn_all. cbn [map list_sum fold_right].
    unfold ostate_of in Ho. rewrite Ho. f_equal; lia.
  - cbn [seq map run step]. rewrite Ho, Nat.eqb_refl.
    destruct (nth_error (lanes s) k) as [li|] eqn:Hn; [|apply nth_error_None in Hn; lia].
    set (s2 := set_obs s (aset (obs s) o (OLen (S k) (a + length (buf li))))).
    destruct (IH (S k) (a + length (buf li)) s2) as (ob & Hrun & Hob).
    + subst s2; st_simpl. lia.
    + subst s2; unfold ostate_of; st_simpl. rewrite aget_aset, Nat.eqb_refl. reflexivity.
    + exists ob. split; [exact Hrun|]. rewrite Hob. subst s2; st_simpl.
      rewrite (skipn_nth _ _ _ Hn). cbn [map]. change (list_sum (?x :: ?l)) with (x + list_sum l).
      f_equal; lia.
Qed.

Theorem status_snapshot_exact qs s o :
  ostate_of s o = OIdle ->
  exists ob, run qs s (status_labels o (length (lanes s)))
             = Some (set_snaps (set_obs s ob) ((o, pending_of s, last_panic s) :: snaps s))
             /\ aget OIdle ob o = OIdle.
Proof.
  intros Ho. unfold status_labels. cbn [run step]. rewrite Ho.
  set (s1 := set_obs s (aset (obs s) o (OLen 0 0))).
  destruct (read_len_loop qs o (length (lanes s)) 0 0 s1) as (ob & Hrun & Hob).
  { subst s1; st_simpl. lia. }
  { subst s1; unfold ostate_of; st_simpl. rewrite aget_aset, Nat.eqb_refl. reflexivity. }
  rewrite run_app. subst s1. st_simpl_in Hrun. st_simpl_in Hob. rewrite Hrun.
  cbn [run step]. unfold ostate_of. st_simpl. rewrite Hob. cbn [skipn plus].
  rewrite Nat.leb_refl. st_simpl. rewrite aget_aset, Nat.eqb_refl.
  eexists. split; [unfold pending_of; reflexivity|]. rewrite aget_aset, Nat.eqb_refl. reflexivity.
Qed.

(* ---------- the panic slot is never cleared ---------- *)
Lemma step_panic_stable qs s l s' :
  last_panic s <> None -> step qs s l = Some s' ->
  last_panic s' <> None /\ exists new, snaps s' = new ++ snaps s /\ Forall (fun x => snd x <> None) new.
Proof.
  intros HP Hs.
  step_cases Hs s' l; try (split; [first [exact HP | discriminate] | exists []; split; [reflexivity|constructor]]).
  split; [exact HP|]. eexists [_]. split; [reflexivity|]. constructor; [exact HP|constructor].
Qed.

Theorem last_panic_stable qs ls : forall s s',
  last_panic s <> None -> run qs s ls = Some s' ->
  last_panic s' <> None /\ exists new, snaps s' = new ++ snaps s /\ Forall (fun x => snd x <> None) new.
Proof.
  induction ls as [|l r IH]; cbn [run]; intros s s' HP Hr.
  - injection Hr as <-. split; [exact HP|]. exists []. split; [reflexivity|constructor].
  - destruct (step qs s l) as [s1|] eqn:Hs; [|discriminate].
    destruct (step_panic_stable _ _ _ _ HP Hs) as (HP1 & n1 & E1 & F1).
    destruct (IH _ _ HP1 Hr) as (HP2 & n2 & E2 & F2).
    split; [exact HP2|]. exists (n2 ++ n1). split.
    + rewrite E2, E1, app_assoc. reflexivity.
    + apply Forall_app. split; assumption.
Qed.

(* ---------- after shutdown ---------- *)
Lemma all_dead_at_rest s : all_dead s -> at_rest s = true.
Proof.
  unfold all_dead, at_rest. intros H. apply forallb_forall. intros [b0 q0 w0] Hin.
  rewrite Forall_forall in H. destruct (H _ Hin) as [Hq _]. cbn [q] in *. destruct q0; try discriminate; reflexivity.
Qed.

Theorem pending_after_shutdown qs n ls s :
  run qs (init n) ls = Some s -> all_dead s ->
  pending_of s = length (accepted s) - length (started s).
Proof. intros Hr Hd. apply (pending_exact _ _ _ _ Hr). apply all_dead_at_rest. exact Hd. Qed.

Corollary status_snapshot_at_rest qs n ls s o :
  run qs (init n) ls = Some s -> at_rest s = true -> ostate_of s o = OIdle ->
  exists ob, run qs s (status_labels o n)
             = Some (set_snaps (set_obs s ob)
                       ((o, length (accepted s) - length (started s), last_panic s) :: snaps s)).
Proof.
  intros Hr Hrest Ho. destruct (status_snapshot_exact qs s o Ho) as (ob & Hrun & _).
  rewrite (reachable_length _ _ _ _ Hr) in Hrun. rewrite (pending_exact _ _ _ _ Hr Hrest) in Hrun.
  exists ob. exact Hrun.
Qed.
