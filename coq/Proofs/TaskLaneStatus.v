(** TaskLane: Status() — bounds of the non-atomic pending count, exact count at rest. *)
From Coq Require Import List Arith Bool Lia.
Import ListNotations.
From Glb Require Import Model.TaskLane Proofs.TaskLaneP Proofs.TaskLaneInv.

(* ---------- observers ---------- *)
Definition ostate_ok (qs n : nat) (x : ostate) : Prop :=
  match x with
  | OIdle => True
  | OLen k a => k <= n /\ a <= k * qs
  | OPanic a => a <= n * qs + n
  end.
Definition ObsInv (qs n : nat) (s : state) : Prop :=
  (forall o, ostate_ok qs n (ostate_of s o)) /\
  Forall (fun x => snd (fst x) <= n * (qs + 1)) (snaps s).

Definition Good (qs n : nat) (s : state) : Prop :=
  length (lanes s) = n /\ CntInv s /\ LaneInv qs s /\ ObsInv qs n s.

Lemma step_obsinv qs n s l s' :
  length (lanes s) = n -> CntInv s -> LaneInv qs s -> ObsInv qs n s -> step qs s l = Some s' -> ObsInv qs n s'.
Proof.
  intros Hlen HC HL [HO HS] Hs. pose proof (cnt_le_lanes s HC) as Hcnt. unfold ObsInv, ostate_of in *.
  step_cases Hs s' l; try (split; [exact HO | exact HS]); unfold ostate_of in *.
  - (* StatusBegin *)
    split; [|exact HS]. intros o'. rewrite aget_aset. destruct (o' =? o); [|apply HO]. cbn. lia.
  - (* StatusReadLen *)
    split; [|exact HS]. intros o'. rewrite aget_aset. destruct (o' =? o); [|apply HO].
    match goal with H : (_ =? _) = true |- _ => apply Nat.eqb_eq in H; subst end.
    match goal with H : aget OIdle (obs s) o = _ |- _ => pose proof (HO o) as Ho; rewrite H in Ho end.
    match goal with H : nth_error (lanes s) _ = Some ?a |- _ =>
      pose proof (Forall_nth_error _ _ _ _ HL H) as [Hb _];
      assert (Hlt : i < length (lanes s)) by (apply nth_error_Some; congruence) end.
    cbn [ostate_ok] in *. lia.
  - (* StatusReadCnt *)
    split; [|exact HS]. intros o'. rewrite aget_aset. destruct (o' =? o); [|apply HO].
    match goal with H : (_ <=? _) = true |- _ => apply Nat.leb_le in H end.
    match goal with H : aget OIdle (obs s) o = _ |- _ => pose proof (HO o) as Ho; rewrite H in Ho end.
    cbn [ostate_ok] in *. assert (k = n) by lia. subst k. lia.
  - (* StatusReadPanic *)
    match goal with H : aget OIdle (obs s) o = _ |- _ => pose proof (HO o) as Ho; rewrite H in Ho end.
    cbn [ostate_ok] in Ho.
    split.
    + intros o'. rewrite aget_aset. destruct (o' =? o); [exact I|apply HO].
    + constructor; [cbn [fst snd]; lia | exact HS].
Qed.

Lemma step_good qs n s l s' : Good qs n s -> step qs s l = Some s' -> Good qs n s'.
Proof.
  intros (H1 & H2 & H3 & H4) Hs. split; [|split; [|split]].
  - rewrite (step_length _ _ _ _ Hs). exact H1.
  - eapply step_cntinv; eauto.
  - eapply step_laneinv; eauto.
  - eapply step_obsinv; eauto.
Qed.

Lemma init_good qs n : Good qs n (init n).
Proof.
  split; [|split; [|split; [|split]]].
  - cbn [init lanes]. apply repeat_length.
  - apply init_cntinv.
  - apply init_laneinv.
  - intros o. cbn. exact I.
  - cbn. constructor.
Qed.

Theorem reachable_good qs n ls s : run qs (init n) ls = Some s -> Good qs n s.
Proof. apply (run_invariant (Good qs n) qs (step_good qs n)). apply init_good. Qed.

(* every completed Status() call, in any execution *)
Theorem pending_bounds qs n ls s o pend lp :
  run qs (init n) ls = Some s -> In (o, pend, lp) (snaps s) -> pend <= n * (qs + 1).
Proof.
  intros Hr Hin. destruct (reachable_good _ _ _ _ Hr) as (_ & _ & _ & _ & HS).
  rewrite Forall_forall in HS. apply (HS _ Hin).
Qed.

(* the LastPanic field of every completed Status() call is a panic that was raised, or none *)
Definition SnapPanicInv (s : state) : Prop :=
  forall o pend v, In (o, pend, Some v) (snaps s) -> In v (panics s).

Lemma step_snappanic qs s l s' : PanicInv s -> SnapPanicInv s -> step qs s l = Some s' -> SnapPanicInv s'.
Proof.
  unfold SnapPanicInv. intros HP HI Hs o' pend v.
  step_cases Hs s' l; try exact (HI o' pend v).
  - intros Hin. right. exact (HI o' pend v Hin).
  - intros [E|Hin]; [|exact (HI o' pend v Hin)]. injection E as _ _ E. apply HP. exact E.
Qed.

Theorem snapshot_panic_real qs n ls s o pend v :
  run qs (init n) ls = Some s -> In (o, pend, Some v) (snaps s) -> In v (panics s).
Proof.
  intros Hr. revert o pend v.
  apply (run_invariant (fun s => PanicInv s /\ SnapPanicInv s) qs) with (s := init n) (ls := ls); [| |exact Hr].
  - intros s0 l s1 [H1 H2] Hs. split; [eapply step_panicinv; eauto | eapply step_snappanic; eauto].
  - split; intros ?; cbn; [discriminate | contradiction].
Qed.

(* ---------- exact count ---------- *)
Definition qtook (x : qpc) : nat := match x with QTook _ => 1 | _ => 0 end.
Definition qsent (x : qpc) : nat := match x with QSent => 1 | _ => 0 end.

Lemma lanes_balance (L : list lane) :
  list_sum (map (fun l => length (buf l)) L) + list_sum (map lcounted L) + list_sum (map (fun l => qtook (q l)) L)
  = list_sum (map lheld L) + list_sum (map (fun l => qsent (q l)) L).
Proof.
  induction L as [|[b0 q0 w0] r IH]; cbn [map]; [reflexivity|].
  repeat change (list_sum (?a :: ?l)) with (a + list_sum l).
  unfold lheld at 1, ltasks, lcounted at 1. cbn [buf q]. rewrite app_length.
  destruct q0 as [| | | | | |[|]]; cbn [qtask qcounted qtook qsent length]; lia.
Qed.

Lemma at_rest_zero L :
  forallb (fun l => match q l with QTook _ | QSent => false | _ => true end) L = true ->
  list_sum (map (fun l => qtook (q l)) L) = 0 /\ list_sum (map (fun l => qsent (q l)) L) = 0.
Proof.
  induction L as [|[b0 q0 w0] r IH]; cbn [map forallb]; [split; reflexivity|].
  repeat change (list_sum (?a :: ?l)) with (a + list_sum l). cbn [q].
  intros H. apply andb_true_iff in H as [H1 H2]. destruct (IH H2) as [E1 E2].
  destruct q0; try discriminate; cbn [qtook qsent]; lia.
Qed.

Theorem pending_balance qs n ls s :
  run qs (init n) ls = Some s ->
  pending_of s + list_sum (map (fun l => qtook (q l)) (lanes s)) + length (started s)
  = length (accepted s) + list_sum (map (fun l => qsent (q l)) (lanes s)).
Proof.
  intros Hr. pose proof (reachable_cntinv _ _ _ _ Hr) as HC. pose proof (reachable_consinv _ _ _ _ Hr) as HK.
  pose proof (lanes_balance (lanes s)) as HB. unfold CntInv in HC. unfold ConsInv in HK. unfold pending_of. lia.
Qed.

Theorem pending_exact qs n ls s :
  run qs (init n) ls = Some s -> at_rest s = true ->
  pending_of s = length (accepted s) - length (started s).
Proof.
  intros Hr Hrest. pose proof (pending_balance _ _ _ _ Hr) as HB.
  destruct (at_rest_zero _ Hrest) as [E1 E2]. lia.
Qed.

(* Status() never blocks: whatever the rest of the lane does, the observer's next read is enabled *)
Theorem status_never_blocks qs s o :
  match ostate_of s o with
  | OIdle => step qs s (StatusBegin o) <> None
  | OLen k a => if k <? length (lanes s) then step qs s (StatusReadLen o k) <> None
                else step qs s (StatusReadCnt o) <> None
  | OPanic a => step qs s (StatusReadPanic o) <> None
  end.
Proof.
  destruct (ostate_of s o) as [|k a|a] eqn:E.
  - cbn [step]. rewrite E. discriminate.
  - destruct (Nat.ltb_spec k (length (lanes s))) as [Hlt|Hge]; cbn [step]; rewrite E.
    + rewrite Nat.eqb_refl. destruct (nth_error (lanes s) k) eqn:Hn; [discriminate|].
      apply nth_error_None in Hn. lia.
    + destruct (Nat.leb_spec (length (lanes s)) k); [discriminate|lia].
  - cbn [step]. rewrite E. discriminate.
Qed.
