(** Proofs about the Launch handshake model: safety for every schedule (invariant), and
    progress (no deadlock before Launch returns + a strictly decreasing measure). *)
From Coq Require Import List Bool Arith String Lia.
Import ListNotations.
From Glb Require Import Model.Daemon.

Definition has_out (s : state) : bool := match stdout s with Some _ => true | None => false end.
Definition finished_ok (s : state) : Prop :=
  dalive s = true /\ stdout s = Some pid_daemon /\ done s = true.

Record Inv (s : state) : Prop := mkInv {
  i_init : caller s = CInit -> lst s = LNone;
  i_started : caller s <> CInit -> lst s <> LNone;
  i_none : lst s = LNone ->
           dalive s = false /\ handler s = false /\ stdout s = None /\ waiter s = false /\ selected s = false;
  i_noabn : lst s <> LAbnormal;
  i_run : lst s = LRun ->
          wf_from (handler s) (dalive s) (has_out s) (waiter s) (selected s) (lpc s) = true
          /\ nbs_from (handler s) (lpc s) = true;
  i_exit : lst s = LExited -> finished_ok s /\ dparent s = pid_init;
  i_stderr : stderr s = false;
  i_unbuf : unbuf s = false;
  i_out : stdout s = None \/ (stdout s = Some pid_daemon /\ dalive s = true);
  i_handler : dalive s = true -> handler s = true;
  i_pending : pending s = true -> done s = true;
  i_chan : sigchan s = true -> done s = true;
  i_sel : selected s = true -> done s = true;
  i_done : done s = true -> marker s = true /\ dalive s = true /\ dpc s = DCont;
  i_notdone : dalive s = true -> done s = false -> dpc s <> DCont;
  i_marker : dalive s = true -> dpc s = DMarker \/ marker s = true;
  i_parent : dalive s = true -> lst s = LRun -> dparent s = pid_launcher;
  i_sig : done s = true -> lst s = LRun -> pending s = true \/ sigchan s = true \/ selected s = true;
  i_ret : forall o, caller s = CRet o \/ caller s = CExit o ->
          o = Returned pid_daemon /\ ret_marker s = true /\ ret_done s = true /\ lst s = LExited
}.

Lemma Inv_init : Inv init.
Proof.
  constructor; cbn; intros; try tauto; try discriminate; try (repeat split; reflexivity).
  - destruct H; discriminate.
Qed.

Ltac inv_auto :=
  repeat match goal with
         | H : _ /\ _ |- _ => destruct H
         | H : Some _ = Some _ |- _ => inversion H; clear H; subst
         | H : andb _ _ = true |- _ => apply andb_true_iff in H
         | H : negb _ = true |- _ => apply negb_true_iff in H
         end.

Ltac simp_hyps :=
  repeat match goal with
         | H : ?x = ?x -> _ |- _ => specialize (H eq_refl)
         | H : ?x = ?x |- _ => clear H
         | H : _ /\ _ |- _ => destruct H
         | H : ?a = ?b -> _ |- _ => let N := fresh in assert (N : a <> b) by discriminate; clear N; clear H
         | H : ?a <> ?a -> _ |- _ => clear H
         | H : ?a <> ?b |- _ => let N := fresh in assert (N : a <> b) by discriminate; clear N; clear H
         end.

Ltac mk_inv :=
  simp_hyps; subst;
  constructor; unfold has_out, finished_ok; cbn; intros;
  try discriminate; try congruence; try assumption; try solve [intuition congruence];
  try match goal with
      | Hr : (forall o : outcome, _ -> _), H : _ = CRet _ \/ _ |- _ =>
          pose proof (Hr _ H); try solve [intuition congruence]
      end.

Ltac go := inv_auto; subst; cbn in *; inv_auto; subst; cbn in *; mk_inv.

Lemma Inv_step : forall acts delay,
  well_formed acts = true -> notify_before_start acts = true ->
  forall s l s', Inv s -> step acts delay s l = Some s' -> Inv s'.
Proof.
  intros acts delay Hwf Hnbs s l s' I Hstep.
  destruct I as [Iinit Istarted Inone Inoabn Irun Iexit Istderr Iunbuf Iout Ihandler Ipending Ichan Isel Idone Inotdone Imarker Iparent Isig Iret].
  destruct s as [c ls pc h ch pe so se w sl ub da dp pa m d rm rd]. unfold has_out, finished_ok in *. cbn in *.
  destruct l; cbn in Hstep.
  - (* caller *)
    destruct c as [| |o|o].
    + (* CInit -> CWait: the launcher is started with the extracted program *)
      inversion Hstep; subst; clear Hstep.
      destruct (Inone (Iinit eq_refl)) as [Hda [Hh [Hso [Hw Hsl]]]]. subst.
      mk_inv.
    + (* CWait -> CRet *)
      destruct ls; try discriminate; [|congruence].
      inversion Hstep; subst; clear Hstep.
      destruct (Iexit eq_refl) as [[Hda [Hso Hd]] Hpa]. subst.
      destruct (Idone eq_refl) as [Hm [_ Hdp]]. subst.
      mk_inv.
    + (* CRet -> CExit *)
      inversion Hstep; subst; clear Hstep.
      destruct (Iret o (or_introl eq_refl)) as [Ho [Hrm [Hrd Hl]]]. subst.
      mk_inv.
    + discriminate.
  - (* launcher *)
    destruct ls; try discriminate.
    assert (Hc : c <> CInit) by (intro Hc; specialize (Iinit Hc); discriminate).
    destruct (Irun eq_refl) as [Hw Hn].
    destruct pc as [|a r].
    + (* program finished: launch returns, exit *)
      cbn in Hw. inv_auto. subst.
      destruct so as [p|]; [|discriminate].
      destruct Iout as [?|[Hso _]]; [discriminate|]. inversion Hso; subst.
      specialize (Isel eq_refl). subst.
      mk_inv.
    + destruct a; cbn in Hw, Hn, Hstep.
      * (* ANotify *) go.
      * (* AStart *) go.
      * (* AWritePid *) go.
      * (* ASpawnWait *) go.
      * (* ASelect *)
        inv_auto. subst. destruct ch; [|discriminate]. inv_auto.
        specialize (Ichan eq_refl). subst.
        mk_inv.
      * discriminate.
      * discriminate.
  - (* daemon *)
    destruct da; [|discriminate].
    destruct dp as [|k| |].
    + (* marker *)
      inv_auto.
      assert (Hd : d = false).
      { destruct d; [|reflexivity]. destruct (Idone eq_refl) as [_ [_ ?]]; discriminate. }
      subst.
      mk_inv.
    + assert (Hd : d = false).
      { destruct d; [|reflexivity]. destruct (Idone eq_refl) as [_ [_ ?]]; discriminate. }
      assert (Hm : m = true) by (destruct (Imarker eq_refl); [discriminate|assumption]).
      subst.
      destruct k; inv_auto;
        mk_inv.
    + (* Done() *)
      assert (Hd : d = false).
      { destruct d; [|reflexivity]. destruct (Idone eq_refl) as [_ [_ ?]]; discriminate. }
      assert (Hm : m = true) by (destruct (Imarker eq_refl); [discriminate|assumption]).
      subst. inv_auto.
      assert (Hl : ls = LRun).
      { destruct ls; try reflexivity.
        - destruct c; [specialize (Iinit eq_refl)| | |]; try (exfalso; apply Istarted; [discriminate|reflexivity]).
          destruct (Inone eq_refl) as [? _]; discriminate.
        - destruct (Iexit eq_refl) as [[_ [_ ?]] _]; discriminate.
        - congruence. }
      subst. rewrite (Iparent eq_refl eq_refl). cbn. rewrite orb_true_r.
      mk_inv.
    + (* Continue *)
      inv_auto.
      mk_inv.
  - (* Deliver *)
    destruct ls; try discriminate. destruct pe; [|discriminate].
    specialize (Ipending eq_refl). subst.
    destruct (Idone eq_refl) as [Hm [Hda Hdp]]. subst.
    rewrite (Ihandler eq_refl) in *. cbn in Hstep. rewrite orb_true_r in Hstep. cbn in Hstep. inv_auto.
    mk_inv.
Qed.

Lemma Inv_run : forall acts delay,
  well_formed acts = true -> notify_before_start acts = true ->
  forall ls s s', Inv s -> run acts delay s ls = Some s' -> Inv s'.
Proof.
  intros acts delay Hwf Hnbs. induction ls as [|l r IH]; intros s s' I H; cbn in H.
  - inversion H; subst; exact I.
  - destruct (step acts delay s l) as [s1|] eqn:E; [|discriminate].
    eapply IH; [eapply Inv_step; eauto|exact H].
Qed.

(** ** the handshake, for every schedule and every daemon delay *)
Theorem handshake : forall acts,
  notify_before_start acts = true -> well_formed acts = true ->
  forall delay sched s, run acts delay init sched = Some s -> terminated s = true ->
    result s = Some (Returned pid_daemon)
    /\ ret_marker s = true /\ ret_done s = true
    /\ dalive s = true /\ launcher_gone s = true /\ lst s = LExited
    /\ dparent s = pid_init /\ dparent s <> pid_caller.
Proof.
  intros acts Hn Hw delay sched s Hrun Hterm.
  pose proof (Inv_run acts delay Hw Hn sched init s Inv_init Hrun) as I.
  unfold terminated in Hterm. unfold result, launcher_gone.
  destruct (caller s) as [| |o|o] eqn:Ec; try discriminate.
  - destruct (i_ret s I o (or_introl Ec)) as [Ho [Hrm [Hrd Hl]]]. subst o.
    destruct (i_exit s I Hl) as [[Hda _] Hpa]. rewrite Hl, Hpa.
    repeat split; try assumption; try reflexivity. discriminate.
  - destruct (i_ret s I o (or_intror Ec)) as [Ho [Hrm [Hrd Hl]]]. subst o.
    destruct (i_exit s I Hl) as [[Hda _] Hpa]. rewrite Hl, Hpa.
    repeat split; try assumption; try reflexivity. discriminate.
Qed.

(** the launcher is never killed, at any point of any run *)
Theorem launcher_never_killed : forall acts,
  notify_before_start acts = true -> well_formed acts = true ->
  forall delay sched s, run acts delay init sched = Some s -> lst s <> LAbnormal.
Proof.
  intros acts Hn Hw delay sched s Hrun.
  exact (i_noabn s (Inv_run acts delay Hw Hn sched init s Inv_init Hrun)).
Qed.

(** ** progress: before Launch has returned some step other than the daemon's idle loop is enabled … *)
Definition idle (s : state) (l : label) : bool :=
  match l with StepDaemon => match dpc s with DCont => true | _ => false end | _ => false end.

Theorem no_deadlock : forall acts,
  notify_before_start acts = true -> well_formed acts = true ->
  forall delay sched s, run acts delay init sched = Some s -> terminated s = false ->
    exists l s', step acts delay s l = Some s' /\ idle s l = false.
Proof.
  intros acts Hn Hw delay sched s Hrun Hterm.
  pose proof (Inv_run acts delay Hw Hn sched init s Inv_init Hrun) as I.
  destruct I as [Iinit Istarted Inone Inoabn Irun Iexit Istderr Iunbuf Iout Ihandler Ipending Ichan Isel Idone Inotdone Imarker Iparent Isig Iret].
  destruct s as [c ls pc h ch pe so se w sl ub da dp pa m d rm rd]. unfold has_out, finished_ok, terminated, idle in *. cbn in *.
  destruct c as [| |o|o]; try discriminate.
  - exists StepCaller. eexists. split; reflexivity.
  - destruct ls.
    + exfalso. apply Istarted; [discriminate|reflexivity].
    + destruct (Irun eq_refl) as [Hwf Hnb].
      destruct pc as [|a r]; [exists StepLauncher; eexists; split; reflexivity|].
      destruct a; try (exists StepLauncher; cbn; destruct da; eexists; split; reflexivity).
      (* blocked in select unless the signal is there *)
      cbn in Hwf. inv_auto. subst.
      destruct ch; [exists StepLauncher; eexists; split; reflexivity|].
      destruct pe; [exists Deliver; cbn; try rewrite (Ihandler eq_refl); eexists; split; reflexivity|].
      destruct d.
      * destruct (Isig eq_refl eq_refl) as [?|[?|?]]; discriminate.
      * exists StepDaemon. cbn. specialize (Inotdone eq_refl eq_refl).
        destruct dp as [|k| |]; [| destruct k | |congruence]; eexists; split; reflexivity.
    + exists StepCaller. eexists. split; reflexivity.
    + congruence.
Qed.

(** … and every step except that idle loop decreases a measure: every schedule that does not starve
    the three processes and the kernel brings Launch to its return in boundedly many steps. *)
Definition c_meas (c : cstatus) : nat :=
  match c with CInit => 3 | CWait => 2 | CRet _ => 1 | CExit _ => 0 end.
Definition l_meas (n : nat) (l : lstatus) (pc : list action) : nat :=
  match l with LNone => 2 + n | LRun => 1 + List.length pc | _ => 0 end.
Definition d_meas (delay : nat) (da : bool) (dp : dprog) : nat :=
  if da then match dp with DMarker => 2 * (delay + 3) | DDelay k => 2 * (k + 2) | DDone => 2 | DCont => 0 end
  else 2 * (delay + 3).
Definition measure (acts : list action) (delay : nat) (s : state) : nat :=
  c_meas (caller s) + l_meas (List.length acts) (lst s) (lpc s) + d_meas delay (dalive s) (dpc s)
  + (if pending s then 1 else 0).

Definition fits (acts : list action) (delay : nat) (s : state) : Prop :=
  (caller s = CInit -> lst s = LNone) /\
  (lst s = LRun -> List.length (lpc s) <= List.length acts) /\
  (dalive s = true -> forall k, dpc s = DDelay k -> k <= delay) /\
  (pending s = true -> dalive s = true /\ dpc s = DCont).

Lemma fits_init : forall acts delay, fits acts delay init.
Proof. intros. repeat split; cbn; intros; discriminate. Qed.

Ltac fits_t :=
  repeat split; cbn; intros; auto; try discriminate; try congruence;
  repeat match goal with
         | H : ?x = ?x -> _ |- _ => specialize (H eq_refl)
         | H : ?a = ?b, F : ?a = ?b -> _ |- _ => specialize (F H)
         | H : _ /\ _ |- _ => destruct H
         | H : DDelay _ = DDelay _ |- _ => inversion H; clear H; subst
         end;
  try discriminate; try congruence; try lia.

Lemma step_measure : forall acts delay s l s',
  fits acts delay s -> step acts delay s l = Some s' ->
  fits acts delay s' /\ (idle s l = true /\ s' = s \/ measure acts delay s' < measure acts delay s).
Proof.
  intros acts delay s l s' [F0 [F1 [F2 F3]]] Hstep.
  destruct s as [c ls pc h ch pe so se w sl ub da dp pa m d rm rd].
  unfold fits, measure, idle in *. cbn in *.
  destruct l; cbn in Hstep.
  - destruct c as [| |o|o]; try discriminate.
    + inversion Hstep; subst; clear Hstep. cbn. rewrite (F0 eq_refl).
      split; [fits_t|right; cbn; lia].
    + destruct ls; try discriminate; inversion Hstep; subst; clear Hstep; cbn;
        (split; [fits_t|right; lia]).
    + inversion Hstep; subst; clear Hstep; cbn. split; [fits_t|right; lia].
  - destruct ls; try discriminate.
    specialize (F1 eq_refl).
    destruct pc as [|a r].
    + inversion Hstep; subst; clear Hstep; cbn. split; [fits_t|right; lia].
    + cbn in F1.
      destruct a; try destruct da; try destruct ch; try discriminate;
        inversion Hstep; subst; clear Hstep; cbn;
        (split; [fits_t|right; cbn; try lia]).
  - destruct da; [|discriminate].
    destruct dp as [|k| |].
    + inversion Hstep; subst; clear Hstep; cbn. split; [fits_t|right; lia].
    + destruct k; inversion Hstep; subst; clear Hstep; cbn.
      * split; [fits_t|right; lia].
      * split; [fits_t|right; lia].
        specialize (F2 _ eq_refl). lia.
    + inversion Hstep; subst; clear Hstep; cbn. split; [fits_t|right].
      destruct pe; [destruct (F3 eq_refl); discriminate|]. cbn. destruct (Nat.eqb pa pid_launcher); lia.
    + inversion Hstep; subst; clear Hstep. split; [fits_t|left; split; reflexivity].
  - destruct ls; try discriminate. destruct pe; [|discriminate].
    destruct h; inversion Hstep; subst; clear Hstep; cbn;
      (split; [fits_t|right; lia]).
Qed.

(** ** the refutation without the discipline: the order of the pinned commit *)
Definition pinned_order : list action := [AStart; AWritePid; ASpawnWait; ANotify; ASelect].
Definition fixed_order : list action := [ANotify; AStart; AWritePid; ASpawnWait; ASelect].

Lemma refuted : exists acts delay sched s,
  well_formed acts = true /\ notify_before_start acts = false /\
  run acts delay init sched = Some s /\ terminated s = true /\
  result s = Some (Failed ErrRun) /\ dalive s = true /\ marker s = true /\ done s = true.
Proof.
  exists pinned_order, 0,
    [StepCaller; StepLauncher; StepDaemon; StepDaemon; StepDaemon; Deliver; StepCaller].
  eexists. split; [vm_compute; reflexivity|]. split; [vm_compute; reflexivity|].
  split; [vm_compute; reflexivity|]. repeat split; vm_compute; reflexivity.
Qed.

(** ** what the scanning definition of the discipline means, by positions *)
Lemma nbs_true : forall l, nbs_from true l = true.
Proof. induction l as [|a r IH]; [reflexivity|destruct a; cbn; assumption]. Qed.

Lemma nbs_from_spec : forall l h,
  nbs_from h l = true <-> (forall pre post, l = pre ++ AStart :: post -> h = true \/ In ANotify pre).
Proof.
  induction l as [|a r IH]; intro h.
  - split; [intros _ pre post H; destruct pre; discriminate|reflexivity].
  - assert (Hother : a <> ANotify -> a <> AStart -> nbs_from h (a :: r) = nbs_from h r)
      by (destruct a; cbn; congruence).
    destruct a; try (rewrite Hother by discriminate; rewrite IH; split;
      [intros H pre post E; destruct pre as [|b pre]; inversion E; subst;
       destruct (H pre post eq_refl) as [?|?]; [left; assumption|right; right; assumption]
      |intros H pre post E; subst;
       destruct (H (_ :: pre) post eq_refl) as [?|[?|?]]; [left; assumption|discriminate|right; assumption]]).
    + (* ANotify *)
      cbn. rewrite nbs_true. split; [|reflexivity].
      intros _ pre post E. destruct pre as [|b pre]; inversion E; subst. right. left. reflexivity.
    + (* AStart *)
      cbn. split.
      * intros H pre post E. apply andb_true_iff in H. left. tauto.
      * intro H. destruct (H [] r eq_refl) as [?|[]]. subst. cbn. apply nbs_true.
Qed.

Corollary notify_before_start_spec : forall acts,
  notify_before_start acts = true <-> (forall pre post, acts = pre ++ AStart :: post -> In ANotify pre).
Proof.
  intro acts. unfold notify_before_start. rewrite nbs_from_spec. split; intros H pre post E.
  - destruct (H pre post E) as [?|?]; [discriminate|assumption].
  - right. eauto.
Qed.

(** the well-formed programs are exactly these orders (all arrangements of the five actions that pass the scan);
    those that install the handler first are listed in [disciplined_orders] *)
Fixpoint insert_everywhere (a : action) (l : list action) : list (list action) :=
  match l with
  | [] => [[a]]
  | b :: r => (a :: l) :: map (cons b) (insert_everywhere a r)
  end.
Fixpoint perms (l : list action) : list (list action) :=
  match l with
  | [] => [[]]
  | a :: r => flat_map (insert_everywhere a) (perms r)
  end.
Definition wf_orders : list (list action) :=
  Eval vm_compute in filter well_formed (perms [ANotify; AStart; AWritePid; ASpawnWait; ASelect]).

Lemma well_formed_orders : forall acts, well_formed acts = true <-> In acts wf_orders.
Proof.
  intro acts. split.
  - unfold well_formed. intro H.
    repeat (destruct acts as [|a acts]; [cbn in H; try discriminate|destruct a; cbn in H; try discriminate]);
      cbn; tauto.
  - intro H. cbn in H.
    repeat (destruct H as [H|H]; [subst; reflexivity|]). destruct H.
Qed.

Example count_orders : List.length wf_orders = 11.
Proof. vm_compute. reflexivity. Qed.

Example disciplined_orders :
  filter notify_before_start wf_orders
  = [ [ANotify; AStart; AWritePid; ASpawnWait; ASelect]; [ANotify; AStart; ASpawnWait; AWritePid; ASelect];
      [ANotify; AStart; ASpawnWait; ASelect; AWritePid] ].
Proof. vm_compute. reflexivity. Qed.

(** a skipping run is a run of the schedule without the disabled steps *)
Lemma run_skip_run : forall acts delay ls s,
  exists ls', run acts delay s ls' = Some (run_skip acts delay s ls).
Proof.
  intros acts delay. induction ls as [|l r IH]; intro s; cbn.
  - exists []. reflexivity.
  - destruct (step acts delay s l) as [s1|] eqn:E.
    + destruct (IH s1) as [ls' H]. exists (l :: ls'). cbn. rewrite E. exact H.
    + apply IH.
Qed.

(** the discipline is necessary as well: every well-formed order that starts the daemon before the
    handler is installed has a schedule on which Launch fails while the daemon runs *)
Lemma discipline_necessary : forall acts,
  well_formed acts = true -> notify_before_start acts = false ->
  exists sched s, run acts 0 init sched = Some s /\ terminated s = true /\
                  result s = Some (Failed ErrRun) /\ dalive s = true /\ done s = true.
Proof.
  intros acts Hw Hn. apply well_formed_orders in Hw. cbn in Hw.
  destruct (run_skip_run acts 0 (sched_daemon_first acts 0) init) as [ls' Hrun].
  exists ls', (run_skip acts 0 init (sched_daemon_first acts 0)). split; [exact Hrun|].
  clear Hrun.
  repeat (destruct Hw as [Hw|Hw];
          [subst; first [discriminate Hn|repeat split; vm_compute; reflexivity]|]).
  destruct Hw.
Qed.

(** ** an unbuffered Notify channel: a signal that arrives while the launcher is not parked in its select is
    dropped, the launcher then waits forever and Launch never returns although the daemon called Done() *)
Definition unbuffered_order : list action := [ANotifyUnbuffered; AStart; AWritePid; ASpawnWait; ASelect].

Lemma unbuffered_deadlock : exists sched s,
  run unbuffered_order 0 init sched = Some s /\ terminated s = false /\ done s = true /\ dalive s = true /\
  forall l s', step unbuffered_order 0 s l = Some s' -> idle s l = true /\ s' = s.
Proof.
  exists [StepCaller; StepLauncher; StepLauncher; StepDaemon; StepDaemon; StepDaemon; Deliver;
          StepLauncher; StepLauncher].
  eexists. split; [vm_compute; reflexivity|]. repeat split; try (vm_compute; reflexivity).
  - destruct l; vm_compute in H; try discriminate. reflexivity.
  - destruct l; vm_compute in H; try discriminate. inversion H. reflexivity.
Qed.

Example unbuffered_not_well_formed : well_formed unbuffered_order = false.
Proof. vm_compute. reflexivity. Qed.
