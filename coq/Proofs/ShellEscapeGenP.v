(** C16 for ANY quote-safe replacement of the single quote.

    [Model/ShellEscape.v] replaces ['] by the five bytes ['"'"'].  The regenerated definition
    (gen/go2coq, checked by coq/Go2coq/C16.v.in on every run) may use another replacement, e.g. the
    four bytes ['\''], without harm: what the property needs of the replacement [q] is only that,
    read inside single quotes, it contributes one literal ['] and ends inside single quotes again
    ([quote_safe]; decided by evaluating the lexer on [q]).  The lemmas below are
    [Proofs/ShellEscapeP.v] with [replace_quote] generalised to [subst_quote q]. *)
From Coq Require Import List NArith Bool Lia.
Import ListNotations.
From Glb Require Import Lib.Shell Model.ShellEscape Proofs.ShellEscapeP.
Open Scope N_scope.

Definition quote_safe (q : list N) : Prop :=
  forall w tk, lex_run (mkLex SQ (Some w) tk) q = mkLex SQ (Some (w ++ [Lit 39])) tk.

Definition subst_quote (q s : list N) : list N := flat_map (fun b => if b =? 39 then q else [b]) s.
Definition escape_with (q s : list N) : list N := 39 :: subst_quote q s ++ [39].

Lemma model_quote_safe : quote_safe [39; 34; 39; 34; 39].
Proof. intros w tk. reflexivity. Qed.

Lemma backslash_quote_safe : quote_safe [39; 92; 39; 39].
Proof. intros w tk. reflexivity. Qed.

Lemma subst_quote_model s : subst_quote [39; 34; 39; 34; 39] s = replace_quote s.
Proof.
  induction s as [|b r IH]; [reflexivity|].
  unfold subst_quote in *. cbn [flat_map replace_quote]. rewrite IH. destruct (b =? 39); reflexivity.
Qed.

Lemma escape_with_model s : escape_with [39; 34; 39; 34; 39] s = shell_escape s.
Proof. unfold escape_with, shell_escape. rewrite subst_quote_model. reflexivity. Qed.

Lemma sq_body_with q : quote_safe q -> forall s w tk rest,
  lex_run (mkLex SQ (Some w) tk) (subst_quote q s ++ 39 :: rest)
  = lex_run (mkLex U (Some (w ++ lit s)) tk) rest.
Proof.
  intros Hq. induction s as [|b r IH]; intros w tk rest.
  - cbn [subst_quote flat_map app lit map]. rewrite lex_run_cons, sq_quote, app_nil_r. reflexivity.
  - unfold subst_quote in *. cbn [flat_map]. destruct (b =? 39) eqn:E.
    + apply N.eqb_eq in E; subst b. rewrite <- app_assoc, lex_run_app, Hq, IH.
      cbn [lit map]. rewrite <- app_assoc. reflexivity.
    + cbn [app]. rewrite lex_run_cons, (sq_other _ _ _ E), IH.
      cbn [lit map]. rewrite <- app_assoc. reflexivity.
Qed.

Lemma escape_with_appends_literal q : quote_safe q -> forall s st rest,
  lmode st = U ->
  lex_run st (escape_with q s ++ rest) = lex_run (with_cur st (cur_or_nil st ++ lit s)) rest.
Proof.
  intros Hq s [m c tk] rest Hm. cbn in Hm. subst m.
  unfold escape_with. cbn [app]. rewrite <- app_assoc. cbn [app].
  rewrite lex_run_cons, u_quote, (sq_body_with q Hq). reflexivity.
Qed.

Lemma escape_with_tokens q : quote_safe q -> forall s, tokens (escape_with q s) = Some [W (lit s)].
Proof.
  intros Hq s. unfold tokens. rewrite <- (app_nil_r (escape_with q s)).
  rewrite (escape_with_appends_literal q Hq) by reflexivity. reflexivity.
Qed.

Lemma escape_with_then_blank q : quote_safe q -> forall s pre post st,
  lex_run lex_init pre = st -> lmode st = U -> cur st = None ->
  lex_run lex_init (pre ++ escape_with q s ++ 32 :: post)
  = lex_run (mkLex U None (toks st ++ [W (lit s)])) post.
Proof.
  intros Hq s pre post st Hp Hm Hc.
  rewrite lex_run_app, Hp, (escape_with_appends_literal q Hq) by exact Hm.
  unfold with_cur, cur_or_nil. rewrite Hc. reflexivity.
Qed.

Lemma tilde_with_tokens q : quote_safe q -> forall r,
  tokens (126 :: 47 :: escape_with q r) = Some [W (Act 126 :: Lit 47 :: lit r)].
Proof.
  intros Hq r. unfold tokens. rewrite 2 lex_run_cons.
  change (lex_step (lex_step lex_init 126) 47) with (mkLex U (Some [Act 126; Lit 47]) []).
  rewrite <- (app_nil_r (escape_with q r)).
  rewrite (escape_with_appends_literal q Hq) by reflexivity. reflexivity.
Qed.
