(** Stage 1 of C01: appendJsonString followed by the closing quote is read back by the strict
    string parser as [sanitize s], for ALL byte strings. *)
From Coq Require Import List NArith Lia Bool ZArith.
From Coq Require Import ZifyBool ZifyN ZifyNat.
Import ListNotations.
From Glb Require Import Lib.Utf8 Proofs.Utf8P Lib.Json Proofs.JsonP Model.LoggerJson.
Open Scope N_scope.
Ltac Zify.zify_post_hook ::= Z.div_mod_to_equations.

(** ** unfolding lemmas for the string scanner *)
Lemma psb_quote f r : psb (S f) (34 :: r) = Some ([], r).
Proof. reflexivity. Qed.

Lemma psb_esc f t bs r :
  escape1 t = Some (bs, r) ->
  psb (S f) (92 :: t) = match psb f r with Some (o, r') => Some (bs ++ o, r') | None => None end.
Proof. intros H. rewrite psb_S. change (92 =? 34) with false. change (92 =? 92) with true. cbv iota. rewrite H. reflexivity. Qed.

Lemma psb_plain f b t :
  32 <= b -> b < 128 -> b <> 34 -> b <> 92 ->
  psb (S f) (b :: t) = match psb f t with Some (o, r') => Some (b :: o, r') | None => None end.
Proof.
  intros. rewrite psb_S.
  replace (b =? 34) with false by lia. replace (b =? 92) with false by lia.
  replace (b <? 32) with false by lia. replace (b <? 128) with true by lia. reflexivity.
Qed.

Lemma psb_multi f b t c k :
  128 <= b -> decode (b :: t) = (c, k) -> invalid (c, k) = false ->
  psb (S f) (b :: t) = match psb f (skipn k (b :: t)) with
                       | Some (o, r') => Some (firstn k (b :: t) ++ o, r')
                       | None => None
                       end.
Proof.
  intros Hb Hd Hi. rewrite psb_S.
  replace (b =? 34) with false by lia. replace (b =? 92) with false by lia.
  replace (b <? 32) with false by lia. replace (b <? 128) with false by lia.
  cbv zeta. rewrite Hd, Hi. reflexivity.
Qed.

(** ** hex digits *)
Lemma unhex_hexd x : x < 16 -> unhex (hexd x) = Some x.
Proof.
  intros Hx. unfold unhex, hexd. destruct (x <? 10) eqn:E.
  - replace ((48 <=? 48 + x) && (48 + x <? 58)) with true by lia. f_equal. lia.
  - replace ((48 <=? 87 + x) && (87 + x <? 58)) with false by lia.
    replace ((97 <=? 87 + x) && (87 + x <? 103)) with true by lia. f_equal. lia.
Qed.

Lemma escape1_u t : escape1 (117 :: t) = match uescape t with Some (c, t') => Some (enc c, t') | None => None end.
Proof. reflexivity. Qed.

Lemma escape1_u00 b rest :
  b < 32 -> escape1 (117 :: 48 :: 48 :: hexd (b / 16) :: hexd (b mod 16) :: rest) = Some ([b], rest).
Proof.
  intros Hb. rewrite escape1_u. unfold uescape, hex4.
  rewrite (unhex_hexd (b / 16)) by lia. rewrite (unhex_hexd (b mod 16)) by lia.
  change (unhex 48) with (Some 0). cbv iota beta.
  assert (E : 0 * 4096 + 0 * 256 + b / 16 * 16 + b mod 16 = b) by lia. rewrite E.
  unfold is_lo_surr, is_hi_surr.
  replace ((56320 <=? b) && (b <? 57344)) with false by lia.
  replace ((55296 <=? b) && (b <? 56320)) with false by lia.
  unfold enc. replace (b <? 128) with true by lia. reflexivity.
Qed.

Lemma enc_ge128 c x : 128 <= c -> In x (enc c) -> 128 <= x.
Proof.
  intros Hc. unfold enc. replace (c <? 128) with false by lia.
  destruct (c <? 2048); [|destruct (c <? 65536)]; cbn [In]; intros H;
    repeat (destruct H as [H|H]; [subst x; lia|]); contradiction.
Qed.

(** one step of the scanner over what [esc_ascii] printed *)
Lemma psb_over_ascii f b rest :
  b < 128 ->
  exists k, (k < length (esc_ascii b))%nat /\ (length (esc_ascii b) <= 6)%nat /\
  psb (S f) (esc_ascii b ++ rest) = match psb f rest with Some (o, r') => Some (b :: o, r') | None => None end.
Proof.
  intros Hb. unfold esc_ascii, safe.
  destruct ((32 <=? b) && (b <? 128) && negb (b =? 34) && negb (b =? 92)) eqn:Es.
  { exists 0%nat. cbn [length app]. split; [lia|]. split; [lia|]. apply psb_plain; lia. }
  destruct ((b =? 92) || (b =? 34)) eqn:Eq.
  { exists 0%nat. cbn [length app]. split; [lia|]. split; [lia|].
    rewrite (psb_esc f (b :: rest) [b] rest); [reflexivity|].
    unfold escape1. destruct (b =? 34) eqn:E34; [apply N.eqb_eq in E34; subst; reflexivity|].
    assert (b = 92) by lia. subst. reflexivity. }
  destruct (b =? 10) eqn:E10.
  { exists 0%nat. cbn [length app]. split; [lia|]. split; [lia|]. apply N.eqb_eq in E10. subst.
    rewrite (psb_esc f (110 :: rest) [10] rest); reflexivity. }
  destruct (b =? 13) eqn:E13.
  { exists 0%nat. cbn [length app]. split; [lia|]. split; [lia|]. apply N.eqb_eq in E13. subst.
    rewrite (psb_esc f (114 :: rest) [13] rest); reflexivity. }
  destruct (b =? 9) eqn:E9.
  { exists 0%nat. cbn [length app]. split; [lia|]. split; [lia|]. apply N.eqb_eq in E9. subst.
    rewrite (psb_esc f (116 :: rest) [9] rest); reflexivity. }
  exists 0%nat. cbn [length app]. split; [lia|]. split; [lia|].
  rewrite (psb_esc f _ [b] rest); [reflexivity|]. apply escape1_u00. lia.
Qed.

Lemma esc_ascii_no_nl b : b < 128 -> ~ In 10 (esc_ascii b).
Proof.
  intros Hb. unfold esc_ascii, safe, hexd.
  destruct ((32 <=? b) && (b <? 128) && negb (b =? 34) && negb (b =? 92)) eqn:Es.
  { cbn [In]. intros [H|[]]. lia. }
  destruct ((b =? 92) || (b =? 34)) eqn:Eq.
  { cbn [In]. intros [H|[H|[]]]; lia. }
  destruct (b =? 10); [cbn [In]; intros [H|[H|[]]]; lia|].
  destruct (b =? 13); [cbn [In]; intros [H|[H|[]]]; lia|].
  destruct (b =? 9); [cbn [In]; intros [H|[H|[]]]; lia|].
  cbn [In]. destruct (b / 16 <? 10); destruct (b mod 16 <? 10); intros H;
    repeat (destruct H as [H|H]; [lia|]); contradiction.
Qed.

(** ** the round trip, with explicit fuels *)
Lemma psb_ajs : forall n s r fuel,
  (length s <= n)%nat -> (length (ajs n s) < fuel)%nat ->
  psb fuel (ajs n s ++ 34 :: r) = Some (san n s, r).
Proof.
  induction n as [|n IH]; intros s r fuel Hl Hf.
  { destruct s; [|cbn [length] in Hl; lia]. cbn [ajs san app]. destruct fuel; [lia|]. apply psb_quote. }
  destruct s as [|b t].
  { cbn [ajs san app]. destruct fuel; [lia|]. apply psb_quote. }
  cbn [length] in Hl. cbn [ajs san] in *.
  destruct (b <? 128) eqn:Eb.
  - (* ASCII *)
    destruct fuel as [|f]; [lia|].
    destruct (psb_over_ascii f b (ajs n t ++ 34 :: r)) as (k & Hk & Hk6 & Hp); [lia|].
    rewrite <- app_assoc. rewrite Hp. rewrite IH; [reflexivity|lia|].
    rewrite app_length in Hf. lia.
  - (* multi-byte or invalid *)
    destruct (decode (b :: t)) as [c k] eqn:Ed.
    pose proof (decode_size b t) as Hsz. rewrite Ed in Hsz. cbn [snd fst] in *.
    destruct (invalid (c, k)) eqn:Ei.
    + (* invalid byte: � *)
      destruct fuel as [|f]; [lia|].
      cbn [app]. rewrite (psb_esc f _ [239; 191; 189] (ajs n t ++ 34 :: r)); [|reflexivity].
      rewrite IH; [reflexivity|lia|]. cbn [app length] in Hf. lia.
    + destruct (decode_valid_enc (b :: t) c k Ed Ei) as (Hfn & Hst & Hlen); [lia|].
      assert (Hsk : (length (skipn k (b :: t)) <= n)%nat) by (rewrite skipn_length; cbn [length]; lia).
      destruct ((c =? 8232) || (c =? 8233)) eqn:Els.
      * (* U+2028 / U+2029 *)
        destruct fuel as [|f]; [lia|].
        cbn [app]. rewrite Hfn.
        assert (Hc : c = 8232 \/ c = 8233) by lia.
        rewrite (psb_esc f _ (enc c) (ajs n (skipn k (b :: t)) ++ 34 :: r)).
        2:{ destruct Hc; subst c; reflexivity. }
        rewrite IH; [reflexivity|exact Hsk|]. cbn [app length] in Hf. lia.
      * (* copied unchanged *)
        destruct fuel as [|f]; [lia|].
        rewrite <- app_assoc.
        set (X := ajs n (skipn k (b :: t)) ++ 34 :: r).
        assert (Hhd : exists u, firstn k (b :: t) = b :: u).
        { destruct k; [lia|]. cbn [firstn]. eauto. }
        destruct Hhd as (u & Hu). rewrite Hu. cbn [app].
        rewrite (psb_multi f b (u ++ X) c k); [|lia| |exact Ei].
        2:{ change (b :: u ++ X) with ((b :: u) ++ X). rewrite <- Hu. apply Hst. }
        change (b :: u ++ X) with ((b :: u) ++ X). rewrite <- Hu.
        rewrite skipn_app, firstn_app, Hlen, Nat.sub_diag. cbn [skipn firstn].
        rewrite skipn_all2 by lia. rewrite firstn_all2 by lia. rewrite app_nil_r. cbn [app].
        subst X. rewrite IH; [rewrite ?Hu; reflexivity|exact Hsk|].
        rewrite app_length in Hf. lia.
Qed.

Theorem escape_roundtrip s r :
  parse_string_body (append_json_string s ++ 34 :: r) = Some (sanitize s, r).
Proof.
  unfold parse_string_body, append_json_string, sanitize. apply psb_ajs; [lia|].
  rewrite app_length. cbn [length]. lia.
Qed.

(** ** no newline is ever printed *)
Lemma ajs_no_nl : forall n s, ~ In 10 (ajs n s).
Proof.
  induction n as [|n IH]; intros s; [cbn; tauto|].
  destruct s as [|b t]; [cbn; tauto|]. cbn [ajs].
  destruct (b <? 128) eqn:Eb.
  { intros H. apply in_app_or in H as [H|H]; [revert H; apply esc_ascii_no_nl; lia|exact (IH _ H)]. }
  destruct (decode (b :: t)) as [c k] eqn:Ed.
  pose proof (decode_size b t) as Hsz. rewrite Ed in Hsz. cbn [snd fst] in *.
  destruct (invalid (c, k)) eqn:Ei.
  { intros H. apply in_app_or in H as [H|H]; [|exact (IH _ H)].
    cbn [In] in H. repeat (destruct H as [H|H]; [lia|]). contradiction. }
  destruct (decode_valid_enc (b :: t) c k Ed Ei) as (Hfn & Hst & Hlen); [lia|].
  destruct ((c =? 8232) || (c =? 8233)) eqn:Els.
  { intros H. apply in_app_or in H as [H|H]; [|exact (IH _ H)].
    unfold hexd in H. destruct (c mod 16 <? 10); cbn [In] in H; repeat (destruct H as [H|H]; [lia|]); contradiction. }
  intros H. apply in_app_or in H as [H|H]; [|exact (IH _ H)].
  rewrite Hfn in H.
  assert (128 <= c).
  { destruct (c <? 128) eqn:Ec; [|lia]. exfalso.
    assert (Hh : hd 0 (firstn k (b :: t)) = b) by (destruct k; [lia|reflexivity]).
    rewrite Hfn in Hh. unfold enc in Hh. rewrite Ec in Hh. cbn [hd] in Hh. lia. }
  apply (enc_ge128 c 10) in H; lia.
Qed.

Theorem append_json_string_no_newline s : ~ In 10 (append_json_string s).
Proof. apply ajs_no_nl. Qed.
