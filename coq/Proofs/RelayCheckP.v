(** The executable verdict of Check/C15.v accepts every behaviour of the model (Info level):
    SPECFAIL is never raised against something the theorems allow. *)
From Coq Require Import List NArith Bool Lia.
Import ListNotations.
From Glb Require Import Model.Relay Proofs.RelayP Check.C15.
Open Scope N_scope.

Lemma pval_eqb_refl p : pval_eqb p p = true.
Proof. destruct p; cbn; [reflexivity | apply N.eqb_refl]. Qed.
Lemma record_eqb_refl r : record_eqb r r = true.
Proof. destruct r; cbn [record_eqb]; rewrite ?N.eqb_refl, ?pval_eqb_refl; reflexivity. Qed.
Lemma record_eqb_upto_refl b r : record_eqb_upto b r r = true.
Proof.
  destruct r; cbn [record_eqb_upto]; try apply record_eqb_refl.
  rewrite !N.eqb_refl, orb_true_r. reflexivity.
Qed.
Lemma list_eqb_refl {A} (e : A -> A -> bool) l : (forall x, e x x = true) -> list_eqb e l l = true.
Proof. intros H. induction l as [|x l IH]; cbn [list_eqb]; [reflexivity | rewrite H, IH; reflexivity]. Qed.

(** body chunks of the script differ from the marker used for http.Error's text *)
Fixpoint no_err_chunk (sc : script) : bool :=
  match sc with
  | [] => true
  | Body _ ch :: r => negb (ch =? err_chunk) && no_err_chunk r
  | _ :: r => no_err_chunk r
  end.

Lemma memN_app x a b : memN x (a ++ b) = memN x a || memN x b.
Proof. induction a as [|y a IH]; cbn [app memN]; [reflexivity | rewrite IH, orb_assoc; reflexivity]. Qed.

Lemma wbody_write ch w : wbody (rw_write ch w) = wbody w ++ [ch].
Proof.
  destruct w as [st wh wb]. unfold rw_write, origin_write, origin_write_header, rw_write_header.
  cbn [status wire_hdr wbody]. destruct (st =? 0); destruct wh; reflexivity.
Qed.

Lemma exec_no_err_chunk sc : forall w, no_err_chunk sc = true ->
  memN err_chunk (wbody (fst (exec true sc w))) = memN err_chunk (wbody w).
Proof.
  induction sc as [|a r IH]; intros w H; cbn [exec fst]; [reflexivity|].
  destruct a; cbn [no_err_chunk] in H.
  - apply IH; assumption.
  - destruct (origin_rejects code w); [reflexivity|].
    rewrite IH by assumption. unfold rw_write_header, origin_write_header. destruct (wire_hdr w); reflexivity.
  - apply andb_prop in H. destruct H as [H1 H2]. rewrite IH by assumption.
    rewrite wbody_write, memN_app. cbn [memN]. apply negb_true_iff in H1.
    rewrite N.eqb_sym, H1. rewrite !orb_false_r. reflexivity.
  - rewrite IH by assumption. unfold rw_flush, origin_write_header. destruct (wire_hdr w); reflexivity.
  - reflexivity.
Qed.

Lemma exec_wire_stable sc : forall w c, wire_hdr w = Some c -> wire_hdr (fst (exec true sc w)) = Some c.
Proof.
  induction sc as [|a r IH]; intros w c H; cbn [exec fst]; [assumption|].
  destruct a.
  - apply IH; assumption.
  - unfold origin_rejects, started. rewrite H. cbn [negb andb].
    apply IH. unfold rw_write_header, origin_write_header. rewrite H. cbn. assumption.
  - apply IH. destruct w as [st wh wb]. cbn [wire_hdr] in H. subst wh.
    unfold rw_write, origin_write, origin_write_header, rw_write_header.
    cbn [status wire_hdr wbody]. destruct (st =? 0); reflexivity.
  - apply IH. unfold rw_flush, origin_write_header. rewrite H. cbn. assumption.
  - assumption.
Qed.

Lemma exec_wire_500 sc : forall w, wire_hdr w = None -> status w = 0 ->
  wire_hdr (fst (exec true sc w)) = Some 500 -> has_hdr 500 sc = true.
Proof.
  induction sc as [|a r IH]; intros w Hw Hs H; cbn [exec fst has_hdr] in *.
  - congruence.
  - destruct a.
    + apply (IH w); assumption.
    + destruct (500 =? code) eqn:E; [reflexivity|]. cbn [orb].
      destruct (origin_rejects code w); [cbn [fst] in H; congruence|].
      rewrite (exec_wire_stable r (rw_write_header code w) code) in H.
      * injection H as H. subst code. rewrite N.eqb_refl in E. discriminate.
      * destruct w as [st wh wb]. cbn [wire_hdr] in Hw. subst wh. reflexivity.
    + rewrite (exec_wire_stable r (rw_write chunk w) 200) in H; [discriminate|].
      destruct w as [st wh wb]. cbn [wire_hdr status] in Hw, Hs. subst wh st. reflexivity.
    + rewrite (exec_wire_stable r (rw_flush true w) 200) in H; [discriminate|].
      destruct w as [st wh wb]. cbn [wire_hdr status] in Hw, Hs. subst wh st. reflexivity.
    + cbn [fst] in H. congruence.
Qed.

Lemma check_accepts_model thr rq sc :
  enabled thr LInfo = true -> codes_ok sc = true -> no_abort sc -> no_err_chunk sc = true ->
  forall bs, let r := relay total_render thr rq sc in
  verdict_ok (check_case thr rq sc (escaped r) (wire r) bs (body r) (records r)) = true.
Proof.
  intros Hi Hc Hna Hne bs r.
  assert (Htot : forall v, total_render v <> None) by (intros v; discriminate).
  destruct (relay_info total_render thr rq sc Htot Hi Hc Hna) as (Hesc & H500 & Hsent & Hnot & Hrecs & Hlog).
  fold r in Hesc, H500, Hsent, Hnot, Hrecs, Hlog.
  assert (Hscope : no_abortb sc && codes_ok sc = true).
  { rewrite Hc. unfold no_abortb. unfold no_abort in Hna.
    destruct (panic_of sc) as [[|v]|]; [exfalso; apply Hna; reflexivity | reflexivity | reflexivity]. }
  unfold verdict_ok, spec_ok, check_case.
  cbn [spec_noescape spec_500 spec_records model_ok model_body]. fold r. rewrite Hscope, Hesc. cbn [negb orb].
  (* model part *)
  rewrite N.eqb_refl, (list_eqb_refl N.eqb (body r) N.eqb_refl),
    (list_eqb_refl (record_eqb_upto (set_once sc)) (records r) (record_eqb_upto_refl _)).
  rewrite orb_true_r. cbn [Bool.eqb andb].
  (* 500 part *)
  assert (G500 : (if panics_before_header sc
                  then wire r =? 500
                  else negb (wire r =? 500) || has_hdr 500 sc) = true).
  { destruct (panics_before_header sc) eqn:Ep.
    - destruct (Hsent (proj2 H500 eq_refl)) as [Hw Hb]. rewrite Hw. reflexivity.
    - assert (Hr : relay500 r = false).
      { destruct (relay500 r) eqn:E; [|reflexivity]. pose proof (proj1 H500 eq_refl). discriminate. }
      destruct (Hnot Hr) as [Hw Hb].
      destruct (wire r =? 500) eqn:E5; [|reflexivity]. cbn [negb orb].
      apply N.eqb_eq in E5. unfold wire in E5. rewrite Hw in E5.
      destruct (wire_hdr (fst (exec true sc rw0))) as [c|] eqn:Ew; [|discriminate].
      subst c. apply (exec_wire_500 sc rw0); [reflexivity | reflexivity | assumption]. }
  rewrite G500.
  (* records part *)
  assert (He : enabled thr LError = true) by (apply info_implies_error; assumption).
  assert (Gend : end_ok sc (wire r) rq (END (logged r) (rip rq) (rmethod rq) (ruri rq) (rid rq)) = true).
  { unfold end_ok. rewrite !N.eqb_refl. destruct (set_once sc) eqn:Es; [rewrite (Hlog eq_refl), N.eqb_refl|]; reflexivity. }
  assert (Grec : records_ok thr rq sc (wire r) (records r) = true).
  { unfold records_ok. rewrite Hi, He, Hrecs. cbn [andb].
    destruct (panic_of sc) as [p|] eqn:Ep; cbn [is_some app].
    - unfold beg_ok, err_ok. rewrite Ep, !record_eqb_refl, Gend. reflexivity.
    - unfold beg_ok. rewrite record_eqb_refl, Gend. reflexivity. }
  rewrite Grec. reflexivity.
Qed.
