From Coq Require Import List NArith Lia Bool ZArith.
From Coq Require Import ZifyBool ZifyN ZifyNat.
Import ListNotations.
From Glb Require Import Lib.Utf8.
Open Scope N_scope.
Ltac Zify.zify_post_hook ::= Z.div_mod_to_equations.

Lemma bytes_eqb_eq a b : bytes_eqb a b = true <-> a = b.
Proof.
  revert b; induction a as [|x a IH]; intros [|y b]; cbn; split; intros H; try discriminate; try reflexivity.
  - apply andb_true_iff in H as [H1 H2]. apply N.eqb_eq in H1. apply IH in H2. subst. reflexivity.
  - inversion H; subst. rewrite N.eqb_refl. cbn. apply IH. reflexivity.
Qed.

(* Key lemma: a valid multi-byte decode yields exactly enc c as its first size bytes, and is stable under changing the tail *)
Lemma decode_valid_enc s c n :
  decode s = (c, n) -> invalid (c, n) = false -> (n > 0)%nat ->
  firstn n s = enc c /\ (forall r, decode (firstn n s ++ r) = (c, n)) /\ length (firstn n s) = n.
Proof.
  unfold decode, invalid, enc, cont, RE; cbn [fst snd].
  destruct s as [|b0 t]; [intros H; inversion H; lia|].
  destruct (b0 <? 128) eqn:E0.
  { intros H; inversion H; subst. intros _ _. cbn [firstn app length]. rewrite E0. repeat split. }
  destruct (b0 <? 194) eqn:E1.
  { intros H; inversion H; subst. cbn. discriminate. }
  destruct (b0 <? 224) eqn:E2.
  { destruct t as [|b1 t]; [intros H; inversion H; subst; cbn; discriminate|].
    destruct ((128 <=? b1) && (b1 <? 192)) eqn:E3; [|intros H; inversion H; subst; cbn; discriminate].
    intros H; inversion H; subst. intros _ _.
    assert (Hc: ((b0 - 192) * 64 + (b1 - 128) <? 128) = false) by lia.
    assert (Hc2: ((b0 - 192) * 64 + (b1 - 128) <? 2048) = true) by lia.
    rewrite Hc, Hc2. cbn [firstn app length].
    rewrite E0, E1, E2, E3. repeat split.
    f_equal; [lia|]. f_equal. lia. }
  destruct (b0 <? 240) eqn:E4.
  { destruct t as [|b1 [|b2 t]]; try (intros H; inversion H; subst; cbn; discriminate).
    match goal with |- context [if ?c then (_, 3%nat) else _] => destruct c eqn:E3 end;
      [|intros H; inversion H; subst; cbn; discriminate].
    intros H; inversion H; subst. intros _ _.
    assert (Hc: ((b0 - 224) * 4096 + (b1 - 128) * 64 + (b2 - 128) <? 128) = false) by (destruct (b0 =? 224) eqn:?; destruct (b0 =? 237) eqn:?; lia).
    assert (Hc1: ((b0 - 224) * 4096 + (b1 - 128) * 64 + (b2 - 128) <? 2048) = false) by (destruct (b0 =? 224) eqn:?; destruct (b0 =? 237) eqn:?; lia).
    assert (Hc2: ((b0 - 224) * 4096 + (b1 - 128) * 64 + (b2 - 128) <? 65536) = true) by (destruct (b0 =? 224) eqn:?; destruct (b0 =? 237) eqn:?; lia).
    rewrite Hc, Hc1, Hc2. cbn [firstn app length].
    rewrite E0, E1, E2, E4, E3. repeat split.
    destruct (b0 =? 224) eqn:?; destruct (b0 =? 237) eqn:?; (f_equal; [lia|]; f_equal; [lia|]; f_equal; lia). }
  destruct (b0 <? 245) eqn:E5.
  { destruct t as [|b1 [|b2 [|b3 t]]]; try (intros H; inversion H; subst; cbn; discriminate).
    match goal with |- context [if ?c then (_, 4%nat) else _] => destruct c eqn:E3 end;
      [|intros H; inversion H; subst; cbn; discriminate].
    intros H; inversion H; subst. intros _ _.
    set (c := (b0 - 240) * 262144 + (b1 - 128) * 4096 + (b2 - 128) * 64 + (b3 - 128)).
    assert (Hc: (c <? 128) = false) by (subst c; destruct (b0 =? 240) eqn:?; destruct (b0 =? 244) eqn:?; lia).
    assert (Hc1: (c <? 2048) = false) by (subst c; destruct (b0 =? 240) eqn:?; destruct (b0 =? 244) eqn:?; lia).
    assert (Hc2: (c <? 65536) = false) by (subst c; destruct (b0 =? 240) eqn:?; destruct (b0 =? 244) eqn:?; lia).
    rewrite Hc, Hc1, Hc2. cbn [firstn app length].
    rewrite E0, E1, E2, E4, E5, E3. repeat split.
    subst c; destruct (b0 =? 240) eqn:?; destruct (b0 =? 244) eqn:?; (f_equal; [lia|]; f_equal; [lia|]; f_equal; [lia|]; f_equal; lia). }
  intros H; inversion H; subst; cbn; discriminate.
Qed.
