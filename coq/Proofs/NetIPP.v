(** Lemmas about Lib/NetIP.v: which masks net.IPMask.Size() accepts as IPv4 netmasks, and what
    [cidr_arg] (the specification's reading of an Add/Remove argument) means. *)
From Coq Require Import List Arith NArith ZArith Bool Lia ZifyBool ZifyN ZifyNat.
Import ListNotations.
From Glb Require Import Lib.NetIP Lib.CidrSet.
Open Scope N_scope.

(* ------------------------------------------------------------------ what Mask.Size() accepts *)

Definition byte_ones_ok (v : N) : bool :=
  let '(k, v') := byte_ones 8 v 0 in
  if v' =? 0 then (k <=? 8) && (v =? 256 - 2 ^ (8 - k)) else true.

Lemma byte_ones_sweep : forallb byte_ones_ok (map N.of_nat (seq 0 256)) = true.
Proof. vm_compute. reflexivity. Qed.

Lemma byte_ones_spec v k : v < 256 -> byte_ones 8 v 0 = (k, 0) -> k <= 8 /\ v = 256 - 2 ^ (8 - k).
Proof.
  intros Hv H. pose proof byte_ones_sweep as S. rewrite forallb_forall in S.
  assert (Hin : In v (map N.of_nat (seq 0 256))).
  { apply in_map_iff. exists (N.to_nat v). split; [lia|]. apply in_seq. lia. }
  specialize (S v Hin). unfold byte_ones_ok in S. rewrite H in S. cbn [N.eqb] in S.
  apply andb_true_iff in S. destruct S as [S1 S2]. split; [lia|]. apply N.eqb_eq. exact S2.
Qed.

Lemma mask_bytes_sweep :
  forallb (fun n => let m := bytes_of_u32 (pmask n) in
                    (fst (mask_size m) =? n) && (snd (mask_size m) =? 32) && (be32 m =? pmask n)
                    && forallb (fun b => b <? 256) m)
          (map N.of_nat (seq 0 33)) = true.
Proof. vm_compute. reflexivity. Qed.

Ltac enum_k k :=
  let H := fresh in
  assert (H : k = 0 \/ k = 1 \/ k = 2 \/ k = 3 \/ k = 4 \/ k = 5 \/ k = 6 \/ k = 7 \/ k = 8) by lia;
  repeat (destruct H as [H|H]); subst k.

Lemma is_zeros_spec l : is_zeros l = true -> Forall (fun b => b = 0) l.
Proof.
  unfold is_zeros. rewrite forallb_forall. intros H. apply Forall_forall. intros x Hx.
  apply N.eqb_eq. apply H. exact Hx.
Qed.

Ltac zeros Z :=
  apply is_zeros_spec in Z;
  repeat match type of Z with Forall _ (_ :: _) => let a := fresh in let b := fresh in inversion Z as [|? ? a b]; subst; clear Z; rename b into Z end.

(** a 4-byte mask is accepted with [n] ones iff it is the netmask of /n *)
Lemma sml4 b0 b1 b2 b3 n :
  b0 < 256 -> b1 < 256 -> b2 < 256 -> b3 < 256 ->
  simple_mask_length [b0; b1; b2; b3] = Some n ->
  n <= 32 /\ [b0; b1; b2; b3] = bytes_of_u32 (pmask n).
Proof.
  intros H0 H1 H2 H3. cbn [simple_mask_length].
  destruct (b0 =? 255) eqn:E0.
  2:{ destruct (byte_ones 8 b0 0) as [k v'] eqn:B. destruct (v' =? 0) eqn:Ev; cbn [negb]; [|discriminate].
      destruct (is_zeros [b1; b2; b3]) eqn:Z; [|discriminate]. intros H. inversion H. subst n.
      apply N.eqb_eq in Ev. subst v'. destruct (byte_ones_spec _ _ H0 B) as [Hk Hb]. zeros Z.
      enum_k k; (split; [lia | subst; vm_compute; reflexivity]). }
  apply N.eqb_eq in E0. subst b0.
  destruct (b1 =? 255) eqn:E1.
  2:{ destruct (byte_ones 8 b1 0) as [k v'] eqn:B. destruct (v' =? 0) eqn:Ev; cbn [negb]; [|discriminate].
      destruct (is_zeros [b2; b3]) eqn:Z; [|discriminate]. cbn [option_map]. intros H. inversion H. subst n.
      apply N.eqb_eq in Ev. subst v'. destruct (byte_ones_spec _ _ H1 B) as [Hk Hb]. zeros Z.
      enum_k k; (split; [lia | subst; vm_compute; reflexivity]). }
  apply N.eqb_eq in E1. subst b1.
  destruct (b2 =? 255) eqn:E2.
  2:{ destruct (byte_ones 8 b2 0) as [k v'] eqn:B. destruct (v' =? 0) eqn:Ev; cbn [negb]; [|discriminate].
      destruct (is_zeros [b3]) eqn:Z; [|discriminate]. cbn [option_map]. intros H. inversion H. subst n.
      apply N.eqb_eq in Ev. subst v'. destruct (byte_ones_spec _ _ H2 B) as [Hk Hb]. zeros Z.
      enum_k k; (split; [lia | subst; vm_compute; reflexivity]). }
  apply N.eqb_eq in E2. subst b2.
  destruct (b3 =? 255) eqn:E3.
  2:{ destruct (byte_ones 8 b3 0) as [k v'] eqn:B. destruct (v' =? 0) eqn:Ev; cbn [negb]; [|discriminate].
      cbn [is_zeros forallb option_map]. intros H. inversion H. subst n.
      apply N.eqb_eq in Ev. subst v'. destruct (byte_ones_spec _ _ H3 B) as [Hk Hb].
      enum_k k; (split; [lia | subst; vm_compute; reflexivity]). }
  apply N.eqb_eq in E3. subst b3. cbn [option_map]. intros H. inversion H. split; [lia | vm_compute; reflexivity].
Qed.

Ltac Zify.zify_post_hook ::= Z.div_mod_to_equations.

Lemma bytes_of_be32 a b c d :
  a < 256 -> b < 256 -> c < 256 -> d < 256 -> bytes_of_u32 (be32 [a; b; c; d]) = [a; b; c; d].
Proof.
  intros. unfold bytes_of_u32, be32.
  repeat f_equal; lia.
Qed.

Definition wf_bytes (l : list N) : Prop := Forall (fun b => b < 256) l.

Theorem mask_size_meaning m n :
  wf_bytes m ->
  (mask_size m = (n, 32) <-> length m = 4%nat /\ n <= 32 /\ be32 m = pmask n).
Proof.
  intros W. split.
  - unfold mask_size. destruct (simple_mask_length m) as [k|] eqn:E; [|intros H; inversion H].
    intros H. assert (Hk : k = n) by congruence. assert (Hb : 8 * N.of_nat (length m) = 32) by congruence.
    subst k. clear H. assert (Hl : length m = 4%nat) by lia.
    destruct m as [|b0 [|b1 [|b2 [|b3 [|]]]]]; cbn [length] in Hl; try lia.
    inversion W as [|? ? W0 W']; subst. inversion W' as [|? ? W1 W'']; subst.
    inversion W'' as [|? ? W2 W''']; subst. inversion W''' as [|? ? W3 _]; subst.
    destruct (sml4 _ _ _ _ _ W0 W1 W2 W3 E) as [Hn Hm]. split; [reflexivity|]. split; [exact Hn|].
    rewrite Hm. pose proof mask_bytes_sweep as S. rewrite forallb_forall in S.
    assert (Hin : In n (map N.of_nat (seq 0 33))).
    { apply in_map_iff. exists (N.to_nat n). split; [lia|]. apply in_seq. lia. }
    specialize (S n Hin). cbn zeta in S. rewrite !andb_true_iff in S. apply N.eqb_eq. tauto.
  - intros (Hl & Hn & Hb).
    destruct m as [|b0 [|b1 [|b2 [|b3 [|]]]]]; cbn [length] in Hl; try lia.
    inversion W as [|? ? W0 W']; subst. inversion W' as [|? ? W1 W'']; subst.
    inversion W'' as [|? ? W2 W''']; subst. inversion W''' as [|? ? W3 _]; subst.
    rewrite <- (bytes_of_be32 b0 b1 b2 b3) by assumption. rewrite Hb.
    pose proof mask_bytes_sweep as S. rewrite forallb_forall in S.
    assert (Hin : In n (map N.of_nat (seq 0 33))).
    { apply in_map_iff. exists (N.to_nat n). split; [lia|]. apply in_seq. lia. }
    specialize (S n Hin). cbn zeta in S. rewrite !andb_true_iff in S.
    destruct S as [[[S1 S2] _] _]. apply N.eqb_eq in S1, S2.
    destruct (mask_size (bytes_of_u32 (pmask n))) as [x y]. cbn [fst snd] in *. congruence.
Qed.

(** an argument is accepted exactly when its mask is the 4-byte netmask of some /n and its
    address has 4 bytes; then it denotes (address, n) *)
Theorem cidr_arg_meaning c nip n :
  wf_bytes (c_mask c) ->
  (cidr_arg c = Some (nip, n) <->
   length (c_ip c) = 4%nat /\ length (c_mask c) = 4%nat /\ n <= 32 /\ be32 (c_mask c) = pmask n /\ nip = be32 (c_ip c)).
Proof.
  intros W. unfold cidr_arg. destruct (mask_size (c_mask c)) as [ones bits] eqn:E. split.
  - destruct (bits =? 32) eqn:Eb; [|discriminate]. apply N.eqb_eq in Eb. subst bits.
    destruct (ones <=? 32) eqn:Eo; [|discriminate].
    destruct (Nat.eqb_spec (length (c_ip c)) 4) as [El|]; [|discriminate]. cbn [andb].
    intros H. inversion H. subst. apply (mask_size_meaning _ _ W) in E. tauto.
  - intros (H1 & H2 & H3 & H4 & H5).
    assert (E' : mask_size (c_mask c) = (n, 32)) by (apply (mask_size_meaning _ _ W); tauto).
    rewrite E in E'. inversion E'. subst. rewrite N.eqb_refl. replace (n <=? 32) with true by lia.
    rewrite H1. reflexivity.
Qed.
