From Coq Require Import List NArith Bool Lia.
Import ListNotations.
From Glb Require Import Lib.Shell Model.ShellEscape.
Open Scope N_scope.

Definition with_cur (st : lex) (w : word) : lex := mkLex U (Some w) (toks st).

Lemma lex_run_app st a b : lex_run st (a ++ b) = lex_run (lex_run st a) b.
Proof. unfold lex_run. apply fold_left_app. Qed.

Lemma lit_app a b : lit (a ++ b) = lit a ++ lit b.
Proof. unfold lit. apply map_app. Qed.

Lemma lex_run_cons st b l : lex_run st (b :: l) = lex_run (lex_step st b) l.
Proof. reflexivity. Qed.

Lemma sq_quote w tk : lex_step (mkLex SQ (Some w) tk) 39 = mkLex U (Some w) tk.
Proof. reflexivity. Qed.
Lemma sq_other w tk b : (b =? 39) = false ->
  lex_step (mkLex SQ (Some w) tk) b = mkLex SQ (Some (w ++ [Lit b])) tk.
Proof. intros E. unfold lex_step; cbn [lmode]. rewrite E. reflexivity. Qed.
Lemma u_quote c tk : lex_step (mkLex U c tk) 39 = mkLex SQ (Some (match c with Some w => w | None => [] end)) tk.
Proof. reflexivity. Qed.
Lemma u_dquote w tk : lex_step (mkLex U (Some w) tk) 34 = mkLex DQ (Some w) tk.
Proof. reflexivity. Qed.
Lemma dq_quote w tk : lex_step (mkLex DQ (Some w) tk) 39 = mkLex DQ (Some (w ++ [Lit 39])) tk.
Proof. reflexivity. Qed.
Lemma dq_dquote w tk : lex_step (mkLex DQ (Some w) tk) 34 = mkLex U (Some w) tk.
Proof. reflexivity. Qed.

(** Inside single quotes: the replaced body followed by the closing quote appends
    exactly the literal characters of [s] and returns to unquoted mode. *)
Lemma sq_body : forall s w tk rest,
  lex_run (mkLex SQ (Some w) tk) (replace_quote s ++ 39 :: rest)
  = lex_run (mkLex U (Some (w ++ lit s)) tk) rest.
Proof.
  induction s as [|b r IH]; intros w tk rest.
  - cbn [replace_quote app lit map]. rewrite lex_run_cons, sq_quote, app_nil_r. reflexivity.
  - cbn [replace_quote]. destruct (b =? 39) eqn:E.
    + apply N.eqb_eq in E; subst b. cbn [app].
      rewrite lex_run_cons, sq_quote, lex_run_cons, u_dquote, lex_run_cons, dq_quote,
        lex_run_cons, dq_dquote, lex_run_cons, u_quote.
      rewrite IH. cbn [lit map]. rewrite <- app_assoc. reflexivity.
    + cbn [app]. rewrite lex_run_cons, (sq_other _ _ _ E), IH.
      cbn [lit map]. rewrite <- app_assoc. reflexivity.
Qed.

(** Main lemma: from any unquoted state, reading [shell_escape s] appends the
    literal characters of [s] to the current word (starting one if necessary) and
    leaves the lexer in unquoted mode, whatever follows. *)
Lemma escape_appends_literal : forall s st rest,
  lmode st = U ->
  lex_run st (shell_escape s ++ rest) = lex_run (with_cur st (cur_or_nil st ++ lit s)) rest.
Proof.
  intros s [m c tk] rest Hm. cbn in Hm. subst m.
  unfold shell_escape. cbn [app]. rewrite <- app_assoc. cbn [app].
  rewrite lex_run_cons, u_quote, sq_body. reflexivity.
Qed.

Lemma escape_tokens s : tokens (shell_escape s) = Some [W (lit s)].
Proof.
  unfold tokens. rewrite <- (app_nil_r (shell_escape s)).
  rewrite escape_appends_literal by reflexivity. reflexivity.
Qed.

Lemma all_lit_lit s : all_lit (lit s) = Some s.
Proof. induction s as [|b r IH]; [reflexivity|]. cbn [lit map all_lit]. fold (lit r). rewrite IH. reflexivity. Qed.

Lemma word_value_lit home s : word_value home (lit s) = Some s.
Proof.
  destruct s as [|b r]; [reflexivity|]. cbn [lit map word_value].
  fold (lit r). apply (all_lit_lit (b :: r)).
Qed.

(** Context form: [pre] leaves the lexer between two words (e.g. it ends in a
    blank), [post] is arbitrary. Then exactly one word [lit s] is added between what
    [pre] produced and what [post] produces from a state that is inside that word. *)
Lemma escape_in_context s pre post st :
  lex_run lex_init pre = st -> lmode st = U -> cur st = None ->
  lex_run lex_init (pre ++ shell_escape s ++ post)
  = lex_run (mkLex U (Some (lit s)) (toks st)) post.
Proof.
  intros Hp Hm Hc. rewrite lex_run_app, Hp, escape_appends_literal by exact Hm.
  unfold with_cur, cur_or_nil. rewrite Hc. reflexivity.
Qed.

(** A following blank ends the word: the token list grows by exactly [W (lit s)]. *)
Lemma escape_then_blank s pre post st :
  lex_run lex_init pre = st -> lmode st = U -> cur st = None ->
  lex_run lex_init (pre ++ shell_escape s ++ 32 :: post)
  = lex_run (mkLex U None (toks st ++ [W (lit s)])) post.
Proof.
  intros Hp Hm Hc. rewrite (escape_in_context s pre (32 :: post) st Hp Hm Hc). reflexivity.
Qed.

(** ShellEscapeExceptTilde *)
Lemma except_tilde_not_prefix s :
  (forall r, s <> 126 :: 47 :: r) -> shell_escape_except_tilde s = shell_escape s.
Proof.
  intros H. unfold shell_escape_except_tilde.
  destruct s as [|a [|b r]]; try reflexivity.
  destruct (a =? 126) eqn:Ea; [|reflexivity].
  destruct (b =? 47) eqn:Eb; [|reflexivity].
  apply N.eqb_eq in Ea, Eb. subst. exfalso. apply (H r). reflexivity.
Qed.

Lemma except_tilde_tokens r :
  tokens (shell_escape_except_tilde (126 :: 47 :: r)) = Some [W (Act 126 :: Lit 47 :: lit r)].
Proof.
  unfold shell_escape_except_tilde, tokens. cbn [N.eqb Pos.eqb andb].
  rewrite 2 lex_run_cons.
  change (lex_step (lex_step lex_init 126) 47) with (mkLex U (Some [Act 126; Lit 47]) []).
  rewrite <- (app_nil_r (shell_escape r)).
  rewrite escape_appends_literal by reflexivity. reflexivity.
Qed.

Lemma except_tilde_value home r :
  word_value home (Act 126 :: Lit 47 :: lit r) = Some (home ++ 47 :: r).
Proof. cbn [word_value]. rewrite all_lit_lit. reflexivity. Qed.
