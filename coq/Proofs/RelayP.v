From Coq Require Import List NArith Bool Arith Lia.
Import ListNotations.
From Glb Require Import Model.Relay.
Open Scope N_scope.

(** * The handler *)

(** from a state in which no header went out: the handler writes nothing (it returns, panics, or its
    first WriteHeader is rejected by net/http) *)
Fixpoint writes_nothing (sc : script) : bool :=
  match sc with
  | [] => true
  | Nop :: r => writes_nothing r
  | Panic _ :: _ => true
  | Hdr c :: _ => invalid_code c
  | _ => false
  end.

Lemma started_write_header c w : started (rw_write_header c w) = true.
Proof. destruct w as [st [h|] wb]; reflexivity. Qed.
Lemma started_write ch w : started (rw_write ch w) = true.
Proof.
  destruct w as [st wh wb]. unfold started, rw_write, origin_write, origin_write_header, rw_write_header.
  cbn [status wire_hdr wbody]. destruct (st =? 0); destruct wh; reflexivity.
Qed.
Lemma started_flush fr w : started (rw_flush fr w) = true.
Proof. destruct w as [st [h|] wb]; reflexivity. Qed.

Lemma exec_panic sc : forall w, snd (exec true sc w) = panic_from (started w) sc.
Proof.
  induction sc as [|a r IH]; intros w; [reflexivity|]. destruct a; cbn [exec panic_from]; auto.
  - unfold origin_rejects. destruct (negb (started w) && invalid_code code); [reflexivity|].
    rewrite IH, started_write_header. reflexivity.
  - rewrite IH, started_write. reflexivity.
  - rewrite IH, started_flush. reflexivity.
Qed.
Lemma exec_panic0 sc : snd (exec true sc rw0) = panic_of sc.
Proof. apply exec_panic. Qed.

Lemma pbh_spec sc : panics_before_header sc = true <-> writes_nothing sc = true /\ panic_of sc <> None.
Proof.
  unfold panic_of.
  induction sc as [|a r IH]; cbn [panics_before_header writes_nothing panic_from].
  - split; [discriminate | intros [_ H]; contradiction].
  - destruct a; try exact IH.
    + cbn [negb andb]. destruct (invalid_code code).
      * split; [intros _; split; [reflexivity | discriminate] | reflexivity].
      * split; [discriminate | intros [H _]; discriminate].
    + split; [discriminate | intros [H _]; discriminate].
    + split; [discriminate | intros [H _]; discriminate].
    + split; [intros _; split; [reflexivity | discriminate] | reflexivity].
Qed.

Lemma status_write_header c w : status (rw_write_header c w) = c.
Proof. reflexivity. Qed.

Lemma status_write ch w : status (rw_write ch w) = if status w =? 0 then 200 else status w.
Proof.
  unfold rw_write. destruct (status w =? 0); unfold origin_write, origin_write_header;
    [destruct (wire_hdr (rw_write_header 200 w)) | destruct (wire_hdr w)]; reflexivity.
Qed.

Lemma status_flush w : status (rw_flush true w) = if status w =? 0 then 200 else status w.
Proof. reflexivity. Qed.

(** once a header went out the recorded status stays non-zero *)
Lemma exec_status_nz sc : forall w, codes_ok_from true sc = true -> started w = true -> status w <> 0 ->
  status (fst (exec true sc w)) <> 0.
Proof.
  induction sc as [|a r IH]; intros w Hc Hst Hs; cbn [exec fst]; [assumption|].
  destruct a; cbn [codes_ok_from] in Hc.
  - apply IH; assumption.
  - unfold origin_rejects. rewrite Hst. cbn [negb andb].
    apply andb_prop in Hc. destruct Hc as [Hnz Hc]. apply negb_true_iff, N.eqb_neq in Hnz.
    apply IH; [assumption | apply started_write_header | rewrite status_write_header; assumption].
  - apply IH; [assumption | apply started_write |]. rewrite status_write. destruct (status w =? 0); [lia | assumption].
  - apply IH; [assumption | apply started_flush |]. rewrite status_flush. destruct (status w =? 0); [lia | assumption].
  - assumption.
Qed.

Lemma exec_status0 sc : forall w, codes_ok_from false sc = true -> started w = false -> status w = 0 ->
  (status (fst (exec true sc w)) = 0 <-> writes_nothing sc = true).
Proof.
  induction sc as [|a r IH]; intros w Hc Hst Hs; cbn [exec fst writes_nothing].
  - tauto.
  - destruct a; cbn [codes_ok_from] in Hc.
    + apply IH; assumption.
    + unfold origin_rejects. rewrite Hst. cbn [negb andb].
      destruct (invalid_code code) eqn:Ei.
      * cbn [fst]. tauto.
      * apply andb_prop in Hc. destruct Hc as [Hlo Hc]. apply N.leb_le in Hlo. split; [|discriminate].
        intros H. exfalso. revert H.
        apply exec_status_nz; [assumption | apply started_write_header | rewrite status_write_header; lia].
    + split; [|discriminate].
      intros H. exfalso. revert H. apply exec_status_nz; [assumption | apply started_write |].
      rewrite status_write, Hs. cbn. lia.
    + split; [|discriminate].
      intros H. exfalso. revert H. apply exec_status_nz; [assumption | apply started_flush |].
      rewrite status_flush, Hs. cbn. lia.
    + cbn [fst]. tauto.
Qed.

Lemma exec_writes_nothing sc : forall w, started w = false -> writes_nothing sc = true -> fst (exec true sc w) = w.
Proof.
  induction sc as [|a r IH]; intros w Hst H; [reflexivity|].
  destruct a; cbn [writes_nothing] in H; try discriminate; cbn [exec]; auto.
  unfold origin_rejects. rewrite Hst, H. reflexivity.
Qed.

(** [agree]: what ResponseWriter recorded is what went out *)
Definition agree (w : rw) : Prop :=
  match wire_hdr w with None => status w = 0 | Some c => status w = c /\ c <> 0 end.

Lemma exec_agree sc : forall w, agree w -> codes_ok_from (started w) sc = true -> set_once_from (started w) sc = true ->
  agree (fst (exec true sc w)).
Proof.
  induction sc as [|a r IH]; intros w Ha Hc Hs; cbn [exec fst]; [assumption|].
  destruct a; cbn [codes_ok_from set_once_from] in *.
  - apply IH; assumption.
  - unfold origin_rejects. unfold started in Hs, Hc |- *. destruct (wire_hdr w) eqn:Ew; [discriminate|].
    cbn [negb andb]. destruct (invalid_code code) eqn:Ei; [assumption|].
    apply andb_prop in Hc. destruct Hc as [Hlo Hc]. apply N.leb_le in Hlo.
    apply IH.
    + unfold agree, rw_write_header, origin_write_header. rewrite Ew. cbn. split; [reflexivity | lia].
    + rewrite started_write_header. assumption.
    + rewrite started_write_header. assumption.
  - assert (Hw : agree (rw_write chunk w) /\ started (rw_write chunk w) = true).
    { destruct w as [st wh wb]. unfold agree in Ha. cbn [wire_hdr status] in Ha.
      unfold rw_write, agree, started. cbn [status].
      destruct wh as [c|].
      - destruct Ha as [Hst Hn]. assert (E : (st =? 0) = false) by (apply N.eqb_neq; lia).
        rewrite E. cbn. auto.
      - subst st. cbn. split; [split; [reflexivity | lia] | reflexivity]. }
    destruct Hw as [Hw1 Hw2]. apply IH; [assumption | rewrite Hw2; assumption | rewrite Hw2; assumption].
  - assert (Hw : agree (rw_flush true w) /\ started (rw_flush true w) = true).
    { destruct w as [st wh wb]. unfold agree in Ha. cbn [wire_hdr status] in Ha.
      unfold rw_flush, origin_write_header, agree, started. cbn [status wire_hdr wbody andb].
      destruct wh as [c|].
      - destruct Ha as [Hst Hn]. assert (E : (st =? 0) = false) by (apply N.eqb_neq; lia).
        rewrite E. cbn. auto.
      - subst st. cbn. split; [split; [reflexivity | lia] | reflexivity]. }
    destruct Hw as [Hw1 Hw2]. apply IH; [assumption | rewrite Hw2; assumption | rewrite Hw2; assumption].
  - assumption.
Qed.

Lemma agree_rw0 : agree rw0.
Proof. reflexivity. Qed.

(** what the handler wrote is untouched unless Relay calls http.Error *)
Lemma http_error_on_fresh w : status w = 0 -> agree w ->
  wire_hdr (http_error_500 w) = Some 500 /\ status (http_error_500 w) = 500
  /\ wbody (http_error_500 w) = wbody w ++ [err_chunk].
Proof.
  intros Hs Ha. unfold agree in Ha. destruct (wire_hdr w) eqn:Ew; [destruct Ha; congruence|].
  unfold http_error_500, rw_write, rw_write_header, origin_write, origin_write_header. rewrite Ew. cbn.
  auto.
Qed.

(** * Relay *)
Section RelayProofs.
  Variable render : N -> option N.

  Lemma info_implies_error thr : enabled thr LInfo = true -> enabled thr LError = true.
  Proof. unfold enabled, LInfo, LError. intros H. apply N.leb_le in H. apply N.leb_le. lia. Qed.

  Lemma all_ids thr rq sc : Forall (fun x => rec_id x = rid rq) (records (relay render thr rq sc)).
  Proof.
    unfold relay, relay_gen. destruct (exec true sc rw0) as [w1 p].
    destruct (recover_block render thr rq w1 p) as [[[w2 recs1] sent] esc] eqn:Er.
    destruct (end_block thr rq w2) as [w3 recs2] eqn:Ee. cbn [records].
    apply Forall_app. split; [|apply Forall_app; split].
    - destruct (enabled thr LInfo); repeat constructor.
    - unfold recover_block in Er. destruct p as [[|v]|].
      + injection Er as <- <- <- <-. constructor.
      + destruct (enabled thr LError).
        * destruct (render v).
          -- destruct (status w1 =? 0); injection Er as <- <- <- <-; repeat constructor.
          -- injection Er as <- <- <- <-. constructor.
        * destruct (status w1 =? 0); injection Er as <- <- <- <-; constructor.
      + injection Er as <- <- <- <-. constructor.
    - unfold end_block in Ee. destruct (enabled thr LInfo); injection Ee as <- <-; repeat constructor.
  Qed.

  (** The main statement, for thresholds at or below Info. *)
  Lemma relay_info thr rq sc :
    (forall v, render v <> None) ->
    enabled thr LInfo = true -> codes_ok sc = true -> no_abort sc ->
    let r := relay render thr rq sc in
    escaped r = false
    /\ (relay500 r = true <-> panics_before_header sc = true)
    /\ (relay500 r = true -> wire r = 500 /\ body r = [err_chunk])
    /\ (relay500 r = false ->
          wire_hdr (final r) = wire_hdr (fst (exec true sc rw0)) /\ body r = wbody (fst (exec true sc rw0)))
    /\ records r = [BEG (rip rq) (rmethod rq) (ruri rq) (rid rq)]
                   ++ (match panic_of sc with Some p => [ERR p (rid rq)] | None => [] end)
                   ++ [END (logged r) (rip rq) (rmethod rq) (ruri rq) (rid rq)]
    /\ (set_once sc = true -> logged r = wire r).
  Proof.
    intros Htot Hi Hc Hna.
    pose proof (info_implies_error thr Hi) as He.
    pose proof (exec_panic0 sc) as Hp.
    pose proof (exec_status0 sc rw0 Hc eq_refl eq_refl) as Hs0.
    pose proof (pbh_spec sc) as Hpbh.
    assert (Hag : set_once sc = true -> agree (fst (exec true sc rw0))).
    { intros Hso. apply exec_agree; [apply agree_rw0 | exact Hc | exact Hso]. }
    assert (Hbody0 : forall w : rw, status w = 0 -> writes_nothing sc = true -> True) by auto.
    unfold logged, wire, body, relay, relay_gen.
    destruct (exec true sc rw0) as [w1 p] eqn:Ex. cbn [fst snd] in *. subst p.
    unfold recover_block, end_block. rewrite Hi, He.
    destruct (panic_of sc) as [[|v]|] eqn:Epo.
    - exfalso. apply Hna. exact Epo.
    - destruct (render v) eqn:Erv; [|exfalso; apply (Htot v); assumption].
      destruct (status w1 =? 0) eqn:Est.
      + (* nothing was written: Relay sends 500 *)
        apply N.eqb_eq in Est.
        assert (Hwn : writes_nothing sc = true) by (apply Hs0; assumption).
        assert (Hfresh : wire_hdr w1 = None /\ wbody w1 = []).
        { pose proof (exec_writes_nothing sc rw0 eq_refl Hwn) as G. rewrite Ex in G. cbn [fst] in G. subst w1.
          split; reflexivity. }
        destruct Hfresh as [Hw Hb].
        assert (Hagw : agree w1) by (unfold agree; rewrite Hw; assumption).
        destruct (http_error_on_fresh w1 Est Hagw) as (H1 & H2 & H3).
        cbn [escaped relay500 final records].
        assert (E500 : (status (http_error_500 w1) =? 0) = false) by (rewrite H2; reflexivity).
        rewrite E500. cbn [app logged_of status wire_hdr wbody]. rewrite H1, H2, H3, Hb.
        split; [reflexivity|].
        split; [split; [intros _; apply Hpbh; split; [assumption | discriminate] | reflexivity]|].
        split; [intros _; split; reflexivity|].
        split; [discriminate|].
        split; [reflexivity|].
        intros _; reflexivity.
      + (* the response was started: Relay leaves it alone *)
        rewrite Est. cbn [escaped relay500 final records app logged_of].
        apply N.eqb_neq in Est.
        repeat split; try reflexivity; try discriminate.
        * intros H. apply Hpbh in H. destruct H as [H _]. exfalso. apply Est. apply Hs0. assumption.
        * intros Hso. specialize (Hag Hso). unfold agree in Hag. destruct (wire_hdr w1); [destruct Hag; assumption | contradiction].
    - (* no panic *)
      cbn [escaped relay500 final records app].
      destruct (status w1 =? 0) eqn:Est; cbn [logged_of status wire_hdr wbody].
      + apply N.eqb_eq in Est. repeat split; try reflexivity; try discriminate.
        * intros H. apply Hpbh in H. destruct H as [_ H]. contradiction.
        * intros Hso. specialize (Hag Hso). unfold agree in Hag. destruct (wire_hdr w1); [destruct Hag; congruence | reflexivity].
      + apply N.eqb_neq in Est. repeat split; try reflexivity; try discriminate.
        * intros H. apply Hpbh in H. destruct H as [_ H]. contradiction.
        * intros Hso. specialize (Hag Hso). unfold agree in Hag. destruct (wire_hdr w1); [destruct Hag; assumption | contradiction].
  Qed.

  (** Threshold above Info, at or below Error: only the ERROR record. *)
  Lemma relay_above_info thr rq sc :
    (forall v, render v <> None) ->
    enabled thr LInfo = false -> enabled thr LError = true -> codes_ok sc = true -> no_abort sc ->
    let r := relay render thr rq sc in
    escaped r = false
    /\ (relay500 r = true <-> panics_before_header sc = true)
    /\ records r = match panic_of sc with Some p => [ERR p (rid rq)] | None => [] end.
  Proof.
    intros Htot Hi He Hc Hna.
    pose proof (exec_panic0 sc) as Hp.
    pose proof (exec_status0 sc rw0 Hc eq_refl eq_refl) as Hs0.
    pose proof (pbh_spec sc) as Hpbh.
    unfold relay, relay_gen. destruct (exec true sc rw0) as [w1 p] eqn:Ex. cbn [fst snd] in *. subst p.
    unfold recover_block, end_block. rewrite Hi, He.
    destruct (panic_of sc) as [[|v]|] eqn:Epo.
    - exfalso. apply Hna. exact Epo.
    - destruct (render v) eqn:Erv; [|exfalso; apply (Htot v); assumption].
      destruct (status w1 =? 0) eqn:Est; cbn [escaped relay500 records app]; repeat split; try reflexivity; try discriminate.
      + intros _. apply Hpbh. apply N.eqb_eq in Est. split; [apply Hs0; assumption | discriminate].
      + intros H. apply Hpbh in H. destruct H as [H _]. apply N.eqb_neq in Est. exfalso. apply Est. apply Hs0. auto.
    - cbn [escaped relay500 records app]. repeat split; try reflexivity; try discriminate.
      intros H. apply Hpbh in H. destruct H as [_ H]. contradiction.
  Qed.

  (** Threshold above Error: nothing is logged; no assumption on the rendering is needed. *)
  Lemma relay_above_error thr rq sc :
    enabled thr LInfo = false -> enabled thr LError = false -> codes_ok sc = true -> no_abort sc ->
    let r := relay render thr rq sc in
    escaped r = false
    /\ (relay500 r = true <-> panics_before_header sc = true)
    /\ records r = [].
  Proof.
    intros Hi He Hc Hna.
    pose proof (exec_panic0 sc) as Hp.
    pose proof (exec_status0 sc rw0 Hc eq_refl eq_refl) as Hs0.
    pose proof (pbh_spec sc) as Hpbh.
    unfold relay, relay_gen. destruct (exec true sc rw0) as [w1 p] eqn:Ex. cbn [fst snd] in *. subst p.
    unfold recover_block, end_block. rewrite Hi, He.
    destruct (panic_of sc) as [[|v]|] eqn:Epo.
    - exfalso. apply Hna. exact Epo.
    - destruct (status w1 =? 0) eqn:Est; cbn [escaped relay500 records app]; repeat split; try reflexivity; try discriminate.
      + intros _. apply Hpbh. apply N.eqb_eq in Est. split; [apply Hs0; assumption | discriminate].
      + intros H. apply Hpbh in H. destruct H as [H _]. apply N.eqb_neq in Est. exfalso. apply Est. apply Hs0. auto.
    - cbn [escaped relay500 records app]. repeat split; try reflexivity; try discriminate.
      intros H. apply Hpbh in H. destruct H as [_ H]. contradiction.
  Qed.

  (** http.ErrAbortHandler: recovered and dropped — no record, no 500, nothing escapes. *)
  Lemma relay_abort thr rq sc :
    panic_of sc = Some AbortHandler ->
    let r := relay render thr rq sc in
    escaped r = false /\ relay500 r = false
    /\ Forall (fun x => match x with ERR _ _ => False | _ => True end) (records r).
  Proof.
    intros Hpo. pose proof (exec_panic0 sc) as Hp.
    unfold relay, relay_gen. destruct (exec true sc rw0) as [w1 p] eqn:Ex. cbn [snd] in Hp. subst p. rewrite Hpo.
    unfold recover_block, end_block.
    destruct (enabled thr LInfo); cbn [escaped relay500 records app]; repeat split; repeat constructor.
  Qed.

  (** The totality assumption is necessary: if the rendering of the value panics (as Error() of
      a typed nil pointer did before commit 8de6726) the panic escapes and no 500 is sent. *)
  Lemma relay_render_partial thr rq sc v :
    render v = None -> enabled thr LError = true -> panic_of sc = Some (PV v) ->
    let r := relay render thr rq sc in escaped r = true /\ relay500 r = false.
  Proof.
    intros Hr He Hpo. pose proof (exec_panic0 sc) as Hp.
    unfold relay, relay_gen. destruct (exec true sc rw0) as [w1 p] eqn:Ex. cbn [snd] in Hp. subst p. rewrite Hpo.
    unfold recover_block. rewrite He, Hr.
    destruct (end_block thr rq w1). split; reflexivity.
  Qed.
End RelayProofs.

(** The Flush of the code before commit 9de7f2e (Status left at 0): a handler that flushes and then
    panics gets the 500 text appended to its started 200 response, and REQ_END logs 500. *)
Lemma flush_old_refuted : exists sc rq,
  codes_ok sc = true /\ no_abort sc /\ set_once sc = true /\ panics_before_header sc = false /\
  let r := relay_gen (fun v => Some v) false 4 rq sc in
  escaped r = false /\ relay500 r = true /\ wire r = 200 /\ logged r = 500 /\ body r = [err_chunk].
Proof.
  exists [Flush false; Panic (PV 3)], (mkReq 1 7 1 7).
  split; [reflexivity|]. split; [discriminate|]. vm_compute. repeat split; reflexivity.
Qed.

(** * Interleavings of the record streams of concurrent requests *)

Inductive interleave {A : Type} : list (list A) -> list A -> Prop :=
| il_nil : forall ls, Forall (fun l => l = []) ls -> interleave ls []
| il_cons : forall pre x l post s,
    interleave (pre ++ l :: post) s -> interleave (pre ++ (x :: l) :: post) (x :: s).

Lemma nth_error_mid {A} (pre post : list A) x : nth_error (pre ++ x :: post) (length pre) = Some x.
Proof. rewrite nth_error_app2 by lia. rewrite Nat.sub_diag. reflexivity. Qed.

Lemma nth_error_other {A} (pre post : list A) x y j : j <> length pre ->
  nth_error (pre ++ x :: post) j = nth_error (pre ++ y :: post) j.
Proof.
  intros Hj. destruct (Nat.lt_ge_cases j (length pre)) as [Hlt|Hge].
  - rewrite !nth_error_app1 by assumption. reflexivity.
  - rewrite !nth_error_app2 by assumption.
    destruct (j - length pre)%nat eqn:E; [lia | reflexivity].
Qed.

Lemma filter_interleave {A} (f : A -> bool) ls s : interleave ls s ->
  forall k lk, nth_error ls k = Some lk ->
  (forall j l, j <> k -> nth_error ls j = Some l -> filter f l = []) ->
  filter f s = filter f lk.
Proof.
  induction 1 as [ls Hall | pre x l post s Hil IH]; intros k lk Hk Hoth.
  - rewrite Forall_forall in Hall. rewrite (Hall lk); [reflexivity|]. apply (nth_error_In _ _ Hk).
  - destruct (Nat.eq_dec k (length pre)) as [->|Hne].
    + rewrite nth_error_mid in Hk. injection Hk as <-.
      assert (IH' : filter f s = filter f l).
      { apply (IH (length pre)); [apply nth_error_mid|].
        intros j l0 Hj Hn. apply (Hoth j l0 Hj). rewrite (nth_error_other pre post (x :: l) l j Hj). assumption. }
      cbn [filter]. rewrite IH'. reflexivity.
    + assert (Hx : filter f (x :: l) = []).
      { apply (Hoth (length pre)); [congruence | apply nth_error_mid]. }
      cbn [filter] in Hx |- *. destruct (f x); [discriminate|].
      apply (IH k lk).
      * rewrite (nth_error_other pre post l (x :: l) k Hne). assumption.
      * intros j l0 Hj Hn. destruct (Nat.eq_dec j (length pre)) as [->|Hj2].
        -- rewrite nth_error_mid in Hn. injection Hn as <-. assumption.
        -- apply (Hoth j l0 Hj). rewrite (nth_error_other pre post (x :: l) l j Hj2). assumption.
Qed.

Lemma filter_all {A} (f : A -> bool) l : Forall (fun x => f x = true) l -> filter f l = l.
Proof. induction 1; cbn [filter]; [reflexivity|]. rewrite H, IHForall. reflexivity. Qed.
Lemma filter_none {A} (f : A -> bool) l : Forall (fun x => f x = false) l -> filter f l = [].
Proof. induction 1; cbn [filter]; [reflexivity|]. rewrite H. assumption. Qed.

Lemma NoDup_nth_error_neq {A} (l : list A) : NoDup l -> forall i j a b, i <> j ->
  nth_error l i = Some a -> nth_error l j = Some b -> a <> b.
Proof.
  intros Hnd i j a b Hij Ha Hb Hab. subst b.
  apply Hij. apply (proj1 (NoDup_nth_error l) Hnd); [apply nth_error_Some; congruence | congruence].
Qed.

Lemma pairing render thr (reqs : list (req * script)) s :
  NoDup (map (fun p => rid (fst p)) reqs) ->
  interleave (map (fun p => records (relay render thr (fst p) (snd p))) reqs) s ->
  forall k rq sc, nth_error reqs k = Some (rq, sc) ->
  filter (fun x => rec_id x =? rid rq) s = records (relay render thr rq sc).
Proof.
  intros Hnd Hil k rq sc Hk.
  rewrite (filter_interleave (fun x => rec_id x =? rid rq) _ s Hil k (records (relay render thr rq sc))).
  - apply filter_all. eapply Forall_impl; [|apply all_ids]. cbn. intros a ->. apply N.eqb_refl.
  - rewrite nth_error_map, Hk. reflexivity.
  - intros j l Hj Hn. rewrite nth_error_map in Hn.
    destruct (nth_error reqs j) as [[rq' sc']|] eqn:Ej; [|discriminate]. cbn in Hn. injection Hn as <-.
    apply filter_none. eapply Forall_impl; [|apply all_ids]. cbn. intros a ->. apply N.eqb_neq.
    apply (NoDup_nth_error_neq _ Hnd j k); [assumption | |];
      rewrite nth_error_map; [rewrite Ej | rewrite Hk]; reflexivity.
Qed.
