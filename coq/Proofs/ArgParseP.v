(** Lemmas for C10: the model of argParse refines the documented grammar, both ways. *)
From Coq Require Import List NArith Bool Arith Lia.
Import ListNotations.
From Glb Require Import Lib.ArgGrammar Model.ArgParse.
Open Scope N_scope.

(** * byte strings *)
Lemma bytes_eqb_refl a : bytes_eqb a a = true.
Proof. induction a as [|x a IH]; cbn [bytes_eqb]; [reflexivity|]. rewrite N.eqb_refl, IH. reflexivity. Qed.

Lemma bytes_eqb_eq a b : bytes_eqb a b = true <-> a = b.
Proof.
  split; [|intros ->; apply bytes_eqb_refl].
  revert b; induction a as [|x a IH]; intros [|y b] H; cbn [bytes_eqb] in H; try discriminate; [reflexivity|].
  apply andb_true_iff in H as [H1 H2]. apply N.eqb_eq in H1. apply IH in H2. subst. reflexivity.
Qed.

Lemma bytes_eqb_neq a b : bytes_eqb a b = false <-> a <> b.
Proof.
  split.
  - intros H E. subst. rewrite bytes_eqb_refl in H. discriminate.
  - intros H. destruct (bytes_eqb a b) eqn:E; [|reflexivity]. apply bytes_eqb_eq in E. contradiction.
Qed.

(** * the '=' search *)
Fixpoint index_eq (s : list N) : option nat :=
  match s with
  | [] => None
  | c :: r => if c =? 61 then Some O else option_map S (index_eq r)
  end.

Lemma nth_skipn (l : list N) : forall i, (i < length l)%nat ->
  exists c, nth_error l i = Some c /\ skipn i l = c :: skipn (S i) l.
Proof.
  induction l as [|x l IH]; intros i H; cbn [length] in H; [lia|].
  destruct i as [|i].
  - exists x. split; reflexivity.
  - destruct (IH i) as [c [H1 H2]]; [lia|]. exists c. split; [exact H1|]. cbn [skipn] in *. exact H2.
Qed.

Lemma find_eq_index : forall fuel name i, (length name <= i + fuel)%nat ->
  find_eq name i fuel = Some (option_map (fun k => (i + k)%nat) (index_eq (skipn i name))).
Proof.
  induction fuel as [|fuel IH]; intros name i H; cbn [find_eq].
  - rewrite skipn_all2 by lia. reflexivity.
  - destruct (i <? length name)%nat eqn:E.
    + apply Nat.ltb_lt in E. destruct (nth_skipn name i E) as [c [H1 H2]].
      unfold idx. rewrite H1, H2. cbn [index_eq].
      destruct (c =? 61) eqn:Ec.
      * cbn [option_map]. rewrite Nat.add_0_r. reflexivity.
      * rewrite IH by lia. destruct (index_eq (skipn (S i) name)); cbn [option_map]; [|reflexivity].
        rewrite Nat.add_succ_r. reflexivity.
    + apply Nat.ltb_ge in E. rewrite skipn_all2 by lia. reflexivity.
Qed.

Lemma index_eq_some : forall s k, index_eq s = Some k ->
  (k < length s)%nat /\ s = firstn k s ++ 61 :: skipn (S k) s /\ ~ In 61 (firstn k s).
Proof.
  induction s as [|c r IH]; intros k H; cbn [index_eq] in H; [discriminate|].
  destruct (c =? 61) eqn:E.
  - injection H as <-. apply N.eqb_eq in E. subst c. cbn. repeat split; [lia|tauto].
  - destruct (index_eq r) as [k'|] eqn:E'; cbn [option_map] in H; [|discriminate].
    injection H as <-. destruct (IH k' eq_refl) as [H1 [H2 H3]].
    cbn [length firstn skipn app In]. repeat split; [lia| |].
    + f_equal. exact H2.
    + apply N.eqb_neq in E. intros [A|A]; [congruence|contradiction].
Qed.

Lemma index_eq_none s : index_eq s = None -> ~ In 61 s.
Proof.
  induction s as [|c r IH]; cbn [index_eq In]; [tauto|].
  destruct (c =? 61) eqn:E; [discriminate|].
  apply N.eqb_neq in E. destruct (index_eq r); cbn [option_map]; [discriminate|].
  intros _ [A|A]; [congruence|]. exact (IH eq_refl A).
Qed.

Lemma index_eq_notin s : ~ In 61 s -> index_eq s = None.
Proof.
  induction s as [|c r IH]; cbn [index_eq In]; [reflexivity|]. intros H.
  destruct (c =? 61) eqn:E.
  - apply N.eqb_eq in E. exfalso. apply H. left. exact E.
  - rewrite IH; [reflexivity|]. intros A. apply H. right. exact A.
Qed.

Lemma index_eq_app a b : ~ In 61 a -> index_eq (a ++ 61 :: b) = Some (length a).
Proof.
  induction a as [|c r IH]; cbn [app index_eq In length]; intros H; [reflexivity|].
  destruct (c =? 61) eqn:E.
  - apply N.eqb_eq in E. exfalso. apply H. left. exact E.
  - rewrite IH; [reflexivity|]. intros A. apply H. right. exact A.
Qed.

(** * one token *)
Definition split_spec (c : N) (r : list N) : tokclass :=
  if (c =? 45) || (c =? 61) then TBad else
  match index_eq r with
  | None => TFlag (c :: r) None
  | Some k => TFlag (c :: firstn k r) (Some (skipn (S k) r))
  end.

Lemma split_flag_cons c r : split_flag (c :: r) = split_spec c r.
Proof.
  unfold split_flag, split_spec. cbn [length Nat.eqb idx nth_error].
  destruct ((c =? 45) || (c =? 61)); [reflexivity|].
  rewrite find_eq_index by (cbn [length]; lia). cbn [skipn].
  destruct (index_eq r) as [k|] eqn:E; cbn [option_map]; [|reflexivity].
  destruct (index_eq_some r k E) as [H1 _].
  unfold slice_from, slice_to. cbn [length].
  replace (1 + k + 1 <=? S (length r))%nat with true by (symmetry; apply Nat.leb_le; lia).
  replace (1 + k <=? S (length r))%nat with true by (symmetry; apply Nat.leb_le; lia).
  replace (1 + k + 1)%nat with (S (S k)) by lia. replace (1 + k)%nat with (S k) by lia.
  reflexivity.
Qed.

Lemma classify_nil : classify [] = TStop. Proof. reflexivity. Qed.
Lemma classify_single c : classify [c] = TStop. Proof. reflexivity. Qed.
Lemma classify_nodash c c1 r : c <> 45 -> classify (c :: c1 :: r) = TStop.
Proof. intros H. unfold classify. cbn [length Nat.ltb Nat.leb idx nth_error]. apply N.eqb_neq in H. rewrite H. reflexivity. Qed.
Lemma classify_dash c1 r : classify (45 :: c1 :: r) =
  if c1 =? 45 then match r with [] => TTerminator | c2 :: r' => split_flag (c2 :: r') end
  else split_flag (c1 :: r).
Proof. destruct r; reflexivity. Qed.

(** soundness: what the model decides about a token is what the grammar says *)
Lemma split_spec_sound c r pre :
  (pre = [45] \/ pre = [45; 45]) ->
  match split_spec c r with
  | TBad => c = 45 \/ c = 61
  | TFlag n ov => FlagTok (pre ++ c :: r) n ov
  | _ => False
  end.
Proof.
  intros Hpre. unfold split_spec.
  destruct (c =? 45) eqn:E1; [apply N.eqb_eq in E1; left; exact E1|].
  destruct (c =? 61) eqn:E2; [apply N.eqb_eq in E2; right; exact E2|].
  apply N.eqb_neq in E1, E2. cbn [orb].
  destruct (index_eq r) as [k|] eqn:E.
  - destruct (index_eq_some r k E) as [_ [H2 H3]].
    assert (Hn : name_ok (c :: firstn k r)) by (cbn; tauto).
    rewrite H2 at 1.
    destruct Hpre as [-> | ->]; cbn [app].
    + apply (FT_1eq (c :: firstn k r) (skipn (S k) r) Hn).
    + apply (FT_2eq (c :: firstn k r) (skipn (S k) r) Hn).
  - apply index_eq_none in E.
    assert (Hn : name_ok (c :: r)) by (cbn; tauto).
    destruct Hpre as [-> | ->]; cbn [app]; constructor; exact Hn.
Qed.

Lemma classify_sound tok :
  match classify tok with
  | TStop => NonFlag tok
  | TTerminator => tok = terminator
  | TBad => BadTok tok
  | TFlag n ov => FlagTok tok n ov
  | TPanic => False
  end.
Proof.
  destruct tok as [|c0 [|c1 r]]; [rewrite classify_nil; constructor | rewrite classify_single; constructor |].
  destruct (N.eq_dec c0 45) as [->|Hc0]; [|rewrite classify_nodash by exact Hc0; constructor; exact Hc0].
  rewrite classify_dash. destruct (c1 =? 45) eqn:E1.
  - apply N.eqb_eq in E1. subst c1. destruct r as [|c2 r']; [reflexivity|].
    rewrite split_flag_cons. pose proof (split_spec_sound c2 r' [45;45] (or_intror eq_refl)) as H.
    destruct (split_spec c2 r'); try contradiction; [|exact H].
    destruct H as [-> | ->]; constructor.
  - rewrite split_flag_cons. pose proof (split_spec_sound c1 r [45] (or_introl eq_refl)) as H.
    destruct (split_spec c1 r); try contradiction; [|exact H].
    apply N.eqb_neq in E1. destruct H as [-> | ->]; [congruence | constructor].
Qed.

(** completeness: every token of a grammatical class is classified as such *)
Lemma classify_nonflag tok : NonFlag tok -> classify tok = TStop.
Proof.
  intros [ | c | c r H]; [reflexivity | reflexivity |].
  destruct r; [reflexivity | apply classify_nodash; exact H].
Qed.

Lemma classify_terminator : classify terminator = TTerminator.
Proof. reflexivity. Qed.

Lemma classify_bad tok : BadTok tok -> classify tok = TBad.
Proof. intros [r | r | r]; reflexivity. Qed.

Lemma split_spec_plain c r : name_ok (c :: r) -> split_spec c r = TFlag (c :: r) None.
Proof.
  intros [H1 [H2 H3]]. unfold split_spec. apply N.eqb_neq in H1, H2. rewrite H1, H2. cbn [orb].
  rewrite index_eq_notin by exact H3. reflexivity.
Qed.

Lemma split_spec_eq c r v : name_ok (c :: r) -> split_spec c (r ++ 61 :: v) = TFlag (c :: r) (Some v).
Proof.
  intros [H1 [H2 H3]]. unfold split_spec. apply N.eqb_neq in H1, H2. rewrite H1, H2. cbn [orb].
  rewrite index_eq_app by exact H3.
  rewrite firstn_app, Nat.sub_diag, firstn_all. cbn [firstn]. rewrite app_nil_r.
  replace (S (length r)) with (length (r ++ [61])) by (rewrite app_length; cbn [length]; lia).
  replace (r ++ 61 :: v) with ((r ++ [61]) ++ v) by (rewrite <- app_assoc; reflexivity).
  rewrite skipn_app, skipn_all, Nat.sub_diag. reflexivity.
Qed.

Lemma classify_flag tok n ov : FlagTok tok n ov -> classify tok = TFlag n ov.
Proof.
  intros [n0 H | n0 H | n0 v H | n0 v H]; destruct n0 as [|c r]; try contradiction.
  - rewrite classify_dash. destruct H as [H1 H']. apply N.eqb_neq in H1. rewrite H1.
    apply N.eqb_neq in H1. rewrite split_flag_cons. apply split_spec_plain. cbn. tauto.
  - rewrite classify_dash. cbn [N.eqb Pos.eqb]. rewrite split_flag_cons. apply split_spec_plain. exact H.
  - cbn [app]. rewrite classify_dash. destruct H as [H1 H']. apply N.eqb_neq in H1. rewrite H1.
    apply N.eqb_neq in H1. rewrite split_flag_cons. apply split_spec_eq. cbn. tauto.
  - cbn [app]. rewrite classify_dash. cbn [N.eqb Pos.eqb]. rewrite split_flag_cons. apply split_spec_eq. exact H.
Qed.

(** * the loop *)
Lemma arg_parse_cons tbl arg0 args1 :
  arg_parse tbl (arg0 :: args1) =
  match classify arg0 with
  | TStop => Ok [] (arg0 :: args1)
  | TTerminator => Ok [] args1
  | TBad => Err (BadSyntax arg0)
  | TPanic => Panic
  | TFlag name ov =>
      match lookup tbl name with
      | None => Err (NotDefined name)
      | Some is_bool =>
          match ov with
          | Some v => cons_asg (name, v) (arg_parse tbl args1)
          | None =>
              if is_bool then cons_asg (name, true_text) (arg_parse tbl args1)
              else match args1 with
                   | v :: args2 => cons_asg (name, v) (arg_parse tbl args2)
                   | [] => Err (NeedsArg name)
                   end
          end
      end
  end.
Proof. destruct args1; reflexivity. Qed.

Definition verdict_of (tbl : flagtable) (toks : list token) (r : result) : Prop :=
  match r with
  | Ok asg rest => Parses tbl toks asg rest
  | Err e => Malformed tbl toks e
  | Panic => False
  end.

Lemma cons_asg_verdict tbl toks a toks' r :
  Consumes tbl toks a toks' -> verdict_of tbl toks' r -> verdict_of tbl toks (cons_asg a r).
Proof.
  intros Hc Hv. destruct r as [asg rest | e |]; cbn [cons_asg verdict_of] in *.
  - eapply P_flag; eassumption.
  - eapply M_later; eassumption.
  - exact Hv.
Qed.

Lemma arg_parse_sound_len tbl : forall n toks, (length toks <= n)%nat -> verdict_of tbl toks (arg_parse tbl toks).
Proof.
  induction n as [|n IH]; intros toks Hlen.
  - destruct toks; [constructor | cbn [length] in Hlen; lia].
  - destruct toks as [|arg0 args1]; [constructor|]. cbn [length] in Hlen.
    rewrite arg_parse_cons. pose proof (classify_sound arg0) as Hc.
    destruct (classify arg0) as [ | | | name ov | ]; cbn [verdict_of].
    + apply P_nonflag. exact Hc.
    + subst arg0. apply P_terminator.
    + apply M_bad. exact Hc.
    + destruct (lookup tbl name) as [b|] eqn:El; [|cbn [verdict_of]; eapply M_undefined; eassumption].
      destruct ov as [v|].
      * eapply cons_asg_verdict; [eapply C_eq; eassumption | apply IH; lia].
      * destruct b.
        -- eapply cons_asg_verdict; [eapply C_bool; eassumption | apply IH; lia].
        -- destruct args1 as [|v args2].
           ++ cbn [verdict_of]. eapply M_needs_arg; eassumption.
           ++ eapply cons_asg_verdict; [eapply C_next; eassumption | apply IH; cbn [length] in Hlen; lia].
    + exact Hc.
Qed.

Lemma arg_parse_sound tbl toks : verdict_of tbl toks (arg_parse tbl toks).
Proof. apply (arg_parse_sound_len tbl (length toks)). lia. Qed.

Lemma consumes_step tbl toks a toks' :
  Consumes tbl toks a toks' -> arg_parse tbl toks = cons_asg a (arg_parse tbl toks').
Proof.
  intros [tok n v b r Hf Hl | tok n r Hf Hl | tok n v r Hf Hl];
    rewrite arg_parse_cons, (classify_flag _ _ _ Hf), Hl; reflexivity.
Qed.

Lemma parses_complete tbl toks asg rest : Parses tbl toks asg rest -> arg_parse tbl toks = Ok asg rest.
Proof.
  induction 1 as [ | tok r H | r | toks a toks' asg rest Hc _ IH].
  - reflexivity.
  - rewrite arg_parse_cons, (classify_nonflag _ H). reflexivity.
  - rewrite arg_parse_cons, classify_terminator. reflexivity.
  - rewrite (consumes_step _ _ _ _ Hc), IH. reflexivity.
Qed.

Lemma malformed_complete tbl toks e : Malformed tbl toks e -> arg_parse tbl toks = Err e.
Proof.
  induction 1 as [tok r H | tok n ov r Hf Hl | tok n Hf Hl | toks a toks' e Hc _ IH].
  - rewrite arg_parse_cons, (classify_bad _ H). reflexivity.
  - rewrite arg_parse_cons, (classify_flag _ _ _ Hf), Hl. reflexivity.
  - rewrite arg_parse_cons, (classify_flag _ _ _ Hf), Hl. reflexivity.
  - rewrite (consumes_step _ _ _ _ Hc), IH. reflexivity.
Qed.

Lemma grammar_equiv tbl toks :
  (forall asg rest, arg_parse tbl toks = Ok asg rest <-> Parses tbl toks asg rest)
  /\ (forall e, arg_parse tbl toks = Err e <-> Malformed tbl toks e)
  /\ arg_parse tbl toks <> Panic.
Proof.
  pose proof (arg_parse_sound tbl toks) as H.
  repeat split.
  - intros E. rewrite E in H. exact H.
  - apply parses_complete.
  - intros E. rewrite E in H. exact H.
  - apply malformed_complete.
  - intros E. rewrite E in H. exact H.
Qed.

(** every vector is either parsed or malformed, never both *)
Lemma parses_or_malformed tbl toks :
  (exists asg rest, Parses tbl toks asg rest) \/ (exists e, Malformed tbl toks e).
Proof.
  pose proof (arg_parse_sound tbl toks) as H.
  destruct (arg_parse tbl toks) as [asg rest | e |]; cbn [verdict_of] in H.
  - left. eauto.
  - right. eauto.
  - contradiction.
Qed.

Lemma parses_not_malformed tbl toks asg rest e : Parses tbl toks asg rest -> Malformed tbl toks e -> False.
Proof. intros H1 H2. apply parses_complete in H1. apply malformed_complete in H2. congruence. Qed.

Lemma parses_functional tbl toks a1 r1 a2 r2 :
  Parses tbl toks a1 r1 -> Parses tbl toks a2 r2 -> a1 = a2 /\ r1 = r2.
Proof.
  intros H1 H2. apply parses_complete in H1. apply parses_complete in H2.
  rewrite H1 in H2. injection H2 as -> ->. split; reflexivity.
Qed.

Lemma malformed_functional tbl toks e1 e2 : Malformed tbl toks e1 -> Malformed tbl toks e2 -> e1 = e2.
Proof. intros H1 H2. apply malformed_complete in H1. apply malformed_complete in H2. congruence. Qed.

(** * Args(): the rest is a suffix of the vector, unchanged and in order; each assignment
    used one or two tokens *)
Lemma consumes_suffix tbl toks a toks' : Consumes tbl toks a toks' ->
  exists used, toks = used ++ toks' /\ (length used = 1 \/ length used = 2)%nat.
Proof.
  intros [tok n v b r _ _ | tok n r _ _ | tok n v r _ _].
  - exists [tok]. split; [reflexivity | left; reflexivity].
  - exists [tok]. split; [reflexivity | left; reflexivity].
  - exists [tok; v]. split; [reflexivity | right; reflexivity].
Qed.

Lemma parses_suffix tbl toks asg rest : Parses tbl toks asg rest ->
  exists used, toks = used ++ rest /\ (length asg <= length used <= 2 * length asg + 1)%nat.
Proof.
  induction 1 as [ | tok r H | r | toks a toks' asg rest Hc _ IH].
  - exists []. split; [reflexivity | cbn; lia].
  - exists []. split; [reflexivity | cbn; lia].
  - exists [terminator]. split; [reflexivity | cbn; lia].
  - destruct IH as [u [E L]]. destruct (consumes_suffix _ _ _ _ Hc) as [u0 [E0 L0]].
    exists (u0 ++ u). split; [rewrite <- app_assoc, <- E; exact E0|].
    rewrite app_length. cbn [length]. lia.
Qed.

(** the rest either is empty, or the parse stopped for one of the two documented reasons *)
Lemma parses_stop_reason tbl toks asg rest : Parses tbl toks asg rest ->
  exists used, toks = used ++ rest /\
    (rest = [] \/ (exists t r, rest = t :: r /\ NonFlag t) \/ (exists u, used = u ++ [terminator])).
Proof.
  induction 1 as [ | tok r H | r | toks a toks' asg rest Hc _ IH].
  - exists []. split; [reflexivity | left; reflexivity].
  - exists []. split; [reflexivity | right; left; eauto].
  - exists [terminator]. split; [reflexivity | right; right; exists []; reflexivity].
  - destruct IH as [u [E L]]. destruct (consumes_suffix _ _ _ _ Hc) as [u0 [E0 _]].
    exists (u0 ++ u). split; [rewrite <- app_assoc, <- E; exact E0|].
    destruct L as [L | [L | [u1 L]]]; [left; exact L | right; left; exact L |].
    right; right. exists (u0 ++ u1). rewrite L, app_assoc. reflexivity.
Qed.

(** * last occurrence wins *)
Fixpoint last_assignment (asg : list (token * token)) (n : token) : option token :=
  match asg with
  | [] => None
  | (m, v) :: r =>
      match last_assignment r n with
      | Some x => Some x
      | None => if bytes_eqb m n then Some v else None
      end
  end.

Lemma fold_assign_last : forall asg st n,
  fold_left assign asg st n = match last_assignment asg n with Some x => Some x | None => st n end.
Proof.
  induction asg as [|[m v] r IH]; intros st n; cbn [fold_left last_assignment]; [reflexivity|].
  rewrite IH. destruct (last_assignment r n); [reflexivity|].
  unfold assign. cbn [fst snd]. destruct (bytes_eqb m n); reflexivity.
Qed.

Lemma final_value_last asg n : final_value asg n = last_assignment asg n.
Proof.
  unfold final_value, final_store. rewrite fold_assign_last.
  destruct (last_assignment asg n); reflexivity.
Qed.

Lemma last_assignment_notin asg n : ~ In n (map fst asg) -> last_assignment asg n = None.
Proof.
  induction asg as [|[m v] r IH]; cbn [last_assignment map In fst]; [reflexivity|].
  intros H. rewrite IH by tauto.
  destruct (bytes_eqb m n) eqn:E; [|reflexivity]. apply bytes_eqb_eq in E. tauto.
Qed.

Lemma last_assignment_in asg n : In n (map fst asg) -> exists v, last_assignment asg n = Some v /\ In (n, v) asg.
Proof.
  induction asg as [|[m v] r IH]; cbn [last_assignment map In fst]; [tauto|].
  intros H. destruct (last_assignment r n) as [x|] eqn:E.
  - destruct (in_dec (list_eq_dec N.eq_dec) n (map fst r)) as [Hin | Hnot].
    + destruct (IH Hin) as [v0 [E0 I0]]. exists v0. split; [exact E0 | right; exact I0].
    + rewrite (last_assignment_notin _ _ Hnot) in E. discriminate.
  - destruct H as [H | H].
    + subst m. rewrite bytes_eqb_refl. exists v. split; [reflexivity | left; reflexivity].
    + destruct (IH H) as [v0 [E0 _]]. discriminate.
Qed.

Lemma final_value_none asg n : final_value asg n = None <-> ~ In n (map fst asg).
Proof.
  rewrite final_value_last. split.
  - intros E Hin. destruct (last_assignment_in _ _ Hin) as [v [E' _]]. congruence.
  - apply last_assignment_notin.
Qed.

Lemma final_value_last_wins asg1 n v asg2 :
  ~ In n (map fst asg2) -> final_value (asg1 ++ (n, v) :: asg2) n = Some v.
Proof.
  intros H. rewrite final_value_last. induction asg1 as [|[m w] r IH]; cbn [app last_assignment].
  - rewrite (last_assignment_notin _ _ H), bytes_eqb_refl. reflexivity.
  - rewrite IH. reflexivity.
Qed.

Lemma final_value_in asg n v : final_value asg n = Some v -> In (n, v) asg.
Proof.
  rewrite final_value_last. intros E.
  destruct (in_dec (list_eq_dec N.eq_dec) n (map fst asg)) as [Hin | Hnot].
  - destruct (last_assignment_in _ _ Hin) as [v0 [E0 I0]]. congruence.
  - rewrite (last_assignment_notin _ _ Hnot) in E. discriminate.
Qed.

(** * well-formed tables: every defined flag can be given every value *)
Lemma table_name_ok_name_ok n : table_name_ok n -> name_ok n.
Proof.
  destruct n as [|c r]; intros [H1 H2]; [contradiction|]. cbn [name_ok In] in *.
  repeat split; [exact H1 | intros E; apply H2; left; exact E | intros A; apply H2; right; exact A].
Qed.

Lemma lookup_in tbl n b : lookup tbl n = Some b -> In (n, b) tbl.
Proof.
  induction tbl as [|[m c] r IH]; cbn [lookup In]; [discriminate|].
  destruct (bytes_eqb m n) eqn:E.
  - apply bytes_eqb_eq in E. intros H. injection H as ->. left. subst. reflexivity.
  - intros H. right. exact (IH H).
Qed.

Lemma every_flag_settable tbl n b v rest : wf_table tbl -> lookup tbl n = Some b ->
  (forall t r, rest = t :: r -> NonFlag t) ->
  Parses tbl ((45 :: n ++ 61 :: v) :: rest) [(n, v)] rest
  /\ Parses tbl ((45 :: 45 :: n ++ 61 :: v) :: rest) [(n, v)] rest.
Proof.
  intros Hwf Hl Hrest.
  assert (Hn : name_ok n) by (apply table_name_ok_name_ok; eapply Hwf; apply lookup_in; exact Hl).
  assert (Hr : Parses tbl rest [] rest) by (destruct rest as [|t r]; [constructor | apply P_nonflag; eapply Hrest; reflexivity]).
  split; (eapply P_flag; [eapply C_eq; [constructor; exact Hn | exact Hl] | exact Hr]).
Qed.

Lemma nonbool_takes_next tbl n v rest : wf_table tbl -> lookup tbl n = Some false ->
  (forall t r, rest = t :: r -> NonFlag t) ->
  Parses tbl ((45 :: n) :: v :: rest) [(n, v)] rest.
Proof.
  intros Hwf Hl Hrest.
  assert (Hn : name_ok n) by (apply table_name_ok_name_ok; eapply Hwf; apply lookup_in; exact Hl).
  assert (Hr : Parses tbl rest [] rest) by (destruct rest as [|t r]; [constructor | apply P_nonflag; eapply Hrest; reflexivity]).
  eapply P_flag; [eapply C_next; [constructor; exact Hn | exact Hl] | exact Hr].
Qed.

Lemma bool_leaves_next tbl n rest : wf_table tbl -> lookup tbl n = Some true ->
  (forall t r, rest = t :: r -> NonFlag t) ->
  Parses tbl ((45 :: n) :: rest) [(n, true_text)] rest.
Proof.
  intros Hwf Hl Hrest.
  assert (Hn : name_ok n) by (apply table_name_ok_name_ok; eapply Hwf; apply lookup_in; exact Hl).
  assert (Hr : Parses tbl rest [] rest) by (destruct rest as [|t r]; [constructor | apply P_nonflag; eapply Hrest; reflexivity]).
  eapply P_flag; [eapply C_bool; [constructor; exact Hn | exact Hl] | exact Hr].
Qed.

Lemma every_value_reachable tbl n b v rest :
  wf_table tbl -> lookup tbl n = Some b -> (forall t r, rest = t :: r -> NonFlag t) ->
  arg_parse tbl ((45 :: n ++ 61 :: v) :: rest) = Ok [(n, v)] rest
  /\ arg_parse tbl ((45 :: 45 :: n ++ 61 :: v) :: rest) = Ok [(n, v)] rest
  /\ (b = false -> arg_parse tbl ((45 :: n) :: v :: rest) = Ok [(n, v)] rest)
  /\ (b = true -> arg_parse tbl ((45 :: n) :: rest) = Ok [(n, true_text)] rest).
Proof.
  intros Hwf Hl Hr.
  destruct (every_flag_settable tbl n b v rest Hwf Hl Hr) as [H1 H2].
  repeat split; try (apply parses_complete; assumption).
  - intros ->. apply parses_complete, nonbool_takes_next; assumption.
  - intros ->. apply parses_complete, bool_leaves_next; assumption.
Qed.
