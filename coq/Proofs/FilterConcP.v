(** Lemmas for C12: invariants of the interleaving semantics of Model/FilterConc.v. *)
From Coq Require Import List Arith NArith Bool Lia ZifyBool ZifyN ZifyNat.
Import ListNotations.
From Glb Require Import Lib.NetIP Lib.CidrSet Model.Filter Proofs.FilterP Model.FilterConc.
Open Scope N_scope.

(* ------------------------------------------------------------------ arrays *)

Lemma nth_error_upd_eq {A} (l : list A) i a x :
  nth_error l i = Some a -> nth_error (upd l i x) i = Some x.
Proof.
  revert i; induction l as [|h t IH]; intros [|i] H; cbn [nth_error upd] in *; try discriminate; auto.
Qed.

Lemma nth_error_upd_neq {A} (l : list A) i j x :
  i <> j -> nth_error (upd l i x) j = nth_error l j.
Proof.
  revert i j; induction l as [|h t IH]; intros i j H; [destruct i; reflexivity|].
  destruct i as [|i], j as [|j]; cbn [nth_error upd]; try reflexivity; try congruence.
  apply IH. congruence.
Qed.

(* ------------------------------------------------------------------ one step *)

Lemma valid_len c : invalid_arg c = false -> length (c_ip c) = 4%nat.
Proof.
  unfold invalid_arg. destruct (mask_size (c_mask c)) as [ones bits].
  destruct (Nat.eqb_spec (length (c_ip c)) 4) as [E|E]; [intros _; exact E|].
  rewrite !orb_true_r. discriminate.
Qed.

(** on a well-formed filter no atomic section panics, and it does what the shadow does *)
Lemma effect_ok f o : wf f -> effect f (classify o) = Some (fst (apply_t f o)).
Proof.
  intros W. unfold classify. destruct o as [c|c]; cbn [op_cidr is_add apply_t]; unfold add_t, remove_t;
    destruct (invalid_arg c) eqn:Ei; cbn [effect fst]; try reflexivity;
    destruct (arg_ones c =? 0) eqn:E0; cbn [effect fst]; try reflexivity;
    destruct (valid_arg_spec c Ei) as [_ Hle];
    unfold arg_nip, arg_nip_t; rewrite (be32_p_ok _ (valid_len c Ei)).
  - apply add_locked_ok; [exact W | lia].
  - apply remove_locked_ok; [exact W | lia].
Qed.

Lemma spec_run_snoc l o : spec_run (l ++ [o]) = spec_step (spec_run l) o.
Proof. unfold spec_run, spec_run_from. rewrite fold_left_app. reflexivity. Qed.

(** invariant: the process has not crashed and the filter refines the live set *)
Definition InvR (s : cstate) : Prop := crashed s = false /\ R (filt s) (live_at s).

Lemma InvR_init progs : InvR (cinit progs).
Proof. split; [reflexivity | exact R_init]. Qed.

Lemma InvR_wf s : InvR s -> wf (filt s).
Proof. intros [_ H]. exact (proj1 H). Qed.

(** what a step from a state satisfying the invariant can be (in particular: never a crash) *)
Inductive step_case (s : cstate) (l : label) (s' : cstate) : Prop :=
| SC_upd th o rest :
    nth_error (threads s) (thread_of l) = Some th -> t_mid th = None -> t_todo th = CUpd o :: rest ->
    label_matches l (classify o) = true ->
    s' = mkC (fst (apply_t (filt s) o)) (lin s ++ [o])
             (upd (threads s) (thread_of l) (returned th (CUpd o) rest [])) false ->
    step_case s l s'
| SC_ret th ip rest r :
    nth_error (threads s) (thread_of l) = Some th -> t_mid th = None -> t_todo th = CLookup ip :: rest ->
    l = LoadMatchAll (thread_of l) ->
    (match_all (filt s) = true /\ r = true \/ match_all (filt s) = false /\ to4 ip = None /\ r = false) ->
    s' = set_thread s (thread_of l) (returned th (CLookup ip) rest [(ip, r)]) ->
    step_case s l s'
| SC_begin th ip rest b :
    nth_error (threads s) (thread_of l) = Some th -> t_mid th = None -> t_todo th = CLookup ip :: rest ->
    l = LoadMatchAll (thread_of l) -> match_all (filt s) = false -> to4 ip = Some b ->
    s' = set_thread s (thread_of l) (mkT (t_done th) (t_todo th) (Some (be32 b)) (t_results th)) ->
    step_case s l s'
| SC_scan th nip ip rest :
    nth_error (threads s) (thread_of l) = Some th -> t_mid th = Some nip -> t_todo th = CLookup ip :: rest ->
    l = LockedScan (thread_of l) ->
    s' = set_thread s (thread_of l) (returned th (CLookup ip) rest [(ip, scan_t (filt s) nip)]) ->
    step_case s l s'.

Lemma step_inv s l s' : InvR s -> step s l = Some s' -> step_case s l s'.
Proof.
  intros HI. pose proof (InvR_wf _ HI) as W. unfold step. rewrite (proj1 HI).
  destruct (nth_error (threads s) (thread_of l)) as [th|] eqn:Eth; [|discriminate].
  destruct (t_mid th) as [nip|] eqn:Em.
  - destruct (t_todo th) as [|[o|ip] rest] eqn:Et; try discriminate.
    destruct l; try discriminate. rewrite (scan_ok _ nip W). intros H. inversion H. eapply SC_scan; eauto.
  - destruct (t_todo th) as [|[o|ip] rest] eqn:Et; try discriminate.
    + destruct (label_matches l (classify o)) eqn:Elm; [|discriminate]. rewrite (effect_ok _ o W).
      intros H. inversion H. eapply SC_upd; eauto.
    + destruct l; try discriminate.
      destruct (match_all (filt s)) eqn:Ema.
      * intros H. inversion H. eapply SC_ret with (r := true); eauto.
      * destruct (to4 ip) as [b|] eqn:E4.
        -- rewrite (be32_p_ok b (to4_length _ _ E4)). intros H. inversion H.
           eapply SC_begin; eauto; try (rewrite Et; reflexivity).
        -- intros H. inversion H. eapply SC_ret with (r := false); eauto; try (right; auto).
Qed.

(** a step of one thread leaves the others alone *)
Lemma step_other s l s' t :
  InvR s -> step s l = Some s' -> thread_of l <> t -> nth_error (threads s') t = nth_error (threads s) t.
Proof.
  intros HI H Ne. apply (step_inv _ _ _ HI) in H. destruct H; subst s'; cbn [threads set_thread];
    apply nth_error_upd_neq; exact Ne.
Qed.

Lemma results_other s l s' t :
  InvR s -> step s l = Some s' -> thread_of l <> t -> results_of s' t = results_of s t.
Proof. intros HI H Ne. unfold results_of. rewrite (step_other _ _ _ _ HI H Ne). reflexivity. Qed.

(* ------------------------------------------------------------------ invariant: the filter refines the live set *)

Lemma InvR_step s l s' : InvR s -> step s l = Some s' -> InvR s'.
Proof.
  intros H St. apply (step_inv _ _ _ H) in St. destruct H as [Hc H]. unfold InvR, live_at in *.
  destruct St; subst s'; cbn [filt lin set_thread crashed]; try (split; [exact Hc | exact H]).
  split; [reflexivity|]. rewrite spec_run_snoc. apply R_step. exact H.
Qed.

Lemma InvR_exec ls : forall s v f,
  InvR s -> exec s ls = Some (v, f) -> (forall x, In x v -> InvR x) /\ InvR f.
Proof.
  induction ls as [|l r IH]; intros s v f H E; cbn [exec] in E.
  - inversion E. subst. split; [intros x []| exact H].
  - destruct (step s l) as [s1|] eqn:St; [|discriminate].
    destruct (exec s1 r) as [[v1 f1]|] eqn:E1; [|discriminate]. inversion E. subst.
    destruct (IH s1 v1 f (InvR_step _ _ _ H St) E1) as [Hv Hf]. split; [|exact Hf].
    intros x [<-|Hx]; [exact H | apply Hv; exact Hx].
Qed.

Lemma crun_exec s ls f : crun s ls = Some f -> exists v, exec s ls = Some (v, f).
Proof. unfold crun. destruct (exec s ls) as [[v f']|]; [|discriminate]. intros H. inversion H. eauto. Qed.

Lemma InvR_reachable progs ls s : crun (cinit progs) ls = Some s -> InvR s.
Proof.
  intros H. apply crun_exec in H. destruct H as [v E].
  exact (proj2 (InvR_exec ls _ _ _ (InvR_init progs) E)).
Qed.

(* ------------------------------------------------------------------ a lookup in flight *)

Lemma app_one_neq {A} (l : list A) x : l <> l ++ [x].
Proof.
  intros H. apply (f_equal (@length A)) in H. rewrite app_length in H. cbn [length] in H. lia.
Qed.

(** thread [t] sits between its two labels; the call ends exactly at the end of the segment *)
Lemma pending_scan t nip ip0 rest R0 : forall seg s1 th visited s' ip r,
  InvR s1 ->
  nth_error (threads s1) t = Some th -> t_mid th = Some nip -> t_todo th = CLookup ip0 :: rest ->
  t_results th = R0 ->
  exec s1 seg = Some (visited, s') ->
  (forall v, In v visited -> results_of v t = R0) ->
  results_of s' t = R0 ++ [(ip, r)] ->
  exists vlast, In vlast visited /\ ip = ip0 /\ r = scan_t (filt vlast) nip.
Proof.
  induction seg as [|l seg IH]; intros s1 th visited s' ip r HI1 Hth Hm Ht HR E Hv Hr; cbn [exec] in E.
  - inversion E. subst s'. unfold results_of in Hr. rewrite Hth, HR in Hr.
    exfalso. exact (app_one_neq _ _ Hr).
  - destruct (step s1 l) as [s2|] eqn:St; [|discriminate].
    destruct (exec s2 seg) as [[v2 f2]|] eqn:E2; [|discriminate]. inversion E. subst visited s'. clear E.
    destruct (Nat.eq_dec (thread_of l) t) as [Et|Ne].
    + pose proof (step_inv _ _ _ HI1 St) as C.
      destruct C as [th' o rest' H1 H2|th' ip' rest' r' H1 H2|th' ip' rest' b H1 H2|th' nip' ip' rest' H1 H2 H3 Hl Hs];
        rewrite Et in *; rewrite Hth in H1; inversion H1; subst th'; try congruence.
      rewrite Hm in H2. inversion H2. subst nip'. rewrite Ht in H3. inversion H3. subst ip' rest'.
      assert (Hres2 : results_of s2 t = R0 ++ [(ip0, scan_t (filt s1) nip)]).
      { subst s2. unfold results_of, set_thread. cbn [threads].
        rewrite (nth_error_upd_eq _ _ _ _ Hth). cbn [returned t_results]. rewrite HR. reflexivity. }
      destruct seg as [|l2 seg2].
      * cbn [exec] in E2. inversion E2. subst v2 f2. rewrite Hres2 in Hr.
        apply app_inj_tail in Hr. destruct Hr as [_ Hr]. inversion Hr.
        exists s1. split; [left; reflexivity|]. split; reflexivity.
      * exfalso. cbn [exec] in E2. destruct (step s2 l2) as [s3|]; [|discriminate].
        destruct (exec s3 seg2) as [[v3 f3]|]; [|discriminate]. inversion E2. subst v2.
        assert (Hin : In s2 (s1 :: s2 :: v3)) by (right; left; reflexivity).
        specialize (Hv s2 Hin). rewrite Hres2 in Hv. symmetry in Hv. exact (app_one_neq _ _ Hv).
    + assert (Hth2 : nth_error (threads s2) t = Some th) by (rewrite (step_other _ _ _ _ HI1 St Ne); exact Hth).
      destruct (IH s2 th v2 f2 ip r (InvR_step _ _ _ HI1 St) Hth2 Hm Ht HR E2) as [vl [Hin Hrest]].
      * intros v Hin. apply Hv. right. exact Hin.
      * exact Hr.
      * exists vl. split; [right; exact Hin | exact Hrest].
Qed.

Lemma existsb_false_forall {A} (f : A -> bool) l :
  existsb f l = false <-> forall x, In x l -> f x = false.
Proof.
  induction l as [|h t IH]; cbn [existsb In]; [split; [intros _ x []| reflexivity]|].
  rewrite orb_false_iff, IH. split.
  - intros [H1 H2] x [<-|Hx]; auto.
  - intros H. split; [apply H; left; reflexivity | intros x Hx; apply H; right; exact Hx].
Qed.

(** the two halves of C12_lookup_sound *)
Theorem lookup_sound progs pre s :
  crun (cinit progs) pre = Some s ->
  forall t seg visited s' ip r,
    exec s (LoadMatchAll t :: seg) = Some (visited, s') ->
    results_of s' t = results_of s t ++ [(ip, r)] ->
    (forall v, In v visited -> results_of v t = results_of s t) ->
    ((exists rho, rcovers rho ip = true /\ forall v, In v visited -> rlive v rho) -> r = true)
    /\ ((forall v rho, In v visited -> rlive v rho -> rcovers rho ip = false) -> r = false).
Proof.
  intros Hreach t seg visited s' ip r E Hr Hv.
  pose proof (InvR_reachable _ _ _ Hreach) as HI.
  destruct (InvR_exec _ _ _ _ HI E) as [HIv _].
  cbn [exec] in E. destruct (step s (LoadMatchAll t)) as [s1|] eqn:St; [|discriminate].
  destruct (exec s1 seg) as [[v1 f1]|] eqn:E1; [|discriminate]. inversion E. subst visited s'. clear E.
  assert (Hs_in : In s (s :: v1)) by (left; reflexivity).
  pose proof HI as (_ & _ & Hma & _). unfold live_at in Hma.
  pose proof (step_inv _ _ _ HI St) as C.
  destruct C as [th o rest H1 H2 H3 Hlm Hs|th ip0 rest r0 H1 H2 H3 Hl Hcase Hs|th ip0 rest b H1 H2 H3 Hl Hma0 H4 Hs|th nip ip0 rest H1 H2 H3 Hl Hs];
    cbn [thread_of label_matches] in *; try discriminate.
  - (* the call returns at its first label *)
    assert (Hres1 : results_of s1 t = results_of s t ++ [(ip0, r0)]).
    { subst s1. unfold results_of, set_thread. cbn [threads]. rewrite (nth_error_upd_eq _ _ _ _ H1), H1.
      reflexivity. }
    destruct seg as [|l2 seg2].
    + cbn [exec] in E1. inversion E1. subst v1 f1. rewrite Hres1 in Hr.
      apply app_inj_tail in Hr. destruct Hr as [_ Hr]. inversion Hr. subst ip0 r0.
      destruct Hcase as [[Ht Hrt]|[Hf [H4 Hrf]]]; subst r.
      * split; [reflexivity|]. intros Hnone.
        specialize (Hnone s RAll Hs_in). cbn [rlive rcovers] in Hnone.
        unfold live_at in Hnone. rewrite <- Hma in Hnone. specialize (Hnone Ht). discriminate.
      * split; [|reflexivity]. intros [rho [Hc Hl']]. specialize (Hl' s Hs_in).
        destruct rho as [|k]; cbn [rlive rcovers] in *.
        -- unfold live_at in Hl'. rewrite <- Hma in Hl'. congruence.
        -- rewrite H4 in Hc. discriminate.
    + exfalso. cbn [exec] in E1. destruct (step s1 l2) as [s3|]; [|discriminate].
      destruct (exec s3 seg2) as [[v3 f3]|]; [|discriminate]. inversion E1. subst v1.
      assert (Hin : In s1 (s :: s1 :: v3)) by (right; left; reflexivity).
      specialize (Hv s1 Hin). rewrite Hres1 in Hv. symmetry in Hv. exact (app_one_neq _ _ Hv).
  - (* the call goes on to the read-locked scan *)
    assert (Hth1 : nth_error (threads s1) t = Some (mkT (t_done th) (t_todo th) (Some (be32 b)) (t_results th))).
    { subst s1. unfold set_thread. cbn [threads]. exact (nth_error_upd_eq _ _ _ _ H1). }
    assert (HR0 : results_of s t = t_results th) by (unfold results_of; rewrite H1; reflexivity).
    destruct (pending_scan t (be32 b) ip0 rest (t_results th) seg s1 _ v1 f1 ip r (InvR_step _ _ _ HI St) Hth1 eq_refl H3 eq_refl E1)
      as [vl [Hin [Hip Hscan]]].
    + intros v Hin. rewrite <- HR0. apply Hv. right. exact Hin.
    + rewrite <- HR0. exact Hr.
    + subst ip0. assert (Hvl : In vl (s :: v1)) by (right; exact Hin).
      pose proof (HIv vl Hvl) as (_ & Wl & _ & Hinl). unfold live_at in Hinl.
      rewrite scan_abs in Hscan by exact (proj1 Wl).
      rewrite (existsb_iff _ _ _ Hinl) in Hscan. subst r. split.
      * intros [rho [Hc Hl']]. destruct rho as [|k]; cbn [rlive rcovers] in *.
        -- specialize (Hl' s Hs_in). unfold live_at in Hl'. rewrite <- Hma in Hl'. congruence.
        -- rewrite H4 in Hc. apply existsb_exists. exists k. split; [|exact Hc].
           exact (Hl' vl Hvl).
      * intros Hnone. apply existsb_false_forall. intros k Hk.
        specialize (Hnone vl (RKey k) Hvl Hk). cbn [rcovers] in Hnone. rewrite H4 in Hnone. exact Hnone.
Qed.

(* ------------------------------------------------------------------ per-range view of a history *)

Definition klive_step (k : key) (b : bool) (o : op) : bool := if touches k o then is_add o else b.
Definition key_live_from (b : bool) (k : key) (l : list op) : bool := fold_left (klive_step k) l b.
(** is range [k] live after the history [l]: was the last update about [k] an Add? *)
Definition key_live (k : key) (l : list op) : bool := key_live_from false k l.

Lemma kl_app b k l1 l2 : key_live_from b k (l1 ++ l2) = key_live_from (key_live_from b k l1) k l2.
Proof. unfold key_live_from. apply fold_left_app. Qed.

Lemma kl_untouched k l : forall b, touched_in k l = false -> key_live_from b k l = b.
Proof.
  induction l as [|o r IH]; intros b H; [reflexivity|].
  cbn [touched_in existsb] in H. apply orb_false_iff in H. destruct H as [H1 H2].
  cbn [key_live_from fold_left]. unfold klive_step at 2. rewrite H1. apply IH. exact H2.
Qed.

Lemma kl_indep k l : forall b b', touched_in k l = true -> key_live_from b k l = key_live_from b' k l.
Proof.
  induction l as [|o r IH]; intros b b' H; [discriminate|].
  cbn [touched_in existsb] in H. cbn [key_live_from fold_left]. unfold klive_step at 2 4.
  destruct (touches k o) eqn:E; [reflexivity|]. cbn [orb] in H. apply IH. exact H.
Qed.

Lemma touched_in_app k l1 l2 : touched_in k (l1 ++ l2) = touched_in k l1 || touched_in k l2.
Proof. unfold touched_in. apply existsb_app. Qed.

Lemma updates_of_app a b : updates_of (a ++ b) = updates_of a ++ updates_of b.
Proof. unfold updates_of. apply flat_map_app. Qed.

Lemma canon_snd nip ones : snd (canon nip ones) = ones. Proof. reflexivity. Qed.

Lemma canon_zero nip : canon nip 0 = (0, 0).
Proof. unfold canon. rewrite pmask_0, N.land_0_r. reflexivity. Qed.

(** the specification's live set, range by range *)
Lemma spec_step_key st o k :
  0 < snd k ->
  (In k (snd (spec_step st o)) <-> if touches k o then is_add o = true else In k (snd st)).
Proof.
  intros Hk. unfold touches, op_key.
  destruct o as [c|c]; cbn [spec_step op_cidr is_add]; destruct (cidr_arg c) as [[nip ones]|]; try tauto.
  - destruct (ones =? 0) eqn:E0; cbn [snd].
    + replace (key_eqb (canon nip ones) k) with false; [tauto|].
      symmetry. apply not_true_iff_false. intros H. apply key_eqb_eq in H. subst k. cbn [snd canon] in Hk. lia.
    + cbn [In]. destruct (key_eqb (canon nip ones) k) eqn:E.
      * apply key_eqb_eq in E. tauto.
      * assert (canon nip ones <> k) by (intros H; apply key_eqb_eq in H; congruence). tauto.
  - destruct (ones =? 0) eqn:E0; cbn [snd].
    + replace (key_eqb (canon nip ones) k) with false; [tauto|].
      symmetry. apply not_true_iff_false. intros H. apply key_eqb_eq in H. subst k. cbn [snd canon] in Hk. lia.
    + rewrite In_filter_ne. destruct (key_eqb (canon nip ones) k) eqn:E.
      * apply key_eqb_eq in E. split; [intros [_ H]; congruence | discriminate].
      * assert (canon nip ones <> k) by (intros H; apply key_eqb_eq in H; congruence).
        split; [tauto | intros H0; split; [exact H0 | congruence]].
Qed.

Lemma spec_step_all st o : fst (spec_step st o) = klive_step (0, 0) (fst st) o.
Proof.
  unfold klive_step, touches, op_key.
  destruct o as [c|c]; cbn [spec_step op_cidr is_add]; destruct (cidr_arg c) as [[nip ones]|]; try reflexivity.
  - destruct (ones =? 0) eqn:E0; cbn [fst].
    + apply N.eqb_eq in E0. subst ones. rewrite canon_zero. reflexivity.
    + unfold key_eqb. cbn [snd canon]. rewrite E0, andb_false_r. reflexivity.
  - destruct (ones =? 0) eqn:E0; cbn [fst].
    + apply N.eqb_eq in E0. subst ones. rewrite canon_zero. reflexivity.
    + unfold key_eqb. cbn [snd canon]. rewrite E0, andb_false_r. reflexivity.
Qed.

Lemma spec_run_key l : forall st b k,
  0 < snd k -> (In k (snd st) <-> b = true) ->
  (In k (snd (spec_run_from st l)) <-> key_live_from b k l = true).
Proof.
  induction l as [|o r IH]; intros st b k Hk H; [exact H|].
  cbn [spec_run_from key_live_from fold_left]. apply IH; [exact Hk|].
  rewrite spec_step_key by exact Hk. unfold klive_step. destruct (touches k o); [tauto | exact H].
Qed.

Lemma spec_run_all l : forall st, fst (spec_run_from st l) = key_live_from (fst st) (0, 0) l.
Proof.
  induction l as [|o r IH]; intros st; [reflexivity|].
  change (fst (spec_run_from (spec_step st o) r) = key_live_from (klive_step (0, 0) (fst st) o) (0, 0) r).
  rewrite IH, spec_step_all. reflexivity.
Qed.

Lemma spec_step_pos st o :
  (forall k, In k (snd st) -> 0 < snd k) -> forall k, In k (snd (spec_step st o)) -> 0 < snd k.
Proof.
  intros H k. destruct o as [c|c]; cbn [spec_step]; destruct (cidr_arg c) as [[nip ones]|]; auto;
    destruct (ones =? 0) eqn:E0; cbn [snd]; auto.
  - intros [<-|Hk]; [cbn [snd canon]; lia | auto].
  - intros Hk. apply In_filter_ne in Hk. apply H. tauto.
Qed.

Lemma live_set_pos l k : In k (live_set l) -> 0 < snd k.
Proof.
  assert (G : forall l st, (forall k, In k (snd st) -> 0 < snd k) ->
                           forall k, In k (snd (spec_run_from st l)) -> 0 < snd k).
  { clear. induction l as [|o r IH]; intros st H; [exact H|].
    cbn [spec_run_from fold_left]. apply IH. apply spec_step_pos. exact H. }
  unfold live_set, spec_run. apply G. intros k' [].
Qed.

(** two histories that agree range by range give the same answers *)
Lemma keq_spec_contains l1 l2 :
  (forall k, key_live k l1 = key_live k l2) -> forall ip, spec_contains l1 ip = spec_contains l2 ip.
Proof.
  intros H ip. unfold spec_contains, spec_contains_st.
  assert (Hf : fst (spec_run l1) = fst (spec_run l2)).
  { unfold spec_run. rewrite !spec_run_all. apply H. }
  assert (Hs : forall k, In k (snd (spec_run l1)) <-> In k (snd (spec_run l2))).
  { intros k. destruct (N.ltb_spec 0 (snd k)) as [Hp|Hz].
    - unfold spec_run.
      rewrite (spec_run_key l1 (false, []) false k Hp) by (cbn [snd In]; split; [tauto | discriminate]).
      rewrite (spec_run_key l2 (false, []) false k Hp) by (cbn [snd In]; split; [tauto | discriminate]).
      fold (key_live k l1). fold (key_live k l2). rewrite H. tauto.
    - split; intros Hk; apply live_set_pos in Hk; lia. }
  rewrite Hf. destruct (to4 ip); [|reflexivity]. f_equal. apply existsb_iff. exact Hs.
Qed.

(** concatenation of histories about disjoint ranges *)
Lemma touched_in_concat_false k ls :
  (forall l, In l ls -> touched_in k l = false) -> touched_in k (concat ls) = false.
Proof.
  induction ls as [|l r IH]; intros H; [reflexivity|]. cbn [concat]. rewrite touched_in_app.
  rewrite (H l) by (left; reflexivity). apply IH. intros l' Hl. apply H. right. exact Hl.
Qed.

Lemma key_live_concat k ls :
  (forall i j a b, i <> j -> nth_error ls i = Some a -> nth_error ls j = Some b ->
                   touched_in k a = true -> touched_in k b = false) ->
  forall j l, nth_error ls j = Some l -> touched_in k l = true -> key_live k (concat ls) = key_live k l.
Proof.
  induction ls as [|l0 r IH]; intros D j l Hj Ht; [destruct j; discriminate|].
  cbn [concat]. unfold key_live. rewrite kl_app. destruct j as [|j]; cbn [nth_error] in Hj.
  - inversion Hj. subst l0. apply kl_untouched. apply touched_in_concat_false.
    intros l' Hl'. apply In_nth_error in Hl'. destruct Hl' as [n Hn].
    apply (D 0%nat (S n) l l'); auto.
  - assert (Hc : touched_in k (concat r) = true).
    { clear - Hj Ht. revert j Hj. induction r as [|a r IH]; intros j Hj; [destruct j; discriminate|].
      cbn [concat]. rewrite touched_in_app. destruct j as [|j]; cbn [nth_error] in Hj.
      - inversion Hj. subst. rewrite Ht. reflexivity.
      - rewrite (IH j Hj). apply orb_true_r. }
    rewrite (kl_indep k (concat r) _ false Hc). apply (IH (fun i j' a b Hne Ha Hb => D (S i) (S j') a b (fun E => Hne (eq_add_S _ _ E)) Ha Hb) j l Hj Ht).
Qed.

(* ------------------------------------------------------------------ invariant: ownership *)

Section Quiescent.
Variable progs : list (list cop).
Hypothesis Hdisj : disjoint_owners progs.

Definition InvQ (s : cstate) : Prop :=
  length (threads s) = length progs
  /\ (forall t th, nth_error (threads s) t = Some th -> nth_error progs t = Some (t_done th ++ t_todo th))
  /\ (forall t th k, nth_error (threads s) t = Some th ->
        touched_in k (updates_of (t_done th ++ t_todo th)) = true ->
        key_live k (lin s) = key_live k (updates_of (t_done th)))
  /\ (forall k, (forall t p, nth_error progs t = Some p -> touched_in k (updates_of p) = false) ->
        key_live k (lin s) = false).

Lemma InvQ_init : InvQ (cinit progs).
Proof.
  unfold InvQ, cinit. cbn [threads lin]. split; [apply map_length|]. split; [|split].
  - intros t th H. rewrite nth_error_map in H. destruct (nth_error progs t) as [p|]; [|discriminate].
    inversion H. reflexivity.
  - intros t th k H _. rewrite nth_error_map in H. destruct (nth_error progs t) as [p|]; [|discriminate].
    inversion H. reflexivity.
  - reflexivity.
Qed.

Lemma key_live_snoc k l o : key_live k (l ++ [o]) = klive_step k (key_live k l) o.
Proof. unfold key_live. rewrite kl_app. reflexivity. Qed.

Lemma InvQ_step s l s' : InvR s -> InvQ s -> step s l = Some s' -> InvQ s'.
Proof.
  intros HI (Hlen & Hprog & Hkey & Hun) St. apply (step_inv _ _ _ HI) in St.
  (* the moving thread keeps its program; every other thread is untouched *)
  assert (Gen : forall th th', nth_error (threads s) (thread_of l) = Some th ->
            t_done th' ++ t_todo th' = t_done th ++ t_todo th ->
            forall lin' f' c',
            (forall k, touched_in k (updates_of (t_done th ++ t_todo th)) = true ->
                       key_live k lin' = key_live k (updates_of (t_done th'))) ->
            (forall k, touched_in k (updates_of (t_done th ++ t_todo th)) = false ->
                       key_live k lin' = key_live k (lin s)) ->
            InvQ (mkC f' lin' (upd (threads s) (thread_of l) th') c')).
  { intros th th' Hth Hsame lin' f' c' Hown Hoth. unfold InvQ. cbn [threads lin].
    split; [rewrite upd_length; exact Hlen|]. split; [|split].
    - intros t x Hx. destruct (Nat.eq_dec (thread_of l) t) as [<-|Ne].
      + rewrite (nth_error_upd_eq _ _ _ _ Hth) in Hx. inversion Hx. subst x. rewrite Hsame. apply Hprog. exact Hth.
      + rewrite nth_error_upd_neq in Hx by exact Ne. apply Hprog. exact Hx.
    - intros t x k Hx Hk. destruct (Nat.eq_dec (thread_of l) t) as [<-|Ne].
      + rewrite (nth_error_upd_eq _ _ _ _ Hth) in Hx. inversion Hx. subst x. rewrite Hsame in Hk.
        apply Hown. exact Hk.
      + rewrite nth_error_upd_neq in Hx by exact Ne.
        rewrite Hoth; [apply (Hkey t x k Hx Hk)|].
        apply (Hdisj t (thread_of l) _ _ k (not_eq_sym Ne) (Hprog _ _ Hx) (Hprog _ _ Hth) Hk).
    - intros k Hk. rewrite Hoth; [apply Hun; exact Hk|]. apply (Hk (thread_of l)). apply Hprog. exact Hth. }
  destruct St as [th o rest H1 H2 H3 Hlm Hs|th ip rest r H1 H2 H3 Hl Hcase Hs|th ip rest b H1 H2 H3 Hl Hma H4 Hs|th nip ip rest H1 H2 H3 Hl Hs];
    subst s'; cbn [set_thread filt].
  - (* an update *)
    apply (Gen th _ H1).
    + cbn [returned t_done t_todo]. rewrite H3, <- app_assoc. reflexivity.
    + intros k Hk. cbn [returned t_done]. rewrite updates_of_app. cbn [updates_of flat_map app].
      rewrite !key_live_snoc. f_equal. apply (Hkey _ _ _ H1 Hk).
    + intros k Hk. rewrite key_live_snoc. unfold klive_step.
      replace (touches k o) with false; [reflexivity|].
      rewrite H3, updates_of_app, touched_in_app in Hk. apply orb_false_iff in Hk. destruct Hk as [_ Hk].
      cbn [updates_of flat_map app touched_in existsb] in Hk. apply orb_false_iff in Hk. symmetry. tauto.
  - apply (Gen th _ H1).
    + cbn [returned t_done t_todo]. rewrite H3, <- app_assoc. reflexivity.
    + intros k Hk. cbn [returned t_done]. rewrite updates_of_app. cbn [updates_of flat_map]. rewrite app_nil_r.
      apply (Hkey _ _ _ H1 Hk).
    + reflexivity.
  - apply (Gen th _ H1).
    + reflexivity.
    + intros k Hk. cbn [t_done]. apply (Hkey _ _ _ H1 Hk).
    + reflexivity.
  - apply (Gen th _ H1).
    + cbn [returned t_done t_todo]. rewrite H3, <- app_assoc. reflexivity.
    + intros k Hk. cbn [returned t_done]. rewrite updates_of_app. cbn [updates_of flat_map]. rewrite app_nil_r.
      apply (Hkey _ _ _ H1 Hk).
    + reflexivity.
Qed.

Lemma InvQ_exec ls : forall s v f, InvR s -> InvQ s -> exec s ls = Some (v, f) -> InvQ f.
Proof.
  induction ls as [|l r IH]; intros s v f HI H E; cbn [exec] in E.
  - inversion E. subst. exact H.
  - destruct (step s l) as [s1|] eqn:St; [|discriminate].
    destruct (exec s1 r) as [[v1 f1]|] eqn:E1; [|discriminate]. inversion E. subst.
    exact (IH s1 v1 f (InvR_step _ _ _ HI St) (InvQ_step _ _ _ HI H St) E1).
Qed.

(** after all threads have finished the linearised history agrees, range by range, with
    the threads' updates one thread after the other *)
Lemma finished_key_live ls s :
  crun (cinit progs) ls = Some s -> finished s = true ->
  forall k, key_live k (lin s) = key_live k (concat (map updates_of progs)).
Proof.
  intros Hrun Hfin k. apply crun_exec in Hrun. destruct Hrun as [v E].
  pose proof (InvQ_exec _ _ _ _ (InvR_init progs) InvQ_init E) as (Hlen & Hprog & Hkey & Hun).
  assert (Hdone : forall t th, nth_error (threads s) t = Some th -> t_todo th = []).
  { intros t th Hth. unfold finished in Hfin. rewrite forallb_forall in Hfin.
    specialize (Hfin th (nth_error_In _ _ Hth)). unfold thread_finished in Hfin.
    destruct (t_todo th); [reflexivity | discriminate]. }
  destruct (existsb (touched_in k) (map updates_of progs)) eqn:Ex.
  - apply existsb_exists in Ex. destruct Ex as [l [Hl Ht]].
    apply In_nth_error in Hl. destruct Hl as [j Hj].
    rewrite (key_live_concat k (map updates_of progs)) with (j := j) (l := l); auto.
    + rewrite nth_error_map in Hj. destruct (nth_error progs j) as [p|] eqn:Ep; [|discriminate].
      inversion Hj. subst l.
      destruct (nth_error (threads s) j) as [th|] eqn:Eth.
      * pose proof (Hprog _ _ Eth) as Hp. rewrite (Hdone _ _ Eth), app_nil_r, Ep in Hp. inversion Hp. subst p.
        rewrite (Hkey j th k Eth); [reflexivity|]. rewrite (Hdone _ _ Eth), app_nil_r. exact Ht.
      * apply nth_error_None in Eth. assert (j < length progs)%nat by (apply nth_error_Some; congruence). lia.
    + intros i j' a b Hne Ha Hb Hta. rewrite nth_error_map in Ha, Hb.
      destruct (nth_error progs i) as [pa|] eqn:Epa; [|discriminate].
      destruct (nth_error progs j') as [pb|] eqn:Epb; [|discriminate].
      inversion Ha. inversion Hb. subst a b. apply (Hdisj i j' pa pb k Hne Epa Epb Hta).
  - assert (Hall : forall l, In l (map updates_of progs) -> touched_in k l = false).
    { apply existsb_false_forall. exact Ex. }
    rewrite Hun.
    + symmetry. unfold key_live. apply kl_untouched. apply touched_in_concat_false. exact Hall.
    + intros t p Hp. apply Hall. apply in_map. exact (nth_error_In _ _ Hp).
Qed.

Theorem quiescent ls s :
  crun (cinit progs) ls = Some s -> finished s = true ->
  forall ip, contains (filt s) ip = Some (spec_contains (concat (map updates_of progs)) ip).
Proof.
  intros Hrun Hfin ip. pose proof (InvR_reachable _ _ _ Hrun) as [_ HR].
  rewrite (contains_ok _ ip (proj1 HR)). f_equal.
  rewrite (R_contains _ _ ip HR). unfold live_at. fold (spec_contains (lin s) ip).
  apply keq_spec_contains. exact (finished_key_live ls s Hrun Hfin).
Qed.

End Quiescent.

(** without any ownership hypothesis: the final answers are those of the linearisation,
    which is an order-preserving merge of the threads' updates *)
Theorem quiescent_linearised progs ls s :
  crun (cinit progs) ls = Some s ->
  forall ip, contains (filt s) ip = Some (spec_contains (lin s) ip).
Proof.
  intros Hrun ip. pose proof (InvR_reachable _ _ _ Hrun) as [_ HR].
  rewrite (contains_ok _ ip (proj1 HR)). f_equal. exact (R_contains _ _ ip HR).
Qed.

(** C12_no_crash: no atomic section of any execution panics *)
Theorem no_crash progs ls s : crun (cinit progs) ls = Some s -> crashed s = false.
Proof. intros H. exact (proj1 (InvR_reachable _ _ _ H)). Qed.

(** ... said step by step: from a reachable state every enabled label leads to a state that has not crashed *)
Theorem no_crash_step progs ls s l s' :
  crun (cinit progs) ls = Some s -> step s l = Some s' -> crashed s' = false.
Proof. intros H St. exact (proj1 (InvR_step _ _ _ (InvR_reachable _ _ _ H) St)). Qed.

(* ------------------------------------------------------------------ progress and termination *)

(** a thread inside Contains has that call at the head of its program *)
Definition Wth (s : cstate) : Prop :=
  forall t th nip, nth_error (threads s) t = Some th -> t_mid th = Some nip ->
    exists ip rest, t_todo th = CLookup ip :: rest.

Lemma Wth_init progs : Wth (cinit progs).
Proof.
  intros t th nip H Hm. unfold cinit in H. cbn [threads] in H. rewrite nth_error_map in H.
  destruct (nth_error progs t); [|discriminate]. inversion H. subst th. discriminate.
Qed.

Lemma Wth_step s l s' : InvR s -> Wth s -> step s l = Some s' -> Wth s'.
Proof.
  intros HI W St t th nip Hth Hm. destruct (Nat.eq_dec (thread_of l) t) as [E|Ne].
  - apply (step_inv _ _ _ HI) in St.
    destruct St as [th0 o rest H1 H2 H3 Hlm Hs|th0 ip rest r H1 H2 H3 Hl Hcase Hs|th0 ip rest b H1 H2 H3 Hl Hma H4 Hs|th0 nip0 ip rest H1 H2 H3 Hl Hs];
      subst s'; cbn [set_thread threads] in Hth; rewrite E in *;
      rewrite (nth_error_upd_eq _ _ _ _ H1) in Hth; inversion Hth; subst th; cbn [returned t_mid t_todo] in *;
      try discriminate.
    eauto.
  - rewrite (step_other _ _ _ _ HI St Ne) in Hth. exact (W _ _ _ Hth Hm).
Qed.

Lemma Wth_reachable progs ls : forall s, crun (cinit progs) ls = Some s -> Wth s.
Proof.
  intros s H. apply crun_exec in H. destruct H as [v E]. revert E.
  generalize (Wth_init progs). generalize (InvR_init progs). generalize (cinit progs). revert v s.
  induction ls as [|l r IH]; intros v s s0 HI W E; cbn [exec] in E.
  - inversion E. subst. exact W.
  - destruct (step s0 l) as [s1|] eqn:St; [|discriminate].
    destruct (exec s1 r) as [[v1 f1]|] eqn:E1; [|discriminate]. inversion E. subst.
    exact (IH v1 s s1 (InvR_step _ _ _ HI St) (Wth_step _ _ _ HI W St) E1).
Qed.

Lemma bytes_eqb_refl a : bytes_eqb a a = true.
Proof. induction a as [|x a IH]; [reflexivity|]. cbn [bytes_eqb]. rewrite N.eqb_refl. exact IH. Qed.
Lemma cidr_eqb_refl c : cidr_eqb c c = true.
Proof. unfold cidr_eqb. rewrite !bytes_eqb_refl. reflexivity. Qed.

(** the label a pending Add/Remove call takes *)
Definition label_of (t : nat) (k : ukind) : label :=
  match k with
  | KReject => RejectArg t
  | KStore b => StoreMatchAll t b
  | KAdd c => LockedAdd t c
  | KRemove c => LockedRemove t c
  end.

(** no call ever blocks for good or gets stuck: an unfinished thread always has an enabled label *)
Theorem no_stuck progs ls s t th :
  crun (cinit progs) ls = Some s -> nth_error (threads s) t = Some th -> thread_finished th = false ->
  exists l s', thread_of l = t /\ step s l = Some s' /\ crashed s' = false.
Proof.
  intros Hrun Hth Hnf. pose proof (Wth_reachable _ _ _ Hrun) as W.
  pose proof (InvR_reachable _ _ _ Hrun) as HI. pose proof (InvR_wf _ HI) as Wf.
  assert (G : forall l, thread_of l = t -> (exists s', step s l = Some s') ->
                        exists l s', thread_of l = t /\ step s l = Some s' /\ crashed s' = false).
  { intros l Hl [s' Hs]. exists l, s'. split; [exact Hl|]. split; [exact Hs|].
    exact (proj1 (InvR_step _ _ _ HI Hs)). }
  destruct (t_mid th) as [nip|] eqn:Em.
  - destruct (W _ _ _ Hth Em) as [ip [rest Ht]].
    apply (G (LockedScan t)); [reflexivity|]. unfold step. cbn [thread_of].
    rewrite (proj1 HI), Hth, Em, Ht, (scan_ok _ nip Wf). eauto.
  - destruct (t_todo th) as [|[o|ip] rest] eqn:Et.
    + unfold thread_finished in Hnf. rewrite Et, Em in Hnf. discriminate.
    + apply (G (label_of t (classify o))); [destruct (classify o); reflexivity|].
      unfold step. replace (thread_of (label_of t (classify o))) with t by (destruct (classify o); reflexivity).
      rewrite (proj1 HI), Hth, Em, Et.
      replace (label_matches (label_of t (classify o)) (classify o)) with true.
      * rewrite (effect_ok _ o Wf). eauto.
      * destruct (classify o); cbn [label_of label_matches]; try reflexivity;
          try (symmetry; apply cidr_eqb_refl). destruct b; reflexivity.
    + apply (G (LoadMatchAll t)); [reflexivity|]. unfold step. cbn [thread_of]. rewrite (proj1 HI), Hth, Em, Et.
      destruct (match_all (filt s)); [eauto|].
      destruct (to4 ip) as [b|] eqn:E4; [|eauto]. rewrite (be32_p_ok b (to4_length _ _ E4)). eauto.
Qed.

(** every execution is finite: each label strictly decreases the number of labels left *)
Definition tmeasure (th : tstate) : nat :=
  2 * length (t_todo th) - match t_mid th with Some _ => 1 | None => 0 end.
Definition measure (s : cstate) : nat := list_sum (map tmeasure (threads s)).

Lemma sum_upd {A} (f : A -> nat) l i a x :
  nth_error l i = Some a -> (list_sum (map f (upd l i x)) + f a = list_sum (map f l) + f x)%nat.
Proof.
  unfold list_sum.
  revert i; induction l as [|h t IH]; intros [|i] H; cbn [nth_error] in H; try discriminate.
  - inversion H. subst. cbn [upd map fold_right]. lia.
  - cbn [upd map fold_right]. specialize (IH i H). lia.
Qed.

Theorem step_decreases s l s' : InvR s -> step s l = Some s' -> (measure s' < measure s)%nat.
Proof.
  intros HI St. apply (step_inv _ _ _ HI) in St. unfold measure.
  destruct St as [th o rest H1 H2 H3 Hlm Hs|th ip rest r H1 H2 H3 Hl Hcase Hs|th ip rest b H1 H2 H3 Hl Hma H4 Hs|th nip ip rest H1 H2 H3 Hl Hs];
    subst s'; cbn [set_thread threads];
    match goal with |- (list_sum (map _ (upd _ _ ?x)) < _)%nat =>
      pose proof (sum_upd tmeasure _ _ _ x H1) as Hsum;
      assert (Hlt : (tmeasure x < tmeasure th)%nat)
        by (unfold tmeasure; cbn [returned t_todo t_mid]; rewrite ?H2, ?H3; cbn [length]; lia)
    end; lia.
Qed.

Theorem exec_bounded ls : forall s v f,
  InvR s -> exec s ls = Some (v, f) -> (length ls + measure f <= measure s)%nat.
Proof.
  induction ls as [|l r IH]; intros s v f HI E; cbn [exec] in E.
  - inversion E. subst. cbn [length]. lia.
  - destruct (step s l) as [s1|] eqn:St; [|discriminate].
    destruct (exec s1 r) as [[v1 f1]|] eqn:E1; [|discriminate]. inversion E. subst.
    specialize (IH _ _ _ (InvR_step _ _ _ HI St) E1). apply (step_decreases _ _ _ HI) in St. cbn [length]. lia.
Qed.

Theorem exec_bounded_init progs ls v f :
  exec (cinit progs) ls = Some (v, f) -> (length ls + measure f <= measure (cinit progs))%nat.
Proof. apply exec_bounded. apply InvR_init. Qed.
