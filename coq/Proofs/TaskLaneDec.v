(** TaskLane: boolean checkers (with soundness) for the hypotheses of the liveness theorems, so that
    non-vacuity examples can be established by computation on concrete reachable states. *)
From Coq Require Import List Arith Bool Lia.
Import ListNotations.
From Glb Require Import Model.TaskLane Proofs.TaskLaneP Proofs.TaskLaneInv Proofs.TaskLaneLive.

Definition lane_labels (n i : nat) : list label :=
  [QTake i; QDie i; QCount i; QCheck i; QTryOwn i; QTryFail i; QOfferOwn i; QDecr i; WCheck i; WTryFail i; WDie i]
  ++ map (QOfferUni i) (seq 0 n).
Definition internal_labels (n : nat) : list label := flat_map (lane_labels n) (seq 0 n).
Definition wend_labels (n : nat) : list label := map (fun j => WEnd j None) (seq 0 n).

Definition disabled (qs : nat) (s : state) (l : label) : bool :=
  match step qs s l with None => true | Some _ => false end.
Definition stuckb (qs : nat) (s : state) : bool :=
  forallb (disabled qs s) (internal_labels (length (lanes s))).
Definition quiet_stuckb (qs : nat) (s : state) : bool :=
  stuckb qs s && forallb (disabled qs s) (wend_labels (length (lanes s))).
Definition all_deadb (s : state) : bool :=
  forallb (fun l => negb (qalive (q l)) && negb (walive (w l))) (lanes s).

Lemma in_lane_labels n i l : i < n -> In l (lane_labels n i) -> In l (internal_labels n).
Proof.
  intros Hi Hl. unfold internal_labels. apply in_flat_map. exists i. split; [|exact Hl].
  apply in_seq. lia.
Qed.

Lemma nth_none {A} (l : list A) i : ~ i < length l -> nth_error l i = None.
Proof. intros H. apply nth_error_None. lia. Qed.

Theorem stuckb_sound qs s : stuckb qs s = true -> stuck qs internal s.
Proof.
  unfold stuckb, stuck. intros H l Hl. rewrite forallb_forall in H.
  assert (Hin : forall l', In l' (internal_labels (length (lanes s))) -> step qs s l' = None).
  { intros l' Hl'. specialize (H l' Hl'). unfold disabled in H. destruct (step qs s l'); [discriminate|reflexivity]. }
  destruct l; try discriminate Hl;
    match goal with |- step _ _ ?lab = None =>
      match lab with
      | QOfferUni ?i ?j => destruct (lt_dec i (length (lanes s))) as [Hi|Hi]; [destruct (lt_dec j (length (lanes s))) as [Hj|Hj]|]
      | _ ?i => destruct (lt_dec i (length (lanes s))) as [Hi|Hi]
      end
    end;
    try (apply Hin; eapply in_lane_labels; [exact Hi|]; unfold lane_labels; apply in_or_app;
         first [ left; cbn [In]; tauto | right; apply in_map; apply in_seq; lia ]);
    cbn [step];
    try (rewrite (nth_none _ _ Hi); destruct (cancelled s); reflexivity).
  (* QOfferUni i j, i in range, j out of range *)
  rewrite (nth_none _ _ Hj). destruct (nth_error (lanes s) i) as [[b0 [] w0]|]; reflexivity.
Qed.

Theorem quiet_stuckb_sound qs s : quiet_stuckb qs s = true -> stuck qs quiet s.
Proof.
  unfold quiet_stuckb. intros H. apply andb_true_iff in H as [H1 H2].
  pose proof (stuckb_sound _ _ H1) as Hs. intros l Hl. unfold quiet in Hl.
  destruct (internal l) eqn:Hi; [apply Hs; exact Hi|]. cbn [orb] in Hl.
  destruct l; try discriminate Hl. rewrite forallb_forall in H2.
  destruct (lt_dec j (length (lanes s))) as [Hj|Hj].
  - assert (Hin : In (WEnd j None) (wend_labels (length (lanes s)))).
    { unfold wend_labels. apply in_map_iff. exists j. split; [reflexivity|apply in_seq; lia]. }
    specialize (H2 _ Hin). unfold disabled in H2. cbn [step] in *.
    destruct (nth_error (lanes s) j) as [[b0 q0 []]|]; try reflexivity; discriminate.
  - cbn [step]. rewrite (nth_none _ _ Hj). reflexivity.
Qed.

Theorem all_deadb_sound s : all_deadb s = true <-> all_dead s.
Proof.
  unfold all_deadb, all_dead, lane_dead. rewrite forallb_forall, Forall_forall.
  split; intros H x Hx; specialize (H x Hx).
  - apply andb_true_iff in H as [H1 H2]. apply negb_true_iff in H1, H2. auto.
  - destruct H as [-> ->]. reflexivity.
Qed.
