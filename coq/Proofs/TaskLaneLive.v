(** TaskLane: termination measure, shutdown (Wait returns, nothing starts afterwards), progress and work sharing. *)
From Coq Require Import List Arith Bool Lia.
Import ListNotations.
From Glb Require Import Model.TaskLane Proofs.TaskLaneP Proofs.TaskLaneInv.

(* ---------- the measure ---------- *)

(* every label that is not part of PushTask or Status strictly decreases the measure *)
Theorem measure_decreases qs s l s' :
  (internal l || is_wend l || is_cancel l) = true -> step qs s l = Some s' -> measure s' < measure s.
Proof.
  intros Hint Hs. unfold measure.
  step_cases Hs s' l; try discriminate Hint;
    try (match goal with Hj : nth_error (upd _ _ _) _ = Some _ |- _ => resolve_hj end);
    upd_facts lrank; unfold lrank in *; cbn [buf q w qrank wrank length] in *;
    try match goal with H : cancelled s = _ |- _ => rewrite H in * end;
    try lia;
    try (match goal with H : receptive_own ?x = true |- _ => destruct x; try discriminate H end;
         cbn [wrank] in *; lia);
    try (match goal with H : receptive_uni ?x = true |- _ => destruct x; try discriminate H end;
         cbn [wrank] in *; lia);
    try (destruct (cancelled s); cbn [qrank wrank] in *; lia).
Qed.

Corollary internal_decreases qs s l s' :
  internal l = true -> step qs s l = Some s' -> measure s' < measure s.
Proof. intros H. apply measure_decreases. rewrite H. reflexivity. Qed.


Lemma run_measure qs ls : forall s s',
  forallb (fun l => internal l || is_wend l || is_cancel l) ls = true -> run qs s ls = Some s' ->
  measure s' + length ls <= measure s.
Proof.
  induction ls as [|l r IH]; cbn [run forallb length]; intros s s' Hall Hr.
  - inversion Hr; subst; lia.
  - apply andb_true_iff in Hall as [H1 H2]. destruct (step qs s l) as [s1|] eqn:Hs; [|discriminate].
    pose proof (measure_decreases _ _ _ _ H1 Hs). specialize (IH _ _ H2 Hr). lia.
Qed.

(* ---------- enabledness helpers ---------- *)
Lemma handover_enabled s i j t li :
  nth_error (lanes s) i = Some li -> j < length (lanes s) -> handover s i j t <> None.
Proof.
  intros Hi Hj. unfold handover. rewrite Hi. cbv zeta. st_simpl.
  destruct (nth_error (upd (lanes s) i _) j) eqn:E; [discriminate|].
  apply nth_error_None in E. rewrite length_upd in E. lia.
Qed.


(* a queue goroutine that is neither dead nor waiting on an empty buffer nor parked in its blocking offer
   always has an enabled internal step; a parked offer is enabled towards a parked worker *)
Lemma queue_enabled qs s i b0 q0 w0 :
  nth_error (lanes s) i = Some (mkLane b0 q0 w0) ->
  stuck qs internal s ->
  match q0 with
  | QWait => b0 = [] /\ cancelled s = false
  | QOffer _ => cancelled s = false
  | QDead _ => True
  | _ => False
  end.
Proof.
  intros Hn Hst. destruct q0 as [|t|t|t|t| |o].
  - destruct b0 as [|t b].
    + split; [reflexivity|]. destruct (cancelled s) eqn:Hc; [|reflexivity].
      specialize (Hst (QDie i) eq_refl). cbn [step] in Hst. rewrite Hc, Hn in Hst. discriminate.
    + specialize (Hst (QTake i) eq_refl). cbn [step] in Hst. rewrite Hn in Hst. discriminate.
  - specialize (Hst (QCount i) eq_refl). cbn [step] in Hst. rewrite Hn in Hst. discriminate.
  - specialize (Hst (QCheck i) eq_refl). cbn [step] in Hst. rewrite Hn in Hst. discriminate.
  - specialize (Hst (QTryFail i) eq_refl). cbn [step] in Hst. rewrite Hn in Hst. discriminate.
  - destruct (cancelled s) eqn:Hc; [|reflexivity].
    specialize (Hst (QDie i) eq_refl). cbn [step] in Hst. rewrite Hc, Hn in Hst. discriminate.
  - specialize (Hst (QDecr i) eq_refl). cbn [step] in Hst. rewrite Hn in Hst. discriminate.
  - exact I.
Qed.

Lemma worker_enabled qs s j b0 q0 w0 :
  nth_error (lanes s) j = Some (mkLane b0 q0 w0) ->
  stuck qs internal s ->
  match w0 with
  | WBlock => cancelled s = false
  | WRun _ | WDead => True
  | _ => False
  end.
Proof.
  intros Hn Hst. destruct w0 as [| | |t|].
  - specialize (Hst (WCheck j) eq_refl). cbn [step] in Hst. rewrite Hn in Hst. discriminate.
  - specialize (Hst (WTryFail j) eq_refl). cbn [step] in Hst. rewrite Hn in Hst. discriminate.
  - destruct (cancelled s) eqn:Hc; [|reflexivity].
    specialize (Hst (WDie j) eq_refl). cbn [step] in Hst. rewrite Hc, Hn in Hst. discriminate.
  - exact I.
  - exact I.
Qed.

Lemma offer_enabled qs s i j bi t wi bj qj :
  nth_error (lanes s) i = Some (mkLane bi (QOffer t) wi) ->
  nth_error (lanes s) j = Some (mkLane bj qj WBlock) ->
  step qs s (QOfferUni i j) <> None.
Proof.
  intros Hi Hj. cbn [step]. rewrite Hi, Hj. cbn [w receptive_uni].
  eapply handover_enabled; eauto. apply nth_error_Some. congruence.
Qed.

(* ---------- shutdown ---------- *)
(* what Wait() may still be waiting for once no internal step is possible: running tasks only *)
Definition lane_dead_or_running (l : lane) : Prop :=
  qalive (q l) = false /\ (walive (w l) = false \/ exists t, w l = WRun t).

Lemma Forall_nth {A} (P : A -> Prop) l : (forall i a, nth_error l i = Some a -> P a) -> Forall P l.
Proof.
  intros H. apply Forall_forall. intros a Hin. destruct (In_nth_error _ _ Hin) as [i Hi]. eauto.
Qed.

Theorem cancelled_stuck_only_running qs s :
  cancelled s = true -> stuck qs internal s -> Forall lane_dead_or_running (lanes s).
Proof.
  intros Hc Hst. apply Forall_nth. intros i [b0 q0 w0] Hn.
  pose proof (queue_enabled _ _ _ _ _ _ Hn Hst) as HQ. pose proof (worker_enabled _ _ _ _ _ _ Hn Hst) as HW.
  unfold lane_dead_or_running; cbn [q w]. rewrite Hc in *.
  split.
  - destruct q0; try contradiction; try discriminate; try reflexivity. destruct HQ; discriminate.
  - destruct w0; try contradiction; try discriminate; eauto.
Qed.

Theorem cancelled_stuck_all_dead qs s :
  cancelled s = true -> running s = [] -> stuck qs internal s -> all_dead s.
Proof.
  intros Hc Hrun Hst. pose proof (cancelled_stuck_only_running _ _ Hc Hst) as HF.
  unfold all_dead. apply Forall_nth. intros i a Hn. pose proof (Forall_nth_error _ _ _ _ HF Hn) as [H1 H2].
  split; [exact H1|]. destruct H2 as [H2|[t H2]]; [exact H2|]. exfalso.
  assert (In t (running s)).
  { unfold running. apply in_flat_map. exists a. split; [eapply nth_error_In; eauto|]. rewrite H2. left; reflexivity. }
  rewrite Hrun in H. contradiction.
Qed.

Lemma step_cancelled qs s l s' : cancelled s = true -> step qs s l = Some s' -> cancelled s' = true.
Proof. intros Hc Hs. step_cases Hs s' l; try exact Hc; congruence. Qed.

Lemma run_cancelled qs ls s s' : cancelled s = true -> run qs s ls = Some s' -> cancelled s' = true.
Proof. apply (run_invariant (fun s => cancelled s = true) qs (step_cancelled qs)). Qed.

(* a worker inside Start() can always return *)
Lemma wend_enabled qs s j b0 q0 t : nth_error (lanes s) j = Some (mkLane b0 q0 (WRun t)) -> step qs s (WEnd j None) <> None.
Proof. intros Hn. cbn [step]. rewrite Hn. discriminate. Qed.

Theorem wait_returns qs s ls s' :
  cancelled s = true ->
  forallb quiet ls = true -> run qs s ls = Some s' -> stuck qs quiet s' ->
  all_dead s' /\ length ls <= measure s.
Proof.
  intros Hc Hall Hr Hst. split.
  - pose proof (run_cancelled _ _ _ _ Hc Hr) as Hc'.
    assert (Hsti : stuck qs internal s').
    { intros l Hl. apply Hst. unfold quiet. rewrite Hl. reflexivity. }
    pose proof (cancelled_stuck_only_running _ _ Hc' Hsti) as HF.
    apply Forall_nth. intros i [b0 q0 w0] Hn. pose proof (Forall_nth_error _ _ _ _ HF Hn) as [H1 H2].
    split; [exact H1|]. destruct H2 as [H2|[t H2]]; [exact H2|]. exfalso. cbn [w] in H2. subst w0.
    apply (wend_enabled qs _ _ _ _ _ Hn). apply Hst. reflexivity.
  - assert (Hall' : forallb (fun l => internal l || is_wend l || is_cancel l) ls = true).
    { rewrite forallb_forall in *. intros l Hl. specialize (Hall l Hl). unfold quiet in Hall. rewrite Hall. reflexivity. }
    pose proof (run_measure _ _ _ _ Hall' Hr). lia.
Qed.

(* all goroutines dead: nothing is ever started again *)
Lemma step_all_dead qs s l s' : all_dead s -> step qs s l = Some s' -> all_dead s' /\ started s' = started s.
Proof.
  unfold all_dead. intros HI Hs.
  step_cases Hs s' l; try (split; [exact HI|reflexivity]);
    repeat match goal with
    | Hn : nth_error (lanes s) _ = Some _ |- _ =>
        lazymatch type of Hn with _ = Some ?a =>
          lazymatch goal with
          | _ : lane_dead a |- _ => fail
          | _ => pose proof (Forall_nth_error _ _ _ _ HI Hn)
          end end
    end;
    unfold lane_dead in *; cbn [buf q w qalive walive] in *;
    try (intuition discriminate).
  (* PushOk *)
  split; [|reflexivity]. apply Forall_upd; [exact HI|].
  match goal with H : push_lane _ _ _ = Some _ |- _ => unfold push_lane in H; inv_step H; injection H as <- end;
    cbn [buf q w qalive walive] in *; try (intuition discriminate).
Qed.

Theorem nothing_after_wait qs s ls s' : all_dead s -> run qs s ls = Some s' -> started s' = started s /\ all_dead s'.
Proof.
  intros Hd Hr.
  assert (H : all_dead s' /\ started s' = started s).
  { revert Hr. apply (run_invariant (fun x => all_dead x /\ started x = started s) qs).
    - intros s0 l s1 [H1 H2] Hs. destruct (step_all_dead _ _ _ _ H1 Hs) as [H3 H4]. split; [exact H3|congruence].
    - split; [exact Hd|reflexivity]. }
  destruct H; split; assumption.
Qed.

(* ---------- PushTask around cancel ---------- *)
Theorem push_after_cancel qs s p i t s' :
  cancelled s = true -> step qs s (PushBegin p i t) = Some s' ->
  result_of s' p = Some RCtxErr /\ lanes s' = lanes s /\ accepted s' = accepted s /\ started s' = started s
  /\ In t (failed s').
Proof.
  intros Hc Hs. cbn [step] in Hs. rewrite Hc in Hs. inv_step Hs. injection Hs as <-. st_simpl.
  unfold result_of, pstate_of. st_simpl. rewrite aget_aset, Nat.eqb_refl. repeat split; auto. left; reflexivity.
Qed.

Theorem push_after_cancel_enabled qs s p i t :
  cancelled s = true -> is_pending (pstate_of s p) = false -> ~ In t (pushed s) ->
  step qs s (PushBegin p i t) <> None.
Proof.
  intros Hc Hp Hf. cbn [step]. rewrite Hp, Hc.
  destruct (existsb (Nat.eqb t) (pushed s)) eqn:E; [|discriminate].
  exfalso. apply existsb_exists in E as (x & Hin & Hx). apply Nat.eqb_eq in Hx. subst x. auto.
Qed.

Theorem blocked_released qs s p i t :
  cancelled s = true -> pstate_of s p = Pending i t ->
  exists s', step qs s (PushCtxErr p) = Some s' /\ result_of s' p = Some RCtxErr /\ lanes s' = lanes s
             /\ accepted s' = accepted s.
Proof.
  intros Hc Hp. cbn [step]. rewrite Hp, Hc. eexists. split; [reflexivity|].
  unfold result_of, pstate_of. st_simpl. rewrite aget_aset, Nat.eqb_refl. auto.
Qed.

(* ---------- progress and work sharing ---------- *)

Lemma sum_pos_nth {A} (f : A -> nat) l : list_sum (map f l) >= 1 -> exists i a, nth_error l i = Some a /\ f a >= 1.
Proof.
  induction l as [|h tl IH]; cbn [map]; [cbn; lia|].
  change (list_sum (?a :: ?l)) with (a + list_sum l). intros H.
  destruct (f h) eqn:E.
  - destruct IH as (i & a & Hi & Ha); [lia|]. exists (S i), a. auto.
  - exists 0, h. cbn [nth_error]. split; [reflexivity|lia].
Qed.

Lemma forallb_false_nth {A} (f : A -> bool) l : forallb f l = false -> exists i a, nth_error l i = Some a /\ f a = false.
Proof.
  induction l as [|h tl IH]; cbn [forallb]; [discriminate|]. intros H.
  destruct (f h) eqn:E.
  - destruct (IH H) as (i & a & Hi & Ha). exists (S i), a. auto.
  - exists 0, h. auto.
Qed.

(* where an accepted but not yet started task is *)
Lemma holder qs n ls s t :
  run qs (init n) ls = Some s -> In t (accepted s) -> ~ In t (started s) ->
  exists i a, nth_error (lanes s) i = Some a /\ In t (ltasks a).
Proof.
  intros Hr Ha Hs. pose proof (reachable_inv _ _ _ _ Hr t) as HI. unfold where_ in HI.
  apply cnt_pos_In in Ha. apply cnt_zero_notIn in Hs.
  destruct (sum_pos_nth (lcount t) (lanes s)) as (i & a & Hi & Hc); [lia|].
  exists i, a. split; [exact Hi|]. apply cnt_pos_In. exact Hc.
Qed.

Theorem progress qs n ls s t :
  run qs (init n) ls = Some s -> cancelled s = false -> In t (accepted s) -> ~ In t (started s) ->
  (exists l, internal l = true /\ step qs s l <> None) \/ all_workers_running s = true.
Proof.
  intros Hr Hc Ha Hs.
  destruct (holder _ _ _ _ _ Hr Ha Hs) as (i & [b0 q0 w0] & Hi & Hin).
  pose proof (reachable_laneinv _ _ _ _ Hr) as HL. unfold LaneInv in HL. rewrite Hc in HL.
  pose proof (Forall_nth_error _ _ _ _ HL Hi) as [_ Hal]. destruct (Hal eq_refl) as [Hqa _]. cbn [q] in Hqa.
  unfold ltasks in Hin; cbn [buf q] in Hin.
  destruct q0 as [|t0|t0|t0|t0| |o]; try discriminate Hqa.
  - left. rewrite app_nil_r in Hin. destruct b0 as [|t1 b1]; [contradiction|].
    exists (QTake i). split; [reflexivity|]. cbn [step]. rewrite Hi. discriminate.
  - left. exists (QCount i). split; [reflexivity|]. cbn [step]. rewrite Hi. discriminate.
  - left. exists (QCheck i). split; [reflexivity|]. cbn [step]. rewrite Hi. discriminate.
  - left. exists (QTryFail i). split; [reflexivity|]. cbn [step]. rewrite Hi. discriminate.
  - destruct (all_workers_running s) eqn:Haw; [right; reflexivity|left].
    unfold all_workers_running in Haw. apply forallb_false_nth in Haw as (j & [bj qj wj] & Hj & Hw). cbn [w] in Hw.
    pose proof (Forall_nth_error _ _ _ _ HL Hj) as [_ Halj]. destruct (Halj eq_refl) as [_ Hwa]. cbn [w] in Hwa.
    destruct wj; try discriminate.
    + exists (WCheck j). split; [reflexivity|]. cbn [step]. rewrite Hj. discriminate.
    + exists (WTryFail j). split; [reflexivity|]. cbn [step]. rewrite Hj. discriminate.
    + exists (QOfferUni i j). split; [reflexivity|]. eapply offer_enabled; eauto.
  - left. exists (QDecr i). split; [reflexivity|]. cbn [step]. rewrite Hi. discriminate.
Qed.

Theorem work_sharing qs n ls s j lj :
  run qs (init n) ls = Some s -> cancelled s = false ->
  nth_error (lanes s) j = Some lj -> idle_worker (w lj) = true ->
  stuck qs internal s ->
  forall t, In t (accepted s) -> In t (started s).
Proof.
  intros Hr Hc Hj Hidle Hst t Ha.
  destruct (in_dec Nat.eq_dec t (started s)) as [Hs|Hs]; [exact Hs|exfalso].
  destruct lj as [bj qj wj]. cbn [w] in Hidle.
  pose proof (worker_enabled _ _ _ _ _ _ Hj Hst) as HW.
  destruct wj; try contradiction; try discriminate Hidle.
  destruct (holder _ _ _ _ _ Hr Ha Hs) as (i & [b0 q0 w0] & Hi & Hin).
  pose proof (queue_enabled _ _ _ _ _ _ Hi Hst) as HQ.
  pose proof (reachable_laneinv _ _ _ _ Hr) as HL. unfold LaneInv in HL. rewrite Hc in HL.
  pose proof (Forall_nth_error _ _ _ _ HL Hi) as [_ Hal]. destruct (Hal eq_refl) as [Hqa _]. cbn [q] in Hqa.
  unfold ltasks in Hin; cbn [buf q] in Hin.
  destruct q0 as [|t0|t0|t0|t0| |o]; try contradiction; try discriminate Hqa.
  - destruct HQ as [-> _]. cbn in Hin. contradiction.
  - apply (offer_enabled qs _ _ _ _ _ _ _ _ Hi Hj). apply Hst. reflexivity.
Qed.

(* with nothing cancelled and no internal step possible, an unstarted accepted task means every worker is busy *)
Corollary stuck_pending_all_busy qs n ls s t :
  run qs (init n) ls = Some s -> cancelled s = false -> stuck qs internal s ->
  In t (accepted s) -> ~ In t (started s) -> all_workers_running s = true.
Proof.
  intros Hr Hc Hst Ha Hs. destruct (progress _ _ _ _ _ Hr Hc Ha Hs) as [(l & Hl & He)|H]; [|exact H].
  exfalso. apply He. apply Hst. exact Hl.
Qed.

(* a maximal run of internal steps and task returns (no cancel): nothing is left behind *)
Theorem quiet_all_started qs n ls s :
  run qs (init n) ls = Some s -> cancelled s = false -> stuck qs quiet s ->
  forall t, In t (accepted s) -> In t (started s).
Proof.
  intros Hr Hc Hst t Ha.
  destruct (in_dec Nat.eq_dec t (started s)) as [Hs|Hs]; [exact Hs|exfalso].
  assert (Hsti : stuck qs internal s).
  { intros l Hl. apply Hst. unfold quiet. rewrite Hl. reflexivity. }
  pose proof (stuck_pending_all_busy _ _ _ _ _ Hr Hc Hsti Ha Hs) as Hall.
  destruct (holder _ _ _ _ _ Hr Ha Hs) as (i & [b0 q0 w0] & Hi & _).
  unfold all_workers_running in Hall. rewrite forallb_forall in Hall.
  specialize (Hall _ (nth_error_In _ _ Hi)). cbn [w] in Hall. destruct w0; try discriminate.
  apply (wend_enabled qs _ _ _ _ _ Hi). apply Hst. reflexivity.
Qed.

Theorem quiet_run_bounded qs s ls s' :
  forallb quiet ls = true -> run qs s ls = Some s' -> length ls <= measure s.
Proof.
  intros Hall Hr.
  assert (Hall' : forallb (fun l => internal l || is_wend l || is_cancel l) ls = true).
  { rewrite forallb_forall in *. intros l Hl. specialize (Hall l Hl). unfold quiet in Hall. rewrite Hall. reflexivity. }
  pose proof (run_measure _ _ _ _ Hall' Hr). lia.
Qed.

(* the internal-only form: if an internal run after the cancel gets stuck with no task running, all are dead *)
Theorem wait_returns_internal qs s ls s' :
  cancelled s = true -> forallb internal ls = true -> run qs s ls = Some s' ->
  stuck qs internal s' -> running s' = [] -> all_dead s' /\ length ls <= measure s.
Proof.
  intros Hc Hall Hr Hst Hrun. split.
  - apply (cancelled_stuck_all_dead qs); auto. eapply run_cancelled; eauto.
  - apply (quiet_run_bounded qs s ls s'); auto.
    rewrite forallb_forall in *. intros l Hl. unfold quiet. rewrite (Hall l Hl). reflexivity.
Qed.
