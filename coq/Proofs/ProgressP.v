From Coq Require Import List NArith Bool Arith Lia.
Import ListNotations.
From Glb Require Import Model.Progress.
Open Scope N_scope.

(** * Lists: sublists, sums, running sums *)

Inductive sublist {A : Type} : list A -> list A -> Prop :=
| sl_nil : forall l, sublist [] l
| sl_skip : forall l1 x l2, sublist l1 l2 -> sublist l1 (x :: l2)
| sl_take : forall x l1 l2, sublist l1 l2 -> sublist (x :: l1) (x :: l2).

Lemma sublist_refl {A} (l : list A) : sublist l l.
Proof. induction l; constructor; assumption. Qed.

Lemma sublist_app_r {A} (l1 l2 t : list A) : sublist l1 l2 -> sublist l1 (l2 ++ t).
Proof. induction 1; cbn [app]; constructor; assumption. Qed.

Lemma sublist_snoc {A} (l1 l2 : list A) x : sublist l1 l2 -> sublist (l1 ++ [x]) (l2 ++ [x]).
Proof.
  induction 1; cbn [app].
  - induction l as [|y l IH]; cbn [app]; [apply sl_take, sl_nil | apply sl_skip, IH].
  - apply sl_skip; assumption.
  - apply sl_take; assumption.
Qed.

Lemma sublist_In {A} (l1 l2 : list A) x : sublist l1 l2 -> In x l1 -> In x l2.
Proof.
  induction 1; intros H0.
  - destruct H0.
  - right; auto.
  - destruct H0 as [->|H0]; [left; reflexivity | right; auto].
Qed.

Lemma sumN_app a b : sumN (a ++ b) = sumN a + sumN b.
Proof. induction a as [|x a IH]; cbn [app sumN]; [reflexivity | rewrite IH; lia]. Qed.

Lemma reps_app a b : reps (a ++ b) = reps a ++ reps b.
Proof. apply map_app. Qed.

Lemma psums_app acc l1 l2 : psums acc (l1 ++ l2) = psums acc l1 ++ psums (acc + sumN l1) l2.
Proof.
  revert acc; induction l1 as [|x l1 IH]; intros acc; cbn [app psums sumN].
  - rewrite N.add_0_r; reflexivity.
  - rewrite IH. rewrite N.add_assoc. reflexivity.
Qed.

Lemma psums_snoc acc l k : psums acc (l ++ [k]) = psums acc l ++ [acc + sumN l + k].
Proof. rewrite psums_app. reflexivity. Qed.

(** every running sum is the sum of a non-empty prefix *)
Lemma psums_In acc ks v : In v (psums acc ks) ->
  exists j, (1 <= j <= length ks)%nat /\ v = acc + sumN (firstn j ks).
Proof.
  revert acc; induction ks as [|k r IH]; intros acc H; cbn [psums] in H.
  - destruct H.
  - destruct H as [<-|H].
    + exists 1%nat. cbn [length firstn sumN]. split; [lia|]. lia.
    + destruct (IH _ H) as (j & Hj & ->). exists (S j). cbn [length firstn sumN]. split; [lia|]. lia.
Qed.

Lemma psums_le acc ks v : In v (psums acc ks) -> v <= acc + sumN ks.
Proof.
  revert acc; induction ks as [|k r IH]; intros acc H; cbn [psums] in H.
  - destruct H.
  - cbn [sumN]. destruct H as [<-|H]; [lia|]. apply IH in H. lia.
Qed.

(** non-decreasing lists *)
Fixpoint nondec_from (lo : N) (l : list N) : Prop :=
  match l with [] => True | x :: r => lo <= x /\ nondec_from x r end.
Definition nondec (l : list N) : Prop := nondec_from 0 l.

Lemma nondec_from_weaken a b l : b <= a -> nondec_from a l -> nondec_from b l.
Proof. destruct l as [|x r]; cbn [nondec_from]; [auto|]. intros H [H1 H2]. split; [lia|assumption]. Qed.

Lemma psums_nondec acc ks : nondec_from acc (psums acc ks).
Proof.
  revert acc; induction ks as [|k r IH]; intros acc; cbn [psums nondec_from]; [exact I|].
  split; [lia | apply IH].
Qed.

Lemma sublist_nondec l1 l2 : sublist l1 l2 -> forall a, nondec_from a l2 -> nondec_from a l1.
Proof.
  induction 1; intros a Hn; cbn [nondec_from] in *.
  - exact I.
  - destruct Hn as [H1 H2]. apply (nondec_from_weaken x a); [assumption | apply IHsublist; assumption].
  - destruct Hn as [H1 H2]. split; [assumption | apply IHsublist; assumption].
Qed.

Lemma nondec_from_snoc l : forall a t, nondec_from a l -> (forall x, In x l -> x <= t) -> a <= t ->
  nondec_from a (l ++ [t]).
Proof.
  induction l as [|x r IH]; intros a t Hn Hle Hat; cbn [app nondec_from] in *.
  - split; [assumption | exact I].
  - destruct Hn as [H1 H2]. split; [assumption|].
    apply IH; [assumption | intros y Hy; apply Hle; right; assumption | apply Hle; left; reflexivity].
Qed.

(** * The invariant *)

Definition closed_of (p : wpc) : bool := match p with Finished => true | _ => false end.

Record Inv (sc : script) (s : state) : Prop := mkInv {
  inv_split  : done s ++ todo s = sc;
  inv_size   : size s = sumN (reps (done s));
  inv_pc     : match pc s with
               | Running => True
               | Summing n => exists o r, todo s = o :: r /\ n = orep o
               | SentFinal | Finished => todo s = []
               end;
  inv_closed : closed s = closed_of (pc s);
  inv_recvd  : exists rw, recvd s = rw ++ final_part s /\ sublist rw (psums 0 (reps (done s)))
}.

Lemma inv_init sc : Inv sc (init sc).
Proof.
  constructor; cbn; try reflexivity; try exact I.
  exists []. split; [reflexivity | constructor].
Qed.

Ltac inv_some :=
  match goal with
  | H : None = Some _ |- _ => discriminate H
  | H : Some _ = Some _ |- _ => injection H as <-
  end.

Lemma inv_step sc s l s' : Inv sc s -> step s l = Some s' -> Inv sc s'.
Proof.
  intros [Hsp Hsz Hpc Hcl (rw & Hrw & Hsub)] Hst.
  destruct s as [td dn p sz w cl rc ef]. cbn [todo done pc size waiting closed recvd eofs] in *.
  destruct l as [i|i d| | | | |]; cbn [step todo done pc size waiting closed recvd eofs] in Hst.
  - (* Under *)
    destruct p; try discriminate. destruct td as [|o r]; try discriminate.
    destruct (Nat.eqb i (length dn)); try discriminate. inv_some.
    constructor; cbn [todo done pc size waiting closed recvd eofs]; auto.
    + exists o, r. split; reflexivity.
    + exists rw. split; assumption.
  - (* WriteDone *)
    destruct p as [|n| |]; try discriminate. destruct td as [|o r]; try discriminate.
    destruct (Nat.eqb i (length dn)); cbn [negb] in Hst; try discriminate.
    destruct cl; try discriminate.
    destruct (Bool.eqb d w) eqn:Ed; cbn [negb] in Hst; try discriminate. inv_some.
    destruct Hpc as (o' & r' & Ho & Hn). injection Ho as <- <-. subst n.
    cbn [final_part pc] in Hrw. rewrite app_nil_r in Hrw. subst rc.
    constructor; cbn [todo done pc size waiting closed recvd eofs final_part].
    + rewrite <- app_assoc. exact Hsp.
    + rewrite reps_app, sumN_app. cbn [reps map sumN]. rewrite Hsz. lia.
    + exact I.
    + reflexivity.
    + rewrite reps_app. cbn [reps map]. fold (reps dn). rewrite psums_snoc. rewrite N.add_0_l, <- Hsz.
      destruct d.
      * exists (rw ++ [sz + orep o]). split; [rewrite app_nil_r; reflexivity | apply sublist_snoc; assumption].
      * exists rw. split; [rewrite app_nil_r; reflexivity | apply sublist_app_r; assumption].
  - (* CloseSend *)
    destruct p; try discriminate. destruct td; try discriminate.
    destruct cl; try discriminate. destruct w; try discriminate. inv_some.
    cbn [final_part pc] in Hrw. rewrite app_nil_r in Hrw. subst rc.
    constructor; cbn [todo done pc size waiting closed recvd eofs final_part]; auto.
    exists rw. split; [reflexivity | assumption].
  - (* CloseChan *)
    destruct p; try discriminate. destruct cl; try discriminate. inv_some.
    constructor; cbn [todo done pc size waiting closed recvd eofs final_part closed_of]; auto.
    exists rw. split; assumption.
  - (* CWait *)
    destruct w; try discriminate. inv_some.
    constructor; cbn [todo done pc size waiting closed recvd eofs]; auto.
    exists rw. split; assumption.
  - (* CLeave *)
    destruct w; try discriminate. inv_some.
    constructor; cbn [todo done pc size waiting closed recvd eofs]; auto.
    exists rw. split; assumption.
  - (* CRecvClosed *)
    destruct (w && cl); try discriminate. inv_some.
    constructor; cbn [todo done pc size waiting closed recvd eofs]; auto.
    exists rw. split; assumption.
Qed.

Lemma inv_run sc ls : forall s s', Inv sc s -> run s ls = Some s' -> Inv sc s'.
Proof.
  induction ls as [|l r IH]; intros s s' Hi Hr; cbn [run] in Hr.
  - injection Hr as <-. assumption.
  - destruct (step s l) as [s1|] eqn:E; [|discriminate].
    apply (IH s1); [apply (inv_step sc s l); assumption | assumption].
Qed.

Lemma inv_reachable sc s : reachable sc s -> Inv sc s.
Proof. intros [ls H]. apply (inv_run sc ls (init sc)); [apply inv_init | assumption]. Qed.

(** * Consequences *)

Lemma size_is_sum sc s : reachable sc s ->
  size s = sumN (reps (done s)) /\ done s ++ todo s = sc.
Proof. intros H. apply inv_reachable in H. destruct H. split; assumption. Qed.

Lemma firstn_reps_done sc s j : done s ++ todo s = sc -> (j <= length (done s))%nat ->
  firstn j (reps sc) = firstn j (reps (done s)).
Proof.
  intros <- Hj. rewrite reps_app. rewrite firstn_app.
  replace (j - length (reps (done s)))%nat with 0%nat.
  - cbn [firstn]. apply app_nil_r.
  - unfold reps. rewrite map_length. lia.
Qed.

Lemma received_shape sc s : reachable sc s ->
  nondec (recvd s)
  /\ (forall v, In v (recvd s) ->
        exists j, (j <= length (done s))%nat /\ v = sumN (firstn j (reps sc)))
  /\ (exists rw, recvd s = rw ++ final_part s /\ sublist rw (psums 0 (reps (done s)))).
Proof.
  intros H. apply inv_reachable in H. destruct H as [Hsp Hsz Hpc Hcl (rw & Hrw & Hsub)].
  assert (Hrwn : nondec rw) by (apply (sublist_nondec _ _ Hsub), psums_nondec).
  assert (Hrwle : forall x, In x rw -> x <= size s).
  { intros x Hx. apply (sublist_In _ _ _ Hsub) in Hx. apply psums_le in Hx. rewrite Hsz. lia. }
  split; [|split].
  - rewrite Hrw. unfold final_part. destruct (pc s).
    + rewrite app_nil_r. assumption.
    + rewrite app_nil_r. assumption.
    + apply nondec_from_snoc; [assumption | assumption | lia].
    + apply nondec_from_snoc; [assumption | assumption | lia].
  - intros v Hv. rewrite Hrw in Hv. apply in_app_or in Hv. destruct Hv as [Hv|Hv].
    + apply (sublist_In _ _ _ Hsub) in Hv. apply psums_In in Hv. destruct Hv as (j & Hj & ->).
      unfold reps in Hj. rewrite map_length in Hj.
      exists j. split; [lia|]. rewrite (firstn_reps_done sc s j Hsp) by lia. lia.
    + exists (length (done s)). split; [lia|].
      rewrite (firstn_reps_done sc s _ Hsp) by lia.
      replace (length (done s)) with (length (reps (done s))) by (unfold reps; apply map_length).
      rewrite firstn_all.
      unfold final_part in Hv. destruct (pc s); cbn [In] in Hv;
        try contradiction; destruct Hv as [<-|[]]; assumption.
  - exists rw. split; assumption.
Qed.

Lemma write_never_blocks sc s : reachable sc s ->
  (forall n, pc s = Summing n ->
     exists s', step s (WriteDone (length (done s)) (waiting s)) = Some s')
  /\ (pc s = Running -> todo s <> [] -> exists s', step s (Under (length (done s))) = Some s').
Proof.
  intros H. apply inv_reachable in H. destruct H as [Hsp Hsz Hpc Hcl _].
  split.
  - intros n Hn. rewrite Hn in Hpc, Hcl. destruct Hpc as (o & r & Ht & _). cbn [closed_of] in Hcl.
    unfold step. rewrite Hn, Ht, Hcl, Nat.eqb_refl, Bool.eqb_reflx. cbn [negb]. eexists; reflexivity.
  - intros Hr Ht. unfold step. rewrite Hr. destruct (todo s) as [|o r]; [contradiction|].
    rewrite Nat.eqb_refl. eexists; reflexivity.
Qed.

(** the select never takes the wrong branch: the delivered flag of an enabled WriteDone is forced *)
Lemma write_done_flag s i d s' : step s (WriteDone i d) = Some s' -> d = waiting s.
Proof.
  unfold step. destruct (pc s); try discriminate. destruct (todo s); try discriminate.
  destruct (negb (Nat.eqb i (length (done s)))); try discriminate.
  destruct (closed s); try discriminate.
  destruct (Bool.eqb d (waiting s)) eqn:E; cbn [negb]; try discriminate.
  intros _. apply Bool.eqb_prop. assumption.
Qed.

Lemma close_result sc s : reachable sc s -> pc s = Finished ->
  closed s = true /\ todo s = [] /\ done s = sc /\ size s = total sc
  /\ exists rw, recvd s = rw ++ [total sc].
Proof.
  intros H Hp. apply inv_reachable in H. destruct H as [Hsp Hsz Hpc Hcl (rw & Hrw & Hsub)].
  rewrite Hp in Hpc, Hcl. rewrite Hpc, app_nil_r in Hsp.
  assert (Hs : size s = total sc) by (unfold total; rewrite <- Hsp; assumption).
  repeat split; try assumption.
  exists rw. rewrite Hrw. unfold final_part. rewrite Hp, Hs. reflexivity.
Qed.

(** once Close has returned nothing more is ever received, and receives report "closed" *)
Lemma after_close s l s' : pc s = Finished -> step s l = Some s' ->
  pc s' = Finished /\ recvd s' = recvd s /\ size s' = size s.
Proof.
  intros Hp. destruct l; unfold step; rewrite ?Hp.
  - discriminate.
  - discriminate.
  - discriminate.
  - discriminate.
  - destruct (waiting s); [discriminate|]. intros H; injection H as <-. cbn. auto.
  - destruct (waiting s); [|discriminate]. intros H; injection H as <-. cbn. auto.
  - destruct (waiting s && closed s); [|discriminate]. intros H; injection H as <-. cbn. auto.
Qed.

Lemma recv_after_close sc s : reachable sc s -> pc s = Finished -> waiting s = true ->
  exists s', step s CRecvClosed = Some s' /\ eofs s' = S (eofs s) /\ recvd s' = recvd s.
Proof.
  intros H Hp Hw. destruct (close_result sc s H Hp) as (Hc & _).
  unfold step. rewrite Hw, Hc. cbn [andb]. eexists. split; [reflexivity|]. cbn. auto.
Qed.

Lemma close_needs_receiver sc s : reachable sc s -> pc s = Running -> todo s = [] ->
  ((exists s', step s CloseSend = Some s') <-> waiting s = true).
Proof.
  intros H Hp Ht. apply inv_reachable in H. destruct H as [_ _ _ Hcl _].
  rewrite Hp in Hcl. cbn [closed_of] in Hcl.
  unfold step. rewrite Hp, Ht, Hcl. destruct (waiting s); split; intros H.
  - reflexivity.
  - eexists; reflexivity.
  - destruct H as [s' H]; discriminate.
  - discriminate.
Qed.

(** no value is ever received when the consumer never waits before Close's send: the
    "absent until Close" consumer gets exactly [total] *)
Lemma deliveries_need_waiting s l s' : step s l = Some s' -> recvd s' <> recvd s ->
  waiting s = true /\ (l = CloseSend \/ exists i, l = WriteDone i true).
Proof.
  destruct l as [i|i d| | | | |]; unfold step.
  - destruct (pc s); try discriminate. destruct (todo s); try discriminate.
    destruct (Nat.eqb i (length (done s))); try discriminate. intros H; injection H as <-. cbn. congruence.
  - destruct (pc s); try discriminate. destruct (todo s); try discriminate.
    destruct (negb (Nat.eqb i (length (done s)))); try discriminate.
    destruct (closed s); try discriminate.
    destruct (Bool.eqb d (waiting s)) eqn:E; cbn [negb]; try discriminate.
    apply Bool.eqb_prop in E. subst d.
    intros H; injection H as <-. cbn [recvd]. destruct (waiting s); [|congruence].
    intros _. split; [reflexivity | right; exists i; reflexivity].
  - destruct (pc s); try discriminate. destruct (todo s); try discriminate.
    destruct (closed s); try discriminate. destruct (waiting s); try discriminate.
    intros _ _. split; [reflexivity | left; reflexivity].
  - destruct (pc s); try discriminate. destruct (closed s); try discriminate.
    intros H; injection H as <-. cbn. congruence.
  - destruct (waiting s); try discriminate. intros H; injection H as <-. cbn. congruence.
  - destruct (waiting s); try discriminate. intros H; injection H as <-. cbn. congruence.
  - destruct (waiting s && closed s); try discriminate. intros H; injection H as <-. cbn. congruence.
Qed.

(** * Progress of the writer: every writer label decreases the measure, consumer labels keep it,
    and unless Close has returned the writer has an enabled label or is blocked in Close's send
    exactly because no consumer is waiting (then CWait enables it). *)
Lemma writer_measure_decreases s l s' : step s l = Some s' ->
  if is_writer_label l then (writer_measure s' < writer_measure s)%nat
  else writer_measure s' = writer_measure s.
Proof.
  destruct l as [i|i d| | | | |]; unfold step; cbn [is_writer_label].
  - destruct (pc s) eqn:Ep; try discriminate. destruct (todo s) eqn:Et; try discriminate.
    destruct (Nat.eqb i (length (done s))); try discriminate. intros H; injection H as <-.
    unfold writer_measure. rewrite Ep, Et. cbn [pc todo length]. lia.
  - destruct (pc s) eqn:Ep; try discriminate. destruct (todo s) eqn:Et; try discriminate.
    destruct (negb (Nat.eqb i (length (done s)))); try discriminate.
    destruct (closed s); try discriminate.
    destruct (negb (Bool.eqb d (waiting s))); try discriminate. intros H; injection H as <-.
    unfold writer_measure. rewrite Ep, Et. cbn [pc todo length]. lia.
  - destruct (pc s) eqn:Ep; try discriminate. destruct (todo s) eqn:Et; try discriminate.
    destruct (closed s); try discriminate. destruct (waiting s); try discriminate.
    intros H; injection H as <-. unfold writer_measure. rewrite Ep, Et. cbn [pc todo length]. lia.
  - destruct (pc s) eqn:Ep; try discriminate. destruct (closed s); try discriminate.
    intros H; injection H as <-. unfold writer_measure. rewrite Ep. cbn [pc]. lia.
  - destruct (waiting s); try discriminate. intros H; injection H as <-. reflexivity.
  - destruct (waiting s); try discriminate. intros H; injection H as <-. reflexivity.
  - destruct (waiting s && closed s); try discriminate. intros H; injection H as <-. reflexivity.
Qed.

Lemma writer_progress sc s : reachable sc s -> pc s <> Finished ->
  (exists l s', is_writer_label l = true /\ step s l = Some s')
  \/ (pc s = Running /\ todo s = [] /\ waiting s = false
      /\ exists s1 s2, step s CWait = Some s1 /\ step s1 CloseSend = Some s2).
Proof.
  intros H Hnf. pose proof (write_never_blocks sc s H) as [Hsum Hund].
  pose proof (close_needs_receiver sc s H) as Hclose.
  apply inv_reachable in H. destruct H as [_ _ Hpc Hcl _].
  destruct (pc s) eqn:Ep.
  - destruct (todo s) as [|o r] eqn:Et.
    + destruct (waiting s) eqn:Ew.
      * left. destruct (proj2 (Hclose eq_refl eq_refl) eq_refl) as [s' Hs'].
        exists CloseSend, s'. split; [reflexivity | assumption].
      * right. repeat split. cbn [closed_of] in Hcl.
        unfold step. rewrite Ew. eexists. eexists. split; [reflexivity|].
        cbn [pc todo closed waiting]. rewrite Ep, Et, Hcl. reflexivity.
    + left. destruct (Hund eq_refl) as [s' Hs']; [discriminate|].
      exists (Under (length (done s))), s'. split; [reflexivity | assumption].
  - left. destruct (Hsum n eq_refl) as [s' Hs'].
    exists (WriteDone (length (done s)) (waiting s)), s'. split; [reflexivity | assumption].
  - left. cbn [closed_of] in Hcl. exists CloseChan. unfold step. rewrite Ep, Hcl. eexists. split; reflexivity.
  - contradiction.
Qed.
