(** The line is valid UTF-8 whenever every embedded encoding/json text is: glb's own writer never
    emits a byte that is not part of a valid UTF-8 sequence. *)
From Coq Require Import List NArith Lia Bool ZArith.
From Coq Require Import ZifyBool ZifyN ZifyNat.
Import ListNotations.
From Glb Require Import Lib.Utf8 Proofs.Utf8P Lib.JsonDec Proofs.JsonDecP Lib.Json Proofs.JsonP
     Model.LoggerJson Model.LoggerJsonSpec Proofs.LoggerJsonEscP Proofs.LoggerJsonP.
Open Scope N_scope.

Lemma uv_fuel : forall f f' s, (length s <= f)%nat -> (length s <= f')%nat -> uv f s = uv f' s.
Proof.
  induction f as [|f IH]; intros f' s Hf Hf'.
  { destruct s; [|cbn in Hf; lia]. destruct f'; reflexivity. }
  destruct s as [|b t]; [destruct f'; reflexivity|].
  destruct f' as [|f']; [cbn in Hf'; lia|]. cbn [uv length] in *.
  destruct (b <? 128); [apply IH; lia|].
  destruct (invalid (decode (b :: t))); [reflexivity|].
  pose proof (decode_size b t) as Hs.
  apply IH; rewrite skipn_length; cbn [length]; lia.
Qed.

Lemma utf8_ok_app a b : utf8_ok a = true -> utf8_ok b = true -> utf8_ok (a ++ b) = true.
Proof.
  unfold utf8_ok. intros Ha Hb.
  assert (G : forall n a, (length a <= n)%nat -> uv n a = true -> uv (n + length b) (a ++ b) = true).
  { induction n as [|n IH]; intros a0 Hl H.
    - destruct a0; [|cbn in Hl; lia]. exact Hb.
    - destruct a0 as [|x t].
      + cbn [app]. rewrite <- Hb. apply uv_fuel; lia.
      + cbn [length] in Hl. change ((x :: t) ++ b) with (x :: t ++ b). cbn [uv Nat.add] in *.
        destruct (x <? 128); [apply IH; [lia|exact H]|].
        destruct (invalid (decode (x :: t))) eqn:Ei; [discriminate|].
        destruct (decode_ext x t b Ei) as [Hd Hk]. change (x :: t ++ b) with ((x :: t) ++ b).
        rewrite Hd, Ei. pose proof (decode_size x t) as Hs.
        rewrite skipn_app. replace (snd (decode (x :: t)) - length (x :: t))%nat with 0%nat by lia.
        cbn [skipn]. apply IH; [rewrite skipn_length; cbn [length]; lia|exact H]. }
  rewrite <- (G (length a) a (le_n _) Ha). apply uv_fuel; rewrite app_length; lia.
Qed.

Lemma utf8_ok_ascii l : forallb (fun b => b <? 128) l = true -> utf8_ok l = true.
Proof.
  unfold utf8_ok. induction l as [|b t IH]; [reflexivity|]. cbn [forallb length uv].
  intros H. apply andb_true_iff in H as [H1 H2]. rewrite H1. exact (IH H2).
Qed.

Lemma utf8_ok_cons b l : b < 128 -> utf8_ok l = true -> utf8_ok (b :: l) = true.
Proof. intros Hb Hl. unfold utf8_ok. cbn [length uv]. replace (b <? 128) with true by lia. exact Hl. Qed.

Lemma esc_ascii_ascii b : b < 128 -> forallb (fun x => x <? 128) (esc_ascii b) = true.
Proof.
  intros Hb. unfold esc_ascii, hexd.
  destruct (safe b); [cbn [forallb]; lia|].
  destruct ((b =? 92) || (b =? 34)); [cbn [forallb]; lia|].
  destruct (b =? 10); [reflexivity|]. destruct (b =? 13); [reflexivity|]. destruct (b =? 9); [reflexivity|].
  cbn [forallb]. destruct (b / 16 <? 10); destruct (b mod 16 <? 10); lia.
Qed.

Lemma ajs_utf8 : forall n s, utf8_ok (ajs n s) = true.
Proof.
  induction n as [|n IH]; intros s; [reflexivity|].
  destruct s as [|b t]; [reflexivity|]. cbn [ajs].
  destruct (b <? 128) eqn:Eb.
  { apply utf8_ok_app; [apply utf8_ok_ascii, esc_ascii_ascii; lia|apply IH]. }
  destruct (decode (b :: t)) as [c k] eqn:Ed.
  pose proof (decode_size b t) as Hsz. rewrite Ed in Hsz. cbn [snd fst] in *.
  destruct (invalid (c, k)) eqn:Ei.
  { apply utf8_ok_app; [reflexivity|apply IH]. }
  destruct (decode_valid_enc (b :: t) c k Ed Ei) as (Hfn & Hst & Hlen); [lia|].
  destruct ((c =? 8232) || (c =? 8233)) eqn:Els.
  { apply utf8_ok_app; [|apply IH]. apply utf8_ok_ascii. unfold hexd. cbn [forallb].
    destruct (c mod 16 <? 10); lia. }
  apply utf8_ok_app; [|apply IH].
  unfold utf8_ok. rewrite Hlen.
  assert (Hhd : exists u, firstn k (b :: t) = b :: u) by (destruct k; [lia|cbn [firstn]; eauto]).
  destruct Hhd as (u & Hu). destruct k as [|k']; [lia|]. rewrite Hu. cbn [uv]. rewrite Eb.
  rewrite <- Hu. pose proof (Hst []) as Hd. rewrite app_nil_r in Hd. rewrite Hd, Ei. cbn [snd].
  rewrite skipn_all2 by lia. destruct k'; reflexivity.
Qed.

Lemma quoted_utf8 s : utf8_ok (quoted s) = true.
Proof.
  unfold quoted. apply utf8_ok_cons; [lia|]. apply utf8_ok_app; [apply ajs_utf8|reflexivity].
Qed.

Lemma canon_int_utf8 l : canon_int l -> utf8_ok l = true.
Proof.
  intros (sg & body & -> & Hs & d & ds & -> & Hd & Hds & _). apply utf8_ok_ascii.
  rewrite forallb_app. apply andb_true_iff. split.
  - destruct Hs as [-> | ->]; reflexivity.
  - cbn [forallb]. unfold is_digit in Hd. apply andb_true_iff. split; [lia|].
    rewrite forallb_forall in *. intros x Hx. specialize (Hds x Hx). unfold is_digit in Hds. lia.
Qed.

Lemma leaf_utf8 v : is_leaf v -> wf_value v = true -> raws_utf8_value v = true -> utf8_ok (append_json_value v) = true.
Proof.
  intros Hl Hwf Hr. destruct v as [s|z|n|b|z|t|r|s|s|l]; cbn [append_json_value] in *; try contradiction.
  - apply quoted_utf8.
  - apply canon_int_utf8, to_dec_z_canon.
  - apply canon_int_utf8, to_dec_canon_int.
  - destruct b; reflexivity.
  - apply canon_int_utf8, to_dec_z_canon.
  - cbn [wf_value] in Hwf. apply utf8_ok_cons; [lia|]. apply utf8_ok_app; [|reflexivity].
    apply utf8_ok_ascii. unfold clean_text in Hwf. rewrite forallb_forall in *. intros x Hx.
    specialize (Hwf x Hx). unfold clean_byte in Hwf. lia.
  - destruct r as [b|m]; cbn [append_json_marshal raws_utf8_value] in *; [exact Hr|apply quoted_utf8].
  - apply quoted_utf8.
  - apply quoted_utf8.
Qed.

Definition Utf8Out (out : bool -> list N * bool) : Prop := forall sep o s', out sep = (o, s') -> utf8_ok o = true.

Lemma member_utf8 sep k vt : utf8_ok vt = true -> utf8_ok (sepb sep ++ member_txt k vt) = true.
Proof.
  intros Hv. unfold member_txt. apply utf8_ok_app; [destruct sep; reflexivity|].
  apply utf8_ok_app; [reflexivity|]. apply utf8_ok_app; [apply ajs_utf8|]. apply utf8_ok_app; [reflexivity|exact Hv].
Qed.

Lemma raws_group_eq l : raws_utf8_value (VGroup l) = raws_utf8_attrs l.
Proof.
  cbn [raws_utf8_value]. induction l as [|[k v] t IH]; [reflexivity|]. cbn [raws_utf8_attrs]. rewrite <- IH. reflexivity.
Qed.

Theorem attrs_utf8 : forall l, wf_attrs l = true -> raws_utf8_attrs l = true -> Utf8Out (append_json_attrs l).
Proof.
  apply (attrs_ind2
           (fun v => forall k, wf_value v = true -> raws_utf8_value v = true -> Utf8Out (append_json_attr k v))
           (fun l => wf_attrs l = true -> raws_utf8_attrs l = true -> Utf8Out (append_json_attrs l))).
  - intros v Hl k Hwf Hr sep o s' E.
    assert (E' : (sepb sep ++ member_txt k (append_json_value v), true) = (o, s')).
    { rewrite <- E. destruct v; try contradiction; reflexivity. }
    injection E' as <- _. apply member_utf8, leaf_utf8; assumption.
  - intros l IH k Hwf Hr sep o s' E. rewrite wf_group_eq in Hwf. rewrite raws_group_eq in Hr.
    specialize (IH Hwf Hr). rewrite attr_group_eq in E. destruct (is_empty k).
    + exact (IH _ _ _ E).
    + destruct (append_json_attrs l false) as [oi has] eqn:Ei. destruct has.
      * injection E as <- _. change (utf8_ok (sepb sep ++ member_txt k (123 :: oi ++ [125])) = true). apply member_utf8.
        apply utf8_ok_cons; [lia|]. apply utf8_ok_app; [exact (IH _ _ _ Ei)|reflexivity].
      * injection E as <- _. reflexivity.
  - intros _ _ sep o s' [= <- _]. reflexivity.
  - intros k v l IHv IHl Hwf Hr sep o s' E. cbn [wf_attrs raws_utf8_attrs append_json_attrs] in *.
    apply andb_true_iff in Hwf as [Hv Hl]. apply andb_true_iff in Hr as [Hrv Hrl].
    destruct (append_json_attr k v sep) as [o1 s1] eqn:E1. destruct (append_json_attrs l s1) as [o2 s2] eqn:E2.
    injection E as <- _. apply utf8_ok_app; [exact (IHv k Hv Hrv _ _ _ E1)|exact (IHl Hl Hrl _ _ _ E2)].
Qed.

Theorem chain_utf8 : forall c inner,
  wf_chain c = true -> wf_attrs inner = true ->
  forallb (fun d => match d with DAttrs al => raws_utf8_attrs al | DGroup _ => true end) c = true ->
  raws_utf8_attrs inner = true -> Utf8Out (chain_out c inner).
Proof.
  induction c as [|[al|g] c IH]; intros inner Hc Hi Hrc Hri sep o s' E; cbn [chain_out forallb wf_chain wf_deriv] in *.
  - exact (attrs_utf8 inner Hi Hri _ _ _ E).
  - apply andb_true_iff in Hc as [Ha Hc]. apply andb_true_iff in Hrc as [Hra Hrc].
    destruct (append_json_attrs al sep) as [o1 s1] eqn:E1. destruct (chain_out c inner s1) as [o2 s2] eqn:E2.
    injection E as <- _. apply utf8_ok_app; [exact (attrs_utf8 al Ha Hra _ _ _ E1)|exact (IH inner Hc Hi Hrc Hri _ _ _ E2)].
  - apply andb_true_iff in Hc as [_ Hc]. apply andb_true_iff in Hrc as [_ Hrc].
    destruct (chain_out c inner false) as [oi si] eqn:Ei. injection E as <- _.
    apply member_utf8. apply utf8_ok_cons; [lia|]. apply utf8_ok_app; [exact (IH inner Hc Hi Hrc Hri _ _ _ Ei)|reflexivity].
Qed.

Theorem json_line_utf8 chain r :
  wf_chain chain = true -> wf_record r = true -> raws_utf8 chain r = true ->
  utf8_ok (handle (derive chain) r) = true.
Proof.
  intros Hc Hr Hu. unfold wf_record in Hr. apply andb_true_iff in Hr as [Ht Ha].
  unfold raws_utf8 in Hu. apply andb_true_iff in Hu as [Huc Hur].
  rewrite handle_eq.
  destruct (chain_out (DAttrs (fixed r) :: chain) (attrs r) false) as [O s'] eqn:E. cbn [fst].
  apply utf8_ok_cons; [lia|]. apply utf8_ok_app; [|reflexivity].
  apply (chain_utf8 (DAttrs (fixed r) :: chain) (attrs r)) with (sep := false) (s' := s'); try assumption.
  - cbn [wf_chain forallb wf_deriv]. rewrite (wf_fixed r Ht). exact Hc.
  - cbn [forallb]. rewrite Huc. rewrite andb_true_r.
    unfold fixed. destruct (src r) as [[file line]|]; reflexivity.
Qed.
