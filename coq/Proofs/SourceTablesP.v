(** Lemmas for the source-table obligations (Lib/SourceTables.v): soundness of the boolean
    checkers, and [Model/ShellEscape.v] = the literal-parametrised reading at the literals
    of Lib/SourceTables.v. *)
From Coq Require Import List NArith Bool Arith Lia.
Import ListNotations.
From Glb Require Import Lib.SourceTables Lib.RouteBytes Model.Router Model.ShellEscape.
Open Scope N_scope.

(** ** finite tables *)

Lemma forallb_seq : forall (p : nat -> bool) n, forallb p (seq 0 n) = true -> forall i, (i < n)%nat -> p i = true.
Proof.
  intros p n H i Hi. rewrite forallb_forall in H. apply H. apply in_seq. lia.
Qed.

Lemma table_is_b_sound : forall tbl f n, table_is_b tbl f n = true ->
  length tbl = n /\ forall b : N, b < N.of_nat n -> nth (N.to_nat b) tbl false = f b.
Proof.
  intros tbl f n H. unfold table_is_b in H. apply andb_true_iff in H. destruct H as [Hl Hf]. split.
  - apply Nat.eqb_eq. exact Hl.
  - intros b Hb. pose proof (forallb_seq _ _ Hf (N.to_nat b)) as P. cbv beta in P.
    rewrite N2Nat.id in P. apply eqb_prop. apply P. lia.
Qed.

Lemma table_is_N_sound : forall tbl f n, table_is_N tbl f n = true ->
  length tbl = n /\ forall i : N, i < N.of_nat n -> nth (N.to_nat i) tbl 0 = f i.
Proof.
  intros tbl f n H. unfold table_is_N in H. apply andb_true_iff in H. destruct H as [Hl Hf]. split.
  - apply Nat.eqb_eq. exact Hl.
  - intros b Hb. pose proof (forallb_seq _ _ Hf (N.to_nat b)) as P. cbv beta in P.
    rewrite N2Nat.id in P. apply N.eqb_eq. apply P. lia.
Qed.

Lemma nthN_nth : forall A (l : list A) i d, nthN l i d = nth (N.to_nat i) l d.
Proof.
  induction l as [|x r IH]; intros i d; cbn [nthN].
  - destruct (N.to_nat i); reflexivity.
  - destruct (i =? 0) eqn:E.
    + apply N.eqb_eq in E. subst. reflexivity.
    + apply N.eqb_neq in E. rewrite IH.
      replace (N.to_nat i) with (S (N.to_nat (i - 1))) by lia. reflexivity.
Qed.

(** ** byte strings *)

Lemma st_bytes_eqb_eq : forall a b, SourceTables.bytes_eqb a b = true <-> a = b.
Proof.
  induction a as [|x a IH]; destruct b as [|y b]; cbn [SourceTables.bytes_eqb]; split; intro H;
    try reflexivity; try discriminate.
  - apply andb_true_iff in H. destruct H as [H1 H2]. apply N.eqb_eq in H1. apply IH in H2. congruence.
  - inversion H; subst. rewrite N.eqb_refl. cbn [andb]. apply IH. reflexivity.
Qed.

Lemma strings_eqb_eq : forall a b, strings_eqb a b = true <-> a = b.
Proof.
  induction a as [|x a IH]; destruct b as [|y b]; cbn [strings_eqb]; split; intro H;
    try reflexivity; try discriminate.
  - apply andb_true_iff in H. destruct H as [H1 H2]. apply st_bytes_eqb_eq in H1. apply IH in H2. congruence.
  - inversion H; subst. apply andb_true_iff. split. { apply st_bytes_eqb_eq. reflexivity. } apply IH. reflexivity.
Qed.

Lemma rb_bytes_eqb_eq : forall a b, RouteBytes.bytes_eqb a b = true <-> a = b.
Proof.
  induction a as [|x a IH]; destruct b as [|y b]; cbn [RouteBytes.bytes_eqb]; split; intro H;
    try reflexivity; try discriminate.
  - apply andb_true_iff in H. destruct H as [H1 H2]. apply N.eqb_eq in H1. apply IH in H2. congruence.
  - inversion H; subst. rewrite N.eqb_refl. cbn [andb]. apply IH. reflexivity.
Qed.

Lemma mem_str_in : forall x l, mem_str x l = true <-> In x l.
Proof.
  intros x l. induction l as [|y r IH]; cbn [mem_str In].
  - split; [discriminate | tauto].
  - rewrite orb_true_iff, st_bytes_eqb_eq, IH. tauto.
Qed.

Lemma same_strings_sound : forall a b, same_strings a b = true -> forall x, In x a <-> In x b.
Proof.
  intros a b H x. unfold same_strings in H. apply andb_true_iff in H. destruct H as [H1 H2].
  rewrite forallb_forall in H1, H2. split; intro Hx.
  - apply mem_str_in. apply H1. exact Hx.
  - apply mem_str_in. apply H2. exact Hx.
Qed.

(** ** Go map literals against the router's [assoc_get] *)

Lemma assoc_get_some_in : forall (k : bytes) (m : list (bytes * bytes)) v,
  assoc_get k m = Some v -> In (k, v) m.
Proof.
  intros k m v. induction m as [|[k' v'] r IH]; cbn [assoc_get]; intro H.
  - discriminate.
  - destruct (RouteBytes.bytes_eqb k' k) eqn:E.
    + apply rb_bytes_eqb_eq in E. inversion H; subst. left. reflexivity.
    + right. apply IH. exact H.
Qed.

Lemma assoc_half : forall (a b : list (bytes * bytes)),
  forallb (fun kv => match assoc_get (fst kv) b with Some v => SourceTables.bytes_eqb v (snd kv) | None => false end) a = true ->
  forall k v, assoc_get k a = Some v -> assoc_get k b = Some v.
Proof.
  intros a b H k v Hk. rewrite forallb_forall in H. specialize (H (k, v) (assoc_get_some_in _ _ _ Hk)).
  cbn [fst snd] in H. destruct (assoc_get k b) as [w|]; [|discriminate].
  apply st_bytes_eqb_eq in H. congruence.
Qed.

(** equal as finite maps: every lookup gives the same answer *)
Lemma assoc_same_sound : forall src model, assoc_same (@assoc_get bytes) src model = true ->
  forall k, assoc_get k src = assoc_get k model.
Proof.
  intros src model H k. unfold assoc_same in H. apply andb_true_iff in H. destruct H as [H1 H2].
  destruct (assoc_get k src) as [v|] eqn:E1.
  - symmetry. exact (assoc_half _ _ H1 _ _ E1).
  - destruct (assoc_get k model) as [w|] eqn:E2; [|reflexivity].
    pose proof (assoc_half _ _ H2 _ _ E2) as P. congruence.
Qed.

(** ** ShellEscape: the model is the literal-parametrised reading at the literals of Lib/SourceTables.v *)

Lemma replace_all_go_quote : forall fuel s, (length s <= fuel)%nat ->
  replace_all_go fuel sh_pattern sh_replacement s = replace_quote s.
Proof.
  induction fuel as [|f IH]; intros s Hl.
  - destruct s; [reflexivity | cbn [length] in Hl; lia].
  - destruct s as [|b t]; [reflexivity|].
    cbn [replace_all_go replace_quote]. unfold sh_pattern at 1. cbn [has_prefix].
    rewrite andb_true_r. rewrite (N.eqb_sym 39 b).
    cbn [length] in Hl.
    destruct (b =? 39) eqn:E.
    + change (skipn (length sh_pattern) (b :: t)) with t. rewrite IH by lia. reflexivity.
    + rewrite IH by lia. reflexivity.
Qed.

Theorem shell_escape_uses_tables : forall s,
  shell_escape s = shell_escape_lit sh_open sh_pattern sh_replacement sh_close s.
Proof.
  intro s. unfold shell_escape, shell_escape_lit, replace_all.
  rewrite replace_all_go_quote by lia. reflexivity.
Qed.

Theorem shell_escape_except_tilde_uses_tables : forall s,
  shell_escape_except_tilde s =
  shell_escape_except_tilde_lit tilde_prefix tilde_prefix tilde_skip sh_open sh_pattern sh_replacement sh_close s.
Proof.
  intro s. unfold shell_escape_except_tilde, shell_escape_except_tilde_lit.
  destruct s as [|a [|b r]].
  - cbn [has_prefix tilde_prefix]. apply shell_escape_uses_tables.
  - unfold tilde_prefix. cbn [has_prefix]. rewrite andb_false_r. apply shell_escape_uses_tables.
  - unfold tilde_prefix, tilde_skip. cbn [has_prefix]. rewrite andb_true_r.
    rewrite (N.eqb_sym 126 a), (N.eqb_sym 47 b).
    destruct ((a =? 126) && (b =? 47)) eqn:E.
    + change (N.to_nat 2) with 2%nat. cbn [skipn app]. rewrite shell_escape_uses_tables. reflexivity.
    + apply shell_escape_uses_tables.
Qed.

(** what the generated obligations instantiate: literals equal to the tables => the model is the
    reading of the Go text with the SOURCE's literals *)
Theorem shell_escape_from_source : forall o p r c,
  o = sh_open -> p = sh_pattern -> r = sh_replacement -> c = sh_close ->
  forall s, shell_escape s = shell_escape_lit o p r c s.
Proof. intros; subst. apply shell_escape_uses_tables. Qed.

Theorem shell_escape_except_tilde_from_source : forall t u k o p r c,
  t = tilde_prefix -> u = tilde_prefix -> k = tilde_skip ->
  o = sh_open -> p = sh_pattern -> r = sh_replacement -> c = sh_close ->
  forall s, shell_escape_except_tilde s = shell_escape_except_tilde_lit t u k o p r c s.
Proof. intros; subst. apply shell_escape_except_tilde_uses_tables. Qed.
