(** Lemmas about the router model (Model/Router.v) against the table-level specification
    (Lib/RouteSpec.v).

    Plan:
    1. byte strings, association lists, [lookup]/[insert] on tries;
    2. the index loops of parseRoute / findRoute equal list-level walks over [segments path]
       (and never take a panic branch);
    3. [KSem nd l]: the trie under [nd] represents the list [l] of (remaining key path, route data);
       insertion extends it, moving to a child filters it;
    4. registration: the trie built by [register_all routes] represents [cands_from 0 routes];
       Handle fails exactly when the specification rejects;
    5. dispatch: the trie walk and [walk_spec] narrow in lock step. *)
From Coq Require Import List NArith Bool Arith Lia.
Import ListNotations.
From Glb Require Import Lib.RouteBytes Lib.RouteSpec Model.Router.

(** * 1. basics *)

Lemma bytes_eqb_refl : forall a, bytes_eqb a a = true.
Proof. induction a; cbn [bytes_eqb]; auto. rewrite N.eqb_refl. auto. Qed.

Lemma bytes_eqb_eq : forall a b, bytes_eqb a b = true <-> a = b.
Proof.
  induction a; destruct b; cbn [bytes_eqb]; split; intros H; try discriminate; auto.
  - apply andb_true_iff in H. destruct H as [H1 H2]. apply N.eqb_eq in H1. apply IHa in H2. congruence.
  - inversion H; subst. rewrite N.eqb_refl. apply bytes_eqb_refl.
Qed.

Lemma bytes_eqb_neq : forall a b, bytes_eqb a b = false <-> a <> b.
Proof.
  intros. split; intros H.
  - intros E. apply bytes_eqb_eq in E. congruence.
  - destruct (bytes_eqb a b) eqn:E; auto. apply bytes_eqb_eq in E. contradiction.
Qed.

Lemma bytes_eqb_sym : forall a b, bytes_eqb a b = bytes_eqb b a.
Proof.
  intros. destruct (bytes_eqb a b) eqn:E.
  - apply bytes_eqb_eq in E. subst. symmetry. apply bytes_eqb_refl.
  - symmetry. apply bytes_eqb_neq. apply bytes_eqb_neq in E. congruence.
Qed.

Lemma mem_bytes_In : forall x l, mem_bytes x l = true <-> In x l.
Proof.
  induction l; cbn [mem_bytes In]; split; intros H; try discriminate; try contradiction.
  - apply orb_true_iff in H. destruct H as [H | H].
    + left. apply bytes_eqb_eq. auto.
    + right. apply IHl. auto.
  - apply orb_true_iff. destruct H as [H | H].
    + left. apply bytes_eqb_eq. auto.
    + right. apply IHl. auto.
Qed.

(** ** association lists *)

Lemma assoc_get_set_same : forall A k (v : A) m, assoc_get k (assoc_set k v m) = Some v.
Proof.
  induction m as [|[k' v'] m]; cbn [assoc_get assoc_set].
  - rewrite bytes_eqb_refl. auto.
  - destruct (bytes_eqb k' k) eqn:E; cbn [assoc_get]; rewrite E; auto.
Qed.

Lemma assoc_get_set_other : forall A k k' (v : A) m, k <> k' -> assoc_get k' (assoc_set k v m) = assoc_get k' m.
Proof.
  induction m as [|[k2 v2] m]; intros Hne; cbn [assoc_get assoc_set].
  - assert (bytes_eqb k k' = false) as -> by (apply bytes_eqb_neq; auto). auto.
  - destruct (bytes_eqb k2 k) eqn:E; cbn [assoc_get].
    + apply bytes_eqb_eq in E. subst.
      assert (bytes_eqb k k' = false) as -> by (apply bytes_eqb_neq; auto). auto.
    + rewrite IHm; auto.
Qed.

Lemma next_get_set_child_same : forall nd k c, next_get (set_child nd k c) k = Some c.
Proof. intros. unfold next_get, set_child. cbn [n_next]. apply assoc_get_set_same. Qed.

Lemma next_get_set_child_other : forall nd k k' c, k <> k' -> next_get (set_child nd k c) k' = next_get nd k'.
Proof. intros. unfold next_get, set_child. cbn [n_next]. apply assoc_get_set_other; auto. Qed.

Lemma next_get_empty : forall k, next_get empty_node k = None.
Proof. reflexivity. Qed.

(** ** key paths in a trie *)

Fixpoint lookup (nd : node) (ks : list bytes) : option node :=
  match ks with
  | [] => Some nd
  | k :: r => match next_get nd k with Some c => lookup c r | None => None end
  end.

(** make the key path [ks] exist and put [leaf] at its end *)
Fixpoint insert (nd : node) (ks : list bytes) (leaf : node) : node :=
  match ks with
  | [] => leaf
  | k :: r => set_child nd k (insert (next_or_new nd k) r leaf)
  end.

Definition prefix (q p : list bytes) : Prop := exists r, p = q ++ r.

Lemma prefix_nil : forall p, prefix [] p.
Proof. intros. exists p. auto. Qed.

Lemma prefix_cons : forall k q k' p, prefix (k :: q) (k' :: p) <-> k = k' /\ prefix q p.
Proof.
  intros. split.
  - intros [r H]. inversion H; subst. split; auto. exists r. auto.
  - intros [-> [r ->]]. exists r. auto.
Qed.

Lemma prefix_cons_nil : forall k q, ~ prefix (k :: q) [].
Proof. intros k q [r H]. discriminate. Qed.

Lemma prefix_of_nil : forall q, prefix q [] -> q = [].
Proof. intros q [r H]. destruct q; auto. discriminate. Qed.

Lemma lookup_app : forall p nd q,
  lookup nd (p ++ q) = match lookup nd p with Some n => lookup n q | None => None end.
Proof.
  induction p; intros; cbn [lookup app]; auto.
  destruct (next_get nd a); auto.
Qed.

Lemma lookup_empty_cons : forall k q, lookup empty_node (k :: q) = None.
Proof. reflexivity. Qed.

Lemma lookup_leaf : forall leaf q, n_next leaf = [] -> lookup leaf q <> None -> q = [].
Proof.
  intros leaf q Hl H. destruct q; auto. cbn [lookup] in H. unfold next_get in H. rewrite Hl in H.
  cbn in H. contradiction.
Qed.

Lemma lookup_next_or_new : forall nd k q,
  q <> [] -> lookup (next_or_new nd k) q = lookup nd (k :: q).
Proof.
  intros. cbn [lookup]. unfold next_or_new. destruct (next_get nd k); auto.
  destruct q; [contradiction|]. apply lookup_empty_cons.
Qed.

Lemma lookup_insert_same : forall p nd leaf, lookup (insert nd p leaf) p = Some leaf.
Proof.
  induction p; intros; cbn [lookup insert]; auto.
  rewrite next_get_set_child_same. apply IHp.
Qed.

Lemma lookup_insert_exists : forall p nd leaf q,
  n_next leaf = [] -> lookup nd p = None ->
  (lookup (insert nd p leaf) q <> None <-> (lookup nd q <> None \/ prefix q p)).
Proof.
  induction p as [|k p IH]; intros nd leaf q Hleaf Hnone.
  - cbn in Hnone. discriminate.
  - destruct q as [|k' q].
    + cbn [lookup]. split; intros _; [left|]; discriminate.
    + cbn [insert]. cbn [lookup].
      destruct (bytes_eqb k k') eqn:Ek.
      * apply bytes_eqb_eq in Ek. subst k'. rewrite next_get_set_child_same.
        rewrite prefix_cons.
        destruct p as [|k2 p'].
        -- (* the leaf hangs directly under nd *)
           cbn [insert]. cbn [lookup] in Hnone.
           destruct (next_get nd k) eqn:En; [discriminate|].
           split.
           ++ intros H. apply lookup_leaf in H; auto. subst. right. split; auto. apply prefix_nil.
           ++ intros [H | [_ H]]; [contradiction|]. apply prefix_of_nil in H. subst. cbn. discriminate.
        -- assert (Hc : lookup (next_or_new nd k) (k2 :: p') = None).
           { rewrite lookup_next_or_new by discriminate. auto. }
           rewrite (IH _ leaf q Hleaf Hc).
           unfold next_or_new. destruct (next_get nd k) eqn:En.
           ++ split; intros [H | H]; auto. destruct H; auto.
           ++ split.
              ** intros [H | H]; [|right; split; auto].
                 destruct q; [right; split; auto; apply prefix_nil|]. cbn in H. contradiction.
              ** intros [H | [_ H]]; [contradiction | right; auto].
      * assert (k <> k') by (apply bytes_eqb_neq; auto).
        rewrite next_get_set_child_other by auto.
        split; [intros H1; left; auto|].
        intros [H1 | H1]; auto. apply prefix_cons in H1. destruct H1. congruence.
Qed.

Lemma lookup_insert_keep : forall p nd leaf q n,
  lookup nd q = Some n -> ~ prefix p q ->
  exists n', lookup (insert nd p leaf) q = Some n' /\ n_info n' = n_info n /\ n_names n' = n_names n.
Proof.
  induction p as [|k p IH]; intros nd leaf q n Hq Hnp.
  - exfalso. apply Hnp. apply prefix_nil.
  - destruct q as [|k' q].
    + cbn in Hq. inversion Hq; subst. cbn [insert lookup]. eexists. split; [reflexivity|].
      unfold set_child. cbn. auto.
    + cbn [insert lookup]. cbn [lookup] in Hq.
      destruct (bytes_eqb k k') eqn:Ek.
      * apply bytes_eqb_eq in Ek. subst k'. rewrite next_get_set_child_same.
        destruct (next_get nd k) eqn:En; [|discriminate].
        unfold next_or_new. rewrite En. apply IH; auto.
        intros Hp. apply Hnp. apply prefix_cons. auto.
      * assert (k <> k') by (apply bytes_eqb_neq; auto).
        rewrite next_get_set_child_other by auto.
        destruct (next_get nd k'); [|discriminate]. eauto.
Qed.

(** * 2. scanning: the index loops are walks over [segments path] *)

Definition no47 (s : bytes) : Prop := Forall (fun b => b <> 47%N) s.

Lemma split_on_nonempty : forall sep s, split_on sep s <> [].
Proof.
  induction s; cbn [split_on]; [discriminate|].
  destruct (a =? sep)%N; [discriminate|]. destruct (split_on sep s); discriminate.
Qed.

Lemma split_app_no47 : forall cur rest f fs,
  no47 cur -> split_on 47 rest = f :: fs -> split_on 47 (cur ++ rest) = (cur ++ f) :: fs.
Proof.
  induction cur; intros rest f fs Hn Hs; cbn [app]; auto.
  inversion Hn; subst. cbn [split_on].
  destruct (a =? 47)%N eqn:E; [apply N.eqb_eq in E; contradiction|].
  rewrite (IHcur rest f fs); auto.
Qed.

Lemma split_sep : forall cur rest, no47 cur -> split_on 47 (cur ++ 47%N :: rest) = cur :: split_on 47 rest.
Proof.
  intros. rewrite (split_app_no47 cur (47%N :: rest) [] (split_on 47 rest)); auto.
  rewrite app_nil_r. auto.
Qed.

Lemma split_single : forall cur, no47 cur -> split_on 47 cur = [cur].
Proof.
  intros. rewrite <- (app_nil_r cur) at 1. rewrite (split_app_no47 cur [] [] []); auto.
  rewrite app_nil_r. auto.
Qed.

Lemma split_no47 : forall s, Forall no47 (split_on 47 s).
Proof.
  induction s; cbn [split_on].
  - constructor; constructor.
  - destruct (a =? 47)%N eqn:E.
    + constructor; auto. constructor.
    + destruct (split_on 47 s) eqn:Es.
      * constructor; [|constructor]. constructor; [|constructor]. apply N.eqb_neq. auto.
      * inversion IHs; subst. constructor; auto. constructor; auto. apply N.eqb_neq. auto.
Qed.

Lemma join_split : forall s, join47 (split_on 47 s) = s.
Proof.
  induction s; cbn [split_on]; auto.
  destruct (a =? 47)%N eqn:E.
  - apply N.eqb_eq in E. subst. cbn [join47].
    destruct (split_on 47 s) eqn:Es; [exfalso; eapply split_on_nonempty; eauto|].
    rewrite IHs. auto.
  - destruct (split_on 47 s) eqn:Es; [exfalso; eapply split_on_nonempty; eauto|].
    destruct l as [|x l']; cbn [join47 app] in *; rewrite <- IHs; auto.
Qed.

Lemma no47_app : forall a b, no47 a -> no47 b -> no47 (a ++ b).
Proof. intros. apply Forall_app. auto. Qed.

(** ** slices of [pre ++ cur ++ rest] *)

Lemma slice_mid : forall pre cur rest,
  slice (pre ++ cur ++ rest) (length pre) (length pre + length cur) = Some cur.
Proof.
  intros. unfold slice.
  assert ((length pre <=? length pre + length cur) = true) as -> by (apply Nat.leb_le; lia).
  assert ((length pre + length cur <=? length (pre ++ cur ++ rest)) = true) as ->
    by (apply Nat.leb_le; rewrite !app_length; lia).
  cbn [andb]. f_equal.
  rewrite skipn_app, skipn_all, Nat.sub_diag. cbn [skipn app].
  replace (length pre + length cur - length pre) with (length cur) by lia.
  rewrite firstn_app, firstn_all, Nat.sub_diag. cbn [firstn]. apply app_nil_r.
Qed.

Lemma slice_tail : forall pre cur,
  slice (pre ++ cur) (length pre) (length (pre ++ cur)) = Some cur.
Proof.
  intros. pose proof (slice_mid pre cur []) as H. rewrite app_nil_r in H.
  rewrite app_length. auto.
Qed.

Lemma idx_mid : forall pre b rest, idx (pre ++ b :: rest) (length pre) = Some b.
Proof. intros. unfold idx. rewrite nth_error_app2 by lia. rewrite Nat.sub_diag. auto. Qed.

Lemma not_sep_at_end : forall path, not_sep_at path (length path) = Some false.
Proof. intros. unfold not_sep_at. rewrite Nat.ltb_irrefl. auto. Qed.

Lemma not_sep_at_mid : forall pre b rest,
  not_sep_at (pre ++ b :: rest) (length pre) = Some (negb (b =? 47)%N).
Proof.
  intros. unfold not_sep_at.
  assert ((length pre <? length (pre ++ b :: rest)) = true) as ->
    by (apply Nat.ltb_lt; rewrite app_length; cbn [length]; lia).
  rewrite idx_mid. auto.
Qed.

(** ** one fragment of parseRoute / findRoute, with the rest of the loop as continuation *)

Definition parse_frag (frag : bytes) (nd : node) (mtag : bytes) (info : nat) (names : list bytes)
           (k : node -> list bytes -> node * presult) : node * presult :=
  match frag with
  | [] => k nd names
  | c :: n =>
    if bytes_eqb frag [42%N] then
      let (child, res) := parse_finish (next_or_new nd route_param_any) mtag info (names ++ [route_param_any]) in
      (set_child nd route_param_any child, res)
    else if (c =? 58)%N then
      if is_nil n || mem_bytes n names then (nd, PErr ErrFragment)
      else let (child, res) := k (next_or_new nd route_param) (names ++ [n]) in
           (set_child nd route_param child, res)
    else let (child, res) := k (next_or_new nd frag) names in (set_child nd frag child, res)
  end.

Fixpoint parse_segs (segs : list bytes) (nd : node) (mtag : bytes) (info : nat) (names : list bytes)
  : node * presult :=
  match segs with
  | [] => parse_finish nd mtag info names
  | s :: r => parse_frag s nd mtag info names (fun nd' names' => parse_segs r nd' mtag info names')
  end.

Lemma parse_frag_ext : forall frag nd mtag info names k1 k2,
  (forall nd' names', k1 nd' names' = k2 nd' names') ->
  parse_frag frag nd mtag info names k1 = parse_frag frag nd mtag info names k2.
Proof.
  intros. unfold parse_frag. destruct frag; auto.
  destruct (bytes_eqb (n :: frag) [42%N]); auto.
  destruct (n =? 58)%N; [|rewrite H; auto].
  destruct (is_nil frag || mem_bytes frag names); auto. rewrite H. auto.
Qed.

Lemma parse_step : forall fuel nd path mtag info left right names pre cur rest,
  not_sep_at path right = Some false ->
  path = pre ++ cur ++ rest -> length pre = left + 1 -> right = left + 1 + length cur ->
  parse_loop (S fuel) nd path mtag info left right names
  = parse_frag cur nd mtag info names (fun nd' names' => parse_loop fuel nd' path mtag info right (S right) names').
Proof.
  intros fuel nd path mtag info left right names pre cur rest Hsep Hpath Hpre Hright.
  cbn [parse_loop]. rewrite Hsep.
  destruct cur as [|c n].
  - cbn [length] in Hright. assert ((right - left <? 2) = true) as -> by (apply Nat.ltb_lt; lia).
    reflexivity.
  - cbn [length] in Hright. assert ((right - left <? 2) = false) as -> by (apply Nat.ltb_ge; lia).
    assert (Hs : slice path (left + 1) right = Some (c :: n)).
    { subst path right. rewrite <- Hpre. replace (length pre + length (c :: n)) with (length pre + length (c :: n)) by auto.
      replace (length pre + S (length n)) with (length pre + length (c :: n)) by auto. apply slice_mid. }
    rewrite Hs.
    assert (Hi : idx path (left + 1) = Some c).
    { subst path. rewrite <- Hpre. cbn [app]. apply idx_mid. }
    assert (Hs2 : slice path (left + 2) right = Some n).
    { subst path right. replace (left + 2) with (length (pre ++ [c])) by (rewrite app_length; cbn [length]; lia).
      replace (left + 1 + S (length n)) with (length (pre ++ [c]) + length n) by (rewrite app_length; cbn [length]; lia).
      replace (pre ++ (c :: n) ++ rest) with ((pre ++ [c]) ++ n ++ rest) by (rewrite <- app_assoc; auto).
      apply slice_mid. }
    unfold parse_frag.
    destruct (bytes_eqb (c :: n) [42%N]); auto.
    rewrite Hi. destruct (c =? 58)%N; auto. rewrite Hs2. auto.
Qed.

Lemma parse_loop_continue : forall fuel nd path mtag info left right names,
  not_sep_at path right = Some true ->
  parse_loop (S fuel) nd path mtag info left right names = parse_loop fuel nd path mtag info left (S right) names.
Proof. intros. cbn [parse_loop]. rewrite H. reflexivity. Qed.

Lemma parse_loop_skip0 : forall fuel nd path mtag info names,
  not_sep_at path 0 = Some false ->
  parse_loop (S fuel) nd path mtag info 0 0 names = parse_loop fuel nd path mtag info 0 1 names.
Proof. intros. cbn [parse_loop]. rewrite H. reflexivity. Qed.

Lemma parse_scan : forall path mtag info rest cur pre nd names left right,
  path = pre ++ cur ++ rest -> length pre = left + 1 -> right = left + 1 + length cur -> no47 cur ->
  parse_loop (S (length rest)) nd path mtag info left right names
  = parse_segs (split_on 47 (cur ++ rest)) nd mtag info names.
Proof.
  intros path mtag info. induction rest as [|b rest IH]; intros cur pre nd names left right Hpath Hpre Hright Hno.
  - cbn [length]. rewrite app_nil_r in *.
    rewrite (parse_step 0 nd path mtag info left right names pre cur []); auto.
    + rewrite split_single by auto. cbn [parse_segs]. apply parse_frag_ext. intros. reflexivity.
    + subst path right. rewrite <- Hpre, <- app_length. apply not_sep_at_end.
    + rewrite app_nil_r. auto.
  - assert (Hsep : not_sep_at path right = Some (negb (b =? 47)%N)).
    { subst path right. rewrite <- Hpre, <- app_length, app_assoc. apply not_sep_at_mid. }
    destruct (b =? 47)%N eqn:Eb.
    + apply N.eqb_eq in Eb. subst b. cbn [negb] in Hsep.
      cbn [length]. rewrite (parse_step _ nd path mtag info left right names pre cur (47%N :: rest)); auto.
      rewrite split_sep by auto. cbn [parse_segs]. apply parse_frag_ext. intros nd' names'.
      apply (IH [] (pre ++ cur ++ [47%N])).
      * subst path. rewrite <- !app_assoc. auto.
      * rewrite !app_length. cbn [length]. lia.
      * cbn [length]. lia.
      * constructor.
    + cbn [negb] in Hsep. cbn [length]. rewrite parse_loop_continue by auto.
      rewrite (IH (cur ++ [b]) pre nd names left (S right)).
      * rewrite <- app_assoc. auto.
      * subst path. rewrite <- app_assoc. auto.
      * auto.
      * rewrite app_length. cbn [length]. lia.
      * apply no47_app; auto. constructor; [|constructor]. apply N.eqb_neq. auto.
Qed.

Theorem parse_loop_segs : forall path nd mtag info,
  parse_loop (S (length path)) nd path mtag info 0 0 [] = parse_segs (segments path) nd mtag info [].
Proof.
  intros. unfold segments. destruct path as [|b0 rest].
  - reflexivity.
  - cbn [tl length].
    assert (Hstart : parse_loop (S (S (length rest))) nd (b0 :: rest) mtag info 0 0 []
                     = parse_loop (S (length rest)) nd (b0 :: rest) mtag info 0 1 []).
    { assert (Hs : not_sep_at (b0 :: rest) 0 = Some (negb (b0 =? 47)%N)) by reflexivity.
      destruct (negb (b0 =? 47)%N).
      - apply parse_loop_continue. auto.
      - apply parse_loop_skip0. auto. }
    rewrite Hstart.
    apply (parse_scan (b0 :: rest) mtag info rest [] [b0]); auto. constructor.
Qed.

Section FindScan.
Variable push : vslice -> bytes -> option vslice.

Definition find_frag (frag rem : bytes) (last : bool) (nd : node) (v : vslice)
           (k : node -> vslice -> option (option node * vslice)) : option (option node * vslice) :=
  if is_nil frag && negb last then k nd v
  else
    match next_get nd frag with
    | Some res => k res v
    | None =>
      match next_get nd route_param with
      | Some res => match push v frag with None => None | Some v' => k res v' end
      | None =>
        match next_get nd route_param_any with
        | Some res => match push v rem with None => None | Some v' => Some (Some res, v') end
        | None => Some (None, v)
        end
      end
    end.

Fixpoint walk_trie (nd : node) (segs : list bytes) (v : vslice) : option (option node * vslice) :=
  match segs with
  | [] => Some (Some nd, v)
  | s :: r => find_frag s (join47 (s :: r)) (is_nil r) nd v (fun nd' v' => walk_trie nd' r v')
  end.

Lemma find_frag_ext : forall frag rem last nd v k1 k2,
  (forall nd' v', k1 nd' v' = k2 nd' v') ->
  find_frag frag rem last nd v k1 = find_frag frag rem last nd v k2.
Proof.
  intros. unfold find_frag. destruct (is_nil frag && negb last); auto.
  destruct (next_get nd frag); auto. destruct (next_get nd route_param); auto.
  destruct (push v frag); auto.
Qed.

Lemma find_loop_continue : forall fuel nd path left right v,
  not_sep_at path right = Some true ->
  find_loop push (S fuel) nd path left right v = find_loop push fuel nd path left (S right) v.
Proof. intros. cbn [find_loop]. rewrite H. reflexivity. Qed.

Lemma find_loop_skip0 : forall fuel nd b0 rest v,
  not_sep_at (b0 :: rest) 0 = Some false ->
  find_loop push (S fuel) nd (b0 :: rest) 0 0 v = find_loop push fuel nd (b0 :: rest) 0 1 v.
Proof. intros. cbn [find_loop]. rewrite H. reflexivity. Qed.

Lemma find_step : forall fuel nd path left right v pre cur rest,
  not_sep_at path right = Some false ->
  path = pre ++ cur ++ rest -> length pre = left + 1 -> right = left + 1 + length cur ->
  find_loop push (S fuel) nd path left right v
  = find_frag cur (cur ++ rest) (is_nil rest) nd v (fun nd' v' => find_loop push fuel nd' path right (S right) v').
Proof.
  intros fuel nd path left right v pre cur rest Hsep Hpath Hpre Hright.
  cbn [find_loop]. rewrite Hsep. unfold find_frag.
  assert (Hc1 : (right - left <? 2) = is_nil cur).
  { destruct cur; cbn [length is_nil] in *; [apply Nat.ltb_lt | apply Nat.ltb_ge]; lia. }
  assert (Hc2 : (right <? length path) = negb (is_nil rest)).
  { subst path right. rewrite !app_length.
    destruct rest; cbn [length is_nil negb]; [apply Nat.ltb_ge | apply Nat.ltb_lt]; lia. }
  rewrite Hc1, Hc2.
  destruct (is_nil cur && negb (is_nil rest)); auto.
  assert (Hs : slice path (left + 1) right = Some cur).
  { subst path right. rewrite <- Hpre. apply slice_mid. }
  assert (Hr : slice path (left + 1) (length path) = Some (cur ++ rest)).
  { subst path. rewrite <- Hpre. apply slice_tail. }
  rewrite Hs, Hr. reflexivity.
Qed.

Lemma find_scan : forall path rest cur pre nd v left right,
  path = pre ++ cur ++ rest -> length pre = left + 1 -> right = left + 1 + length cur -> no47 cur ->
  find_loop push (S (length rest)) nd path left right v
  = walk_trie nd (split_on 47 (cur ++ rest)) v.
Proof.
  intros path. induction rest as [|b rest IH]; intros cur pre nd v left right Hpath Hpre Hright Hno.
  - cbn [length].
    rewrite (find_step 0 nd path left right v pre cur []); auto.
    + rewrite app_nil_r. rewrite split_single by auto. cbn [walk_trie join47 is_nil].
      apply find_frag_ext. intros. reflexivity.
    + subst path right. rewrite app_nil_r. rewrite <- Hpre, <- app_length. apply not_sep_at_end.
  - assert (Hsep : not_sep_at path right = Some (negb (b =? 47)%N)).
    { subst path right. rewrite <- Hpre, <- app_length, app_assoc. apply not_sep_at_mid. }
    destruct (b =? 47)%N eqn:Eb.
    + apply N.eqb_eq in Eb. subst b. cbn [negb] in Hsep.
      cbn [length]. rewrite (find_step _ nd path left right v pre cur (47%N :: rest)); auto.
      rewrite split_sep by auto. cbn [walk_trie].
      match goal with |- context [join47 ?x] =>
        assert (Hj : join47 x = cur ++ 47%N :: rest) by (rewrite <- split_sep by auto; apply join_split);
        rewrite Hj end.
      assert (Hl : is_nil (split_on 47 rest) = false).
      { destruct (split_on 47 rest) eqn:E; auto. exfalso. eapply split_on_nonempty; eauto. }
      rewrite Hl. cbn [is_nil].
      apply find_frag_ext. intros nd' v'.
      apply (IH [] (pre ++ cur ++ [47%N])).
      * subst path. rewrite <- !app_assoc. auto.
      * rewrite !app_length. cbn [length]. lia.
      * cbn [length]. lia.
      * constructor.
    + cbn [negb] in Hsep. cbn [length]. rewrite find_loop_continue by auto.
      rewrite (IH (cur ++ [b]) pre nd v left (S right)).
      * rewrite <- app_assoc. auto.
      * subst path. rewrite <- app_assoc. auto.
      * auto.
      * rewrite app_length. cbn [length]. lia.
      * apply no47_app; auto. constructor; [|constructor]. apply N.eqb_neq. auto.
Qed.

Theorem find_loop_segs : forall path nd v, path <> [] ->
  find_loop push (S (length path)) nd path 0 0 v = walk_trie nd (segments path) v.
Proof.
  intros path nd v Hne. unfold segments. destruct path as [|b0 rest]; [contradiction|].
  cbn [tl length].
  assert (Hstart : find_loop push (S (S (length rest))) nd (b0 :: rest) 0 0 v
                   = find_loop push (S (length rest)) nd (b0 :: rest) 0 1 v).
  { assert (Hs : not_sep_at (b0 :: rest) 0 = Some (negb (b0 =? 47)%N)) by reflexivity.
    destruct (negb (b0 =? 47)%N).
    - apply find_loop_continue. auto.
    - apply find_loop_skip0. auto. }
  rewrite Hstart.
  apply (find_scan (b0 :: rest) rest [] [b0]); auto. constructor.
Qed.

End FindScan.
