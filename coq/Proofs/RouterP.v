(** Lemmas about the router model (Model/Router.v) against the table-level specification
    (Lib/RouteSpec.v).

    Plan:
    1. byte strings, association lists, [lookup]/[insert] on tries;
    2. the index loops of parseRoute / findRoute equal list-level walks over [segments path]
       (and never take a panic branch);
    3. [KSem nd l]: the trie under [nd] represents the list [l] of (remaining key path, route data);
       insertion extends it, moving to a child filters it;
    4. registration: the trie built by [register_all routes] represents [cands_from 0 routes];
       Handle fails exactly when the specification rejects;
    5. dispatch: the trie walk and [walk_spec] narrow in lock step. *)
From Coq Require Import List NArith Bool Arith Lia.
Import ListNotations.
From Glb Require Import Lib.RouteBytes Lib.RouteSpec Model.Router.

(** * 1. basics *)

Lemma bytes_eqb_refl : forall a, bytes_eqb a a = true.
Proof. induction a; cbn [bytes_eqb]; auto. rewrite N.eqb_refl. auto. Qed.

Lemma bytes_eqb_eq : forall a b, bytes_eqb a b = true <-> a = b.
Proof.
  induction a; destruct b; cbn [bytes_eqb]; split; intros H; try discriminate; auto.
  - apply andb_true_iff in H. destruct H as [H1 H2]. apply N.eqb_eq in H1. apply IHa in H2. congruence.
  - inversion H; subst. rewrite N.eqb_refl. apply bytes_eqb_refl.
Qed.

Lemma bytes_eqb_neq : forall a b, bytes_eqb a b = false <-> a <> b.
Proof.
  intros. split; intros H.
  - intros E. apply bytes_eqb_eq in E. congruence.
  - destruct (bytes_eqb a b) eqn:E; auto. apply bytes_eqb_eq in E. contradiction.
Qed.

Lemma bytes_eqb_sym : forall a b, bytes_eqb a b = bytes_eqb b a.
Proof.
  intros. destruct (bytes_eqb a b) eqn:E.
  - apply bytes_eqb_eq in E. subst. symmetry. apply bytes_eqb_refl.
  - symmetry. apply bytes_eqb_neq. apply bytes_eqb_neq in E. congruence.
Qed.

Lemma mem_bytes_In : forall x l, mem_bytes x l = true <-> In x l.
Proof.
  induction l; cbn [mem_bytes In]; split; intros H; try discriminate; try contradiction.
  - apply orb_true_iff in H. destruct H as [H | H].
    + left. apply bytes_eqb_eq. auto.
    + right. apply IHl. auto.
  - apply orb_true_iff. destruct H as [H | H].
    + left. apply bytes_eqb_eq. auto.
    + right. apply IHl. auto.
Qed.

(** ** association lists *)

Lemma assoc_get_set_same : forall A k (v : A) m, assoc_get k (assoc_set k v m) = Some v.
Proof.
  induction m as [|[k' v'] m]; cbn [assoc_get assoc_set].
  - rewrite bytes_eqb_refl. auto.
  - destruct (bytes_eqb k' k) eqn:E; cbn [assoc_get]; rewrite E; auto.
Qed.

Lemma assoc_get_set_other : forall A k k' (v : A) m, k <> k' -> assoc_get k' (assoc_set k v m) = assoc_get k' m.
Proof.
  induction m as [|[k2 v2] m]; intros Hne; cbn [assoc_get assoc_set].
  - assert (bytes_eqb k k' = false) as -> by (apply bytes_eqb_neq; auto). auto.
  - destruct (bytes_eqb k2 k) eqn:E; cbn [assoc_get].
    + apply bytes_eqb_eq in E. subst.
      assert (bytes_eqb k k' = false) as -> by (apply bytes_eqb_neq; auto). auto.
    + rewrite IHm; auto.
Qed.

Lemma next_get_set_child_same : forall nd k c, next_get (set_child nd k c) k = Some c.
Proof. intros. unfold next_get, set_child. cbn [n_next]. apply assoc_get_set_same. Qed.

Lemma next_get_set_child_other : forall nd k k' c, k <> k' -> next_get (set_child nd k c) k' = next_get nd k'.
Proof. intros. unfold next_get, set_child. cbn [n_next]. apply assoc_get_set_other; auto. Qed.

Lemma next_get_empty : forall k, next_get empty_node k = None.
Proof. reflexivity. Qed.

(** ** key paths in a trie *)

Fixpoint lookup (nd : node) (ks : list bytes) : option node :=
  match ks with
  | [] => Some nd
  | k :: r => match next_get nd k with Some c => lookup c r | None => None end
  end.

(** make the key path [ks] exist and put [leaf] at its end *)
Fixpoint insert (nd : node) (ks : list bytes) (leaf : node) : node :=
  match ks with
  | [] => leaf
  | k :: r => set_child nd k (insert (next_or_new nd k) r leaf)
  end.

Definition prefix (q p : list bytes) : Prop := exists r, p = q ++ r.

Lemma prefix_nil : forall p, prefix [] p.
Proof. intros. exists p. auto. Qed.

Lemma prefix_cons : forall k q k' p, prefix (k :: q) (k' :: p) <-> k = k' /\ prefix q p.
Proof.
  intros. split.
  - intros [r H]. inversion H; subst. split; auto. exists r. auto.
  - intros [-> [r ->]]. exists r. auto.
Qed.

Lemma prefix_cons_nil : forall k q, ~ prefix (k :: q) [].
Proof. intros k q [r H]. discriminate. Qed.

Lemma prefix_of_nil : forall q, prefix q [] -> q = [].
Proof. intros q [r H]. destruct q; auto. discriminate. Qed.

Lemma lookup_app : forall p nd q,
  lookup nd (p ++ q) = match lookup nd p with Some n => lookup n q | None => None end.
Proof.
  induction p; intros; cbn [lookup app]; auto.
  destruct (next_get nd a); auto.
Qed.

Lemma lookup_empty_cons : forall k q, lookup empty_node (k :: q) = None.
Proof. reflexivity. Qed.

Lemma lookup_leaf : forall leaf q, n_next leaf = [] -> lookup leaf q <> None -> q = [].
Proof.
  intros leaf q Hl H. destruct q; auto. cbn [lookup] in H. unfold next_get in H. rewrite Hl in H.
  cbn in H. contradiction.
Qed.

Lemma lookup_next_or_new : forall nd k q,
  q <> [] -> lookup (next_or_new nd k) q = lookup nd (k :: q).
Proof.
  intros. cbn [lookup]. unfold next_or_new. destruct (next_get nd k); auto.
  destruct q; [contradiction|]. apply lookup_empty_cons.
Qed.

Lemma lookup_insert_same : forall p nd leaf, lookup (insert nd p leaf) p = Some leaf.
Proof.
  induction p; intros; cbn [lookup insert]; auto.
  rewrite next_get_set_child_same. apply IHp.
Qed.

Lemma lookup_insert_exists : forall p nd leaf q,
  n_next leaf = [] -> lookup nd p = None ->
  (lookup (insert nd p leaf) q <> None <-> (lookup nd q <> None \/ prefix q p)).
Proof.
  induction p as [|k p IH]; intros nd leaf q Hleaf Hnone.
  - cbn in Hnone. discriminate.
  - destruct q as [|k' q].
    + cbn [lookup]. split; intros _; [left|]; discriminate.
    + cbn [insert]. cbn [lookup].
      destruct (bytes_eqb k k') eqn:Ek.
      * apply bytes_eqb_eq in Ek. subst k'. rewrite next_get_set_child_same.
        rewrite prefix_cons.
        destruct p as [|k2 p'].
        -- (* the leaf hangs directly under nd *)
           cbn [insert]. cbn [lookup] in Hnone.
           destruct (next_get nd k) eqn:En; [discriminate|].
           split.
           ++ intros H. apply lookup_leaf in H; auto. subst. right. split; auto. apply prefix_nil.
           ++ intros [H | [_ H]]; [contradiction|]. apply prefix_of_nil in H. subst. cbn. discriminate.
        -- assert (Hc : lookup (next_or_new nd k) (k2 :: p') = None).
           { rewrite lookup_next_or_new by discriminate. auto. }
           rewrite (IH _ leaf q Hleaf Hc).
           unfold next_or_new. destruct (next_get nd k) eqn:En.
           ++ split; intros [H | H]; auto. destruct H; auto.
           ++ split.
              ** intros [H | H]; [|right; split; auto].
                 destruct q; [right; split; auto; apply prefix_nil|]. cbn in H. contradiction.
              ** intros [H | [_ H]]; [contradiction | right; auto].
      * assert (k <> k') by (apply bytes_eqb_neq; auto).
        rewrite next_get_set_child_other by auto.
        split; [intros H1; left; auto|].
        intros [H1 | H1]; auto. apply prefix_cons in H1. destruct H1. congruence.
Qed.

Lemma lookup_insert_keep : forall p nd leaf q n,
  lookup nd q = Some n -> ~ prefix p q ->
  exists n', lookup (insert nd p leaf) q = Some n' /\ n_info n' = n_info n /\ n_names n' = n_names n.
Proof.
  induction p as [|k p IH]; intros nd leaf q n Hq Hnp.
  - exfalso. apply Hnp. apply prefix_nil.
  - destruct q as [|k' q].
    + cbn in Hq. inversion Hq; subst. cbn [insert lookup]. eexists. split; [reflexivity|].
      unfold set_child. cbn. auto.
    + cbn [insert lookup]. cbn [lookup] in Hq.
      destruct (bytes_eqb k k') eqn:Ek.
      * apply bytes_eqb_eq in Ek. subst k'. rewrite next_get_set_child_same.
        destruct (next_get nd k) eqn:En; [|discriminate].
        unfold next_or_new. rewrite En. apply IH; auto.
        intros Hp. apply Hnp. apply prefix_cons. auto.
      * assert (k <> k') by (apply bytes_eqb_neq; auto).
        rewrite next_get_set_child_other by auto.
        destruct (next_get nd k'); [|discriminate]. eauto.
Qed.

(** * 2. scanning: the index loops are walks over [segments path] *)

Definition no47 (s : bytes) : Prop := Forall (fun b => b <> 47%N) s.

Lemma split_on_nonempty : forall sep s, split_on sep s <> [].
Proof.
  induction s; cbn [split_on]; [discriminate|].
  destruct (a =? sep)%N; [discriminate|]. destruct (split_on sep s); discriminate.
Qed.

Lemma split_app_no47 : forall cur rest f fs,
  no47 cur -> split_on 47 rest = f :: fs -> split_on 47 (cur ++ rest) = (cur ++ f) :: fs.
Proof.
  induction cur; intros rest f fs Hn Hs; cbn [app]; auto.
  inversion Hn; subst. cbn [split_on].
  destruct (a =? 47)%N eqn:E; [apply N.eqb_eq in E; contradiction|].
  rewrite (IHcur rest f fs); auto.
Qed.

Lemma split_sep : forall cur rest, no47 cur -> split_on 47 (cur ++ 47%N :: rest) = cur :: split_on 47 rest.
Proof.
  intros. rewrite (split_app_no47 cur (47%N :: rest) [] (split_on 47 rest)); auto.
  rewrite app_nil_r. auto.
Qed.

Lemma split_single : forall cur, no47 cur -> split_on 47 cur = [cur].
Proof.
  intros. rewrite <- (app_nil_r cur) at 1. rewrite (split_app_no47 cur [] [] []); auto.
  rewrite app_nil_r. auto.
Qed.

Lemma split_no47 : forall s, Forall no47 (split_on 47 s).
Proof.
  induction s; cbn [split_on].
  - constructor; constructor.
  - destruct (a =? 47)%N eqn:E.
    + constructor; auto. constructor.
    + destruct (split_on 47 s) eqn:Es.
      * constructor; [|constructor]. constructor; [|constructor]. apply N.eqb_neq. auto.
      * inversion IHs; subst. constructor; auto. constructor; auto. apply N.eqb_neq. auto.
Qed.

Lemma join_split : forall s, join47 (split_on 47 s) = s.
Proof.
  induction s; cbn [split_on]; auto.
  destruct (a =? 47)%N eqn:E.
  - apply N.eqb_eq in E. subst. cbn [join47].
    destruct (split_on 47 s) as [|f fs] eqn:Es; [exfalso; eapply split_on_nonempty; eauto|].
    rewrite IHs. auto.
  - destruct (split_on 47 s) as [|f fs] eqn:Es; [exfalso; eapply split_on_nonempty; eauto|].
    destruct fs as [|x fs']; cbn [join47 app] in *; rewrite <- IHs; auto.
Qed.

Lemma no47_app : forall a b, no47 a -> no47 b -> no47 (a ++ b).
Proof. intros. apply Forall_app. auto. Qed.

(** ** slices of [pre ++ cur ++ rest] *)

Lemma slice_mid : forall pre cur rest,
  slice (pre ++ cur ++ rest) (length pre) (length pre + length cur) = Some cur.
Proof.
  intros. unfold slice.
  assert ((length pre <=? length pre + length cur) = true) as -> by (apply Nat.leb_le; lia).
  assert ((length pre + length cur <=? length (pre ++ cur ++ rest)) = true) as ->
    by (apply Nat.leb_le; rewrite !app_length; lia).
  cbn [andb]. f_equal.
  rewrite skipn_app, skipn_all, Nat.sub_diag. cbn [skipn app].
  replace (length pre + length cur - length pre) with (length cur) by lia.
  rewrite firstn_app, firstn_all, Nat.sub_diag. cbn [firstn]. apply app_nil_r.
Qed.

Lemma slice_tail : forall pre cur,
  slice (pre ++ cur) (length pre) (length (pre ++ cur)) = Some cur.
Proof.
  intros. pose proof (slice_mid pre cur []) as H. rewrite app_nil_r in H.
  rewrite app_length. auto.
Qed.

Lemma idx_mid : forall pre b rest, idx (pre ++ b :: rest) (length pre) = Some b.
Proof. intros. unfold idx. rewrite nth_error_app2 by lia. rewrite Nat.sub_diag. auto. Qed.

Lemma not_sep_at_end : forall path, not_sep_at path (length path) = Some false.
Proof. intros. unfold not_sep_at. rewrite Nat.ltb_irrefl. auto. Qed.

Lemma not_sep_at_mid : forall pre b rest,
  not_sep_at (pre ++ b :: rest) (length pre) = Some (negb (b =? 47)%N).
Proof.
  intros. unfold not_sep_at.
  assert ((length pre <? length (pre ++ b :: rest)) = true) as ->
    by (apply Nat.ltb_lt; rewrite app_length; cbn [length]; lia).
  rewrite idx_mid. auto.
Qed.

(** ** one fragment of parseRoute / findRoute, with the rest of the loop as continuation *)

Definition parse_frag (frag : bytes) (nd : node) (mtag : bytes) (info : nat) (names : list bytes)
           (k : node -> list bytes -> node * presult) : node * presult :=
  match frag with
  | [] => k nd names
  | c :: n =>
    if bytes_eqb frag [42%N] then
      let (child, res) := parse_finish (next_or_new nd route_param_any) mtag info (names ++ [route_param_any]) in
      (set_child nd route_param_any child, res)
    else if (c =? 58)%N then
      if is_nil n || mem_bytes n names then (nd, PErr ErrFragment)
      else let (child, res) := k (next_or_new nd route_param) (names ++ [n]) in
           (set_child nd route_param child, res)
    else let (child, res) := k (next_or_new nd frag) names in (set_child nd frag child, res)
  end.

Fixpoint parse_segs (segs : list bytes) (nd : node) (mtag : bytes) (info : nat) (names : list bytes)
  : node * presult :=
  match segs with
  | [] => parse_finish nd mtag info names
  | s :: r => parse_frag s nd mtag info names (fun nd' names' => parse_segs r nd' mtag info names')
  end.

Lemma parse_frag_ext : forall frag nd mtag info names k1 k2,
  (forall nd' names', k1 nd' names' = k2 nd' names') ->
  parse_frag frag nd mtag info names k1 = parse_frag frag nd mtag info names k2.
Proof.
  intros. unfold parse_frag. destruct frag; auto.
  destruct (bytes_eqb (n :: frag) [42%N]); auto.
  destruct (n =? 58)%N; [|rewrite H; auto].
  destruct (is_nil frag || mem_bytes frag names); auto. rewrite H. auto.
Qed.

Lemma parse_step : forall fuel nd path mtag info left right names pre cur rest,
  not_sep_at path right = Some false ->
  path = pre ++ cur ++ rest -> length pre = left + 1 -> right = left + 1 + length cur ->
  parse_loop (S fuel) nd path mtag info left right names
  = parse_frag cur nd mtag info names (fun nd' names' => parse_loop fuel nd' path mtag info right (S right) names').
Proof.
  intros fuel nd path mtag info left right names pre cur rest Hsep Hpath Hpre Hright.
  cbn [parse_loop]. rewrite Hsep.
  destruct cur as [|c n].
  - cbn [length] in Hright. assert ((right - left <? 2) = true) as -> by (apply Nat.ltb_lt; lia).
    reflexivity.
  - cbn [length] in Hright. assert ((right - left <? 2) = false) as -> by (apply Nat.ltb_ge; lia).
    assert (Hs : slice path (left + 1) right = Some (c :: n)).
    { subst path right. rewrite <- Hpre. replace (length pre + length (c :: n)) with (length pre + length (c :: n)) by auto.
      replace (length pre + S (length n)) with (length pre + length (c :: n)) by auto. apply slice_mid. }
    rewrite Hs.
    assert (Hi : idx path (left + 1) = Some c).
    { subst path. rewrite <- Hpre. cbn [app]. apply idx_mid. }
    assert (Hs2 : slice path (left + 2) right = Some n).
    { subst path right. replace (left + 2) with (length (pre ++ [c])) by (rewrite app_length; cbn [length]; lia).
      replace (left + 1 + S (length n)) with (length (pre ++ [c]) + length n) by (rewrite app_length; cbn [length]; lia).
      replace (pre ++ (c :: n) ++ rest) with ((pre ++ [c]) ++ n ++ rest) by (rewrite <- app_assoc; auto).
      apply slice_mid. }
    unfold parse_frag.
    destruct (bytes_eqb (c :: n) [42%N]); auto.
    rewrite Hi. destruct (c =? 58)%N; auto. rewrite Hs2. auto.
Qed.

Lemma parse_loop_continue : forall fuel nd path mtag info left right names,
  not_sep_at path right = Some true ->
  parse_loop (S fuel) nd path mtag info left right names = parse_loop fuel nd path mtag info left (S right) names.
Proof. intros. cbn [parse_loop]. rewrite H. reflexivity. Qed.

Lemma parse_loop_skip0 : forall fuel nd path mtag info names,
  not_sep_at path 0 = Some false ->
  parse_loop (S fuel) nd path mtag info 0 0 names = parse_loop fuel nd path mtag info 0 1 names.
Proof. intros. cbn [parse_loop]. rewrite H. reflexivity. Qed.

Lemma parse_scan : forall path mtag info rest cur pre nd names left right,
  path = pre ++ cur ++ rest -> length pre = left + 1 -> right = left + 1 + length cur -> no47 cur ->
  parse_loop (S (length rest)) nd path mtag info left right names
  = parse_segs (split_on 47 (cur ++ rest)) nd mtag info names.
Proof.
  intros path mtag info. induction rest as [|b rest IH]; intros cur pre nd names left right Hpath Hpre Hright Hno.
  - cbn [length]. rewrite app_nil_r in *.
    rewrite (parse_step 0 nd path mtag info left right names pre cur []); auto.
    + rewrite split_single by auto. cbn [parse_segs]. apply parse_frag_ext. intros. reflexivity.
    + subst path right. rewrite <- Hpre, <- app_length. apply not_sep_at_end.
    + rewrite app_nil_r. auto.
  - assert (Hsep : not_sep_at path right = Some (negb (b =? 47)%N)).
    { subst path right. rewrite <- Hpre, <- app_length, app_assoc. apply not_sep_at_mid. }
    destruct (b =? 47)%N eqn:Eb.
    + apply N.eqb_eq in Eb. subst b. cbn [negb] in Hsep.
      cbn [length]. rewrite (parse_step _ nd path mtag info left right names pre cur (47%N :: rest)); auto.
      rewrite split_sep by auto. cbn [parse_segs]. apply parse_frag_ext. intros nd' names'.
      apply (IH [] (pre ++ cur ++ [47%N])).
      * subst path. rewrite <- !app_assoc. auto.
      * rewrite !app_length. cbn [length]. lia.
      * cbn [length]. lia.
      * constructor.
    + cbn [negb] in Hsep. cbn [length]. rewrite parse_loop_continue by auto.
      rewrite (IH (cur ++ [b]) pre nd names left (S right)).
      * rewrite <- app_assoc. auto.
      * subst path. rewrite <- app_assoc. auto.
      * auto.
      * rewrite app_length. cbn [length]. lia.
      * apply no47_app; auto. constructor; [|constructor]. apply N.eqb_neq. auto.
Qed.

Theorem parse_loop_segs : forall path nd mtag info,
  parse_loop (S (length path)) nd path mtag info 0 0 [] = parse_segs (segments path) nd mtag info [].
Proof.
  intros. unfold segments. destruct path as [|b0 rest].
  - reflexivity.
  - cbn [tl length].
    assert (Hstart : parse_loop (S (S (length rest))) nd (b0 :: rest) mtag info 0 0 []
                     = parse_loop (S (length rest)) nd (b0 :: rest) mtag info 0 1 []).
    { assert (Hs : not_sep_at (b0 :: rest) 0 = Some (negb (b0 =? 47)%N)) by reflexivity.
      destruct (negb (b0 =? 47)%N).
      - apply parse_loop_continue. auto.
      - apply parse_loop_skip0. auto. }
    rewrite Hstart.
    apply (parse_scan (b0 :: rest) mtag info rest [] [b0]); auto. constructor.
Qed.

Section FindScan.
Variable push : vslice -> bytes -> option vslice.

Definition find_frag (frag rem : bytes) (last : bool) (nd : node) (v : vslice)
           (k : node -> vslice -> option (option node * vslice)) : option (option node * vslice) :=
  if is_nil frag && negb last then k nd v
  else
    match next_get nd frag with
    | Some res => k res v
    | None =>
      match next_get nd route_param with
      | Some res => match push v frag with None => None | Some v' => k res v' end
      | None =>
        match next_get nd route_param_any with
        | Some res => match push v rem with None => None | Some v' => Some (Some res, v') end
        | None => Some (None, v)
        end
      end
    end.

Fixpoint walk_trie (nd : node) (segs : list bytes) (v : vslice) : option (option node * vslice) :=
  match segs with
  | [] => Some (Some nd, v)
  | s :: r => find_frag s (join47 (s :: r)) (is_nil r) nd v (fun nd' v' => walk_trie nd' r v')
  end.

Lemma find_frag_ext : forall frag rem last nd v k1 k2,
  (forall nd' v', k1 nd' v' = k2 nd' v') ->
  find_frag frag rem last nd v k1 = find_frag frag rem last nd v k2.
Proof.
  intros. unfold find_frag. destruct (is_nil frag && negb last); auto.
  destruct (next_get nd frag); auto. destruct (next_get nd route_param); auto.
  destruct (push v frag); auto.
Qed.

Lemma find_loop_continue : forall fuel nd path left right v,
  not_sep_at path right = Some true ->
  find_loop push (S fuel) nd path left right v = find_loop push fuel nd path left (S right) v.
Proof. intros. cbn [find_loop]. rewrite H. reflexivity. Qed.

Lemma find_loop_skip0 : forall fuel nd b0 rest v,
  not_sep_at (b0 :: rest) 0 = Some false ->
  find_loop push (S fuel) nd (b0 :: rest) 0 0 v = find_loop push fuel nd (b0 :: rest) 0 1 v.
Proof. intros. cbn [find_loop]. rewrite H. reflexivity. Qed.

Lemma find_step : forall fuel nd path left right v pre cur rest,
  not_sep_at path right = Some false ->
  path = pre ++ cur ++ rest -> length pre = left + 1 -> right = left + 1 + length cur ->
  find_loop push (S fuel) nd path left right v
  = find_frag cur (cur ++ rest) (is_nil rest) nd v (fun nd' v' => find_loop push fuel nd' path right (S right) v').
Proof.
  intros fuel nd path left right v pre cur rest Hsep Hpath Hpre Hright.
  cbn [find_loop]. rewrite Hsep. unfold find_frag.
  assert (Hc1 : (right - left <? 2) = is_nil cur).
  { destruct cur; cbn [length is_nil] in *; [apply Nat.ltb_lt | apply Nat.ltb_ge]; lia. }
  assert (Hc2 : (right <? length path) = negb (is_nil rest)).
  { subst path right. rewrite !app_length.
    destruct rest; cbn [length is_nil negb]; [apply Nat.ltb_ge | apply Nat.ltb_lt]; lia. }
  rewrite Hc1, Hc2.
  destruct (is_nil cur && negb (is_nil rest)); auto.
  assert (Hs : slice path (left + 1) right = Some cur).
  { subst path right. rewrite <- Hpre. apply slice_mid. }
  assert (Hr : slice path (left + 1) (length path) = Some (cur ++ rest)).
  { subst path. rewrite <- Hpre. apply slice_tail. }
  rewrite Hs, Hr. reflexivity.
Qed.

Lemma find_scan : forall path rest cur pre nd v left right,
  path = pre ++ cur ++ rest -> length pre = left + 1 -> right = left + 1 + length cur -> no47 cur ->
  find_loop push (S (length rest)) nd path left right v
  = walk_trie nd (split_on 47 (cur ++ rest)) v.
Proof.
  intros path. induction rest as [|b rest IH]; intros cur pre nd v left right Hpath Hpre Hright Hno.
  - cbn [length].
    rewrite (find_step 0 nd path left right v pre cur []); auto.
    + rewrite app_nil_r. rewrite split_single by auto. cbn [walk_trie join47 is_nil].
      apply find_frag_ext. intros. reflexivity.
    + subst path right. rewrite app_nil_r. rewrite <- Hpre, <- app_length. apply not_sep_at_end.
  - assert (Hsep : not_sep_at path right = Some (negb (b =? 47)%N)).
    { subst path right. rewrite <- Hpre, <- app_length, app_assoc. apply not_sep_at_mid. }
    destruct (b =? 47)%N eqn:Eb.
    + apply N.eqb_eq in Eb. subst b. cbn [negb] in Hsep.
      cbn [length]. rewrite (find_step _ nd path left right v pre cur (47%N :: rest)); auto.
      rewrite split_sep by auto. cbn [walk_trie].
      match goal with |- context [join47 ?x] =>
        assert (Hj : join47 x = cur ++ 47%N :: rest) by (rewrite <- split_sep by auto; apply join_split);
        rewrite Hj end.
      assert (Hl : is_nil (split_on 47 rest) = false).
      { destruct (split_on 47 rest) eqn:E; auto. exfalso. eapply split_on_nonempty; eauto. }
      rewrite Hl. cbn [is_nil].
      apply find_frag_ext. intros nd' v'.
      apply (IH [] (pre ++ cur ++ [47%N])).
      * subst path. rewrite <- !app_assoc. auto.
      * rewrite !app_length. cbn [length]. lia.
      * cbn [length]. lia.
      * constructor.
    + cbn [negb] in Hsep. cbn [length]. rewrite find_loop_continue by auto.
      rewrite (IH (cur ++ [b]) pre nd v left (S right)).
      * rewrite <- app_assoc. auto.
      * subst path. rewrite <- app_assoc. auto.
      * auto.
      * rewrite app_length. cbn [length]. lia.
      * apply no47_app; auto. constructor; [|constructor]. apply N.eqb_neq. auto.
Qed.

Theorem find_loop_segs : forall path nd v, path <> [] ->
  find_loop push (S (length path)) nd path 0 0 v = walk_trie nd (segments path) v.
Proof.
  intros path nd v Hne. unfold segments. destruct path as [|b0 rest]; [contradiction|].
  cbn [tl length].
  assert (Hstart : find_loop push (S (S (length rest))) nd (b0 :: rest) 0 0 v
                   = find_loop push (S (length rest)) nd (b0 :: rest) 0 1 v).
  { assert (Hs : not_sep_at (b0 :: rest) 0 = Some (negb (b0 =? 47)%N)) by reflexivity.
    destruct (negb (b0 =? 47)%N).
    - apply find_loop_continue. auto.
    - apply find_loop_skip0. auto. }
  rewrite Hstart.
  apply (find_scan (b0 :: rest) rest [] [b0]); auto. constructor.
Qed.

End FindScan.

(** * 3. what a trie represents *)

(** remaining key path, (route id, parameter names) *)
Definition kc := (list bytes * (nat * list bytes))%type.

(** [KSem nd l]: below [nd] exactly the prefixes of the key paths of [l] exist, and the
    node at the end of each key path carries that entry's route id and names. *)
Definition KSem (nd : node) (l : list kc) : Prop :=
  (forall q, q <> [] -> (lookup nd q <> None <-> exists e, In e l /\ prefix q (fst e)))
  /\ (forall e, In e l -> exists n, lookup nd (fst e) = Some n /\ n_info n = Some (fst (snd e)) /\ n_names n = snd (snd e)).

(** the entries that continue with key [k], with that key consumed *)
Fixpoint kstep (k : bytes) (l : list kc) : list kc :=
  match l with
  | [] => []
  | (ks, d) :: r =>
    match ks with
    | k' :: ks' => if bytes_eqb k' k then (ks', d) :: kstep k r else kstep k r
    | [] => kstep k r
    end
  end.

Lemma In_kstep : forall k ks d l, In (ks, d) (kstep k l) <-> In (k :: ks, d) l.
Proof.
  induction l as [|[ks0 d0] l IH]; cbn [kstep In]; [tauto|].
  destruct ks0 as [|k' ks'].
  - rewrite IH. split; [tauto|]. intros [H | H]; [discriminate | auto].
  - destruct (bytes_eqb k' k) eqn:E.
    + apply bytes_eqb_eq in E. subst. cbn [In]. rewrite IH. split; intros [H | H]; auto; left; congruence.
    + rewrite IH. split; [tauto|]. intros [H | H]; auto.
      inversion H; subst. rewrite bytes_eqb_refl in E. discriminate.
Qed.

Lemma KSem_empty : KSem empty_node [].
Proof.
  split.
  - intros q Hq. destruct q; [contradiction|]. cbn. split; [intros H; contradiction|].
    intros [e [[] _]].
  - intros e [].
Qed.

Lemma KSem_step : forall nd l k c, KSem nd l -> next_get nd k = Some c -> KSem c (kstep k l).
Proof.
  intros nd l k c [HA HB] Hk. split.
  - intros q Hq.
    assert (Hl : lookup c q = lookup nd (k :: q)) by (cbn [lookup]; rewrite Hk; auto).
    rewrite Hl. rewrite HA by discriminate. split.
    + intros [[ks d] [Hin Hp]]. cbn [fst] in Hp. destruct ks as [|k' ks']; [apply prefix_cons_nil in Hp; contradiction|].
      apply prefix_cons in Hp. destruct Hp as [-> Hp].
      exists (ks', d). split; auto. apply In_kstep. auto.
    + intros [[ks d] [Hin Hp]]. apply In_kstep in Hin. exists (k :: ks, d). split; auto.
      cbn [fst] in *. apply prefix_cons. auto.
  - intros [ks d] Hin. apply In_kstep in Hin. destruct (HB _ Hin) as [n [H1 H2]].
    cbn [fst snd] in *. cbn [lookup] in H1. rewrite Hk in H1. eauto.
Qed.

Lemma KSem_child_iff : forall nd l k, KSem nd l -> (next_get nd k <> None <-> kstep k l <> []).
Proof.
  intros nd l k [HA _].
  assert (Hl : lookup nd [k] <> None <-> next_get nd k <> None).
  { cbn [lookup]. destruct (next_get nd k); split; intros; auto; discriminate. }
  rewrite <- Hl. rewrite HA by discriminate. split.
  - intros [[ks d] [Hin Hp]]. cbn [fst] in Hp. destruct ks as [|k' ks']; [apply prefix_cons_nil in Hp; contradiction|].
    apply prefix_cons in Hp. destruct Hp as [-> _].
    intros E. apply In_kstep in Hin. rewrite E in Hin. contradiction.
  - intros Hne. destruct (kstep k l) as [|[ks d] r] eqn:E; [contradiction|].
    assert (Hin : In (ks, d) (kstep k l)) by (rewrite E; left; auto).
    apply In_kstep in Hin. exists (k :: ks, d). split; auto. cbn [fst]. apply prefix_cons. split; auto. apply prefix_nil.
Qed.

Lemma lookup_prefix_some : forall nd p r, lookup nd (p ++ r) <> None -> lookup nd p <> None.
Proof. intros nd p r H. rewrite lookup_app in H. destruct (lookup nd p); auto; discriminate. Qed.

Lemma KSem_insert : forall nd l p i ns,
  KSem nd l -> lookup nd p = None ->
  KSem (insert nd p (Node [] (Some i) ns)) (l ++ [(p, (i, ns))]).
Proof.
  intros nd l p i ns [HA HB] Hnone.
  set (leaf := Node [] (Some i) ns).
  assert (Hleaf : n_next leaf = []) by reflexivity.
  split.
  - intros q Hq. rewrite (lookup_insert_exists p nd leaf q Hleaf Hnone). rewrite HA by auto. split.
    + intros [[e [Hin Hp]] | Hp].
      * exists e. split; auto. apply in_or_app. auto.
      * exists (p, (i, ns)). split; auto. apply in_or_app. right. left. auto.
    + intros [e [Hin Hp]]. apply in_app_or in Hin. destruct Hin as [Hin | [<- | []]]; [left; eauto | right; auto].
  - intros e Hin. apply in_app_or in Hin. destruct Hin as [Hin | [<- | []]].
    + destruct (HB _ Hin) as [n [H1 [H2 H3]]].
      destruct (lookup_insert_keep p nd leaf (fst e) n H1) as [n' [H4 [H5 H6]]].
      * intros [r Hr]. rewrite Hr, lookup_app, Hnone in H1. discriminate.
      * exists n'. rewrite H5, H6. auto.
    + cbn [fst snd]. exists leaf. split; [apply lookup_insert_same | auto].
Qed.

(** * 4. keys of patterns and methods; candidates as trie entries *)

Definition starts47 (t : bytes) : bool := match t with b :: _ => (b =? 47)%N | [] => false end.

Lemma starts47_neq : forall a b, starts47 a <> starts47 b -> bytes_eqb a b = false.
Proof.
  intros a b H. apply bytes_eqb_neq. intros E. subst. contradiction.
Qed.

Lemma no47_starts : forall s, no47 s -> starts47 s = false.
Proof.
  intros s H. destruct s; auto. inversion H; subst. cbn [starts47]. apply N.eqb_neq. auto.
Qed.

Lemma assoc_get_mem : forall A (tbl : list (bytes * A)) m,
  assoc_get m tbl <> None <-> mem_bytes m (map fst tbl) = true.
Proof.
  induction tbl as [|[k v] tbl IH]; intros m; cbn [assoc_get mem_bytes map fst].
  - split; [contradiction | discriminate].
  - destruct (bytes_eqb k m); cbn [orb]; [split; [auto | discriminate]|]. apply IH.
Qed.

Lemma methods_eq : methods = map fst method_tag_map.
Proof. reflexivity. Qed.

Lemma method_tag_valid : forall m, valid_method m = true -> exists t, method_tag m = Some t.
Proof.
  intros m H. unfold valid_method in H. rewrite methods_eq in H. apply assoc_get_mem in H.
  unfold method_tag. destruct (assoc_get m method_tag_map); eauto. contradiction.
Qed.

Lemma method_tag_invalid : forall m, valid_method m = false -> method_tag m = None.
Proof.
  intros m H. unfold method_tag. destruct (assoc_get m method_tag_map) eqn:E; auto.
  assert (assoc_get m method_tag_map <> None) as H1 by (rewrite E; discriminate).
  apply assoc_get_mem in H1. rewrite <- methods_eq in H1. unfold valid_method in H. congruence.
Qed.

Lemma method_tag0_invalid : forall m, valid_method m = false -> method_tag0 m = [].
Proof. intros. unfold method_tag0. rewrite method_tag_invalid; auto. Qed.

Lemma method_tag0_valid : forall m t, method_tag m = Some t -> method_tag0 m = t.
Proof. intros. unfold method_tag0. rewrite H. auto. Qed.

Definition tag_props_check : bool :=
  forallb (fun m => starts47 (method_tag0 m) && negb (bytes_eqb (method_tag0 m) route_param)
                    && negb (bytes_eqb (method_tag0 m) route_param_any)) methods.
Definition tag_inj_check : bool :=
  forallb (fun m1 => forallb (fun m2 => implb (bytes_eqb (method_tag0 m1) (method_tag0 m2)) (bytes_eqb m1 m2)) methods) methods.

Lemma tag_props : forall m, valid_method m = true ->
  starts47 (method_tag0 m) = true /\ bytes_eqb (method_tag0 m) route_param = false
  /\ bytes_eqb (method_tag0 m) route_param_any = false.
Proof.
  intros m H. apply mem_bytes_In in H.
  assert (C : tag_props_check = true) by (vm_compute; reflexivity).
  unfold tag_props_check in C. rewrite forallb_forall in C. specialize (C m H).
  apply andb_true_iff in C. destruct C as [C C3]. apply andb_true_iff in C. destruct C as [C1 C2].
  apply negb_true_iff in C2, C3. auto.
Qed.

Lemma tag_inj : forall m1 m2, valid_method m1 = true -> valid_method m2 = true ->
  method_tag0 m1 = method_tag0 m2 -> m1 = m2.
Proof.
  intros m1 m2 H1 H2 E. apply mem_bytes_In in H1, H2.
  assert (C : tag_inj_check = true) by (vm_compute; reflexivity).
  unfold tag_inj_check in C. rewrite forallb_forall in C. specialize (C m1 H1).
  rewrite forallb_forall in C. specialize (C m2 H2). rewrite E, bytes_eqb_refl in C. cbn [implb] in C.
  apply bytes_eqb_eq. auto.
Qed.

Definition key_of (p : pseg) : bytes :=
  match p with PLit s => s | PParam _ => route_param | PAny => route_param_any end.

Definition pseg_wf (p : pseg) : Prop :=
  match p with PLit s => s <> [] /\ no47 s | _ => True end.

Definition ckeys (c : cand) : list bytes := map key_of (c_rest c) ++ [method_tag0 (c_method c)].
Definition to_kc (c : cand) : kc := (ckeys c, (c_id c, c_names c)).
Definition cand_wf (c : cand) : Prop := Forall pseg_wf (c_rest c) /\ valid_method (c_method c) = true.

Lemma kstep_filter : forall k (P : cand -> bool) cs,
  (forall c, In c cs ->
     match c_rest c with
     | [] => P c = false /\ bytes_eqb (method_tag0 (c_method c)) k = false
     | p :: _ => P c = bytes_eqb (key_of p) k
     end) ->
  kstep k (map to_kc cs) = map to_kc (map advance (filter P cs)).
Proof.
  induction cs as [|c cs IH]; intros H; cbn [map kstep filter]; auto.
  assert (Hc := H c (or_introl eq_refl)).
  assert (IH' : kstep k (map to_kc cs) = map to_kc (map advance (filter P cs))).
  { apply IH. intros c' Hin. apply H. right. auto. }
  unfold to_kc at 1. unfold ckeys. destruct c as [id rest m ns]. cbn [c_rest c_method c_id c_names] in *.
  destruct rest as [|p r]; cbn [map app].
  - destruct Hc as [Hp Ht]. rewrite Ht, Hp. auto.
  - rewrite Hc. destruct (bytes_eqb (key_of p) k); auto.
    cbn [map]. rewrite IH'. reflexivity.
Qed.

Lemma cand_wf_advance : forall (P : cand -> bool) cs,
  Forall cand_wf cs -> Forall cand_wf (map advance (filter P cs)).
Proof.
  induction cs as [|c cs IH]; intros H; cbn [filter map]; [constructor|].
  inversion H; subst. destruct (P c); auto. cbn [map]. constructor; auto.
  destruct H2 as [H2 H4]. split; auto. unfold advance. cbn [c_rest].
  destruct (c_rest c); cbn [tl]; auto. inversion H2; auto.
Qed.

Lemma kstep_lit : forall s cs, Forall cand_wf cs -> no47 s ->
  kstep s (map to_kc cs) = map to_kc (map advance (filter (is_lit s) cs)).
Proof.
  intros s cs Hwf Hs. apply kstep_filter. intros c Hin.
  rewrite Forall_forall in Hwf. destruct (Hwf c Hin) as [Hr Hm].
  unfold is_lit. destruct (c_rest c) as [|p r].
  - split; auto. apply starts47_neq. destruct (tag_props _ Hm) as [-> _]. rewrite no47_starts; auto. discriminate.
  - inversion Hr; subst. destruct p; cbn [key_of]; auto;
      symmetry; apply starts47_neq; rewrite (no47_starts s) by auto; cbn; discriminate.
Qed.

Lemma kstep_param : forall cs, Forall cand_wf cs ->
  kstep route_param (map to_kc cs) = map to_kc (map advance (filter is_param cs)).
Proof.
  intros cs Hwf. apply kstep_filter. intros c Hin.
  rewrite Forall_forall in Hwf. destruct (Hwf c Hin) as [Hr Hm].
  unfold is_param. destruct (c_rest c) as [|p r].
  - split; auto. apply (tag_props _ Hm).
  - inversion Hr; subst. destruct p; cbn [key_of]; auto.
    destruct H1 as [_ H1]. symmetry. apply starts47_neq. rewrite (no47_starts s) by auto. cbn. discriminate.
Qed.

Lemma kstep_any : forall cs, Forall cand_wf cs ->
  kstep route_param_any (map to_kc cs) = map to_kc (map advance (filter is_any cs)).
Proof.
  intros cs Hwf. apply kstep_filter. intros c Hin.
  rewrite Forall_forall in Hwf. destruct (Hwf c Hin) as [Hr Hm].
  unfold is_any. destruct (c_rest c) as [|p r].
  - split; auto. apply (tag_props _ Hm).
  - inversion Hr; subst. destruct p; cbn [key_of]; auto.
    destruct H1 as [_ H1]. symmetry. apply starts47_neq. rewrite (no47_starts s) by auto. cbn. discriminate.
Qed.

(** * 5. the trie walk and the specification narrow in lock step *)

Lemma map_map_nil : forall (X : list cand), map to_kc (map advance X) = [] -> X = [].
Proof. destruct X; auto. discriminate. Qed.

Lemma walk_sim : forall segs nd cs v vals,
  KSem nd (map to_kc cs) -> Forall cand_wf cs -> Forall no47 segs -> v_items v = vals ->
  match walk_spec cs segs vals with
  | Some (cs', vals') =>
    exists nd' v', walk_trie push_append nd segs v = Some (Some nd', v') /\ v_items v' = vals'
                   /\ KSem nd' (map to_kc cs') /\ Forall cand_wf cs'
  | None => exists v', walk_trie push_append nd segs v = Some (None, v')
  end.
Proof.
  induction segs as [|s rest IH]; intros nd cs v vals HK Hwf Hno Hv.
  - cbn [walk_spec walk_trie]. eauto 6.
  - inversion Hno as [|? ? Hs Hrest]; subst.
    cbn [walk_spec walk_trie]. unfold find_frag.
    destruct (is_nil s && negb (is_nil rest)); [apply IH; auto|].
    pose proof (KSem_child_iff _ _ s HK) as Hlit. rewrite kstep_lit in Hlit by auto.
    pose proof (KSem_child_iff _ _ route_param HK) as Hpar. rewrite kstep_param in Hpar by auto.
    pose proof (KSem_child_iff _ _ route_param_any HK) as Hany. rewrite kstep_any in Hany by auto.
    destruct (next_get nd s) as [res|] eqn:En.
    { assert (Hf : filter (is_lit s) cs <> []).
      { intros E. rewrite E in Hlit. cbn in Hlit. apply (proj1 Hlit); [discriminate | auto]. }
      destruct (filter (is_lit s) cs) as [|c0 ls] eqn:Ef; [contradiction|]. rewrite <- Ef.
      apply IH; auto.
      - rewrite <- kstep_lit by auto. eapply KSem_step; eauto.
      - apply cand_wf_advance. auto. }
    assert (Hf : filter (is_lit s) cs = []).
    { apply map_map_nil. destruct (map to_kc (map advance (filter (is_lit s) cs))); auto.
      exfalso. apply (proj2 Hlit); [discriminate | auto]. }
    rewrite Hf.
    destruct (next_get nd route_param) as [res|] eqn:Ep.
    { assert (Hf2 : filter is_param cs <> []).
      { intros E. rewrite E in Hpar. cbn in Hpar. apply (proj1 Hpar); [discriminate | auto]. }
      destruct (filter is_param cs) as [|c0 ps] eqn:Ef; [contradiction|]. rewrite <- Ef.
      unfold push_append at 1.
      apply IH; auto.
      - rewrite <- kstep_param by auto. eapply KSem_step; eauto.
      - apply cand_wf_advance. auto. }
    assert (Hf2 : filter is_param cs = []).
    { apply map_map_nil. destruct (map to_kc (map advance (filter is_param cs))); auto.
      exfalso. apply (proj2 Hpar); [discriminate | auto]. }
    rewrite Hf2.
    destruct (next_get nd route_param_any) as [res|] eqn:Ea.
    { assert (Hf3 : filter is_any cs <> []).
      { intros E. rewrite E in Hany. cbn in Hany. apply (proj1 Hany); [discriminate | auto]. }
      destruct (filter is_any cs) as [|c0 zs] eqn:Ef; [contradiction|]. rewrite <- Ef.
      unfold push_append. eexists. eexists. split; [reflexivity|]. cbn [v_items].
      split; [reflexivity|]. split.
      - rewrite <- kstep_any by auto. eapply KSem_step; eauto.
      - apply cand_wf_advance. auto. }
    assert (Hf3 : filter is_any cs = []).
    { apply map_map_nil. destruct (map to_kc (map advance (filter is_any cs))); auto.
      exfalso. apply (proj2 Hany); [discriminate | auto]. }
    rewrite Hf3. eauto.
Qed.

Lemma hd_ckeys_tag : forall c m', cand_wf c -> prefix [method_tag0 m'] (ckeys c) ->
  c_rest c = [] /\ c_method c = m'.
Proof.
  intros c m' [Hr Hm] Hp. unfold ckeys in Hp. destruct (c_rest c) as [|p r]; cbn [map app] in Hp;
    apply prefix_cons in Hp; destruct Hp as [Ht _].
  - split; auto. destruct (valid_method m') eqn:Ev.
    + symmetry. apply tag_inj; auto.
    + rewrite method_tag0_invalid in Ht by auto. destruct (tag_props _ Hm) as [H1 _].
      rewrite <- Ht in H1. discriminate.
  - exfalso. inversion Hr as [|? ? Hp0 _]; subst. destruct (valid_method m') eqn:Ev.
    + destruct (tag_props _ Ev) as [H1 [H2 H3]]. rewrite Ht in *.
      destruct p; cbn [key_of pseg_wf] in *.
      * destruct Hp0 as [_ Hn]. rewrite no47_starts in H1 by auto. discriminate.
      * rewrite bytes_eqb_refl in H2. discriminate.
      * rewrite bytes_eqb_refl in H3. discriminate.
    + rewrite method_tag0_invalid in Ht by auto. destruct p; cbn [key_of pseg_wf] in *.
      * destruct Hp0 as [Hn _]. congruence.
      * discriminate.
      * discriminate.
Qed.

Lemma lookup_single : forall nd k n, lookup nd [k] = Some n <-> next_get nd k = Some n.
Proof. intros. cbn [lookup]. destruct (next_get nd k); split; intros H; auto; discriminate. Qed.

Lemma tag_lookup : forall nd cs m', KSem nd (map to_kc cs) -> Forall cand_wf cs ->
  match find (fun c => bytes_eqb (c_method c) m') (filter is_done cs) with
  | Some c => exists n, next_get nd (method_tag0 m') = Some n /\ n_info n = Some (c_id c) /\ n_names n = c_names c
  | None => next_get nd (method_tag0 m') = None
  end.
Proof.
  intros nd cs m' [HA HB] Hwf. rewrite Forall_forall in Hwf.
  destruct (find _ _) as [c|] eqn:Ef.
  - apply find_some in Ef. destruct Ef as [Hin Hm]. apply filter_In in Hin. destruct Hin as [Hin Hd].
    apply bytes_eqb_eq in Hm. unfold is_done in Hd.
    destruct (HB (to_kc c) (in_map to_kc _ _ Hin)) as [n [H1 [H2 H3]]].
    cbn [to_kc fst snd] in *. unfold ckeys in H1. destruct (c_rest c); [|discriminate].
    cbn [map app] in H1. rewrite Hm in H1. apply lookup_single in H1. eauto.
  - destruct (next_get nd (method_tag0 m')) as [n|] eqn:En; auto. exfalso.
    assert (Hl : lookup nd [method_tag0 m'] <> None).
    { cbn [lookup]. rewrite En. discriminate. }
    apply HA in Hl; [|discriminate]. destruct Hl as [e [Hin Hp]].
    apply in_map_iff in Hin. destruct Hin as [c [<- Hin]]. cbn [to_kc fst] in Hp.
    destruct (hd_ckeys_tag c m' (Hwf c Hin) Hp) as [Hr Hm].
    assert (Hf : In c (filter is_done cs)).
    { apply filter_In. split; auto. unfold is_done. rewrite Hr. auto. }
    pose proof (find_none _ _ Ef c Hf) as Hx. cbn beta in Hx. rewrite Hm, bytes_eqb_refl in Hx. discriminate.
Qed.

Lemma finish_sim : forall nd cs method vals, KSem nd (map to_kc cs) -> Forall cand_wf cs ->
  match finish_spec cs method vals with
  | Some m => exists n, method_node_or_nil nd method = Some n /\ n_info n = Some (m_route m)
                        /\ n_names n = m_names m /\ m_values m = vals
  | None => method_node_or_nil nd method = None
  end.
Proof.
  intros nd cs method vals HK Hwf. unfold finish_spec, method_node_or_nil.
  pose proof (tag_lookup nd cs method HK Hwf) as H1.
  pose proof (tag_lookup nd cs RouteSpec.method_all HK Hwf) as H2.
  change (method_tag0 RouteSpec.method_all) with (method_tag0 Router.method_all) in H2.
  destruct (find (fun c => bytes_eqb (c_method c) method) (filter is_done cs)) as [c|].
  - destruct H1 as [n [E1 [E2 E3]]]. rewrite E1. exists n. cbn. auto.
  - rewrite H1.
    destruct (find (fun c => bytes_eqb (c_method c) RouteSpec.method_all) (filter is_done cs)) as [c|].
    + destruct H2 as [n [E1 [E2 E3]]]. rewrite E1. exists n. cbn. auto.
    + auto.
Qed.

Definition single_empty (segs : list bytes) : bool :=
  match segs with [ [] ] => true | _ => false end.

Lemma match_spec_eq : forall routes segs method,
  match_spec routes segs method =
  if single_empty segs then
    match finish_spec (cands_from 0 routes) method [] with
    | Some m => Some m
    | None => walk_finish (cands_from 0 routes) segs method
    end
  else walk_finish (cands_from 0 routes) segs method.
Proof. intros. unfold match_spec. destruct segs as [|[|] [|]]; reflexivity. Qed.

Lemma single_empty_split : forall r, single_empty (split_on 47 r) = is_nil r.
Proof.
  destruct r as [|b r]; auto. cbn [split_on is_nil].
  destruct (b =? 47)%N.
  - destruct (split_on 47 r) eqn:E; auto. exfalso. eapply split_on_nonempty; eauto.
  - destruct (split_on 47 r); auto.
Qed.

(** findRoute against the specification, for any trie that represents the table *)
Theorem find_route_spec : forall routes root path method ps,
  KSem root (map to_kc (cands_from 0 routes)) -> Forall cand_wf (cands_from 0 routes) ->
  v_items (pV ps) = [] ->
  exists info ps', find_route root path method ps = Some (info, ps') /\
    match match_spec routes (segments path) method with
    | Some m => info = Some (m_route m) /\ pK ps' = m_names m /\ v_items (pV ps') = m_values m
    | None => info = None /\ pK ps' = pK ps
    end.
Proof.
  intros routes root path method ps HK Hwf Hv.
  unfold find_route, find_route_gen.
  set (path' := if is_nil path then [47%N] else path).
  assert (Hne : path' <> []) by (subst path'; destruct path; discriminate).
  assert (Hseg : segments path' = segments path) by (subst path'; destruct path; reflexivity).
  assert (H1 : (length path' =? 1) = single_empty (segments path')).
  { destruct path' as [|b r]; [contradiction|]. unfold segments. cbn [tl length]. rewrite single_empty_split.
    destruct r; reflexivity. }
  rewrite match_spec_eq, <- Hseg, <- H1.
  assert (General :
    exists info ps',
      match find_loop push_append (S (length path')) root path' 0 0 (pV ps) with
      | Some (Some nd, v) =>
        match method_node_or_nil nd method with
        | Some n => Some (n_info n, {| pK := n_names n; pV := v |})
        | None => Some (None, {| pK := pK ps; pV := v |})
        end
      | Some (None, v) => Some (None, {| pK := pK ps; pV := v |})
      | None => None
      end = Some (info, ps') /\
      match walk_finish (cands_from 0 routes) (segments path') method with
      | Some m => info = Some (m_route m) /\ pK ps' = m_names m /\ v_items (pV ps') = m_values m
      | None => info = None /\ pK ps' = pK ps
      end).
  { rewrite find_loop_segs by auto. unfold walk_finish.
    pose proof (walk_sim (segments path') root _ (pV ps) [] HK Hwf (split_no47 _) Hv) as Hw.
    destruct (walk_spec (cands_from 0 routes) (segments path') []) as [[cs' vals']|].
    - destruct Hw as [nd' [v' [E1 [E2 [HK' Hwf']]]]]. rewrite E1.
      pose proof (finish_sim nd' cs' method vals' HK' Hwf') as Hf.
      destruct (finish_spec cs' method vals') as [m|].
      + destruct Hf as [n [F1 [F2 [F3 F4]]]]. rewrite F1. eexists. eexists. split; [reflexivity|].
        cbn [pK pV]. rewrite F4. auto.
      + rewrite Hf. eexists. eexists. split; [reflexivity|]. auto.
    - destruct Hw as [v' E1]. rewrite E1. eexists. eexists. split; [reflexivity|]. auto. }
  destruct (length path' =? 1) eqn:El; [|exact General].
  pose proof (finish_sim root _ method [] HK Hwf) as Hf.
  destruct (finish_spec (cands_from 0 routes) method []) as [m|].
  - destruct Hf as [n [F1 [F2 [F3 F4]]]]. rewrite F1. eexists. eexists. split; [reflexivity|].
    cbn [pK pV]. rewrite F4. auto.
  - rewrite Hf. exact General.
Qed.

(** * 6. registration *)

(** parseRoute at the level of keys: walk/create the key path, then the duplicate test *)
Fixpoint put (nd : node) (ks : list bytes) (mtag : bytes) (info : nat) (names : list bytes) : node * presult :=
  match ks with
  | [] => parse_finish nd mtag info names
  | k :: r => let (c, res) := put (next_or_new nd k) r mtag info names in (set_child nd k c, res)
  end.

Lemma put_ok : forall ks nd mtag info names,
  lookup nd (ks ++ [mtag]) = None ->
  put nd ks mtag info names = (insert nd (ks ++ [mtag]) (Node [] (Some info) names), POk (length names)).
Proof.
  induction ks as [|k r IH]; intros nd mtag info names H; cbn [put app insert].
  - unfold parse_finish. cbn [app lookup] in H. destruct (next_get nd mtag); [discriminate|]. reflexivity.
  - rewrite IH; auto. rewrite lookup_next_or_new by (destruct r; discriminate). auto.
Qed.

Lemma put_dup : forall ks nd mtag info names,
  lookup nd (ks ++ [mtag]) <> None -> snd (put nd ks mtag info names) = PErr ErrDuplicate.
Proof.
  induction ks as [|k r IH]; intros nd mtag info names H; cbn [put].
  - unfold parse_finish. cbn [app lookup] in H. destruct (next_get nd mtag); [reflexivity | contradiction].
  - specialize (IH (next_or_new nd k) mtag info names).
    rewrite lookup_next_or_new in IH by (destruct r; discriminate).
    destruct (put (next_or_new nd k) r mtag info names). cbn [snd] in *. auto.
Qed.

(** the name checks as parseRoute makes them: against the names collected so far *)
Fixpoint fwd_ok (names : list bytes) (pat : list pseg) : bool :=
  match pat with
  | [] => true
  | PParam n :: r => negb (is_nil n || mem_bytes n names) && fwd_ok (names ++ [n]) r
  | _ :: r => fwd_ok names r
  end.

Lemma fwd_ok_param : forall names n r,
  fwd_ok names (PParam n :: r) = negb (is_nil n || mem_bytes n names) && fwd_ok (names ++ [n]) r.
Proof. reflexivity. Qed.
Lemma fwd_ok_lit : forall names s r, fwd_ok names (PLit s :: r) = fwd_ok names r.
Proof. reflexivity. Qed.

Lemma parse_segs_pattern : forall segs nd mtag info names,
  if fwd_ok names (pattern_of segs)
  then parse_segs segs nd mtag info names
       = put nd (map key_of (pattern_of segs)) mtag info (names ++ pattern_names (pattern_of segs))
  else snd (parse_segs segs nd mtag info names) = PErr ErrFragment.
Proof.
  induction segs as [|s r IH]; intros nd mtag info names.
  - cbn. rewrite app_nil_r. reflexivity.
  - cbn [parse_segs pattern_of]. unfold parse_frag. destruct s as [|c n]; [apply IH|].
    destruct (bytes_eqb (c :: n) [42%N]); [reflexivity|].
    destruct (c =? 58)%N.
    + rewrite fwd_ok_param. destruct (is_nil n || mem_bytes n names); [reflexivity|]. cbn [negb andb].
      specialize (IH (next_or_new nd route_param) mtag info (names ++ [n])).
      destruct (fwd_ok (names ++ [n]) (pattern_of r)); cbv beta iota in IH; cbn [andb].
      * rewrite IH. cbn [map key_of put pattern_names]. rewrite <- app_assoc. reflexivity.
      * destruct (parse_segs r (next_or_new nd route_param) mtag info (names ++ [n])). cbn [snd] in *. auto.
    + rewrite fwd_ok_lit. specialize (IH (next_or_new nd (c :: n)) mtag info names).
      destruct (fwd_ok names (pattern_of r)); cbv beta iota in IH; cbn [andb].
      * rewrite IH. reflexivity.
      * destruct (parse_segs r (next_or_new nd (c :: n)) mtag info names). cbn [snd] in *. auto.
Qed.

Lemma mem_bytes_app_single : forall x names n, mem_bytes x (names ++ [n]) = mem_bytes x names || bytes_eqb n x.
Proof.
  induction names; intros; cbn [mem_bytes app].
  - rewrite orb_false_r. auto.
  - rewrite IHnames, orb_assoc. auto.
Qed.

Lemma forallb_notin_snoc : forall names n l,
  forallb (fun x => negb (mem_bytes x (names ++ [n]))) l
  = forallb (fun x => negb (mem_bytes x names)) l && negb (mem_bytes n l).
Proof.
  induction l as [|y l IH]; cbn [forallb mem_bytes]; auto.
  rewrite IH, mem_bytes_app_single, (bytes_eqb_sym y n).
  destruct (mem_bytes y names), (bytes_eqb n y), (forallb (fun x => negb (mem_bytes x names)) l), (mem_bytes n l); reflexivity.
Qed.

Lemma fwd_ok_spec : forall pat names,
  fwd_ok names pat
  = forallb (fun n => negb (is_nil n)) (param_names pat)
    && forallb (fun n => negb (mem_bytes n names)) (param_names pat)
    && nodup_bytes (param_names pat).
Proof.
  induction pat as [|p r IH]; intros names; [reflexivity|].
  destruct p; cbn [fwd_ok param_names]; try apply IH.
  rewrite IH. cbn [forallb nodup_bytes]. rewrite forallb_notin_snoc.
  destruct (is_nil name), (mem_bytes name names), (forallb (fun n => negb (is_nil n)) (param_names r)),
    (forallb (fun n => negb (mem_bytes n names)) (param_names r)), (mem_bytes name (param_names r)),
    (nodup_bytes (param_names r)); reflexivity.
Qed.

Lemma fwd_ok_nil : forall pat, fwd_ok [] pat = pattern_ok pat.
Proof.
  intros. rewrite fwd_ok_spec. unfold pattern_ok.
  assert (H : forallb (fun n : bytes => negb (mem_bytes n [])) (param_names pat) = true).
  { apply forallb_forall. intros. reflexivity. }
  rewrite H, andb_true_r. reflexivity.
Qed.

Lemma pattern_of_wf : forall segs, Forall no47 segs -> Forall pseg_wf (pattern_of segs).
Proof.
  induction segs as [|s r IH]; intros H; cbn [pattern_of]; [constructor|].
  inversion H; subst. destruct s as [|c n]; auto.
  destruct (bytes_eqb (c :: n) [42%N]); [repeat constructor|].
  destruct (c =? 58)%N; constructor; auto; cbn [pseg_wf]; auto. split; [discriminate | auto].
Qed.

Lemma pattern_wf : forall p, Forall pseg_wf (pattern p).
Proof. intros. apply pattern_of_wf. apply split_no47. Qed.

Definition shape1 (a b : pseg) : bool :=
  match a, b with
  | PLit s, PLit t => bytes_eqb s t
  | PParam _, PParam _ => true
  | PAny, PAny => true
  | _, _ => false
  end.

Lemma same_shape_cons : forall a p b q, same_shape (a :: p) (b :: q) = shape1 a b && same_shape p q.
Proof. intros. destruct a, b; reflexivity. Qed.

Lemma key_of_eq : forall a b, pseg_wf a -> pseg_wf b -> (key_of a = key_of b <-> shape1 a b = true).
Proof.
  intros a b Ha Hb. destruct a, b; cbn [key_of shape1 pseg_wf] in *;
    try (split; intros; auto; reflexivity);
    try (split; [intros E | discriminate]; exfalso).
  - apply iff_sym, bytes_eqb_eq.
  - destruct Ha as [_ Ha]. apply no47_starts in Ha. rewrite E in Ha. discriminate.
  - destruct Ha as [_ Ha]. apply no47_starts in Ha. rewrite E in Ha. discriminate.
  - destruct Hb as [_ Hb]. apply no47_starts in Hb. rewrite <- E in Hb. discriminate.
  - discriminate.
  - destruct Hb as [_ Hb]. apply no47_starts in Hb. rewrite <- E in Hb. discriminate.
  - discriminate.
Qed.

Lemma key_not_tag : forall a m, pseg_wf a -> valid_method m = true -> key_of a <> method_tag0 m.
Proof.
  intros a m Ha Hm E. destruct (tag_props _ Hm) as [H1 [H2 H3]]. rewrite <- E in *.
  destruct a; cbn [key_of pseg_wf] in *.
  - destruct Ha as [_ Ha]. rewrite no47_starts in H1 by auto. discriminate.
  - rewrite bytes_eqb_refl in H2. discriminate.
  - rewrite bytes_eqb_refl in H3. discriminate.
Qed.

Lemma keys_prefix_shape : forall p q m mc,
  Forall pseg_wf p -> Forall pseg_wf q -> valid_method m = true -> valid_method mc = true ->
  (prefix (map key_of p ++ [method_tag0 m]) (map key_of q ++ [method_tag0 mc])
   <-> same_shape p q = true /\ m = mc).
Proof.
  induction p as [|a p IH]; intros q m mc Hp Hq Hm Hmc.
  - destruct q as [|b q]; cbn [map app].
    + rewrite prefix_cons. split.
      * intros [E _]. split; auto. apply tag_inj; auto.
      * intros [_ ->]. split; auto. apply prefix_nil.
    + rewrite prefix_cons. split.
      * intros [E _]. exfalso. inversion Hq; subst. apply (key_not_tag b m); auto.
      * intros [H _]. discriminate.
  - inversion Hp; subst. destruct q as [|b q]; cbn [map app].
    + rewrite prefix_cons. split.
      * intros [E _]. exfalso. apply (key_not_tag a mc); auto.
      * intros [H _]. destruct a; discriminate.
    + inversion Hq; subst. rewrite prefix_cons, same_shape_cons, andb_true_iff.
      rewrite (key_of_eq a b) by auto. rewrite (IH q m mc) by auto. tauto.
Qed.

Lemma existsb_same_route : forall p m routes i,
  existsb (same_route (p, m)) routes
  = existsb (fun c => same_shape (pattern p) (c_rest c) && bytes_eqb m (c_method c)) (cands_from i routes).
Proof.
  induction routes as [|[p' m'] routes IH]; intros i; cbn [existsb cands_from]; auto.
  rewrite (IH (S i)). reflexivity.
Qed.

Lemma cands_from_app : forall a b i, cands_from i (a ++ b) = cands_from i a ++ cands_from (i + length a) b.
Proof.
  induction a as [|[p m] a IH]; intros b i; cbn [app cands_from length].
  - rewrite Nat.add_0_r. auto.
  - rewrite IH. replace (S i + length a) with (i + S (length a)) by lia. auto.
Qed.

Definition Repr (t : table) (routes : list route) : Prop :=
  KSem (t_root t) (map to_kc (cands_from 0 routes))
  /\ Forall cand_wf (cands_from 0 routes)
  /\ t_count t = length routes.

Lemma Repr_empty : Repr empty_table [].
Proof. split; [apply KSem_empty | split; [constructor | reflexivity]]. Qed.

Lemma handle_spec : forall t routes p m, Repr t routes ->
  if accepts routes (p, m)
  then exists t', handle t p m = Some t' /\ Repr t' (routes ++ [(p, m)])
  else handle t p m = None.
Proof.
  intros t routes p m [HK [Hwf Hcnt]].
  unfold accepts, handle, parse_route. cbn [fst snd].
  destruct (valid_method m) eqn:Ev; cbn [andb].
  2: { rewrite method_tag_invalid by auto. reflexivity. }
  destruct (method_tag_valid m Ev) as [mtag Hmt]. rewrite Hmt.
  assert (Ht0 : method_tag0 m = mtag) by (apply method_tag0_valid; auto).
  rewrite parse_loop_segs.
  pose proof (parse_segs_pattern (segments p) (t_root t) mtag (t_count t) []) as Hps.
  rewrite fwd_ok_nil in Hps. fold (pattern p) in Hps.
  destruct (pattern_ok (pattern p)) eqn:Eok; cbn [andb].
  2: { destruct (parse_segs (segments p) (t_root t) mtag (t_count t) []). cbn [snd] in Hps. subst. reflexivity. }
  rewrite Hps. cbn [app].
  rewrite (existsb_same_route p m routes 0).
  pose proof HK as [HA HB].
  set (keys := map key_of (pattern p) ++ [mtag]).
  assert (Hiff : lookup (t_root t) keys <> None <->
                 existsb (fun c => same_shape (pattern p) (c_rest c) && bytes_eqb m (c_method c)) (cands_from 0 routes) = true).
  { rewrite HA by (subst keys; destruct (map key_of (pattern p)); discriminate).
    rewrite existsb_exists. split.
    - intros [e [Hin Hp]]. apply in_map_iff in Hin. destruct Hin as [c [<- Hin]].
      exists c. split; auto. cbn [to_kc fst] in Hp. unfold ckeys in Hp. subst keys. rewrite <- Ht0 in Hp.
      rewrite Forall_forall in Hwf. destruct (Hwf c Hin) as [W1 W2].
      apply keys_prefix_shape in Hp; auto using pattern_wf. destruct Hp as [-> ->].
      rewrite bytes_eqb_refl. reflexivity.
    - intros [c [Hin Hc]]. apply andb_true_iff in Hc. destruct Hc as [H1 H2]. apply bytes_eqb_eq in H2.
      exists (to_kc c). split; [apply in_map; auto|]. cbn [to_kc fst]. unfold ckeys. subst keys. rewrite <- Ht0.
      rewrite Forall_forall in Hwf. destruct (Hwf c Hin) as [W1 W2].
      apply keys_prefix_shape; auto using pattern_wf. }
  destruct (existsb _ (cands_from 0 routes)) eqn:Ed; cbn [negb].
  - assert (Hd : lookup (t_root t) keys <> None) by (apply Hiff; reflexivity).
    pose proof (put_dup (map key_of (pattern p)) (t_root t) mtag (t_count t) (pattern_names (pattern p)) Hd) as Hpd.
    destruct (put _ _ _ _ _). cbn [snd] in Hpd. subst. reflexivity.
  - assert (Hn : lookup (t_root t) keys = None).
    { destruct (lookup (t_root t) keys) eqn:El; auto. exfalso.
      assert (Some n <> None) as Hx by discriminate. apply Hiff in Hx. discriminate. }
    rewrite put_ok by auto. eexists. split; [reflexivity|].
    unfold Repr. cbn [t_root t_count]. rewrite cands_from_app. cbn [cands_from Nat.add].
    split; [|split].
    + rewrite map_app. cbn [map]. unfold to_kc at 2. unfold ckeys. cbn [c_rest c_method c_id c_names].
      rewrite Ht0, Hcnt. apply KSem_insert; auto.
    + apply Forall_app. split; auto. constructor; [|constructor]. split; cbn [c_rest c_method]; auto using pattern_wf.
    + rewrite app_length. cbn [length]. lia.
Qed.

Theorem register_from_spec : forall rs t routes, Repr t routes ->
  if table_ok_from routes rs
  then exists t', register_from t rs = Some t' /\ Repr t' (routes ++ rs)
  else register_from t rs = None.
Proof.
  induction rs as [|[p m] rs IH]; intros t routes HR; cbn [table_ok_from register_from].
  - rewrite app_nil_r. eauto.
  - pose proof (handle_spec t routes p m HR) as Hh.
    destruct (accepts routes (p, m)); cbn [andb].
    + destruct Hh as [t' [E1 HR']]. rewrite E1.
      specialize (IH t' (routes ++ [(p, m)]) HR'). rewrite <- app_assoc in IH. exact IH.
    + rewrite Hh. reflexivity.
Qed.

Theorem register_all_spec : forall routes,
  if table_ok routes
  then exists t, register_all routes = Some t /\ Repr t routes
  else register_all routes = None.
Proof. intros. apply (register_from_spec routes empty_table [] Repr_empty). Qed.

Lemma register_all_repr : forall routes t, register_all routes = Some t -> Repr t routes /\ table_ok routes = true.
Proof.
  intros routes t H. pose proof (register_all_spec routes) as Hs.
  destruct (table_ok routes).
  - destruct Hs as [t' [E HR]]. rewrite E in H. inversion H; subst. auto.
  - rewrite Hs in H. discriminate.
Qed.

(** * 7. the statements used by Properties/C04.v *)

Definition spec_target (routes : list route) (path method : bytes) : target :=
  match match_spec routes (segments path) method with
  | Some m => Route (m_route m)
  | None => NoRoute
  end.

Theorem serve_http_dispatch : forall routes t path method,
  register_all routes = Some t ->
  exists ps, serve_http t path method = Some [Call (spec_target routes path method) ps] /\
    match match_spec routes (segments path) method with
    | Some m => pK ps = m_names m /\ v_items (pV ps) = m_values m
    | None => pK ps = []
    end.
Proof.
  intros routes t path method Hreg. apply register_all_repr in Hreg. destruct Hreg as [[HK [Hwf _]] _].
  destruct (find_route_spec routes (t_root t) path method (fresh_params (t_max_params t)) HK Hwf eq_refl)
    as [info [ps' [E H]]].
  unfold serve_http, spec_target. rewrite E. exists ps'.
  destruct (match_spec routes (segments path) method) as [m|].
  - destruct H as [-> [H1 H2]]. auto.
  - destruct H as [-> H1]. auto.
Qed.

(** ** names and values have the same length *)

Definition bal (vals : list bytes) (c : cand) : Prop :=
  length (c_names c) = length vals + length (pattern_names (c_rest c)).

Lemma Forall_advance_filter : forall (P : cand -> bool) (Q Q' : cand -> Prop) cs,
  (forall c, P c = true -> Q c -> Q' (advance c)) ->
  Forall Q cs -> Forall Q' (map advance (filter P cs)).
Proof.
  intros P Q Q' cs H. induction cs as [|c cs IH]; intros HF; cbn [filter map]; [constructor|].
  inversion HF; subst. destruct (P c) eqn:E; auto. cbn [map]. constructor; auto.
Qed.

Lemma bal_lit : forall s vals c, is_lit s c = true -> bal vals c -> bal vals (advance c).
Proof.
  unfold is_lit, bal, advance. intros s vals c H. cbn [c_names c_rest].
  destruct (c_rest c) as [|[| |] r]; try discriminate. auto.
Qed.
Lemma bal_param : forall x vals c, is_param c = true -> bal vals c -> bal (vals ++ [x]) (advance c).
Proof.
  unfold is_param, bal, advance. intros x vals c H. cbn [c_names c_rest].
  destruct (c_rest c) as [|[| |] r]; try discriminate. cbn [pattern_names tl length]. rewrite app_length. cbn [length]. lia.
Qed.
Lemma bal_any : forall x vals c, is_any c = true -> bal vals c -> bal (vals ++ [x]) (advance c).
Proof.
  unfold is_any, bal, advance. intros x vals c H. cbn [c_names c_rest].
  destruct (c_rest c) as [|[| |] r]; try discriminate. cbn [pattern_names tl length]. rewrite app_length. cbn [length]. lia.
Qed.

Lemma walk_spec_bal : forall segs cs vals cs' vals',
  Forall (bal vals) cs -> walk_spec cs segs vals = Some (cs', vals') -> Forall (bal vals') cs'.
Proof.
  induction segs as [|s rest IH]; intros cs vals cs' vals' HF H; cbn [walk_spec] in H.
  - inversion H; subst. auto.
  - destruct (is_nil s && negb (is_nil rest)); [eapply IH; eauto|].
    destruct (filter (is_lit s) cs) as [|c0 ls] eqn:E1.
    + destruct (filter is_param cs) as [|c1 ps] eqn:E2.
      * destruct (filter is_any cs) as [|c2 zs] eqn:E3; [discriminate|].
        rewrite <- E3 in H. inversion H; subst. eapply Forall_advance_filter; [|exact HF]. intros. apply bal_any; auto.
      * eapply IH; [|exact H]. rewrite <- E2. eapply Forall_advance_filter; [|exact HF]. intros. apply bal_param; auto.
    + eapply IH; [|exact H]. rewrite <- E1. eapply Forall_advance_filter; [|exact HF]. intros c Hc. apply (bal_lit s); auto.
Qed.

Lemma finish_spec_bal : forall cs method vals m,
  Forall (bal vals) cs -> finish_spec cs method vals = Some m -> length (m_names m) = length (m_values m).
Proof.
  intros cs method vals m HF H. unfold finish_spec in H. rewrite Forall_forall in HF.
  assert (G : forall c, In c (filter is_done cs) -> length (c_names c) = length vals).
  { intros c Hin. apply filter_In in Hin. destruct Hin as [Hin Hd]. specialize (HF c Hin). unfold bal in HF.
    unfold is_done in Hd. destruct (c_rest c); [|discriminate]. cbn in HF. lia. }
  destruct (find _ _) as [c|] eqn:E1.
  - inversion H; subst. cbn. apply find_some in E1. apply G. tauto.
  - destruct (find (fun c => bytes_eqb (c_method c) RouteSpec.method_all) _) as [c|] eqn:E2; [|discriminate].
    inversion H; subst. cbn. apply find_some in E2. apply G. tauto.
Qed.

Lemma cands_from_bal : forall routes i, Forall (bal []) (cands_from i routes).
Proof.
  induction routes as [|[p m] routes IH]; intros i; cbn [cands_from]; constructor; auto.
  unfold bal. cbn. auto.
Qed.

Lemma walk_finish_bal : forall cs segs method m,
  Forall (bal []) cs -> walk_finish cs segs method = Some m -> length (m_names m) = length (m_values m).
Proof.
  intros cs segs method m HF H. unfold walk_finish in H.
  destruct (walk_spec cs segs []) as [[cs' vals']|] eqn:E; [|discriminate].
  eapply finish_spec_bal; [|exact H]. eapply walk_spec_bal; eauto.
Qed.

Theorem match_spec_bal : forall routes segs method m,
  match_spec routes segs method = Some m -> length (m_names m) = length (m_values m).
Proof.
  intros routes segs method m H. rewrite match_spec_eq in H.
  pose proof (cands_from_bal routes 0) as HF.
  destruct (single_empty segs).
  - destruct (finish_spec (cands_from 0 routes) method []) as [m'|] eqn:E.
    + inversion H; subst. eapply finish_spec_bal; eauto.
    + eapply walk_finish_bal; eauto.
  - eapply walk_finish_bal; eauto.
Qed.

Lemma params_get_at_spec : forall ks vs pre key, length ks = length vs ->
  exists b, params_get_at ks (pre ++ vs) (length pre) key = Some (lookup_param ks vs key, b).
Proof.
  induction ks as [|k ks IH]; intros vs pre key Hl.
  - cbn. eauto.
  - destruct vs as [|v vs]; [discriminate|]. cbn [params_get_at lookup_param].
    destruct (bytes_eqb k key).
    + rewrite nth_error_app2 by lia. rewrite Nat.sub_diag. cbn. eauto.
    + specialize (IH vs (pre ++ [v]) key). rewrite <- app_assoc, app_length in IH. cbn [app length] in IH.
      rewrite Nat.add_1_r in IH. apply IH. cbn [length] in Hl. lia.
Qed.

Lemma route_param_of_spec : forall ps name, length (pK ps) = length (v_items (pV ps)) ->
  route_param_of ps name = Some (lookup_param (pK ps) (v_items (pV ps)) name).
Proof.
  intros ps name Hl. unfold route_param_of, params_get.
  destruct (params_get_at_spec (pK ps) (v_items (pV ps)) [] name Hl) as [b E].
  cbn [app length] in E. rewrite E. reflexivity.
Qed.

(** ** values are pieces of the path *)

Definition is_piece (segs : list bytes) (v : bytes) : Prop :=
  In v segs \/ exists k, v = join47 (skipn k segs).

Lemma is_piece_cons : forall s rest v, is_piece rest v -> is_piece (s :: rest) v.
Proof.
  intros s rest v [H | [k H]]; [left; right; auto | right; exists (S k); auto].
Qed.

Lemma walk_spec_values : forall segs cs vals cs' vals',
  walk_spec cs segs vals = Some (cs', vals') ->
  exists new, vals' = vals ++ new /\ Forall (is_piece segs) new.
Proof.
  induction segs as [|s rest IH]; intros cs vals cs' vals' H; cbn [walk_spec] in H.
  - inversion H; subst. exists []. rewrite app_nil_r. auto.
  - assert (Lift : forall cs0 vals0, walk_spec cs0 rest vals0 = Some (cs', vals') ->
                   exists new, vals' = vals0 ++ new /\ Forall (is_piece (s :: rest)) new).
    { intros cs0 vals0 H0. destruct (IH _ _ _ _ H0) as [new [E F]]. exists new. split; auto.
      eapply Forall_impl; [|exact F]. intros. apply is_piece_cons. auto. }
    destruct (is_nil s && negb (is_nil rest)); [eapply Lift; eauto|].
    destruct (filter (is_lit s) cs) as [|c0 ls]; [|eapply Lift; eauto].
    destruct (filter is_param cs) as [|c1 ps].
    + destruct (filter is_any cs) as [|c2 zs]; [discriminate|]. inversion H; subst.
      exists [join47 (s :: rest)]. split; auto. constructor; auto. right. exists 0. reflexivity.
    + destruct (Lift _ _ H) as [new [E F]]. exists (s :: new). rewrite <- app_assoc in E. split; auto.
      constructor; auto. left. left. auto.
Qed.

Theorem match_spec_values : forall routes segs method m,
  match_spec routes segs method = Some m -> Forall (is_piece segs) (m_values m).
Proof.
  intros routes segs method m H. rewrite match_spec_eq in H.
  assert (F0 : forall cs vals m0, finish_spec cs method vals = Some m0 -> m_values m0 = vals).
  { intros cs vals m0 H0. unfold finish_spec in H0.
    destruct (find _ _); [inversion H0; auto|]. destruct (find _ _); inversion H0; auto. }
  assert (W : forall m0, walk_finish (cands_from 0 routes) segs method = Some m0 -> Forall (is_piece segs) (m_values m0)).
  { intros m0 H0. unfold walk_finish in H0. destruct (walk_spec _ segs []) as [[cs' vals']|] eqn:E; [|discriminate].
    apply F0 in H0. rewrite H0. destruct (walk_spec_values _ _ _ _ _ E) as [new [-> F]]. auto. }
  destruct (single_empty segs); auto.
  destruct (finish_spec (cands_from 0 routes) method []) eqn:E; auto.
  inversion H; subst. apply F0 in E. rewrite E. constructor.
Qed.

Lemma split_first_prefix : forall s f fs, split_on 47 s = f :: fs -> exists post, s = f ++ post.
Proof.
  induction s as [|b r IH]; intros f fs H; cbn [split_on] in H.
  - inversion H; subst. exists []. auto.
  - destruct (b =? 47)%N.
    + inversion H; subst. exists (b :: r). auto.
    + destruct (split_on 47 r) as [|f' fs'] eqn:E; inversion H; subst.
      * exists r. auto.
      * destruct (IH f' fs eq_refl) as [post ->]. exists post. auto.
Qed.

Lemma split_piece_sub : forall s v, In v (split_on 47 s) -> exists pre post, s = pre ++ v ++ post.
Proof.
  induction s as [|b r IH]; intros v H; cbn [split_on] in H.
  - destruct H as [<- | []]. exists [], []. auto.
  - destruct (b =? 47)%N.
    + destruct H as [<- | H]; [exists [], (b :: r); auto|].
      destruct (IH v H) as [pre [post ->]]. exists (b :: pre), post. auto.
    + destruct (split_on 47 r) as [|f fs] eqn:E.
      * destruct H as [<- | []]. exists [], r. auto.
      * destruct H as [<- | H].
        -- destruct (split_first_prefix r f fs E) as [post ->]. exists [], post. auto.
        -- destruct (IH v (or_intror H)) as [pre [post ->]]. exists (b :: pre), post. auto.
Qed.

Lemma split_cons2 : forall s f g fs, split_on 47 s = f :: g :: fs ->
  exists s', s = f ++ 47%N :: s' /\ split_on 47 s' = g :: fs.
Proof.
  induction s as [|b r IH]; intros f g fs H; cbn [split_on] in H; [discriminate|].
  destruct (b =? 47)%N eqn:Eb.
  - apply N.eqb_eq in Eb. inversion H; subst. exists r. auto.
  - destruct (split_on 47 r) as [|f' fs'] eqn:E; inversion H; subst.
    destruct (IH f' g fs eq_refl) as [s' [-> H2]]. exists s'. auto.
Qed.

Lemma split_suffix : forall k s, exists pre, s = pre ++ join47 (skipn k (split_on 47 s)).
Proof.
  induction k as [|k IH]; intros s.
  - exists []. cbn [skipn app]. symmetry. apply join_split.
  - destruct (split_on 47 s) as [|f fs] eqn:E; [exfalso; eapply split_on_nonempty; eauto|].
    cbn [skipn]. destruct fs as [|g fs].
    + exists s. destruct k; cbn; rewrite app_nil_r; auto.
    + destruct (split_cons2 s f g fs E) as [s' [-> H2]]. destruct (IH s') as [pre Hp]. rewrite H2 in Hp.
      exists (f ++ 47%N :: pre). rewrite <- app_assoc. cbn [app]. rewrite <- Hp. auto.
Qed.

(** every bound value is literally a piece of the request path: one of its '/'-free runs
    or a suffix of it *)
Theorem piece_is_substring : forall path v, is_piece (segments path) v ->
  exists pre post, path = pre ++ v ++ post.
Proof.
  intros path v H. unfold segments in H. destruct path as [|b0 r].
  - cbn in H. exists [], []. destruct H as [[<- | []] | [k ->]]; auto. destruct k as [|[|k]]; reflexivity.
  - cbn [tl] in H. destruct H as [H | [k ->]].
    + destruct (split_piece_sub r v H) as [pre [post ->]]. exists (b0 :: pre), post. auto.
    + destruct (split_suffix k r) as [pre Hp]. exists (b0 :: pre), []. rewrite app_nil_r. cbn [app]. rewrite <- Hp. auto.
Qed.

(** ** parseRoute never takes a runtime-panic branch *)

Lemma parse_segs_no_panic : forall segs nd mtag info names,
  snd (parse_segs segs nd mtag info names) <> PErr ErrRuntimePanic.
Proof.
  assert (Fin : forall nd mtag info names, snd (parse_finish nd mtag info names) <> PErr ErrRuntimePanic).
  { intros. unfold parse_finish. destruct (next_get nd mtag); cbn; discriminate. }
  induction segs as [|s r IH]; intros nd mtag info names; cbn [parse_segs]; [apply Fin|].
  unfold parse_frag. destruct s as [|c n]; [apply IH|].
  destruct (bytes_eqb (c :: n) [42%N]).
  - pose proof (Fin (next_or_new nd route_param_any) mtag info (names ++ [route_param_any])) as F.
    destruct (parse_finish _ _ _ _). auto.
  - destruct (c =? 58)%N.
    + destruct (is_nil n || mem_bytes n names); [cbn; discriminate|].
      pose proof (IH (next_or_new nd route_param) mtag info (names ++ [n])) as F.
      destruct (parse_segs _ _ _ _ _). auto.
    + pose proof (IH (next_or_new nd (c :: n)) mtag info names) as F.
      destruct (parse_segs _ _ _ _ _). auto.
Qed.

Theorem parse_route_no_runtime_panic : forall root path method info,
  snd (parse_route root path method info) <> PErr ErrRuntimePanic.
Proof.
  intros. unfold parse_route. destruct (method_tag method); [|cbn; discriminate].
  rewrite parse_loop_segs. apply parse_segs_no_panic.
Qed.

(** ** Handle accepts / rejects exactly as the specification says *)

Theorem handle_accepts_iff : forall routes t p m, register_all routes = Some t ->
  (handle t p m <> None <-> accepts routes (p, m) = true).
Proof.
  intros routes t p m H. apply register_all_repr in H. destruct H as [HR _].
  pose proof (handle_spec t routes p m HR) as Hs. destruct (accepts routes (p, m)).
  - destruct Hs as [t' [E _]]. rewrite E. split; [auto | discriminate].
  - rewrite Hs. split; [contradiction | discriminate].
Qed.

Theorem handle_rejects : forall routes t p m, register_all routes = Some t ->
  valid_method m = false \/ pattern_ok (pattern p) = false
  \/ (exists r, In r routes /\ same_route (p, m) r = true) ->
  handle t p m = None.
Proof.
  intros routes t p m H Hbad.
  assert (A : accepts routes (p, m) = false).
  { unfold accepts. cbn [fst snd]. destruct Hbad as [-> | [-> | Hd]]; auto.
    - rewrite andb_false_r. auto.
    - apply existsb_exists in Hd. rewrite Hd. rewrite andb_false_r. auto. }
  destruct (handle t p m) eqn:E; auto.
  assert (handle t p m <> None) as Hx by (rewrite E; discriminate).
  apply (handle_accepts_iff routes t p m H) in Hx. congruence.
Qed.

Theorem register_all_iff : forall routes, register_all routes <> None <-> table_ok routes = true.
Proof.
  intros. pose proof (register_all_spec routes) as Hs. destruct (table_ok routes).
  - destruct Hs as [t [E _]]. rewrite E. split; [auto | discriminate].
  - rewrite Hs. split; [contradiction | discriminate].
Qed.

Theorem handle_extends : forall routes t p m t', register_all routes = Some t ->
  handle t p m = Some t' -> register_all (routes ++ [(p, m)]) = Some t'.
Proof.
  intros routes t p m t' H Hh. unfold register_all in *.
  assert (G : forall rs t0, register_from t0 (rs ++ [(p, m)]) =
                            match register_from t0 rs with Some t1 => handle t1 p m | None => None end).
  { induction rs as [|[p' m'] rs IH]; intros t0; cbn [app register_from].
    - destruct (handle t0 p m); auto.
    - destruct (handle t0 p' m'); auto. }
  rewrite G, H. auto.
Qed.

Theorem serve_http_params_bound : forall routes t path method m,
  register_all routes = Some t ->
  match_spec routes (segments path) method = Some m ->
  exists ps, serve_http t path method = Some [Call (Route (m_route m)) ps]
    /\ pK ps = m_names m /\ v_items (pV ps) = m_values m
    /\ length (pK ps) = length (v_items (pV ps))
    /\ (forall name, route_param_of ps name = Some (lookup_param (m_names m) (m_values m) name))
    /\ Forall (fun v => is_piece (segments path) v /\ exists pre post, path = pre ++ v ++ post)
              (v_items (pV ps)).
Proof.
  intros routes t path method m Hreg Hm.
  destruct (serve_http_dispatch routes t path method Hreg) as [ps [E H]].
  unfold spec_target in E. rewrite Hm in E, H. destruct H as [H1 H2].
  pose proof (match_spec_bal _ _ _ _ Hm) as Hb.
  exists ps. split; auto. split; auto. split; auto.
  assert (Hl : length (pK ps) = length (v_items (pV ps))) by congruence.
  split; auto. split.
  - intros name. rewrite route_param_of_spec by auto. rewrite H1, H2. reflexivity.
  - rewrite H2. eapply Forall_impl; [|apply (match_spec_values _ _ _ _ Hm)].
    intros v Hv. split; auto. apply piece_is_substring. auto.
Qed.

Theorem serve_http_noroute : forall routes t path method,
  register_all routes = Some t ->
  match_spec routes (segments path) method = None ->
  exists ps, serve_http t path method = Some [Call NoRoute ps]
    /\ forall name, route_param_of ps name = Some [].
Proof.
  intros routes t path method Hreg Hm.
  destruct (serve_http_dispatch routes t path method Hreg) as [ps [E H]].
  unfold spec_target in E. rewrite Hm in E, H.
  exists ps. split; auto. intros name. unfold route_param_of, params_get. rewrite H. reflexivity.
Qed.

(** * 8. facts that hold for ANY trie (also one that keeps the nodes of a rejected registration) *)

Lemma walk_trie_items : forall segs nd v v', v_items v = v_items v' ->
  match walk_trie push_append nd segs v, walk_trie push_append nd segs v' with
  | Some (n1, w1), Some (n2, w2) => n1 = n2 /\ v_items w1 = v_items w2
  | _, _ => False
  end.
Proof.
  induction segs as [|s rest IH]; intros nd v v' H; cbn [walk_trie].
  - auto.
  - unfold find_frag. destruct (is_nil s && negb (is_nil rest)); [apply IH; auto|].
    destruct (next_get nd s); [apply IH; auto|].
    destruct (next_get nd route_param).
    + unfold push_append. apply IH. cbn [v_items]. rewrite H. auto.
    + destruct (next_get nd route_param_any).
      * unfold push_append. cbn [v_items]. rewrite H. auto.
      * auto.
Qed.

(** findRoute never panics, whatever the trie *)
Theorem find_route_total : forall root path method ps, find_route root path method ps <> None.
Proof.
  intros root path method ps. unfold find_route, find_route_gen.
  set (path' := if is_nil path then [47%N] else path).
  assert (Hne : path' <> []) by (subst path'; destruct path; discriminate).
  destruct (if length path' =? 1 then method_node_or_nil root method else None); [discriminate|].
  rewrite find_loop_segs by auto.
  pose proof (walk_trie_items (segments path') root (pV ps) (pV ps) eq_refl) as H.
  destruct (walk_trie push_append root (segments path') (pV ps)) as [[[nd|] v]|]; [| discriminate | contradiction].
  destruct (method_node_or_nil nd method); discriminate.
Qed.

(** what findRoute returns depends on the Params it is given only through K and the CONTENTS of V, not V's capacity *)
Theorem find_route_cap_irrelevant : forall root path method ps ps',
  pK ps = pK ps' -> v_items (pV ps) = v_items (pV ps') ->
  match find_route root path method ps, find_route root path method ps' with
  | Some (i1, q1), Some (i2, q2) => i1 = i2 /\ pK q1 = pK q2 /\ v_items (pV q1) = v_items (pV q2)
  | _, _ => False
  end.
Proof.
  intros root path method ps ps' HK HV. unfold find_route, find_route_gen.
  set (path' := if is_nil path then [47%N] else path).
  assert (Hne : path' <> []) by (subst path'; destruct path; discriminate).
  destruct (if length path' =? 1 then method_node_or_nil root method else None); [cbn; auto|].
  rewrite !find_loop_segs by auto.
  pose proof (walk_trie_items (segments path') root (pV ps) (pV ps') HV) as H.
  destruct (walk_trie push_append root (segments path') (pV ps)) as [[n1 w1]|];
    destruct (walk_trie push_append root (segments path') (pV ps')) as [[n2 w2]|]; try contradiction.
  destruct H as [-> Hw]. destruct n2 as [nd|]; [|cbn; auto].
  destruct (method_node_or_nil nd method); cbn; auto.
Qed.

Lemma route_param_of_ext : forall a b name, pK a = pK b -> v_items (pV a) = v_items (pV b) ->
  route_param_of a name = route_param_of b name.
Proof. intros a b name H1 H2. unfold route_param_of, params_get. rewrite H1, H2. reflexivity. Qed.

(** registration attempts *)
Lemma attempts_from_snoc : forall rs t p m,
  attempts_from t (rs ++ [(p, m)]) = handle_attempt (attempts_from t rs) p m.
Proof. induction rs as [|[p' m'] rs IH]; intros; cbn [app attempts_from]; auto. Qed.

Lemma register_attempts_snoc : forall rs p m,
  register_attempts (rs ++ [(p, m)]) = handle_attempt (register_attempts rs) p m.
Proof. intros. apply attempts_from_snoc. Qed.

Lemma handle_attempt_accepted : forall t p m t', handle t p m = Some t' -> handle_attempt t p m = t'.
Proof.
  intros t p m t' H. unfold handle, handle_attempt in *.
  destruct (parse_route (t_root t) p m (t_count t)) as [root' [cnt|e]]; [inversion H; auto | discriminate].
Qed.

(** when every attempt is accepted the two notions of "the table after these registrations" coincide *)
Lemma register_attempts_all : forall rs t, register_all rs = Some t -> register_attempts rs = t.
Proof.
  unfold register_all, register_attempts. intros rs t. generalize empty_table. revert t.
  induction rs as [|[p m] rs IH]; intros t t0 H; cbn [register_from attempts_from] in *.
  - inversion H; auto.
  - destruct (handle t0 p m) as [t1|] eqn:E; [|discriminate].
    rewrite (handle_attempt_accepted _ _ _ _ E). apply IH. auto.
Qed.

(** without ghosts the extended specification is the specification *)
Lemma match_spec_g_nil : forall routes segs method, match_spec_g routes [] segs method = match_spec routes segs method.
Proof. intros. unfold match_spec_g, match_cands, match_spec. cbn [map]. rewrite app_nil_r. reflexivity. Qed.
