(** C17: harmless spellings of "force a leading slash" that the fixed script of
    coq/Go2coq/C17.v.in accepts besides the explicit test:  path.Join("/", p)  =  Clean("/" + "/" + p). *)
From Coq Require Import List NArith Bool.
Import ListNotations.
From Glb Require Import Lib.GoPath Model.UrlPath Proofs.UrlPathP.
Open Scope N_scope.

Lemma clean_extra_slash s : clean (47 :: 47 :: s) = clean (47 :: s).
Proof.
  unfold clean, segs, stack. cbn [is_rooted N.eqb Pos.eqb].
  rewrite !segments_cons_slash, !run_cons, !step_skip_empty. reflexivity.
Qed.

Lemma join_root p : join [47] p = clean (force_slash p).
Proof.
  unfold join, force_slash. cbn [app]. rewrite clean_extra_slash.
  destruct p as [|c r]; [reflexivity|]. unfold is_rooted.
  destruct (N.eqb_spec c 47) as [->|]; [apply clean_extra_slash | reflexivity].
Qed.
