(** C13, stages 2 and 3: unquoted strings are bare items; every rendered key=value token
    is consumed exactly; attribute trees with the prefix threading; chains; the line. *)
From Coq Require Import List NArith Lia Bool ZArith Arith.
From Coq Require Import ZifyBool ZifyN ZifyNat.
Import ListNotations.
From Glb Require Import Lib.Utf8 Proofs.Utf8P Lib.GoQuote Lib.TextTok Model.LoggerText Proofs.LoggerTextQ.
Open Scope N_scope.

(** what may follow an item *)
Definition sep_ok (rest : bytes) : Prop := rest = [] \/ exists c r, rest = c :: r /\ (c = 32 \/ c = 61).

Definition plain_byte (b : N) : Prop := b <> 32 /\ b <> 61 /\ b <> 34 /\ b <> 10.

Lemma bare_span_plain s : forall rest, Forall plain_byte s -> sep_ok rest -> bare_span (s ++ rest) = (s, rest).
Proof.
  induction s as [|b t IH]; intros rest Hp Hs.
  - cbn [app]. destruct Hs as [->|(c & r & -> & Hc)]; [reflexivity|].
    cbn [bare_span]. replace ((c =? 32) || (c =? 61)) with true by lia. reflexivity.
  - inversion Hp as [|? ? Hb Ht]; subst. destruct Hb as (H1 & H2 & _).
    cbn [app bare_span]. replace ((b =? 32) || (b =? 61)) with false by lia.
    rewrite IH by assumption. reflexivity.
Qed.

Section Proofs.
  Variable isSpace : N -> bool.
  Variable isPrint : N -> bool.
  Variable sp_print : N -> bool.
  Notation text_string := (text_string isSpace isPrint sp_print).
  Notation parse_item := (parse_item isSpace).
  Notation is_bare := (is_bare isSpace).

  (** ---- stage 2: bare items ---- *)

  Lemma bare_ok_go_plain f : forall s, (length s <= f)%nat -> bare_ok_go isSpace f s = true -> Forall plain_byte s.
  Proof.
    induction f as [|f IH]; intros s Hl H.
    - destruct s; [constructor|cbn in Hl; lia].
    - destruct s as [|b t]; [constructor|]. cbn [length] in Hl. cbn [bare_ok_go] in H.
      destruct (b <? 128) eqn:E0.
      + apply andb_true_iff in H as [H Ht].
        constructor; [unfold plain_byte; clear - H; lia|apply IH; [clear - Hl; lia|exact Ht]].
      + apply andb_true_iff in H as [_ Ht].
        destruct (decode (b :: t)) as [c n] eqn:D. cbn [fst snd] in Ht.
        destruct (invalid (c, n)) eqn:V.
        * apply invalid_size in V as [V _]. cbn [snd] in V. subst n. cbn [skipn] in Ht.
          constructor; [unfold plain_byte; lia|apply IH; [clear - Hl; lia|exact Ht]].
        * destruct (decode_valid_split _ _ _ _ E0 D V) as (Hs & Hlen & Hn & Hc & _).
          rewrite Hs. apply Forall_app. split.
          -- eapply Forall_impl; [|apply enc_high; exact Hc]. intros a Ha. unfold plain_byte. cbv beta in Ha. lia.
          -- apply IH; [|exact Ht]. destruct n as [|n']; [lia|]. cbn [skipn].
             pose proof (skipn_length_le n' t) as Hsk. clear - Hl Hsk. lia.
  Qed.

  Lemma is_bare_plain s : is_bare s = true -> s <> [] /\ Forall plain_byte s.
  Proof.
    unfold TextTok.is_bare. destruct s as [|b t]; [discriminate|]. intros H. split; [discriminate|].
    eapply bare_ok_go_plain; [|exact H]. lia.
  Qed.

  (** an item as the tokenizer sees it: followed by a separator or the end it is consumed
      exactly and yields [value]; it holds no newline *)
  Definition item_of (rendered value : bytes) : Prop :=
    (forall rest, sep_ok rest -> parse_item (rendered ++ rest) = Some (value, rest)) /\ ~ In 10 rendered.

  Lemma item_of_bare s : is_bare s = true -> item_of s s.
  Proof.
    intros H. destruct (is_bare_plain s H) as [Hne Hp]. split.
    - intros rest Hs. destruct s as [|b t]; [congruence|].
      inversion Hp as [|? ? Hb _]; subst. destruct Hb as (_ & _ & Hq & _).
      unfold TextTok.parse_item. cbn [app]. replace (b =? 34) with false by lia.
      change (b :: t ++ rest) with ((b :: t) ++ rest).
      rewrite bare_span_plain by assumption. cbn [fst]. rewrite H. reflexivity.
    - intros Hin. rewrite Forall_forall in Hp. apply Hp in Hin. unfold plain_byte in Hin. lia.
  Qed.

  Lemma needs_quote_bare f : forall s, needs_quote_go isSpace isPrint f s = false -> bare_ok_go isSpace f s = true.
  Proof.
    induction f as [|f IH]; intros s H; [reflexivity|].
    destruct s as [|b t]; [reflexivity|]. cbn [needs_quote_go] in H. cbn [bare_ok_go].
    destruct (b <? 128) eqn:E0.
    - match type of H with (if ?c then _ else _) = _ => destruct c eqn:C end; [discriminate|].
      rewrite (IH _ H). unfold safe_set in C.
      assert (Hb : negb (b <? 32) && negb (b =? 32) && negb (b =? 61) && negb (b =? 34) = true) by lia.
      rewrite Hb. reflexivity.
    - match type of H with (if ?c then _ else _) = _ => destruct c eqn:C end; [discriminate|].
      rewrite (IH _ H). apply orb_false_iff in C as [C _]. apply orb_false_iff in C as [_ C].
      rewrite C. reflexivity.
  Qed.

  (** stage 2: what appendTextString copies verbatim is a non-empty bare item *)
  Theorem bare_is_safe s :
    s <> [] -> needs_quote isSpace isPrint s = false ->
    is_bare s = true /\ forall rest, sep_ok rest -> bare_span (s ++ rest) = (s, rest).
  Proof.
    intros Hne Hq.
    assert (Hb : is_bare s = true).
    { unfold TextTok.is_bare. destruct s; [congruence|]. apply needs_quote_bare. exact Hq. }
    split; [exact Hb|]. intros rest Hs. apply bare_span_plain; [|exact Hs]. apply is_bare_plain. exact Hb.
  Qed.

  (** stages 1 + 2: whatever appendTextString writes for [s] is an item with value [s] *)
  Lemma item_of_text_string s : wf_bytes s = true -> item_of (text_string s) s.
  Proof.
    intros Hwf. unfold LoggerText.text_string.
    destruct (is_empty s) eqn:Ee.
    { destruct s; [|discriminate]. split; [intros rest _; reflexivity|cbn [In]; lia]. }
    destruct (needs_quote isSpace isPrint s) eqn:Eq.
    - split; [|apply quote_no_newline].
      intros rest _. unfold TextTok.parse_item.
      assert (Hq : quote sp_print s ++ rest = 34 :: (quote_body sp_print s ++ [34]) ++ rest) by reflexivity.
      rewrite Hq. cbn [N.eqb Pos.eqb]. rewrite <- Hq. apply unquote_quote. exact Hwf.
    - apply item_of_bare. apply bare_is_safe; [destruct s; [discriminate|discriminate]|exact Eq].
  Qed.

  (** ---- stage 3: tokens ---- *)

  Notation parse_token := (parse_token isSpace).
  Notation tokenize_go := (tokenize_go isSpace).
  Notation tokenize := (tokenize isSpace).

  Lemma sep_ok_61 r : sep_ok (61 :: r).
  Proof. right. exists 61, r. auto. Qed.
  Lemma sep_ok_32 r : sep_ok (32 :: r).
  Proof. right. exists 32, r. auto. Qed.
  Lemma sep_ok_nil : sep_ok [].
  Proof. left. reflexivity. Qed.

  (** token_boundary: a rendered [key=value] followed by a space or the end is consumed
      exactly and yields the pair *)
  Lemma token_boundary rk rv k v rest :
    item_of rk k -> item_of rv v -> sep_ok rest ->
    parse_token (rk ++ 61 :: rv ++ rest) = Some ((k, v), rest).
  Proof.
    intros [Hk _] [Hv _] Hs. unfold TextTok.parse_token.
    rewrite (Hk _ (sep_ok_61 _)). cbn [N.eqb Pos.eqb]. rewrite (Hv _ Hs). reflexivity.
  Qed.

  (** [toks out ps]: [out] is a sequence of [" key=value"] pieces rendering the pairs [ps] *)
  Inductive toks : bytes -> list (bytes * bytes) -> Prop :=
  | toks_nil : toks [] []
  | toks_cons rk rv k v out ps :
      item_of rk k -> item_of rv v -> toks out ps -> toks (32 :: rk ++ 61 :: rv ++ out) ((k, v) :: ps).

  Lemma toks_app o1 p1 : toks o1 p1 -> forall o2 p2, toks o2 p2 -> toks (o1 ++ o2) (p1 ++ p2).
  Proof.
    induction 1 as [|rk rv k v out ps Hk Hv Ht IH]; intros o2 p2 H2; [exact H2|].
    cbn [app]. rewrite <- app_assoc. cbn [app]. rewrite <- app_assoc.
    apply toks_cons; auto.
  Qed.

  Lemma toks_sep out ps : toks out ps -> sep_ok out.
  Proof. destruct 1; [apply sep_ok_nil|apply sep_ok_32]. Qed.

  Lemma toks_no_newline out ps : toks out ps -> ~ In 10 out.
  Proof.
    induction 1 as [|rk rv k v out ps [_ Hk] [_ Hv] Ht IH]; [cbn; tauto|].
    cbn [In]. rewrite in_app_iff. cbn [In]. rewrite in_app_iff.
    intros [H|[H|[H|[H|H]]]]; try lia; tauto.
  Qed.

  Lemma tokenize_go_toks out ps :
    toks out ps -> forall rk rv k v f,
    item_of rk k -> item_of rv v -> (length (rk ++ 61%N :: rv ++ out) < f)%nat ->
    tokenize_go f (rk ++ 61 :: rv ++ out) = Some ((k, v) :: ps).
  Proof.
    induction 1 as [|rk' rv' k' v' out ps Hk' Hv' Ht IH]; intros rk rv k v f Hk Hv Hf.
    - destruct f as [|f]; [lia|]. cbn [TextTok.tokenize_go].
      rewrite (token_boundary _ _ _ _ _ Hk Hv sep_ok_nil). reflexivity.
    - destruct f as [|f]; [lia|]. cbn [TextTok.tokenize_go].
      rewrite (token_boundary _ _ _ _ _ Hk Hv (sep_ok_32 _)). cbn [N.eqb Pos.eqb].
      rewrite (IH rk' rv' k' v' f Hk' Hv'); [reflexivity|].
      repeat (rewrite app_length in Hf || (progress cbn [length] in Hf)).
      repeat (rewrite app_length || (progress cbn [length])). clear - Hf. lia.
  Qed.

  Lemma tokenize_toks rk rv k v out ps :
    item_of rk k -> item_of rv v -> toks out ps ->
    tokenize (rk ++ 61 :: rv ++ out) = Some ((k, v) :: ps).
  Proof. intros Hk Hv Ht. unfold TextTok.tokenize. apply tokenize_go_toks; auto. Qed.

  (** ---- join_dot ---- *)

  Definition comp_ok (c : bytes) : Prop := c <> [] /\ wf_bytes c = true.

  Lemma join_dot_snoc comps k : comps <> [] -> join_dot (comps ++ [k]) = join_dot comps ++ 46 :: k.
  Proof.
    induction comps as [|a r IH]; [congruence|]. intros _.
    destruct r as [|b r]; [reflexivity|].
    change (join_dot ((a :: b :: r) ++ [k])) with (a ++ 46 :: join_dot ((b :: r) ++ [k])).
    rewrite IH by discriminate.
    change (join_dot (a :: b :: r)) with (a ++ 46 :: join_dot (b :: r)).
    rewrite <- app_assoc. reflexivity.
  Qed.

  Lemma join_dot_nonempty comps : Forall comp_ok comps -> comps <> [] -> join_dot comps <> [].
  Proof.
    intros H Hne. destruct comps as [|a r]; [congruence|].
    inversion H as [|? ? [Ha _] _]; subst.
    destruct r; cbn [join_dot]; [exact Ha|]. destruct a; [congruence|discriminate].
  Qed.

  Lemma join_dot_wf comps : Forall (fun c => wf_bytes c = true) comps -> wf_bytes (join_dot comps) = true.
  Proof.
    induction 1 as [|a r Ha Hr IH]; [reflexivity|].
    destruct r as [|b r]; [exact Ha|].
    change (join_dot (a :: b :: r)) with (a ++ 46 :: join_dot (b :: r)).
    apply wf_bytes_app. split; [exact Ha|].
    change (46 :: join_dot (b :: r)) with ([46] ++ join_dot (b :: r)).
    apply wf_bytes_app. split; [reflexivity|exact IH].
  Qed.

  Lemma join_dot_single k : join_dot [k] = k.
  Proof. reflexivity. Qed.

  (** the key item of a leaf: what the Go code passes to appendTextString is the dotted path *)
  Lemma leaf_key comps key :
    Forall comp_ok comps ->
    (if negb (is_empty (join_dot comps)) then join_dot comps ++ 46 :: key else key) = join_dot (comps ++ [key]).
  Proof.
    intros H. destruct comps as [|a r]; [reflexivity|].
    assert (Hne : join_dot (a :: r) <> []) by (apply join_dot_nonempty; [exact H|discriminate]).
    destruct (join_dot (a :: r)) eqn:E; [congruence|]. cbn [is_empty negb].
    rewrite <- E. symmetry. apply join_dot_snoc. discriminate.
  Qed.

  (** ---- attribute trees ---- *)

  Notation ATA := (append_text_attr isSpace isPrint sp_print).

  Definition group_loop (ori : nat) (key : bytes) :=
    fix loop (ms : list (bytes * value)) (buf prefix : bytes) {struct ms} : bytes * bytes :=
      match ms with
      | [] => (buf, prefix)
      | (k, v') :: ms' =>
        let p0 := firstn ori prefix in
        let p1 := if nonempty_len ori && negb (is_empty key) then p0 ++ [46] else p0 in
        let p2 := if negb (is_empty key) then p1 ++ key else p1 in
        let r := ATA buf p2 k v' in
        loop ms' (fst r) (snd r)
      end.

  Lemma attr_group buf prefix key ms : ATA buf prefix key (VGroup ms) = group_loop (length prefix) key ms buf prefix.
  Proof. reflexivity. Qed.

  Definition leaves_go (path' : list bytes) :=
    fix go (ms : list (bytes * value)) : list (bytes * bytes) :=
      match ms with
      | [] => []
      | (k, v') :: r => leaves path' k v' ++ go r
      end.

  Lemma leaves_group path key ms :
    leaves path key (VGroup ms) = leaves_go (if is_empty key then path else path ++ [key]) ms.
  Proof. reflexivity. Qed.

  Lemma wf_value_group ms :
    wf_value isSpace (VGroup ms) = true ->
    Forall (fun kv => wf_bytes (fst kv) = true /\ wf_value isSpace (snd kv) = true) ms.
  Proof.
    induction ms as [|[k v] r IH]; intros H; [constructor|].
    cbn [wf_value] in H. apply andb_true_iff in H as [H H3]. apply andb_true_iff in H as [H1 H2].
    constructor; [split; assumption|]. apply IH. exact H3.
  Qed.

  Lemma firstn_len_app {A} (a b : list A) : firstn (length a) (a ++ b) = a.
  Proof. induction a as [|x a IH]; [destruct b; reflexivity|]. cbn [length app firstn]. rewrite IH. reflexivity. Qed.

  Lemma leaf_shape (buf a b : bytes) : (((buf ++ [32]) ++ a) ++ [61]) ++ b = buf ++ (32 :: a ++ 61 :: b ++ []).
  Proof. rewrite app_nil_r. repeat rewrite <- app_assoc. reflexivity. Qed.

  Lemma comp_ok_wf comps : Forall comp_ok comps -> Forall (fun c => wf_bytes c = true) comps.
  Proof. intros H. eapply Forall_impl; [|exact H]. intros a [_ Ha]. exact Ha. Qed.

  Lemma path_key_wf comps key : Forall comp_ok comps -> wf_bytes key = true -> wf_bytes (join_dot (comps ++ [key])) = true.
  Proof.
    intros Hc Hk. apply join_dot_wf. apply Forall_app. split; [apply comp_ok_wf; exact Hc|].
    constructor; [exact Hk|constructor].
  Qed.

  (** the prefix buffer inside a group: cut back to [ori], then ['.'] and the key as the Go code adds them *)
  Lemma group_prefix comps key :
    Forall comp_ok comps -> wf_bytes key = true ->
    let prefix := join_dot comps in
    let path' := if is_empty key then comps else comps ++ [key] in
    (let p1 := if nonempty_len (length prefix) && negb (is_empty key) then prefix ++ [46] else prefix in
     if negb (is_empty key) then p1 ++ key else p1) = join_dot path'
    /\ Forall comp_ok path' /\ exists ext, join_dot path' = prefix ++ ext.
  Proof.
    intros Hc Hk. cbv zeta.
    destruct key as [|kb kt].
    { cbn [is_empty negb andb]. rewrite andb_false_r. split; [reflexivity|]. split; [exact Hc|]. exists []. rewrite app_nil_r. reflexivity. }
    cbn [is_empty negb]. rewrite andb_true_r.
    assert (Hp : Forall comp_ok (comps ++ [kb :: kt])).
    { apply Forall_app. split; [exact Hc|]. constructor; [split; [discriminate|exact Hk]|constructor]. }
    destruct comps as [|a r].
    { cbn [join_dot length nonempty_len app]. split; [reflexivity|]. split; [exact Hp|]. exists (kb :: kt). reflexivity. }
    assert (Hne : join_dot (a :: r) <> []) by (apply join_dot_nonempty; [exact Hc|discriminate]).
    pose proof (join_dot_snoc (a :: r) (kb :: kt)) as Hs. cbv delta [bytes] in *. rewrite Hs by discriminate. clear Hs.
    destruct (join_dot (a :: r)) as [|x l] eqn:E; [congruence|]. cbn [length nonempty_len].
    split; [rewrite <- app_assoc; reflexivity|]. split; [exact Hp|]. exists (46 :: kb :: kt). reflexivity.
  Qed.

  Definition attr_ok (v : value) : Prop :=
    forall buf comps key,
      Forall comp_ok comps -> wf_bytes key = true -> wf_value isSpace v = true ->
      exists out,
        fst (ATA buf (join_dot comps) key v) = buf ++ out /\
        toks out (leaves comps key v) /\
        firstn (length (join_dot comps)) (snd (ATA buf (join_dot comps) key v)) = join_dot comps.

  Lemma attr_ok_leaf v vt rendered :
    (forall buf, append_text_value isSpace isPrint sp_print buf v = buf ++ rendered) ->
    (forall buf prefix key, ATA buf prefix key v =
       (let buf1 := buf ++ [32] in
        let r := if negb (is_empty prefix)
                 then (append_text_string isSpace isPrint sp_print buf1 (prefix ++ 46 :: key), prefix ++ 46 :: key)
                 else (append_text_string isSpace isPrint sp_print buf1 key, prefix) in
        (append_text_value isSpace isPrint sp_print (fst r ++ [61]) v, snd r))) ->
    (forall comps key, leaves comps key v = [(join_dot (comps ++ [key]), vt)]) ->
    (wf_value isSpace v = true -> item_of rendered vt) ->
    attr_ok v.
  Proof.
    intros Hval Hata Hleaves Hitem buf comps key Hc Hk Hwf.
    rewrite Hata, Hleaves. cbv zeta.
    pose proof (leaf_key comps key Hc) as HK.
    pose proof (path_key_wf comps key Hc Hk) as HKwf.
    exists (32 :: text_string (if negb (is_empty (join_dot comps)) then join_dot comps ++ 46 :: key else key)
               ++ 61 :: rendered ++ []).
    split; [|split].
    - destruct (negb (is_empty (join_dot comps))); cbn [fst snd]; rewrite Hval; unfold append_text_string;
        rewrite leaf_shape; reflexivity.
    - cbv delta [bytes] in HK |- *. rewrite HK.
      apply toks_cons; [apply item_of_text_string; exact HKwf|apply Hitem; exact Hwf|apply toks_nil].
    - destruct (negb (is_empty (join_dot comps))); cbn [fst snd]; [apply firstn_len_app|apply firstn_all].
  Qed.

  Lemma firstn_prefix_of {A} (p ext l : list A) :
    firstn (length (p ++ ext)) l = p ++ ext -> firstn (length p) l = p.
  Proof.
    intros H. rewrite <- (firstn_len_app p ext) at 2. rewrite <- H.
    rewrite firstn_firstn. f_equal. rewrite app_length. lia.
  Qed.

  Lemma attr_ok_group ms : Forall (fun kv => attr_ok (snd kv)) ms -> attr_ok (VGroup ms).
  Proof.
    intros Hms buf comps key Hc Hk Hwf.
    rewrite attr_group, leaves_group.
    destruct (group_prefix comps key Hc Hk) as (Hp2 & Hpath & ext & Hext). cbv zeta in Hp2.
    set (prefix := join_dot comps) in *. set (ori := length prefix) in *.
    set (path' := if is_empty key then comps else comps ++ [key]) in *.
    apply wf_value_group in Hwf.
    assert (Hloop : forall buf pfx, firstn ori pfx = prefix ->
              exists out, fst (group_loop ori key ms buf pfx) = buf ++ out /\ toks out (leaves_go path' ms)
                          /\ firstn ori (snd (group_loop ori key ms buf pfx)) = prefix).
    { clear buf. induction ms as [|[k v'] ms' IH]; intros buf pfx Hinv.
      - exists []. cbn [group_loop leaves_go fst snd]. rewrite app_nil_r. repeat split; [apply toks_nil|exact Hinv].
      - inversion Hms as [|? ? Hv' Hms']; subst. inversion Hwf as [|? ? [Hkw Hvw] Hwf']; subst.
        cbn [fst snd] in *. cbn [group_loop leaves_go]. cbv zeta. rewrite Hinv, Hp2.
        destruct (Hv' buf path' k Hpath Hkw Hvw) as (out1 & E1 & T1 & F1).
        assert (Hinv' : firstn ori (snd (ATA buf (join_dot path') k v')) = prefix).
        { unfold ori. apply (firstn_prefix_of prefix ext). rewrite <- Hext. exact F1. }
        destruct (IH Hms' Hwf' (fst (ATA buf (join_dot path') k v')) (snd (ATA buf (join_dot path') k v')) Hinv')
          as (out2 & E2 & T2 & F2).
        exists (out1 ++ out2). split; [rewrite E2, E1, <- app_assoc; reflexivity|].
        split; [apply toks_app; assumption|exact F2]. }
    apply Hloop. unfold ori. apply firstn_all.
  Qed.

  (** induction over the nested attribute tree *)
  Fixpoint value_ind2 (P : value -> Prop)
      (HS : forall s, P (VStr s)) (HV : forall s, P (VVerbatim s))
      (HG : forall ms, Forall (fun kv => P (snd kv)) ms -> P (VGroup ms)) (v : value) {struct v} : P v :=
    match v with
    | VStr s => HS s
    | VVerbatim s => HV s
    | VGroup ms =>
      HG ms ((fix go (ms : list (bytes * value)) : Forall (fun kv => P (snd kv)) ms :=
                match ms with
                | [] => Forall_nil _
                | (k, v') :: r => Forall_cons (k, v') (value_ind2 P HS HV HG v') (go r)
                end) ms)
    end.

  Lemma attr_ok_all v : attr_ok v.
  Proof.
    induction v as [s|s|ms Hms] using value_ind2.
    - apply (attr_ok_leaf (VStr s) s (text_string s)); try reflexivity.
      intros Hwf. apply item_of_text_string. exact Hwf.
    - apply (attr_ok_leaf (VVerbatim s) s s); try reflexivity.
      intros Hwf. cbn [wf_value] in Hwf. apply andb_true_iff in Hwf as [_ Hb]. apply item_of_bare. exact Hb.
    - apply attr_ok_group. exact Hms.
  Qed.

  Notation append_attrs := (append_attrs isSpace isPrint sp_print).

  Lemma append_attrs_cons buf gp k v l :
    append_attrs buf gp ((k, v) :: l) = append_attrs (fst (ATA buf gp k v)) gp l.
  Proof. reflexivity. Qed.

  Lemma append_attrs_toks l : forall buf comps,
    Forall comp_ok comps -> wf_attrs isSpace l = true ->
    exists out, append_attrs buf (join_dot comps) l = buf ++ out /\ toks out (attrs_pairs comps l).
  Proof.
    induction l as [|[k v] l IH]; intros buf comps Hc Hwf.
    - exists []. split; [cbn; rewrite app_nil_r; reflexivity|apply toks_nil].
    - unfold wf_attrs in Hwf. cbn [forallb fst snd] in Hwf.
      apply andb_true_iff in Hwf as [Hkv Hl]. apply andb_true_iff in Hkv as [Hk Hv].
      destruct (attr_ok_all v buf comps k Hc Hk Hv) as (out1 & E1 & T1 & _).
      destruct (IH (fst (ATA buf (join_dot comps) k v)) comps Hc Hl) as (out2 & E2 & T2).
      exists (out1 ++ out2). split.
      + rewrite append_attrs_cons, E2, E1, <- app_assoc. reflexivity.
      + unfold attrs_pairs. cbn [flat_map fst snd]. apply toks_app; assumption.
  Qed.

  (** ---- chains ---- *)

  Notation with_attrs := (with_attrs isSpace isPrint sp_print).
  Notation derive_step := (derive_step isSpace isPrint sp_print).

  Definition handler_ok (h : handler) (comps : list bytes) (ps : list (bytes * bytes)) : Prop :=
    groupPrefix h = join_dot comps /\ Forall comp_ok comps /\ toks (preformatted h) ps.

  Lemma with_attrs_eq h l :
    with_attrs h l = mkHandler (append_attrs (preformatted h) (groupPrefix h) l) (groupPrefix h).
  Proof. destruct l; [destruct h; reflexivity|reflexivity]. Qed.

  Lemma with_group_prefix h comps n :
    groupPrefix h = join_dot comps -> Forall comp_ok comps ->
    with_group h n = mkHandler (preformatted h) (join_dot (comps ++ [n])).
  Proof.
    intros Hg Hc. unfold with_group. rewrite Hg. pose proof (leaf_key comps n Hc) as HK.
    cbv delta [bytes] in *.
    destruct (is_empty (join_dot comps)); cbn [negb] in HK; rewrite <- HK; reflexivity.
  Qed.

  Lemma derive_ok chain : forall h comps ps,
    handler_ok h comps ps -> wf_chain isSpace chain = true ->
    handler_ok (fold_left derive_step chain h) (snd (chain_pairs comps chain)) (ps ++ fst (chain_pairs comps chain)).
  Proof.
    induction chain as [|d c IH]; intros h comps ps Hh Hwf.
    - cbn [fold_left chain_pairs fst snd]. rewrite app_nil_r. exact Hh.
    - unfold wf_chain in Hwf. cbn [forallb] in Hwf. apply andb_true_iff in Hwf as [Hd Hc].
      destruct Hh as (Hg & Hcomps & Ht).
      destruct d as [l|n]; cbn [fold_left chain_pairs LoggerText.derive_step fst snd].
      + cbn [wf_deriv] in Hd.
        destruct (append_attrs_toks l (preformatted h) comps Hcomps Hd) as (out & E & T).
        rewrite app_assoc. apply IH; [|exact Hc].
        rewrite with_attrs_eq. unfold handler_ok. cbn [groupPrefix preformatted].
        split; [exact Hg|]. split; [exact Hcomps|]. rewrite Hg, E. apply toks_app; assumption.
      + cbn [wf_deriv] in Hd. apply andb_true_iff in Hd as [Hn1 Hn2].
        apply IH; [|exact Hc].
        rewrite (with_group_prefix h comps n Hg Hcomps). unfold handler_ok. cbn [groupPrefix preformatted].
        split; [reflexivity|]. split; [|exact Ht].
        apply Forall_app. split; [exact Hcomps|]. constructor; [|constructor].
        split; [destruct n; [discriminate|discriminate]|exact Hn1].
  Qed.

  (** ---- the line ---- *)

  Lemma toks_one rk rv k v : item_of rk k -> item_of rv v -> toks (32 :: rk ++ 61 :: rv) [(k, v)].
  Proof. intros Hk Hv. rewrite <- (app_nil_r rv). apply toks_cons; [exact Hk|exact Hv|apply toks_nil]. Qed.

  Lemma item_of_level l : item_of (level_text l) (level_text l).
  Proof. apply item_of_bare. destruct l; reflexivity. Qed.

  Lemma source_cut_wf file : wf_bytes file = true -> wf_bytes (source_cut file) = true.
  Proof. intros H. unfold source_cut. destruct file; [reflexivity|]. apply wf_bytes_skipn. exact H. Qed.

  Theorem text_line_faithful chain r :
    wf_chain isSpace chain = true -> wf_record isSpace r = true -> src_agrees r = true ->
    exists body,
      handle isSpace isPrint sp_print (derive isSpace isPrint sp_print chain) r = body ++ [10] /\
      ~ In 10 body /\
      tokenize body = Some (expected_pairs chain r).
  Proof.
    intros Hchain Hrec Hagree.
    unfold wf_record in Hrec.
    apply andb_true_iff in Hrec as [Hrec Hattrs]. apply andb_true_iff in Hrec as [Hrec Hmsg].
    apply andb_true_iff in Hrec as [Hrec Hsrc]. apply andb_true_iff in Hrec as [_ Htime].
    assert (H0 : handler_ok new_handler [] []) by (repeat split; [constructor|apply toks_nil]).
    pose proof (derive_ok chain new_handler [] [] H0 Hchain) as Hh. cbn [app] in Hh.
    fold (derive isSpace isPrint sp_print chain) in Hh.
    set (h := derive isSpace isPrint sp_print chain) in *.
    destruct Hh as (Hg & Hcomps & Tpre).
    destruct (chain_pairs [] chain) as [cps comps] eqn:Ec. cbn [fst snd] in *.
    assert (Itime : item_of (time_txt r) (time_txt r)) by (apply item_of_bare; exact Htime).
    assert (Iktime : item_of k_time k_time) by (apply item_of_bare; reflexivity).
    assert (Iklevel : item_of k_level k_level) by (apply item_of_bare; reflexivity).
    assert (Iksource : item_of k_source k_source) by (apply item_of_bare; reflexivity).
    assert (Ikmsg : item_of k_msg k_msg) by (apply item_of_bare; reflexivity).
    pose proof (toks_one _ _ _ _ Iklevel (item_of_level (lvl r))) as Tlevel.
    pose proof (toks_one _ _ _ _ Ikmsg (item_of_text_string (msg r) Hmsg)) as Tmsg.
    unfold expected_pairs. rewrite Ec. cbn [fst snd].
    unfold handle, append_text_string.
    (* the attributes of the record, written below the handler's group prefix *)
    match goal with |- context [LoggerText.append_attrs _ _ _ ?b (groupPrefix h) (attrs r)] =>
      destruct (append_attrs_toks (attrs r) b comps Hcomps Hattrs) as (outa & Ea & Ta) end.
    rewrite Hg, Ea.
    unfold src_agrees in Hagree.
    destruct (src r) as [[file line]|]; cbn [fst snd] in *.
    - apply andb_true_iff in Hsrc as [Hfile Hline]. apply bytes_eqb_eq in Hagree.
      assert (Hsv : wf_bytes (source_cut file ++ 58 :: line) = true).
      { apply wf_bytes_app. split; [apply source_cut_wf; exact Hfile|].
        change (58 :: line) with ([58] ++ line). apply wf_bytes_app. split; [reflexivity|exact Hline]. }
      pose proof (toks_one _ _ _ _ Iksource (item_of_text_string _ Hsv)) as Tsrc.
      unfold append_text_source, append_text_string. unfold source_value. cbn [fst snd]. rewrite <- Hagree.
      pose proof (toks_app _ _ Tlevel _ _ (toks_app _ _ Tsrc _ _ (toks_app _ _ Tmsg _ _ (toks_app _ _ Tpre _ _ Ta)))) as T.
      cbn [app] in T.
      eexists. split; [|split; [|apply (tokenize_toks _ _ _ _ _ _ Iktime Itime T)]].
      + repeat (rewrite <- app_assoc || (progress cbn [app])). reflexivity.
      + rewrite in_app_iff. cbn [In]. rewrite in_app_iff.
        intros [H|[H|[H|H]]]; [exact (proj2 Iktime H)|lia|exact (proj2 Itime H)|exact (toks_no_newline _ _ T H)].
    - pose proof (toks_app _ _ Tlevel _ _ (toks_app _ _ Tmsg _ _ (toks_app _ _ Tpre _ _ Ta))) as T.
      cbn [app] in T.
      eexists. split; [|split; [|apply (tokenize_toks _ _ _ _ _ _ Iktime Itime T)]].
      + repeat (rewrite <- app_assoc || (progress cbn [app])). reflexivity.
      + rewrite in_app_iff. cbn [In]. rewrite in_app_iff.
        intros [H|[H|[H|H]]]; [exact (proj2 Iktime H)|lia|exact (proj2 Itime H)|exact (toks_no_newline _ _ T H)].
  Qed.
End Proofs.

(** ---- appendTextSource: on every path with at least two '/' the Go loop yields the last two
    path elements, as the specification's [last_two] does ---- *)

Lemma src_loop_none file idx first :
  (forall j, (1 <= j <= idx)%nat -> nth j file 0 <> 47) -> src_loop file idx first = O.
Proof.
  induction idx as [|i IH]; intros H; [reflexivity|]. cbn [src_loop].
  assert (Hn : nth (S i) file 0 <> 47) by (apply H; lia).
  replace (nth (S i) file 0 =? 47) with false by lia. apply IH. intros j Hj. apply H. lia.
Qed.

Lemma src_loop_true file idx p :
  (1 <= p <= idx)%nat -> nth p file 0 = 47 -> (forall j, (p < j <= idx)%nat -> nth j file 0 <> 47) ->
  src_loop file idx true = p.
Proof.
  induction idx as [|i IH]; intros Hp Hs Hn; [lia|]. cbn [src_loop].
  destruct (Nat.eq_dec p (S i)) as [->|Hne].
  - rewrite Hs. reflexivity.
  - assert (Hx : nth (S i) file 0 <> 47) by (apply Hn; lia).
    replace (nth (S i) file 0 =? 47) with false by lia. apply IH; [lia|exact Hs|]. intros j Hj. apply Hn. lia.
Qed.

Lemma src_loop_false file idx q :
  (1 <= q <= idx)%nat -> nth q file 0 = 47 -> (forall j, (q < j <= idx)%nat -> nth j file 0 <> 47) ->
  src_loop file idx false = src_loop file (q - 1) true.
Proof.
  induction idx as [|i IH]; intros Hq Hs Hn; [lia|]. cbn [src_loop].
  destruct (Nat.eq_dec q (S i)) as [->|Hne].
  - rewrite Hs. cbn [N.eqb Pos.eqb]. f_equal. lia.
  - assert (Hx : nth (S i) file 0 <> 47) by (apply Hn; lia).
    replace (nth (S i) file 0 =? 47) with false by lia. apply IH; [lia|exact Hs|]. intros j Hj. apply Hn. lia.
Qed.

Definition no_slash (s : bytes) : Prop := Forall (fun b => b <> 47) s.

Lemma no_slash_nth s k : no_slash s -> (k < length s)%nat -> nth k s 0 <> 47.
Proof. intros H Hk. unfold no_slash in H. rewrite Forall_forall in H. apply H. apply nth_In. exact Hk. Qed.

Lemma source_cut_two_slashes pre a b :
  no_slash a -> no_slash b -> source_cut (pre ++ 47 :: a ++ 47 :: b) = a ++ 47 :: b.
Proof.
  intros Ha Hb.
  set (file := pre ++ 47 :: a ++ 47 :: b).
  assert (Hlen : length file = (length pre + S (length a + S (length b)))%nat).
  { unfold file. rewrite app_length. cbn [length]. rewrite app_length. cbn [length]. reflexivity. }
  set (q := (length pre + S (length a))%nat).
  assert (Hfile2 : file = (pre ++ 47 :: a) ++ 47 :: b) by (unfold file; rewrite <- app_assoc; reflexivity).
  assert (Hq : nth q file 0 = 47).
  { rewrite Hfile2. replace q with (length (pre ++ 47 :: a)) by (rewrite app_length; reflexivity). apply nth_middle. }
  assert (Hafter : forall j, (q < j <= length file - 1)%nat -> nth j file 0 <> 47).
  { intros j Hj. rewrite Hfile2. rewrite app_nth2 by (rewrite app_length; cbn [length]; unfold q in Hj; lia).
    rewrite app_length. cbn [length]. fold q.
    destruct (j - q)%nat as [|k] eqn:Ek; [lia|]. cbn [nth]. apply no_slash_nth; [exact Hb|]. lia. }
  assert (Hmid : forall j, (length pre < j <= q - 1)%nat -> nth j file 0 <> 47).
  { intros j Hj. unfold file. rewrite app_nth2 by lia.
    destruct (j - length pre)%nat as [|k] eqn:Ek; [lia|]. cbn [nth].
    rewrite app_nth1 by (unfold q in Hj; lia). apply no_slash_nth; [exact Ha|]. unfold q in Hj. lia. }
  assert (Hloop : src_loop file (length file - 1) false = length pre).
  { rewrite (src_loop_false file (length file - 1) q); [|unfold q; lia|exact Hq|exact Hafter].
    destruct (length pre) as [|n] eqn:Ep.
    - apply src_loop_none. intros j Hj. apply Hmid. lia.
    - apply src_loop_true; [unfold q; lia| |intros j Hj; apply Hmid; lia].
      unfold file. rewrite <- Ep. apply nth_middle. }
  unfold source_cut. fold file. destruct file as [|x l] eqn:Ef; [cbn in Hlen; lia|].
  rewrite Hloop. rewrite <- Ef. unfold file.
  change (S (length pre)) with (length pre + 1)%nat || idtac.
  replace (pre ++ 47 :: a ++ 47 :: b) with ((pre ++ [47]) ++ a ++ 47 :: b) by (rewrite <- app_assoc; reflexivity).
  replace (S (length pre)) with (length (pre ++ [47])) by (rewrite app_length; cbn [length]; lia).
  rewrite skipn_app, skipn_all, Nat.sub_diag. reflexivity.
Qed.

Lemma rtake_no_slash n x y : no_slash x -> rtake n (x ++ y) = x ++ rtake n y.
Proof.
  induction 1 as [|c x Hc Hx IH]; [reflexivity|]. cbn [app rtake].
  replace (c =? 47) with false by lia. rewrite IH. reflexivity.
Qed.

Lemma no_slash_rev s : no_slash s -> no_slash (rev s).
Proof. unfold no_slash. intros H. apply Forall_rev. exact H. Qed.

Lemma last_two_two_slashes pre a b :
  no_slash a -> no_slash b -> last_two (pre ++ 47 :: a ++ 47 :: b) = a ++ 47 :: b.
Proof.
  intros Ha Hb. unfold last_two.
  assert (Hr : rev (pre ++ 47 :: a ++ 47 :: b) = rev b ++ 47 :: rev a ++ 47 :: rev pre).
  { rewrite rev_app_distr. cbn [rev]. rewrite rev_app_distr. cbn [rev].
    repeat (rewrite <- app_assoc; cbn [app]). reflexivity. }
  rewrite Hr. rewrite (rtake_no_slash 1 (rev b)) by (apply no_slash_rev; exact Hb).
  cbn [rtake N.eqb Pos.eqb]. rewrite (rtake_no_slash 0 (rev a)) by (apply no_slash_rev; exact Ha).
  cbn [rtake N.eqb Pos.eqb]. rewrite app_nil_r.
  assert (Hl : rev (rev b ++ 47 :: rev a) = a ++ 47 :: b).
  { rewrite rev_app_distr. cbn [rev]. rewrite !rev_involutive. rewrite <- app_assoc. reflexivity. }
  rewrite Hl.
  assert (Hne : Nat.eqb (length (a ++ 47 :: b)) (length (pre ++ 47 :: a ++ 47 :: b)) = false).
  { apply Nat.eqb_neq. rewrite !app_length. cbn [length]. rewrite app_length. cbn [length]. lia. }
  destruct (a ++ 47 :: b) as [|c t] eqn:E; [destruct a; discriminate|].
  rewrite Hne, andb_false_r. reflexivity.
Qed.

(** the Go loop and the specification agree on every path with at least two '/' *)
Theorem source_cut_agrees pre a b :
  no_slash a -> no_slash b ->
  bytes_eqb (source_cut (pre ++ 47 :: a ++ 47 :: b)) (last_two (pre ++ 47 :: a ++ 47 :: b)) = true.
Proof.
  intros Ha Hb. apply bytes_eqb_eq. rewrite source_cut_two_slashes, last_two_two_slashes by assumption. reflexivity.
Qed.

