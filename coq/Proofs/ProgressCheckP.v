(** The executable verdict of Check/C19.v related to the model: the specification part never
    rejects a behaviour of the model, and [model_run = true] exhibits a run. *)
From Coq Require Import List NArith Bool Arith Lia.
Import ListNotations.
From Glb Require Import Model.Progress Proofs.ProgressP Check.C19.
Open Scope N_scope.

Lemma eqbl_refl l : eqbl l l = true.
Proof. induction l as [|x l IH]; cbn [eqbl]; [reflexivity|]. rewrite N.eqb_refl, IH. reflexivity. Qed.

Lemma eqbl_eq a : forall b, eqbl a b = true -> a = b.
Proof.
  induction a as [|x a IH]; intros [|y b] H; cbn [eqbl] in H; try discriminate; [reflexivity|].
  apply andb_prop in H. destruct H as [H1 H2]. apply N.eqb_eq in H1. apply IH in H2. congruence.
Qed.

Lemma nondecb_of l : forall a, nondec_from a l -> nondecb a l = true.
Proof.
  induction l as [|x r IH]; intros a H; cbn [nondecb nondec_from] in *; [reflexivity|].
  destruct H as [H1 H2]. rewrite (IH _ H2). apply N.leb_le in H1. rewrite H1. reflexivity.
Qed.

Lemma memb_In x l : In x l -> memb x l = true.
Proof.
  induction l as [|y r IH]; intros H; cbn [memb]; [destruct H|].
  destruct H as [->|H]; [rewrite N.eqb_refl; reflexivity | rewrite (IH H); apply orb_true_r].
Qed.

Lemma check_accepts_model sc s k pcs : reachable sc s -> pc s = Finished ->
  spec_ok (check_case k sc pcs (psums 0 (reps sc)) (recvd s) (closed s)) = true.
Proof.
  intros Hr Hp.
  destruct (close_result sc s Hr Hp) as (Hc & Ht & Hd & Hs & rw0 & Hrw0).
  destruct (received_shape sc s Hr) as (Hn & _ & rw & Hrw & Hsub).
  unfold final_part in Hrw. rewrite Hp in Hrw.
  unfold spec_ok, check_case.
  cbn [spec_size spec_mono spec_prefix spec_final spec_closed].
  rewrite eqbl_refl, (nondecb_of _ _ Hn), Hc. rewrite Hrw.
  rewrite removelast_last, last_last, Hs, N.eqb_refl.
  assert (Hnil : is_nil (rw ++ [total sc]) = false) by (destruct rw; reflexivity). rewrite Hnil.
  assert (Hall : forallb (fun v => memb v (psums 0 (reps sc)) || memb v (psums 0 pcs)) rw = true).
  { apply forallb_forall. intros v Hv. rewrite memb_In; [reflexivity|]. rewrite <- Hd. apply (sublist_In _ _ _ Hsub). assumption. }
  rewrite Hall. reflexivity.
Qed.

Lemma model_run_exhibits_run k sc pcs sizes rc cl :
  model_run (check_case k sc pcs sizes rc cl) = true ->
  exists s, reachable sc s /\ recvd s = rc /\ size s = last sizes 0 /\ closed s = cl.
Proof.
  unfold check_case. cbn [model_run]. intros H. apply andb_prop in H. destruct H as [_ H].
  destruct (run (init sc) (labels_of sc rc)) as [s|] eqn:E; [|discriminate].
  repeat (apply andb_prop in H; destruct H as [H ?]).
  exists s. split; [exists (labels_of sc rc); assumption|].
  split; [apply eqbl_eq; assumption|].
  split; [apply N.eqb_eq; assumption | apply Bool.eqb_prop; assumption].
Qed.
