(** Stages 2 and 3 of C01: printing of attribute trees, of derivation chains and of the whole
    record is read back by the strict parser as [expected].

    Technique.  [Prints out exp] says of a printing function [out : addSep -> bytes * addSep]
    that, for EVERY continuation [K] (starting with [,] or [}] whenever a member has been
    written) and every sufficient fuel, the member-list parser started in the state that
    corresponds to the incoming [addSep] reads exactly the members [exp] off [o ++ K] and is then
    in the state that corresponds to the outgoing [addSep] in front of [K].  This
    prefix-extension form composes: sequencing ([Prints_app]), wrapping in a keyed object
    ([Prints_group]), leaves ([Prints_leaf]).  Attribute trees, chains and the record are then
    three small inductions. *)
From Coq Require Import List NArith Lia Bool ZArith.
From Coq Require Import ZifyBool ZifyN ZifyNat.
Import ListNotations.
From Glb Require Import Lib.Utf8 Proofs.Utf8P Lib.JsonDec Proofs.JsonDecP Lib.Json Proofs.JsonP
     Model.LoggerJson Model.LoggerJsonSpec Proofs.LoggerJsonEscP.
Open Scope N_scope.

(** ** parser states between members *)
Definition pstate (sep : bool) := if sep then mtail else ostart.

Definition bindp (ms : list (list N * jval)) (x : option (list (list N * jval) * list N)) :=
  match x with Some (ms', r) => Some (ms ++ ms', r) | None => None end.

Lemma bindp_app a b x : bindp (a ++ b) x = bindp a (bindp b x).
Proof. destruct x as [[ms r]|]; cbn [bindp]; [rewrite app_assoc|]; reflexivity. Qed.

Lemma pstate_close sep pv n K : pstate sep pv n (125 :: K) = Some ([], K).
Proof. destruct sep; reflexivity. Qed.

Lemma mloop_step pv n s t k r1 r2 v r3 :
  skip_ws s = 34 :: t -> parse_string_body t = Some (k, r1) -> skip_ws r1 = 58 :: r2 ->
  pv r2 = Some (v, r3) ->
  mloop pv (S n) s = bindp [(k, v)] (mtail pv n r3).
Proof.
  intros H1 H2 H3 H4. cbn [mloop]. rewrite H1. change (34 =? 34) with true. cbv iota.
  rewrite H2, H3. change (58 =? 58) with true. cbv iota. rewrite H4.
  unfold mtail. destruct (skip_ws r3) as [|d r4]; [reflexivity|].
  destruct (d =? 44); [destruct (mloop pv n r4) as [[ms r5]|]; reflexivity|].
  destruct (d =? 125); reflexivity.
Qed.

(** one member ["key":text] with separator according to [sep] *)
Definition member_txt (k vt : list N) : list N := [34] ++ append_json_string k ++ [34; 58] ++ vt.

Lemma member_parse sep pv n k vt j K :
  pv (vt ++ K) = Some (j, K) ->
  pstate sep pv (S n) ((sepb sep ++ member_txt k vt) ++ K) = bindp [(sanitize k, j)] (mtail pv n K).
Proof.
  intros Hv. unfold member_txt.
  assert (E : (sepb sep ++ [34] ++ append_json_string k ++ [34; 58] ++ vt) ++ K
              = sepb sep ++ 34 :: append_json_string k ++ 34 :: 58 :: vt ++ K).
  { repeat rewrite <- app_assoc. reflexivity. }
  rewrite E. clear E.
  assert (Hm : mloop pv (S n) (34 :: append_json_string k ++ 34 :: 58 :: vt ++ K)
               = bindp [(sanitize k, j)] (mtail pv n K)).
  { apply (mloop_step pv n _ (append_json_string k ++ 34 :: 58 :: vt ++ K) (sanitize k) (58 :: vt ++ K) (vt ++ K) j K).
    - reflexivity.
    - apply escape_roundtrip.
    - reflexivity.
    - exact Hv. }
  destruct sep; cbn [sepb app pstate]; exact Hm.
Qed.

(** ** leaf values *)
Definition is_leaf (v : value) : Prop := match v with VGroup _ => False | _ => True end.

Lemma pv_quoted f s K : parse_value (S f) (quoted s ++ K) = Some (JStr (sanitize s), K).
Proof.
  unfold quoted. cbn [app]. rewrite <- app_assoc. cbn [app].
  rewrite parse_value_S. rewrite skip_ws_cons by reflexivity.
  change (34 =? 34) with true. cbv iota. rewrite escape_roundtrip. reflexivity.
Qed.

Lemma psb_clean : forall t f r, clean_text t = true -> (length t < f)%nat -> psb f (t ++ 34 :: r) = Some (t, r).
Proof.
  induction t as [|b t IH]; intros f r Hc Hf.
  - destruct f; [cbn in Hf; lia|]. reflexivity.
  - cbn [clean_text forallb] in Hc. apply andb_true_iff in Hc as [Hb Ht]. unfold clean_byte in Hb.
    destruct f as [|f]; [cbn in Hf; lia|]. cbn [app length] in *.
    rewrite psb_plain by lia. rewrite (IH f r Ht) by lia. reflexivity.
Qed.

Lemma span_digits_all : forall ds, forallb is_digit ds = true -> span_digits ds = (ds, []).
Proof.
  induction ds as [|d ds IH]; intros H; [reflexivity|].
  cbn [forallb] in H. apply andb_true_iff in H as [H1 H2]. cbn [span_digits]. rewrite H1, (IH H2). reflexivity.
Qed.

Lemma num_frac_dh K : dh K -> num_frac K = Some ([], K).
Proof. intros (c & K' & -> & [-> | ->]); reflexivity. Qed.
Lemma num_exp_dh K : dh K -> num_exp K = Some ([], K).
Proof. intros (c & K' & -> & [-> | ->]); reflexivity. Qed.

Lemma pv_canon_int f l K : canon_int l -> dh K -> parse_value (S f) (l ++ K) = Some (JNum l, K).
Proof.
  intros (sg & body & -> & Hsg & d & ds & -> & Hd & Hds & Hz) HK.
  assert (Hnum : parse_number ((sg ++ d :: ds) ++ K) = Some (sg ++ d :: ds, K)).
  { unfold parse_number.
    assert (Hs : num_sign ((sg ++ d :: ds) ++ K) = (sg, (d :: ds) ++ K)).
    { destruct Hsg as [-> | ->]; cbn [app num_sign].
      - unfold is_digit in Hd. replace (d =? 45) with false by lia. reflexivity.
      - reflexivity. }
    rewrite Hs. cbn [app]. unfold num_int. rewrite Hd.
    destruct (d =? 48) eqn:E48.
    - apply N.eqb_eq in E48. rewrite (Hz E48). subst d. cbn [app].
      rewrite (num_frac_dh K HK), (num_exp_dh K HK). rewrite !app_nil_r. reflexivity.
    - rewrite (span_digits_ext ds ds [] K HK (span_digits_all ds Hds)). cbn [app].
      rewrite (num_frac_dh K HK), (num_exp_dh K HK). rewrite !app_nil_r. reflexivity. }
  assert (Hhd : exists c t, (sg ++ d :: ds) ++ K = c :: t /\ (c = 45 \/ is_digit c = true)).
  { destruct Hsg as [-> | ->]; cbn [app]; eauto. }
  destruct Hhd as (c & t & Ect & Hc). rewrite Ect in *.
  rewrite parse_value_S.
  assert (Hws : is_ws c = false) by (unfold is_ws, is_digit in *; lia).
  rewrite (skip_ws_cons c t Hws).
  unfold is_digit in Hc.
  replace (c =? 34) with false by lia. replace (c =? 123) with false by lia. replace (c =? 91) with false by lia.
  replace (c =? 116) with false by lia. replace (c =? 102) with false by lia. replace (c =? 110) with false by lia.
  rewrite Hnum. reflexivity.
Qed.

Lemma leaf_parse v K f :
  is_leaf v -> wf_value v = true -> dh K -> (length (append_json_value v) < f)%nat ->
  parse_value f (append_json_value v ++ K) = Some (sem v, K).
Proof.
  intros Hl Hwf HK Hf. destruct f as [|f]; [lia|].
  destruct v as [s|z|n|b|z|t|r|s|s|l]; cbn [append_json_value sem] in *; try contradiction.
  - apply pv_quoted.
  - apply pv_canon_int; [apply to_dec_z_canon|exact HK].
  - apply pv_canon_int; [apply to_dec_canon_int|exact HK].
  - destruct b; reflexivity.
  - apply pv_canon_int; [apply to_dec_z_canon|exact HK].
  - cbn [wf_value] in Hwf. cbn [app]. rewrite <- app_assoc. cbn [app].
    rewrite parse_value_S. rewrite skip_ws_cons by reflexivity. change (34 =? 34) with true. cbv iota.
    unfold parse_string_body. rewrite psb_clean; [reflexivity|exact Hwf|]. rewrite app_length. cbn [length]. lia.
  - destruct r as [b|m]; cbn [append_json_marshal] in *.
    + cbn [wf_value wf_raw] in Hwf. destruct (parse_exact b) as [j|] eqn:E; [|discriminate].
      apply (parse_exact_embedded b j K (S f) E HK). lia.
    + apply pv_quoted.
  - apply pv_quoted.
  - apply pv_quoted.
Qed.

Lemma quoted_no_nl s : ~ In 10 (quoted s).
Proof.
  unfold quoted. intros [H|H]; [lia|]. apply in_app_or in H as [H|H].
  - exact (append_json_string_no_newline s H).
  - destruct H as [H|[]]. lia.
Qed.

Lemma leaf_no_nl v : is_leaf v -> wf_value v = true -> ~ In 10 (append_json_value v).
Proof.
  intros Hl Hwf. destruct v as [s|z|n|b|z|t|r|s|s|l]; cbn [append_json_value] in *; try contradiction.
  - apply quoted_no_nl.
  - apply canon_int_no_nl, to_dec_z_canon.
  - apply canon_int_no_nl, to_dec_canon_int.
  - destruct b; cbn [In]; intros H; repeat (destruct H as [H|H]; [lia|]); contradiction.
  - apply canon_int_no_nl, to_dec_z_canon.
  - cbn [wf_value] in Hwf. intros [H|H]; [lia|]. apply in_app_or in H as [H|H].
    + unfold clean_text in Hwf. rewrite forallb_forall in Hwf. apply Hwf in H. unfold clean_byte in H. lia.
    + destruct H as [H|[]]. lia.
  - destruct r as [b|m]; cbn [append_json_marshal] in *.
    + cbn [wf_value wf_raw] in Hwf. destruct (parse_exact b); [|discriminate].
      unfold no_newline in Hwf. rewrite forallb_forall in Hwf. intros H. apply Hwf in H. lia.
    + apply quoted_no_nl.
  - apply quoted_no_nl.
  - apply quoted_no_nl.
Qed.

(** ** the compositional predicate *)
Definition nonempty {A} (l : list A) : bool := match l with [] => false | _ => true end.

Lemma nonempty_app {A} (a b : list A) : nonempty (a ++ b) = nonempty a || nonempty b.
Proof. destruct a; reflexivity. Qed.

Definition Prints (out : bool -> list N * bool) (exp : list (list N * jval)) : Prop :=
  forall sep o sep', out sep = (o, sep') ->
    (length exp <= length o)%nat /\
    sep' = sep || nonempty exp /\                        (* addSep becomes true exactly when a member was written *)
    (sep = true -> o = [] \/ exists o', o = 44 :: o') /\
    ~ In 10 o /\
    forall f n K, (length o <= f)%nat -> (sep' = true -> dh K) ->
      pstate sep (parse_value f) (n + length exp) (o ++ K) = bindp exp (pstate sep' (parse_value f) n K).

Lemma Prints_ext out out' exp exp' :
  (forall sep, out sep = out' sep) -> exp = exp' -> Prints out exp -> Prints out' exp'.
Proof. intros H -> HP sep o sep' E. apply HP. rewrite H. exact E. Qed.

Lemma Prints_nil : Prints (fun sep => ([], sep)) [].
Proof.
  intros sep o sep' [= <- <-]. split; [cbn; lia|]. split; [cbn [nonempty]; rewrite orb_false_r; reflexivity|].
  split; [auto|]. split; [cbn; tauto|].
  intros f n K _ _. cbn [app length]. rewrite Nat.add_0_r.
  destruct (pstate sep (parse_value f) n K) as [[ms r]|]; reflexivity.
Qed.

Lemma Prints_app o1 o2 e1 e2 :
  Prints o1 e1 -> Prints o2 e2 ->
  Prints (fun sep => let (a, s1) := o1 sep in let (b, s2) := o2 s1 in (a ++ b, s2)) (e1 ++ e2).
Proof.
  intros H1 H2 sep o sep' H.
  destruct (o1 sep) as [a s1] eqn:E1. destruct (o2 s1) as [b s2] eqn:E2. injection H as <- <-.
  destruct (H1 _ _ _ E1) as (C1 & S1 & Sh1 & N1 & P1). destruct (H2 _ _ _ E2) as (C2 & S2 & Sh2 & N2 & P2).
  split; [rewrite !app_length; lia|].
  split; [rewrite S2, S1, nonempty_app, orb_assoc; reflexivity|].
  split.
  { intros ->. cbn [orb] in S1. subst s1. destruct (Sh1 eq_refl) as [->|(o' & ->)]; [exact (Sh2 eq_refl)|].
    right. eexists. reflexivity. }
  split; [intros Hin; apply in_app_or in Hin as [Hin|Hin]; tauto|].
  intros f n K Hf HK. rewrite app_length in Hf. rewrite <- app_assoc. rewrite app_length.
  replace (n + (length e1 + length e2))%nat with ((n + length e2) + length e1)%nat by lia.
  rewrite P1; [|lia|].
  - rewrite P2; [|lia|exact HK]. rewrite bindp_app. reflexivity.
  - intros ->. cbn [orb] in S2. destruct (Sh2 eq_refl) as [->|(o' & ->)].
    + cbn [app]. apply HK. exact S2.
    + cbn [app]. apply dh_cons. auto.
Qed.

(** one member whose value text [vt] parses (in front of any continuation) to [j] *)
Lemma Prints_member k vt j :
  ~ In 10 vt ->
  (forall f K, (length vt < f)%nat -> dh K -> parse_value f (vt ++ K) = Some (j, K)) ->
  Prints (fun sep => (sepb sep ++ member_txt k vt, true)) [(sanitize k, j)].
Proof.
  intros Hnl Hv sep o sep' [= <- <-].
  split. { unfold member_txt. rewrite !app_length. cbn [length]. lia. }
  split. { cbn [nonempty]. rewrite orb_true_r. reflexivity. }
  split. { intros ->. right. cbn [sepb app]. eexists. reflexivity. }
  split.
  { unfold member_txt. intros H. apply in_app_or in H as [H|H].
    - destruct sep; cbn [sepb In] in H.
      + destruct H as [H|[]]. lia.
      + contradiction.
    - cbn [app In] in H. destruct H as [H|H]; [lia|].
      apply in_app_or in H as [H|H]; [exact (append_json_string_no_newline k H)|].
      cbn [In] in H. destruct H as [H|[H|H]]; [lia|lia|]. exact (Hnl H). }
  intros f n K Hf HK. cbn [length]. rewrite Nat.add_1_r.
  rewrite (member_parse sep (parse_value f) n k vt j K); [reflexivity|].
  apply Hv; [|apply HK; reflexivity].
  unfold member_txt in Hf. rewrite !app_length in Hf. cbn [length] in Hf. lia.
Qed.

Lemma Prints_leaf k v :
  is_leaf v -> wf_value v = true ->
  Prints (fun sep => (sepb sep ++ member_txt k (append_json_value v), true)) [(sanitize k, sem v)].
Proof.
  intros Hl Hwf. apply Prints_member.
  - apply leaf_no_nl; assumption.
  - intros f K Hf HK. apply leaf_parse; assumption.
Qed.

(** an object around a printer, ALWAYS rendered (WithGroup) *)
Lemma Prints_wrap k oi ei :
  Prints oi ei ->
  Prints (fun sep => let (o, _) := oi false in (sepb sep ++ member_txt k (123 :: o ++ [125]), true))
         [(sanitize k, JObj ei)].
Proof.
  intros Hi. destruct (oi false) as [o si] eqn:E.
  destruct (Hi _ _ _ E) as (C & _ & _ & Nl & Pi).
  apply Prints_member.
  - intros [H|H]; [lia|]. apply in_app_or in H as [H|H]; [exact (Nl H)|]. destruct H as [H|[]]. lia.
  - intros f K Hf HK. destruct f as [|f]; [lia|].
    cbn [app length] in *. rewrite app_length in Hf. cbn [length] in Hf.
    rewrite parse_value_S. rewrite skip_ws_cons by reflexivity.
    change (123 =? 34) with false. change (123 =? 123) with true. cbv iota.
    rewrite <- app_assoc. cbn [app].
    set (L := length (o ++ 125 :: K)).
    assert (Hlen : (length ei <= L)%nat) by (subst L; rewrite app_length; lia).
    pose proof (Pi f (L - length ei)%nat (125 :: K)) as Hp.
    replace (L - length ei + length ei)%nat with L in Hp by lia.
    cbn [pstate] in Hp. rewrite Hp; [|lia|intros _; apply dh_cons; auto].
    rewrite pstate_close. cbn [bindp]. rewrite app_nil_r. reflexivity.
Qed.

(** a keyed attribute group: rendered only when a member was written *)
Lemma Prints_group k oi ei :
  Prints oi ei ->
  Prints (fun sep => let (o, has) := oi false in
                     if has then (sepb sep ++ member_txt k (123 :: o ++ [125]), true) else ([], sep))
         (match ei with [] => [] | _ => [(sanitize k, JObj ei)] end).
Proof.
  intros Hi. pose proof (Prints_wrap k oi ei Hi) as Hw. cbv beta in Hw.
  destruct (oi false) as [o has] eqn:E.
  destruct (Hi _ _ _ E) as (_ & S & _). cbn [orb] in S.
  destruct has.
  - destruct ei as [|m ei']; [discriminate S|]. exact Hw.
  - destruct ei as [|m ei']; [|discriminate S]. exact Prints_nil.
Qed.

(** ** attribute trees *)
Section ValueInd.
  Variable P : value -> Prop.
  Variable Q : list (list N * value) -> Prop.
  Hypothesis Hleaf : forall v, is_leaf v -> P v.
  Hypothesis Hgroup : forall l, Q l -> P (VGroup l).
  Hypothesis Hnil : Q [].
  Hypothesis Hcons : forall k v l, P v -> Q l -> Q ((k, v) :: l).
  Fixpoint value_ind2 (v : value) : P v :=
    match v with
    | VGroup l =>
      Hgroup l ((fix go (l : list (list N * value)) : Q l :=
                   match l with
                   | [] => Hnil
                   | (k, v') :: t => Hcons k v' t (value_ind2 v') (go t)
                   end) l)
    | VStr s => Hleaf (VStr s) I
    | VInt z => Hleaf (VInt z) I
    | VUint n => Hleaf (VUint n) I
    | VBool b => Hleaf (VBool b) I
    | VDur z => Hleaf (VDur z) I
    | VTime t => Hleaf (VTime t) I
    | VRaw r => Hleaf (VRaw r) I
    | VErrStr s => Hleaf (VErrStr s) I
    | VAnsi s => Hleaf (VAnsi s) I
    end.
  Lemma attrs_ind2 : forall l, Q l.
  Proof. induction l as [|[k v] t IH]; [exact Hnil|]. apply Hcons; [apply value_ind2|exact IH]. Qed.
End ValueInd.

Lemma attr_group_eq k l sep :
  append_json_attr k (VGroup l) sep =
  if is_empty k then append_json_attrs l sep
  else let (o, has) := append_json_attrs l false in
       if has then (sepb sep ++ [34] ++ append_json_string k ++ [34; 58; 123] ++ o ++ [125], true)
       else ([], sep).
Proof.
  assert (F : forall l sep,
    (fix go (l : list (list N * value)) (addsep : bool) {struct l} : list N * bool :=
       match l with
       | [] => ([], addsep)
       | (k', v') :: t =>
         let (o1, s1) := append_json_attr k' v' addsep in
         let (o2, s2) := go t s1 in (o1 ++ o2, s2)
       end) l sep = append_json_attrs l sep).
  { induction l0 as [|[k' v'] t IH]; intros sep0; [reflexivity|]. simpl.
    destruct (append_json_attr k' v' sep0) as [o1 s1]. rewrite IH. reflexivity. }
  cbn [append_json_attr]. rewrite !F. reflexivity.
Qed.

Lemma exp_group_eq k l :
  exp_attr k (VGroup l) =
  if is_empty k then exp_attrs l
  else match exp_attrs l with [] => [] | _ => [(sanitize k, JObj (exp_attrs l))] end.
Proof.
  assert (F : forall l,
    (fix go (l : list (list N * value)) : list (list N * jval) :=
       match l with
       | [] => []
       | (k', v') :: t => exp_attr k' v' ++ go t
       end) l = exp_attrs l).
  { induction l0 as [|[k' v'] t IH]; [reflexivity|]. simpl. rewrite IH. reflexivity. }
  cbn [exp_attr]. rewrite !F. reflexivity.
Qed.

Lemma wf_group_eq l : wf_value (VGroup l) = wf_attrs l.
Proof.
  cbn [wf_value]. induction l as [|[k v] t IH]; [reflexivity|]. cbn [wf_attrs]. rewrite <- IH. reflexivity.
Qed.

Lemma member_txt_group k o :
  [34] ++ append_json_string k ++ [34; 58; 123] ++ o ++ [125] = member_txt k (123 :: o ++ [125]).
Proof. reflexivity. Qed.

Theorem attrs_print :
  forall l, wf_attrs l = true -> Prints (append_json_attrs l) (exp_attrs l).
Proof.
  apply (attrs_ind2
           (fun v => forall k, wf_value v = true -> Prints (append_json_attr k v) (exp_attr k v))
           (fun l => wf_attrs l = true -> Prints (append_json_attrs l) (exp_attrs l))).
  - (* leaf *)
    intros v Hl k Hwf.
    apply (Prints_ext (fun sep => (sepb sep ++ member_txt k (append_json_value v), true)) _ [(sanitize k, sem v)]).
    + intros sep. destruct v; try contradiction; reflexivity.
    + destruct v; try contradiction; reflexivity.
    + apply Prints_leaf; assumption.
  - (* group *)
    intros l IH k Hwf. rewrite wf_group_eq in Hwf. specialize (IH Hwf).
    destruct (is_empty k) eqn:Ek.
    + apply (Prints_ext (append_json_attrs l) _ (exp_attrs l)); [| |exact IH].
      * intros sep. rewrite attr_group_eq, Ek. reflexivity.
      * rewrite exp_group_eq, Ek. reflexivity.
    + eapply Prints_ext; [| |exact (Prints_group k _ _ IH)].
      * intros sep. rewrite attr_group_eq, Ek. cbv beta.
        destruct (append_json_attrs l false) as [o [|]]; [rewrite member_txt_group|]; reflexivity.
      * rewrite exp_group_eq, Ek. reflexivity.
  - (* nil *)
    intros _. exact Prints_nil.
  - (* cons *)
    intros k v l IHv IHl Hwf. cbn [wf_attrs] in Hwf. apply andb_true_iff in Hwf as [Hv Hl].
    apply (Prints_ext _ _ _ _ (fun sep => eq_refl) eq_refl (Prints_app _ _ _ _ (IHv k Hv) (IHl Hl))).
Qed.

(** ** derivation chains *)
(** what the chain, then the record's attributes, then the closing braces of the groups opened by the
    chain amount to, written as ONE recursive printer (a WithGroup is a keyed object around the rest) *)
Fixpoint chain_out (c : list deriv) (inner : list (list N * value)) (sep : bool) : list N * bool :=
  match c with
  | [] => append_json_attrs inner sep
  | DAttrs al :: c' =>
    let (a, s1) := append_json_attrs al sep in
    let (b, s2) := chain_out c' inner s1 in (a ++ b, s2)
  | DGroup g :: c' =>
    let (o, _) := chain_out c' inner false in
    (sepb sep ++ member_txt g (123 :: o ++ [125]), true)
  end.

Theorem chain_print : forall c inner,
  wf_chain c = true -> wf_attrs inner = true -> Prints (chain_out c inner) (nest c inner).
Proof.
  induction c as [|[al|g] c IH]; intros inner Hc Hi.
  - exact (attrs_print inner Hi).
  - cbn [wf_chain forallb wf_deriv] in Hc. apply andb_true_iff in Hc as [Ha Hc].
    apply (Prints_ext _ _ _ _ (fun sep => eq_refl) eq_refl
             (Prints_app _ _ _ _ (attrs_print al Ha) (IH inner Hc Hi))).
  - cbn [wf_chain forallb wf_deriv] in Hc. apply andb_true_iff in Hc as [_ Hc].
    apply (Prints_ext _ _ _ _ (fun sep => eq_refl) eq_refl (Prints_wrap g _ _ (IH inner Hc Hi))).
Qed.

(** the chain invariant: [pre], the record's attributes and [nopen] closing braces are [chain_out] *)
Lemma derive_from_cons h d c :
  derive_from h (d :: c) = derive_from (match d with DAttrs al => with_attrs h al | DGroup g => with_group h g end) c.
Proof. reflexivity. Qed.

Theorem chain_invariant : forall c h inner T,
  pre (derive_from h c) ++ fst (append_json_attrs inner (addsep (derive_from h c))) ++ repeat 125 (nopen (derive_from h c)) ++ T
  = pre h ++ fst (chain_out c inner (addsep h)) ++ repeat 125 (nopen h) ++ T.
Proof.
  induction c as [|[al|g] c IH]; intros h inner T.
  - reflexivity.
  - rewrite derive_from_cons, IH. cbn [chain_out]. unfold with_attrs.
    destruct al as [|a al'].
    + cbn [append_json_attrs]. destruct (chain_out c inner (addsep h)) as [b s2]. reflexivity.
    + destruct (append_json_attrs (a :: al') (addsep h)) as [o s]. cbn [pre nopen addsep].
      destruct (chain_out c inner s) as [b s2]. cbn [fst]. repeat rewrite <- app_assoc. reflexivity.
  - rewrite derive_from_cons, IH. cbn [chain_out]. unfold with_group. cbn [pre nopen addsep].
    destruct (chain_out c inner false) as [o s]. cbn [fst repeat]. unfold member_txt.
    destruct (addsep h); cbn [sepb]; repeat (first [rewrite <- app_assoc | progress (cbn [app])]); reflexivity.
Qed.

(** ** the whole record *)
(** the fixed members are attributes like any other: time and level are printed raw between quotes (clean
    oracle texts), source is a keyed group of file and line, msg a string *)
Definition fixed (r : record) : list (list N * value) :=
  [(k_time, VTime (time_txt r)); (k_level, VTime (level_text (lvl r)))]
  ++ (match src r with
      | Some (file, line) => [(k_source, VGroup [(k_file, VStr (source_file file)); (k_line, VInt line)])]
      | None => []
      end)
  ++ [(k_msg, VStr (msg r))].

Lemma fixed_out r :
  append_json_attrs (fixed r) false =
  ([34] ++ k_time ++ [34; 58; 34] ++ time_txt r
   ++ [34; 44; 34] ++ k_level ++ [34; 58; 34] ++ level_text (lvl r) ++ [34]
   ++ (match src r with
       | Some (file, line) => [44; 34] ++ k_source ++ [34; 58; 123] ++ append_json_source file line ++ [125]
       | None => []
       end)
   ++ [44; 34] ++ k_msg ++ [34; 58; 34] ++ append_json_string (msg r) ++ [34], true).
Proof.
  unfold fixed. destruct (src r) as [[file line]|];
    cbn [app append_json_attrs append_json_attr append_json_value is_empty k_source k_time k_level k_msg k_file k_line sepb];
    unfold quoted, append_json_source;
    change (append_json_string [116; 105; 109; 101]) with [116; 105; 109; 101];
    change (append_json_string [108; 101; 118; 101; 108]) with [108; 101; 118; 101; 108];
    change (append_json_string [109; 115; 103]) with [109; 115; 103];
    try change (append_json_string [115; 111; 117; 114; 99; 101]) with [115; 111; 117; 114; 99; 101];
    try change (append_json_string [102; 105; 108; 101]) with [102; 105; 108; 101];
    try change (append_json_string [108; 105; 110; 101]) with [108; 105; 110; 101];
    cbn [k_source k_time k_level k_msg k_file k_line];
    repeat (first [rewrite <- app_assoc | progress (cbn [app])]); reflexivity.
Qed.

Lemma handle_eq chain r :
  handle (derive chain) r = 123 :: fst (chain_out (DAttrs (fixed r) :: chain) (attrs r) false) ++ [125; 10].
Proof.
  unfold handle, derive. rewrite chain_invariant. cbn [chain_out]. rewrite fixed_out.
  cbn [new_handler pre nopen addsep repeat].
  destruct (chain_out chain (attrs r) true) as [b s2]. cbn [fst].
  repeat (first [rewrite <- app_assoc | progress (cbn [app])]). reflexivity.
Qed.

Lemma expected_eq chain r : expected chain r = nest (DAttrs (fixed r) :: chain) (attrs r).
Proof.
  unfold expected, fixed. cbn [nest]. destruct (src r) as [[file line]|]; reflexivity.
Qed.

Lemma wf_fixed r : clean_text (time_txt r) = true -> wf_attrs (fixed r) = true.
Proof.
  intros Ht. unfold fixed. destruct (src r) as [[file line]|]; cbn [app wf_attrs wf_value];
    rewrite Ht; destruct (lvl r); reflexivity.
Qed.

Theorem json_line_faithful chain r :
  wf_chain chain = true -> wf_record r = true ->
  exists body, handle (derive chain) r = body ++ [10]
            /\ ~ In 10 body
            /\ parse_object body = Some (JObj (expected chain r), []).
Proof.
  intros Hc Hr. unfold wf_record in Hr. apply andb_true_iff in Hr as [Ht Ha].
  assert (HP : Prints (chain_out (DAttrs (fixed r) :: chain) (attrs r)) (nest (DAttrs (fixed r) :: chain) (attrs r))).
  { apply chain_print; [|exact Ha]. cbn [wf_chain forallb wf_deriv]. rewrite (wf_fixed r Ht). exact Hc. }
  rewrite handle_eq, expected_eq.
  destruct (chain_out (DAttrs (fixed r) :: chain) (attrs r) false) as [O s'] eqn:E.
  destruct (HP _ _ _ E) as (C & _ & _ & Nl & Pp). cbn [fst].
  set (exp := nest (DAttrs (fixed r) :: chain) (attrs r)) in *.
  exists (123 :: O ++ [125]). split; [|split].
  - cbn [app]. rewrite <- app_assoc. reflexivity.
  - intros [H|H]; [lia|]. apply in_app_or in H as [H|H]; [exact (Nl H)|]. destruct H as [H|[]]. lia.
  - unfold parse_object. cbn [length]. rewrite parse_value_S. rewrite skip_ws_cons by reflexivity.
    change (123 =? 34) with false. change (123 =? 123) with true. cbv iota.
    set (L := length (O ++ [125])).
    assert (HL : (length exp <= L)%nat /\ (length O <= L)%nat) by (subst L; rewrite app_length; cbn [length]; lia).
    pose proof (Pp L (L - length exp)%nat [125]) as Hp.
    replace (L - length exp + length exp)%nat with L in Hp by lia.
    cbn [pstate] in Hp. rewrite Hp; [|lia|intros _; apply dh_cons; auto].
    rewrite pstate_close. cbn [bindp skip_ws]. rewrite app_nil_r. reflexivity.
Qed.

(** ** what appendJsonSource's cut yields *)
Lemma scan_back_pass : forall y R seen first,
  R <> [] -> (forall c, In c y -> c <> 47) ->
  scan_back (y ++ R) seen first = scan_back R (rev y ++ seen) first.
Proof.
  induction y as [|c y IH]; intros R seen first HR Hy; [reflexivity|].
  cbn [app scan_back]. destruct (y ++ R) as [|d u] eqn:E.
  { destruct y; [cbn in E; contradiction|discriminate E]. }
  assert (c =? 47 = false) as -> by (apply N.eqb_neq, Hy; left; reflexivity).
  rewrite <- E. rewrite IH; [|exact HR|intros x Hx; apply Hy; right; exact Hx].
  cbn [rev]. rewrite <- app_assoc. reflexivity.
Qed.

Theorem source_file_last_two p a b :
  (forall c, In c a -> c <> 47) -> (forall c, In c b -> c <> 47) ->
  source_file (p ++ 47 :: a ++ 47 :: b) = a ++ 47 :: b.
Proof.
  intros Ha Hb. unfold source_file.
  replace (rev (p ++ 47 :: a ++ 47 :: b)) with (rev b ++ 47 :: rev a ++ 47 :: rev p).
  2:{ rewrite rev_app_distr. cbn [rev]. rewrite rev_app_distr. cbn [rev]. repeat rewrite <- app_assoc. reflexivity. }
  rewrite scan_back_pass; [|discriminate|intros c Hc; apply Hb, in_rev; exact Hc].
  rewrite rev_involutive, app_nil_r.
  cbn [scan_back]. destruct (rev a ++ 47 :: rev p) as [|d u] eqn:E; [destruct (rev a); discriminate E|].
  change (47 =? 47) with true. cbv iota. rewrite <- E.
  rewrite scan_back_pass; [|discriminate|intros c Hc; apply Ha, in_rev; exact Hc].
  rewrite rev_involutive. cbn [scan_back]. destruct (rev p); reflexivity.
Qed.

(** fewer than two '/' after the first byte: the first byte is dropped, whatever it is *)
Theorem source_file_short c file :
  (forall a b, file <> a ++ 47 :: b) \/ (exists a b, file = a ++ 47 :: b /\ (forall x, In x a -> x <> 47) /\ (forall x, In x b -> x <> 47)) ->
  source_file (c :: file) = file.
Proof.
  unfold source_file. cbn [rev]. intros [Hno|(a & b & -> & Ha & Hb)].
  - assert (Hf : forall x, In x (rev file) -> x <> 47).
    { intros x Hx ->. apply in_rev in Hx. apply in_split in Hx as (l1 & l2 & E). exact (Hno _ _ E). }
    rewrite scan_back_pass; [|discriminate|exact Hf]. rewrite rev_involutive, app_nil_r. reflexivity.
  - replace (rev (a ++ 47 :: b) ++ [c]) with (rev b ++ 47 :: rev a ++ [c]).
    2:{ rewrite rev_app_distr. cbn [rev]. repeat rewrite <- app_assoc. reflexivity. }
    rewrite scan_back_pass; [|discriminate|intros x Hx; apply Hb, in_rev; exact Hx].
    rewrite rev_involutive, app_nil_r. cbn [scan_back].
    destruct (rev a ++ [c]) as [|d u] eqn:E; [destruct (rev a); discriminate E|].
    change (47 =? 47) with true. cbv iota. rewrite <- E.
    rewrite scan_back_pass; [|discriminate|intros x Hx; apply Ha, in_rev; exact Hx].
    rewrite rev_involutive. reflexivity.
Qed.
