(** Soundness of the lock discipline: a table that passes [check_discipline] has no
    reachable race, for every number of threads and every interleaving. *)
From Coq Require Import List Bool Arith String.
Import ListNotations.
From Glb Require Import Lib.Lockset.
Open Scope string_scope.

(** ** remove_first *)
Lemma remove_first_In : forall A (p : A -> bool) l l' x,
  remove_first p l = Some l' -> In x l' -> In x l.
Proof.
  induction l as [|y r IH]; intros l' x H Hin; cbn in H; [discriminate|].
  destruct (p y).
  - inversion H; subst. now right.
  - destruct (remove_first p r) as [r'|] eqn:E; [|discriminate].
    inversion H; subst. destruct Hin as [->|Hin]; [now left|right; eapply IH; eauto].
Qed.

Lemma remove_first_keeps : forall A (p : A -> bool) l l' x,
  remove_first p l = Some l' -> In x l -> p x = false -> In x l'.
Proof.
  induction l as [|y r IH]; intros l' x H Hin Hp; cbn in H; [discriminate|].
  destruct (p y) eqn:Py.
  - inversion H; subst. destruct Hin as [->|Hin]; [congruence|assumption].
  - destruct (remove_first p r) as [r'|] eqn:E; [|discriminate].
    inversion H; subst. destruct Hin as [->|Hin]; [now left|right; eapply IH; eauto].
Qed.

(** ** the invariant *)
Definition ex_alone (hs : list holding) : Prop :=
  forall h1 h2, In h1 hs -> In h2 hs -> hlock h1 = hlock h2 -> hmode h1 = Ex -> hthread h1 = hthread h2.
Definition inside_ok (tbl : table) (s : state) : Prop :=
  forall t a, In (t, a) (inside s) -> In a tbl /\ holds_all (holds s) t (held a) = true.
Definition Inv (tbl : table) (s : state) : Prop := ex_alone (holds s) /\ inside_ok tbl s.

Lemma Inv_init : forall tbl, Inv tbl init.
Proof. intro tbl. split; [intros h1 h2 []|intros t a []]. Qed.

Lemma thread_holds_mono : forall hs hs' t m need,
  (forall h, In h hs -> hthread h = t -> In h hs') ->
  thread_holds hs t m need = true -> thread_holds hs' t m need = true.
Proof.
  intros hs hs' t m need Hsub H. unfold thread_holds in *.
  apply existsb_exists in H. destruct H as [h [Hin Hh]].
  apply existsb_exists. exists h. split; [|exact Hh].
  apply Hsub; [exact Hin|].
  apply andb_true_iff in Hh. destruct Hh as [Hh _]. apply andb_true_iff in Hh. destruct Hh as [Ht _].
  now apply Nat.eqb_eq in Ht.
Qed.

Lemma holds_all_mono : forall hs hs' t req,
  (forall h, In h hs -> hthread h = t -> In h hs') ->
  holds_all hs t req = true -> holds_all hs' t req = true.
Proof.
  intros hs hs' t req Hsub H. unfold holds_all in *.
  rewrite forallb_forall in *. intros p Hp. eapply thread_holds_mono; eauto.
Qed.

Lemma is_inside_In : forall t a ins, In (t, a) ins -> is_inside t ins = true.
Proof.
  intros t a ins H. unfold is_inside. apply existsb_exists. exists (t, a). split; [exact H|].
  cbn. apply Nat.eqb_refl.
Qed.

Lemma Inv_step : forall tbl s l s', Inv tbl s -> step tbl s l = Some s' -> Inv tbl s'.
Proof.
  intros tbl s l s' [Hex Hin] Hstep. destruct l as [t m md|t m|t i|t]; cbn in Hstep.
  - (* Acquire *)
    destruct (negb (is_inside t (inside s)) && compatible (holds s) m md) eqn:E; [|discriminate].
    inversion Hstep; subst; clear Hstep. apply andb_true_iff in E. destruct E as [_ Hc].
    split.
    + cbn. intros h1 h2 H1 H2 Hl He. cbn in H1, H2.
      destruct md; cbn in Hc; rewrite forallb_forall in Hc.
      * (* Sh: no Ex holder on m *)
        destruct H1 as [<-|H1]; [cbn in He; discriminate|].
        destruct H2 as [<-|H2]; [|now apply Hex].
        exfalso. specialize (Hc h1 H1). unfold on_lock in Hc. cbn in Hl. rewrite Hl, String.eqb_refl, He in Hc.
        cbn in Hc. discriminate.
      * (* Ex: nobody on m *)
        destruct H1 as [<-|H1]; destruct H2 as [<-|H2]; [reflexivity| | |now apply Hex]; exfalso.
        -- specialize (Hc h2 H2). unfold on_lock in Hc. cbn in Hl. rewrite <- Hl, String.eqb_refl in Hc.
           cbn in Hc. discriminate.
        -- specialize (Hc h1 H1). unfold on_lock in Hc. cbn in Hl. rewrite Hl, String.eqb_refl in Hc.
           cbn in Hc. discriminate.
    + intros t' a Ha. cbn in Ha. destruct (Hin t' a Ha) as [Ht Hh]. split; [exact Ht|].
      cbn. eapply holds_all_mono; [|exact Hh]. intros h Hh' _. now right.
  - (* Release *)
    destruct (is_inside t (inside s)) eqn:Ei; [discriminate|].
    match type of Hstep with context [remove_first ?p ?l] => destruct (remove_first p l) as [hs|] eqn:E end; [|discriminate].
    inversion Hstep; subst; clear Hstep. split.
    + cbn. intros h1 h2 H1 H2. apply Hex; eapply remove_first_In; eauto.
    + intros t' a Ha. cbn in Ha. destruct (Hin t' a Ha) as [Ht Hh]. split; [exact Ht|].
      cbn. eapply holds_all_mono; [|exact Hh]. intros h Hh' Hth.
      eapply remove_first_keeps; [exact E|exact Hh'|].
      cbn. destruct (Nat.eqb (hthread h) t) eqn:En; [|reflexivity].
      apply Nat.eqb_eq in En. subst t'. rewrite <- En in Ei.
      rewrite (is_inside_In _ _ _ Ha) in Ei. discriminate.
  - (* BeginAcc *)
    destruct (nth_error tbl i) as [a|] eqn:En; [|discriminate].
    destruct (negb (is_inside t (inside s)) && holds_all (holds s) t (held a)) eqn:E; [|discriminate].
    inversion Hstep; subst; clear Hstep. apply andb_true_iff in E. destruct E as [_ Hh].
    split; [exact Hex|].
    intros t' a' Ha. cbn in Ha. destruct Ha as [Heq|Ha].
    + inversion Heq; subst. split; [eapply nth_error_In; eauto|exact Hh].
    + now apply Hin.
  - (* EndAcc *)
    match type of Hstep with context [remove_first ?p ?l] => destruct (remove_first p l) as [ins|] eqn:E end; [|discriminate].
    inversion Hstep; subst; clear Hstep. split; [exact Hex|].
    intros t' a Ha. cbn in Ha. apply Hin. eapply remove_first_In; eauto.
Qed.

Lemma Inv_run : forall tbl ls s s', Inv tbl s -> run tbl s ls = Some s' -> Inv tbl s'.
Proof.
  induction ls as [|l r IH]; intros s s' HI H; cbn in H.
  - inversion H; subst; exact HI.
  - destruct (step tbl s l) as [s1|] eqn:E; [|discriminate].
    eapply IH; [eapply Inv_step; eauto|exact H].
Qed.

Lemma Inv_reachable : forall tbl s, reachable tbl s -> Inv tbl s.
Proof. intros tbl s [ls H]. eapply Inv_run; [apply Inv_init|exact H]. Qed.

(** ** from the boolean discipline to held locks *)
Lemma requires_holds : forall hs t a m need,
  holds_all hs t (held a) = true -> requires a m need = true ->
  exists h, In h hs /\ hthread h = t /\ hlock h = m /\ covers (hmode h) need = true.
Proof.
  intros hs t a m need Hall Hreq. unfold requires in Hreq.
  apply existsb_exists in Hreq. destruct Hreq as [[m' md] [Hin Hp]]. cbn in Hp.
  apply andb_true_iff in Hp. destruct Hp as [Hm Hc]. apply String.eqb_eq in Hm. subst m'.
  unfold holds_all in Hall. rewrite forallb_forall in Hall. specialize (Hall _ Hin). cbn in Hall.
  unfold thread_holds in Hall. apply existsb_exists in Hall. destruct Hall as [h [Hh Hp]].
  apply andb_true_iff in Hp. destruct Hp as [Hp Hc']. apply andb_true_iff in Hp. destruct Hp as [Ht Hl].
  apply Nat.eqb_eq in Ht. apply String.eqb_eq in Hl.
  exists h. repeat split; try assumption.
  destruct need, md, (hmode h); cbn in *; congruence.
Qed.

Lemma covers_Ex : forall md, covers md Ex = true -> md = Ex.
Proof. destruct md; cbn; congruence. Qed.

Lemma guarded_pair_same_thread : forall tbl s t1 a1 t2 a2 m,
  Inv tbl s -> In (t1, a1) (inside s) -> In (t2, a2) (inside s) ->
  write a1 = true -> guarded_by m a1 = true -> guarded_by m a2 = true -> t1 = t2.
Proof.
  intros tbl s t1 a1 t2 a2 m [Hex Hin] H1 H2 Hw G1 G2.
  destruct (Hin _ _ H1) as [_ Hh1]. destruct (Hin _ _ H2) as [_ Hh2].
  unfold guarded_by in G1, G2. rewrite Hw in G1.
  destruct (requires_holds _ _ _ _ _ Hh1 G1) as [h1 [I1 [T1 [L1 C1]]]].
  destruct (requires_holds _ _ _ _ _ Hh2 G2) as [h2 [I2 [T2 [L2 C2]]]].
  apply covers_Ex in C1. rewrite <- T1, <- T2. apply Hex; try assumption. congruence.
Qed.

Theorem discipline_sound : forall tbl,
  check_discipline tbl = true -> forall s, reachable tbl s -> ~ race s.
Proof.
  intros tbl Hchk s Hreach [t1 [a1 [t2 [a2 [H1 [H2 [Hne Hc]]]]]]].
  pose proof (Inv_reachable _ _ Hreach) as HI.
  destruct HI as [Hex Hin]. destruct (Hin _ _ H1) as [T1 _]. destruct (Hin _ _ H2) as [T2 _].
  unfold conflict in Hc.
  apply andb_true_iff in Hc. destruct Hc as [Hc H].
  apply andb_true_iff in Hc. destruct Hc as [Hc H0].
  apply andb_true_iff in Hc. destruct Hc as [Hc H3].
  apply andb_true_iff in Hc. destruct Hc as [Hc H4].
  apply String.eqb_eq in Hc.
  apply negb_true_iff in H, H0, H3.
  unfold check_discipline in Hchk. rewrite forallb_forall in Hchk.
  pose proof (Hchk _ T1) as K. rewrite H0 in K. cbn in K.
  unfold loc_ok in K.
  assert (F1 : In a1 (filter (at_loc (loc a1)) tbl)).
  { apply filter_In. split; [exact T1|]. unfold at_loc. rewrite H0, String.eqb_refl. reflexivity. }
  assert (F2 : In a2 (filter (at_loc (loc a1)) tbl)).
  { apply filter_In. split; [exact T2|]. unfold at_loc. rewrite H, Hc, String.eqb_refl. reflexivity. }
  apply orb_true_iff in K. destruct K as [K|K]; [apply orb_true_iff in K; destruct K as [K|K]|].
  - (* all atomic *)
    rewrite forallb_forall in K. rewrite (K _ F1), (K _ F2) in H3. discriminate.
  - (* never written *)
    rewrite forallb_forall in K. pose proof (K _ F1) as W1. pose proof (K _ F2) as W2.
    apply negb_true_iff in W1, W2. rewrite W1, W2 in H4. discriminate.
  - (* one lock *)
    apply existsb_exists in K. destruct K as [m [_ K]]. rewrite forallb_forall in K.
    pose proof (K _ F1) as G1. pose proof (K _ F2) as G2.
    apply orb_true_iff in H4. destruct H4 as [W|W].
    + apply Hne. exact (guarded_pair_same_thread tbl s t1 a1 t2 a2 m (conj Hex Hin) H1 H2 W G1 G2).
    + apply Hne. symmetry. exact (guarded_pair_same_thread tbl s t2 a2 t1 a1 m (conj Hex Hin) H2 H1 W G2 G1).
Qed.

(** the boolean race test agrees with [race] *)
Lemma race_b_iff : forall s, race_b s = true <-> race s.
Proof.
  intro s. unfold race_b, race. split.
  - intro H. apply existsb_exists in H. destruct H as [[t1 a1] [H1 H]].
    apply existsb_exists in H. destruct H as [[t2 a2] [H2 H]]. cbn in H.
    apply andb_true_iff in H. destruct H as [Hn Hc].
    exists t1, a1, t2, a2. repeat split; try assumption.
    intro; subst. rewrite Nat.eqb_refl in Hn. discriminate.
  - intros [t1 [a1 [t2 [a2 [H1 [H2 [Hne Hc]]]]]]].
    apply existsb_exists. exists (t1, a1). split; [exact H1|].
    apply existsb_exists. exists (t2, a2). split; [exact H2|]. cbn.
    rewrite Hc. apply Nat.eqb_neq in Hne. rewrite Hne. reflexivity.
Qed.

(** restricting a table to a scope keeps the theorem applicable: it is just another table *)
Corollary discipline_sound_scoped : forall scope ign tbl,
  check_discipline (restrict scope ign tbl) = true ->
  forall s, reachable (restrict scope ign tbl) s -> ~ race s.
Proof. intros scope ign tbl. apply discipline_sound. Qed.

(** ** Non-vacuity *)
Definition good_tbl : table :=
  [ mkAcc "New" "n" true false [] true;
    mkAcc "Add" "n" true false [("mu", Ex)] false;
    mkAcc "Get" "n" false false [("mu", Sh)] false;
    mkAcc "Add" "hits" true true [] false;
    mkAcc "Get" "hits" false true [] false;
    mkAcc "Get" "cfg" false false [] false ].

Example good_tbl_checks : check_discipline good_tbl = true.
Proof. vm_compute. reflexivity. Qed.

(** two readers and two atomic accesses really are inside at the same time, and a writer gets in after
    the readers left: the theorem is not about an empty set of runs *)
Example good_tbl_run :
  exists s, run good_tbl init
      [Acquire 1 "mu" Sh; Acquire 2 "mu" Sh; BeginAcc 1 2; BeginAcc 2 2; BeginAcc 3 3; BeginAcc 4 4] = Some s
    /\ List.length (inside s) = 4 /\ race_b s = false.
Proof. eexists. split; [vm_compute; reflexivity|split; vm_compute; reflexivity]. Qed.
Example good_tbl_run2 :
  exists s, run good_tbl init
      [Acquire 1 "mu" Sh; BeginAcc 1 2; EndAcc 1; Release 1 "mu"; Acquire 3 "mu" Ex; BeginAcc 3 1] = Some s
    /\ List.length (inside s) = 1.
Proof. eexists. split; vm_compute; reflexivity. Qed.
Example good_tbl_writer_excluded :
  run good_tbl init [Acquire 1 "mu" Sh; Acquire 3 "mu" Ex] = None.
Proof. vm_compute. reflexivity. Qed.

(** the TaskLane.lastPanic defect of the pinned commit: plain write in startWorker, plain read in Status *)
Definition bad_tbl : table :=
  [ mkAcc "startWorker" "lastPanic" true false [] false;
    mkAcc "Status" "lastPanic" false false [] false;
    mkAcc "Status" "blockingTaskCnt" false true [] false ].

Example bad_tbl_fails : check_discipline bad_tbl = false /\ failing_locs bad_tbl = ["lastPanic"].
Proof. split; vm_compute; reflexivity. Qed.

Example race_example :
  exists ls s, run bad_tbl init ls = Some s /\ race s.
Proof.
  exists [BeginAcc 1 0; BeginAcc 2 1]. eexists. split; [vm_compute; reflexivity|].
  apply race_b_iff. vm_compute. reflexivity.
Qed.

(** mixing an atomic write with a plain read fails; a read taken before the lock fails *)
Example mixed_fails :
  check_discipline [mkAcc "A" "x" true true [] false; mkAcc "B" "x" false false [] false] = false.
Proof. vm_compute. reflexivity. Qed.
Example read_before_lock_fails :
  check_discipline [mkAcc "Add" "mode" true false [("mutex", Ex)] false;
                    mkAcc "Contains" "mode" false false [] false;
                    mkAcc "Contains" "mode" false false [("mutex", Sh)] false] = false.
Proof. vm_compute. reflexivity. Qed.
Example write_under_read_lock_fails :
  check_discipline [mkAcc "A" "x" true false [("mu", Sh)] false; mkAcc "B" "x" false false [("mu", Sh)] false] = false.
Proof. vm_compute. reflexivity. Qed.
