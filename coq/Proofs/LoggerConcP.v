(** Lemmas for C02: invariants of the logging LTS under the source discipline. *)
From Coq Require Import List NArith Arith Bool Lia Permutation.
Import ListNotations.
From Glb Require Import Model.LoggerConc.

Lemma updf_eq : forall X (g : nat -> X) i x, updf g i x i = x.
Proof. intros; unfold updf. now rewrite Nat.eqb_refl. Qed.
Lemma updf_neq : forall X (g : nat -> X) i x j, j <> i -> updf g i x j = g j.
Proof. intros; unfold updf. destruct (Nat.eqb_spec j i); congruence. Qed.

Lemma memb_In : forall b l, memb b l = true -> In b l.
Proof.
  intros b l H. unfold memb in H. apply existsb_exists in H as [x [Hx E]].
  apply Nat.eqb_eq in E. now subst.
Qed.

Lemma remove1_In : forall b x l, In x (remove1 b l) -> In x l.
Proof.
  intros b x l; induction l as [|y l IH]; simpl; auto.
  destruct (Nat.eqb_spec y b); simpl; intuition.
Qed.
Lemma remove1_NoDup : forall b l, NoDup l -> NoDup (remove1 b l) /\ ~ In b (remove1 b l).
Proof.
  intros b l H; induction H as [|y l Hy Hl IH]; simpl.
  - split; [constructor | auto].
  - destruct (Nat.eqb_spec y b).
    + subst. auto.
    + destruct IH as [IH1 IH2]. split.
      * constructor; auto. intro Hin. apply Hy. eapply remove1_In; eauto.
      * simpl. intuition.
Qed.

(** the flags that satisfy the discipline: everything on; dropping oversized buffers is free *)
Definition gf (d : bool) : cflags := mkCF true true true true d true true true.
Lemma discipline_gf : forall f, discipline f = true -> f = gf (drops_oversized f).
Proof.
  intros [a b c d e g h i]; unfold discipline; simpl; intro H.
  repeat (apply andb_prop in H as [H ?]); subst; reflexivity.
Qed.

Lemma NoDup_app_snoc : forall (l : list nat) b, NoDup l -> ~ In b l -> NoDup (l ++ [b]).
Proof.
  intros l b Hnd Hb. induction Hnd as [|x l Hx Hl IH]; simpl.
  - constructor; [intros [] | constructor].
  - constructor.
    + rewrite in_app_iff; simpl. intros [H | [H | []]]; [contradiction | subst; apply Hb; left; reflexivity].
    + apply IH. intro; apply Hb; right; assumption.
Qed.

Section ConcP.
  Variables D R : Type.
  Variable line : list D -> R -> list N.
  Variable enabled : R -> bool.
  Variable grow : N -> N -> N.

  Local Notation instr := (LoggerConc.instr D R).
  Local Notation thread := (LoggerConc.thread D R).
  Local Notation state := (LoggerConc.state D R).
  Local Notation mkThread := (LoggerConc.mkThread D R).
  Local Notation mkState := (LoggerConc.mkState D R).
  Local Notation step := (LoggerConc.step D R line enabled grow).
  Local Notation run := (LoggerConc.run D R line enabled grow).
  Local Notation set_thr := (LoggerConc.set_thr D R).
  Local Notation lines_of := (LoggerConc.lines_of D R line enabled).
  Local Notation expected := (LoggerConc.expected D R line enabled).
  Local Notation init := (LoggerConc.init D R).
  Local Notation finished := (LoggerConc.finished D R).
  Local Notation format_buf := (LoggerConc.format_buf grow).

  (** the transitions of the disciplined model, one constructor per label shape *)
  Inductive Step (d : bool) (s : state) : label -> state -> Prop :=
  | SDerive : forall t c dd rest, t < nthr _ _ s -> thr _ _ s t = mkThread (IDerive c dd :: rest) (Idle) ->
      Step d s (LDerive t) (set_thr s t (mkThread rest Idle))
  | SGateOn : forall t c r rest, t < nthr _ _ s -> thr _ _ s t = mkThread (ILog c r :: rest) Idle -> enabled r = true ->
      Step d s (LGate t) (set_thr s t (mkThread (ILog c r :: rest) (Gated true)))
  | SGateOff : forall t c r rest, t < nthr _ _ s -> thr _ _ s t = mkThread (ILog c r :: rest) Idle -> enabled r = false ->
      Step d s (LGate t) (set_thr s t (mkThread rest Idle))
  | SGetPool : forall t td w b, t < nthr _ _ s -> thr _ _ s t = mkThread td (Gated w) -> In b (pool _ _ s) ->
      Step d s (LPoolGet t (Some b))
        (mkState (nthr _ _ s) (updf (thr _ _ s) t (mkThread td (Got w b))) (nbufs _ _ s) (bufs _ _ s)
                 (remove1 b (pool _ _ s)) (mus _ _ s) (dest _ _ s))
  | SGetNew : forall t td w, t < nthr _ _ s -> thr _ _ s t = mkThread td (Gated w) ->
      Step d s (LPoolGet t None)
        (mkState (nthr _ _ s) (updf (thr _ _ s) t (mkThread td (Got w (nbufs _ _ s)))) (S (nbufs _ _ s))
                 (updf (bufs _ _ s) (nbufs _ _ s) init_buf) (pool _ _ s) (mus _ _ s) (dest _ _ s))
  | SFormat : forall t c r rest w b, t < nthr _ _ s -> thr _ _ s t = mkThread (ILog c r :: rest) (Got w b) ->
      Step d s (LFormat t)
        (mkState (nthr _ _ s) (updf (thr _ _ s) t (mkThread (ILog c r :: rest) (Fmt w b))) (nbufs _ _ s)
                 (updf (bufs _ _ s) b (format_buf (bufs _ _ s b) (line c r))) (pool _ _ s) (mus _ _ s) (dest _ _ s))
  | SLock : forall t c r rest b, t < nthr _ _ s -> thr _ _ s t = mkThread (ILog c r :: rest) (Fmt true b) -> mus _ _ s 0 = None ->
      Step d s (LLock t)
        (mkState (nthr _ _ s) (updf (thr _ _ s) t (mkThread (ILog c r :: rest) (Lck b 0))) (nbufs _ _ s) (bufs _ _ s)
                 (pool _ _ s) (updf (mus _ _ s) 0 (Some t)) (dest _ _ s))
  | SWBegin : forall t td b, t < nthr _ _ s -> thr _ _ s t = mkThread td (Lck b 0) ->
      Step d s (LWriteBegin t) (set_thr s t (mkThread td (InW b 0)))
  | SWEnd : forall t td b k, t < nthr _ _ s -> thr _ _ s t = mkThread td (InW b k) ->
      Step d s (LWriteEnd t)
        (mkState (nthr _ _ s) (updf (thr _ _ s) t (mkThread td (Lck b (S k)))) (nbufs _ _ s) (bufs _ _ s) (pool _ _ s) (mus _ _ s)
                 (dest _ _ s ++ [nth k [bdata (bufs _ _ s b)] []]))
  | SUnlock : forall t c r rest b, t < nthr _ _ s -> thr _ _ s t = mkThread (ILog c r :: rest) (Lck b 1) ->
      Step d s (LUnlock t)
        (mkState (nthr _ _ s) (updf (thr _ _ s) t (mkThread (ILog c r :: rest) (Unl b))) (nbufs _ _ s) (bufs _ _ s) (pool _ _ s)
                 (updf (mus _ _ s) 0 None) (dest _ _ s))
  | SPut : forall t i rest p b, t < nthr _ _ s -> thr _ _ s t = mkThread (i :: rest) p -> (p = Unl b \/ p = Fmt false b) ->
      Step d s (LPoolPut t)
        (mkState (nthr _ _ s) (updf (thr _ _ s) t (mkThread rest Idle)) (nbufs _ _ s)
                 (updf (bufs _ _ s) b (mkBuf [] (bcap (bufs _ _ s b)))) (pool _ _ s ++ [b]) (mus _ _ s) (dest _ _ s))
  | SDrop : forall t i rest p b, t < nthr _ _ s -> thr _ _ s t = mkThread (i :: rest) p -> (p = Unl b \/ p = Fmt false b) ->
      Step d s (LDrop t) (set_thr s t (mkThread rest Idle)).

  Lemma step_Step : forall d s l s', step (gf d) s l = Some s' -> Step d s l s'.
  Proof.
    intros d s l s' H. unfold LoggerConc.step in H.
    destruct (actor l <? nthr _ _ s) eqn:Elt; simpl in H; [| discriminate].
    apply Nat.ltb_lt in Elt.
    destruct (thr _ _ s (actor l)) as [td p] eqn:Eth. simpl in H.
    destruct l as [t|t|t src|t|t|t|t|t|t|t]; simpl in Elt, Eth, H.
    - destruct p; try discriminate. destruct td as [|[c r|c dd] rest]; try discriminate.
      inversion H; subst. eapply SDerive; eauto.
    - destruct p; try discriminate. destruct td as [|[c r|c dd] rest]; try discriminate.
      destruct (enabled r) eqn:Een; inversion H; subst.
      + eapply SGateOn; eauto.
      + eapply SGateOff; eauto.
    - destruct src as [b|].
      + destruct p; try discriminate. destruct (memb b (pool _ _ s)) eqn:Em; [| discriminate].
        inversion H; subst. eapply SGetPool; eauto using memb_In.
      + destruct p; try discriminate. inversion H; subst. eapply SGetNew; eauto.
    - destruct p; try discriminate. destruct td as [|[c r|c dd] rest]; try discriminate.
      inversion H; subst. eapply SFormat; eauto.
    - destruct p as [| | |w b| | |]; try discriminate. destruct w; try discriminate.
      destruct td as [|[c r|c dd] rest]; try discriminate.
      unfold mu_of in H; simpl in H. destruct (mus _ _ s 0) eqn:Em; [discriminate|].
      inversion H; subst. eapply SLock; eauto.
    - destruct p as [| | | |b k| |]; try discriminate. unfold chunks in H; simpl in H.
      destruct k as [|k]; simpl in H; [| discriminate].
      inversion H; subst. eapply SWBegin; eauto.
    - destruct p as [| | | | |b k|]; try discriminate. unfold chunks in H; simpl in H.
      inversion H; subst. eapply SWEnd; eauto.
    - destruct p as [| | | |b k| |]; try discriminate. destruct td as [|[c r|c dd] rest]; try discriminate.
      unfold chunks in H; simpl in H. destruct (Nat.eqb_spec k 1); [| discriminate]. subst k.
      unfold mu_of in H; simpl in H. inversion H; subst. eapply SUnlock; eauto.
    - destruct p as [| | |w b| | |b]; try discriminate.
      + destruct w; [discriminate|]. destruct td as [|i rest]; [discriminate|]. simpl in H.
        destruct (negb d || (bcap (bufs _ _ s b) <=? max_buf)%N); [| discriminate].
        inversion H; subst. eapply SPut; eauto.
      + destruct td as [|i rest]; [discriminate|]. simpl in H.
        destruct (negb d || (bcap (bufs _ _ s b) <=? max_buf)%N); [| discriminate].
        inversion H; subst. eapply SPut; eauto.
    - destruct p as [| | |w b| | |b]; try discriminate.
      + destruct w; [discriminate|]. destruct td as [|i rest]; [discriminate|]. simpl in H.
        destruct (d && (max_buf <? bcap (bufs _ _ s b))%N); [| discriminate].
        inversion H; subst. eapply SDrop; eauto.
      + destruct td as [|i rest]; [discriminate|]. simpl in H.
        destruct (d && (max_buf <? bcap (bufs _ _ s b))%N); [| discriminate].
        inversion H; subst. eapply SDrop; eauto.
  Qed.

  (** *** invariants *)
  Definition holds (p : phase) : option nat :=
    match p with Got _ b | Fmt _ b | Lck b _ | InW b _ | Unl b => Some b | _ => None end.
  Definition locked (p : phase) : bool := match p with Lck _ _ | InW _ _ => true | _ => false end.
  Definition wflag (p : phase) : bool := match p with Gated w | Got w _ | Fmt w _ => w | _ => true end.
  Definition want_data (th : thread) : option (list N) :=
    match ph _ _ th with
    | Got _ _ => Some []
    | Fmt _ _ | Lck _ _ | InW _ _ | Unl _ => match todo _ _ th with ILog c r :: _ => Some (line c r) | _ => None end
    | _ => None
    end.

  Record Inv (s : state) : Prop := {
    i_head : forall t, ph _ _ (thr _ _ s t) <> Idle ->
             exists c r rest, todo _ _ (thr _ _ s t) = ILog c r :: rest /\ enabled r = true;
    i_w : forall t, wflag (ph _ _ (thr _ _ s t)) = true;
    i_own : forall t b, holds (ph _ _ (thr _ _ s t)) = Some b ->
            b < nbufs _ _ s /\ ~ In b (pool _ _ s)
            /\ (forall t', t' <> t -> holds (ph _ _ (thr _ _ s t')) <> Some b)
            /\ want_data (thr _ _ s t) = Some (bdata (bufs _ _ s b));
    i_pool : NoDup (pool _ _ s) /\ forall b, In b (pool _ _ s) -> b < nbufs _ _ s /\ bdata (bufs _ _ s b) = [];
    i_mu : forall t, locked (ph _ _ (thr _ _ s t)) = true -> mus _ _ s 0 = Some t;
    i_k : forall t b k, (ph _ _ (thr _ _ s t) = Lck b k -> k <= 1) /\ (ph _ _ (thr _ _ s t) = InW b k -> k = 0)
  }.

  Lemma Inv_init : forall prog, Inv (init prog).
  Proof.
    intros prog. constructor; simpl; intros; try congruence; try discriminate; auto.
    - split; [constructor | intros b []].
    - split; intros; discriminate.
  Qed.

  Ltac upd_cases t' t :=
    unfold set_thr; simpl;
    destruct (Nat.eq_dec t' t) as [->|Hdiff];
    [rewrite ?updf_eq | repeat rewrite (updf_neq _ (thr D R _) t _ t' Hdiff)].

  Lemma Step_Inv : forall d s l s', Inv s -> Step d s l s' -> Inv s'.
  Proof.
    intros d s l s' [Hhead Hw Hown [Hnd Hpool] Hmu Hk] HS.
    destruct HS as [t c dd rest Hlt Eth | t c r rest Hlt Eth Een | t c r rest Hlt Eth Een
                   | t td w b Hlt Eth Hin | t td w Hlt Eth | t c r rest w b Hlt Eth
                   | t c r rest b Hlt Eth Hfree | t td b Hlt Eth | t td b k Hlt Eth
                   | t c r rest b Hlt Eth | t i rest p b Hlt Eth Hp | t i rest p b Hlt Eth Hp].
    - (* Derive *)
      constructor; simpl.
      + intros t'. upd_cases t' t; simpl; [congruence | apply Hhead].
      + intros t'. upd_cases t' t; simpl; [reflexivity | apply Hw].
      + intros t' b. upd_cases t' t; simpl; [discriminate|]. intros Hb.
        destruct (Hown t' b Hb) as (H1 & H2 & H3 & H4). repeat split; auto.
        intros t'' Hne. unfold updf. destruct (Nat.eqb_spec t'' t); simpl; [discriminate | auto].
      + split; auto.
      + intros t'. upd_cases t' t; simpl; [discriminate | apply Hmu].
      + intros t' b k. upd_cases t' t; simpl; [split; discriminate | apply Hk].
    - (* Gate, enabled *)
      constructor; simpl.
      + intros t'. upd_cases t' t; simpl; [intros _; eauto | apply Hhead].
      + intros t'. upd_cases t' t; simpl; [reflexivity | apply Hw].
      + intros t' b. upd_cases t' t; simpl; [discriminate|]. intros Hb.
        destruct (Hown t' b Hb) as (H1 & H2 & H3 & H4). repeat split; auto.
        intros t'' Hne. unfold updf. destruct (Nat.eqb_spec t'' t); simpl; [discriminate | auto].
      + split; auto.
      + intros t'. upd_cases t' t; simpl; [discriminate | apply Hmu].
      + intros t' b k. upd_cases t' t; simpl; [split; discriminate | apply Hk].
    - (* Gate, disabled *)
      constructor; simpl.
      + intros t'. upd_cases t' t; simpl; [congruence | apply Hhead].
      + intros t'. upd_cases t' t; simpl; [reflexivity | apply Hw].
      + intros t' b. upd_cases t' t; simpl; [discriminate|]. intros Hb.
        destruct (Hown t' b Hb) as (H1 & H2 & H3 & H4). repeat split; auto.
        intros t'' Hne. unfold updf. destruct (Nat.eqb_spec t'' t); simpl; [discriminate | auto].
      + split; auto.
      + intros t'. upd_cases t' t; simpl; [discriminate | apply Hmu].
      + intros t' b k. upd_cases t' t; simpl; [split; discriminate | apply Hk].
    - (* PoolGet from the pool *)
      pose proof (Hhead t) as Hh. pose proof (Hw t) as Hwt. rewrite Eth in Hh, Hwt; simpl in Hh, Hwt. subst w.
      destruct (Hpool b Hin) as [Hb1 Hb2]. destruct (remove1_NoDup b _ Hnd) as [Hnd' Hnotin].
      assert (forall t', holds (ph _ _ (thr _ _ s t')) <> Some b) as Hnobody.
      { intros t' Hb. destruct (Hown t' b Hb) as (_ & H2 & _). contradiction. }
      constructor; simpl.
      + intros t'. upd_cases t' t; simpl; [intros _; apply Hh; discriminate | apply Hhead].
      + intros t'. upd_cases t' t; simpl; [reflexivity | apply Hw].
      + intros t' b'. upd_cases t' t; simpl.
        * intros Hb; inversion Hb; subst b'. repeat split; auto.
          -- intros t'' Hne. unfold updf. destruct (Nat.eqb_spec t'' t); [contradiction | apply Hnobody].
          -- rewrite Hb2. reflexivity.
        * intros Hb. destruct (Hown t' b' Hb) as (H1 & H2 & H3 & H4). repeat split; auto.
          -- intro Hin'. apply H2. eapply remove1_In; eauto.
          -- intros t'' Hne. unfold updf. destruct (Nat.eqb_spec t'' t); simpl; [| auto].
             intro E; inversion E; subst b'. exact (Hnobody t' Hb).
      + split; auto. intros b' Hin'. apply Hpool. eapply remove1_In; eauto.
      + intros t'. upd_cases t' t; simpl; [discriminate | apply Hmu].
      + intros t' b' k. upd_cases t' t; simpl; [split; discriminate | apply Hk].
    - (* PoolGet, fresh buffer *)
      pose proof (Hhead t) as Hh. pose proof (Hw t) as Hwt. rewrite Eth in Hh, Hwt; simpl in Hh, Hwt. subst w.
      constructor; simpl.
      + intros t'. upd_cases t' t; simpl; [intros _; apply Hh; discriminate | apply Hhead].
      + intros t'. upd_cases t' t; simpl; [reflexivity | apply Hw].
      + intros t' b'. upd_cases t' t; simpl.
        * intros Hb; inversion Hb; subst b'. repeat split; auto.
          -- intro Hin. apply Hpool in Hin. lia.
          -- intros t'' Hne. unfold updf. destruct (Nat.eqb_spec t'' t); [contradiction|].
             intro Hb'. apply Hown in Hb'. lia.
          -- rewrite updf_eq. reflexivity.
        * intros Hb. destruct (Hown t' b' Hb) as (H1 & H2 & H3 & H4). repeat split; auto.
          -- intros t'' Hne. unfold updf at 1. destruct (Nat.eqb_spec t'' t); simpl; [| auto].
             intro E; inversion E. lia.
          -- rewrite updf_neq by lia. exact H4.
      + split; auto. intros b' Hin'. destruct (Hpool b' Hin'). split; [lia|]. rewrite updf_neq by lia. auto.
      + intros t'. upd_cases t' t; simpl; [discriminate | apply Hmu].
      + intros t' b' k. upd_cases t' t; simpl; [split; discriminate | apply Hk].
    - (* Format *)
      pose proof (Hhead t) as Hh. pose proof (Hw t) as Hwt. rewrite Eth in Hh, Hwt; simpl in Hh, Hwt. subst w.
      assert (holds (ph _ _ (thr _ _ s t)) = Some b) as Hb0 by (rewrite Eth; reflexivity).
      destruct (Hown t b Hb0) as (Hb1 & Hb2 & Hb3 & Hb4).
      unfold want_data in Hb4; rewrite Eth in Hb4; simpl in Hb4. inversion Hb4 as [Hdata].
      constructor; simpl.
      + intros t'. upd_cases t' t; simpl; [intros _; apply Hh; discriminate | apply Hhead].
      + intros t'. upd_cases t' t; simpl; [reflexivity | apply Hw].
      + intros t' b'. upd_cases t' t; simpl.
        * intros Hb; inversion Hb; subst b'. repeat split; auto.
          -- intros t'' Hne. unfold updf. destruct (Nat.eqb_spec t'' t); [contradiction | auto].
          -- rewrite updf_eq. unfold want_data; simpl. rewrite <- Hdata. reflexivity.
        * intros Hb. destruct (Hown t' b' Hb) as (H1 & H2 & H3 & H4). repeat split; auto.
          -- intros t'' Hne. unfold updf. destruct (Nat.eqb_spec t'' t); simpl; [| auto].
             intro E; inversion E; subst b'. exact (Hb3 t' Hdiff Hb).
          -- rewrite updf_neq; [exact H4|]. intro; subst b'. exact (Hb3 t' Hdiff Hb).
      + split; auto. intros b' Hin'. destruct (Hpool b' Hin'). split; auto.
        rewrite updf_neq; auto. intro; subst; contradiction.
      + intros t'. upd_cases t' t; simpl; [discriminate | apply Hmu].
      + intros t' b' k. upd_cases t' t; simpl; [split; discriminate | apply Hk].
    - (* Lock *)
      pose proof (Hhead t) as Hh. rewrite Eth in Hh; simpl in Hh.
      assert (holds (ph _ _ (thr _ _ s t)) = Some b) as Hb0 by (rewrite Eth; reflexivity).
      destruct (Hown t b Hb0) as (Hb1 & Hb2 & Hb3 & Hb4).
      unfold want_data in Hb4; rewrite Eth in Hb4; simpl in Hb4.
      constructor; simpl.
      + intros t'. upd_cases t' t; simpl; [intros _; apply Hh; discriminate | apply Hhead].
      + intros t'. upd_cases t' t; simpl; [reflexivity | apply Hw].
      + intros t' b'. upd_cases t' t; simpl.
        * intros Hb; inversion Hb; subst b'. repeat split; auto.
          intros t'' Hne. unfold updf. destruct (Nat.eqb_spec t'' t); [contradiction | auto].
        * intros Hb. destruct (Hown t' b' Hb) as (H1 & H2 & H3 & H4). repeat split; auto.
          intros t'' Hne. unfold updf. destruct (Nat.eqb_spec t'' t); simpl; [| auto].
          intro E; inversion E; subst b'. exact (Hb3 t' Hdiff Hb).
      + split; auto.
      + intros t'. upd_cases t' t; simpl; [intros _; rewrite ?updf_eq; reflexivity|].
        intros Hl. apply Hmu in Hl. congruence.
      + intros t' b' k. upd_cases t' t; simpl; [split; intro E; inversion E; lia | apply Hk].
    - (* WriteBegin *)
      pose proof (Hhead t) as Hh. rewrite Eth in Hh; simpl in Hh.
      assert (holds (ph _ _ (thr _ _ s t)) = Some b) as Hb0 by (rewrite Eth; reflexivity).
      destruct (Hown t b Hb0) as (Hb1 & Hb2 & Hb3 & Hb4).
      unfold want_data in Hb4; rewrite Eth in Hb4; simpl in Hb4.
      pose proof (Hmu t) as Hmt. rewrite Eth in Hmt; simpl in Hmt.
      constructor; simpl.
      + intros t'. upd_cases t' t; simpl; [intros _; apply Hh; discriminate | apply Hhead].
      + intros t'. upd_cases t' t; simpl; [reflexivity | apply Hw].
      + intros t' b'. upd_cases t' t; simpl.
        * intros Hb; inversion Hb; subst b'. repeat split; auto.
          intros t'' Hne. unfold updf. destruct (Nat.eqb_spec t'' t); [contradiction | auto].
        * intros Hb. destruct (Hown t' b' Hb) as (H1 & H2 & H3 & H4). repeat split; auto.
          intros t'' Hne. unfold updf. destruct (Nat.eqb_spec t'' t); simpl; [| auto].
          intro E; inversion E; subst b'. exact (Hb3 t' Hdiff Hb).
      + split; auto.
      + intros t'. upd_cases t' t; simpl; [auto | apply Hmu].
      + intros t' b' k. upd_cases t' t; simpl; [split; intro E; inversion E; lia | apply Hk].
    - (* WriteEnd *)
      pose proof (Hhead t) as Hh. rewrite Eth in Hh; simpl in Hh.
      assert (holds (ph _ _ (thr _ _ s t)) = Some b) as Hb0 by (rewrite Eth; reflexivity).
      destruct (Hown t b Hb0) as (Hb1 & Hb2 & Hb3 & Hb4).
      unfold want_data in Hb4; rewrite Eth in Hb4; simpl in Hb4.
      pose proof (Hmu t) as Hmt. rewrite Eth in Hmt; simpl in Hmt.
      destruct (Hk t b k) as [_ Hk0]. rewrite Eth in Hk0; simpl in Hk0. specialize (Hk0 eq_refl). subst k.
      constructor; simpl.
      + intros t'. upd_cases t' t; simpl; [intros _; apply Hh; discriminate | apply Hhead].
      + intros t'. upd_cases t' t; simpl; [reflexivity | apply Hw].
      + intros t' b'. upd_cases t' t; simpl.
        * intros Hb; inversion Hb; subst b'. repeat split; auto.
          intros t'' Hne. unfold updf. destruct (Nat.eqb_spec t'' t); [contradiction | auto].
        * intros Hb. destruct (Hown t' b' Hb) as (H1 & H2 & H3 & H4). repeat split; auto.
          intros t'' Hne. unfold updf. destruct (Nat.eqb_spec t'' t); simpl; [| auto].
          intro E; inversion E; subst b'. exact (Hb3 t' Hdiff Hb).
      + split; auto.
      + intros t'. upd_cases t' t; simpl; [auto | apply Hmu].
      + intros t' b' k. upd_cases t' t; simpl; [split; intro E; inversion E; lia | apply Hk].
    - (* Unlock *)
      pose proof (Hhead t) as Hh. rewrite Eth in Hh; simpl in Hh.
      assert (holds (ph _ _ (thr _ _ s t)) = Some b) as Hb0 by (rewrite Eth; reflexivity).
      destruct (Hown t b Hb0) as (Hb1 & Hb2 & Hb3 & Hb4).
      unfold want_data in Hb4; rewrite Eth in Hb4; simpl in Hb4.
      pose proof (Hmu t) as Hmt. rewrite Eth in Hmt; simpl in Hmt. specialize (Hmt eq_refl).
      constructor; simpl.
      + intros t'. upd_cases t' t; simpl; [intros _; apply Hh; discriminate | apply Hhead].
      + intros t'. upd_cases t' t; simpl; [reflexivity | apply Hw].
      + intros t' b'. upd_cases t' t; simpl.
        * intros Hb; inversion Hb; subst b'. repeat split; auto.
          intros t'' Hne. unfold updf. destruct (Nat.eqb_spec t'' t); [contradiction | auto].
        * intros Hb. destruct (Hown t' b' Hb) as (H1 & H2 & H3 & H4). repeat split; auto.
          intros t'' Hne. unfold updf. destruct (Nat.eqb_spec t'' t); simpl; [| auto].
          intro E; inversion E; subst b'. exact (Hb3 t' Hdiff Hb).
      + split; auto.
      + intros t'. upd_cases t' t; simpl; [discriminate|].
        intros Hl. apply Hmu in Hl. congruence.
      + intros t' b' k. upd_cases t' t; simpl; [split; discriminate | apply Hk].
    - (* PoolPut *)
      assert (holds (ph _ _ (thr _ _ s t)) = Some b) as Hb0 by (rewrite Eth; destruct Hp; subst p; reflexivity).
      destruct (Hown t b Hb0) as (Hb1 & Hb2 & Hb3 & Hb4).
      constructor; simpl.
      + intros t'. upd_cases t' t; simpl; [congruence | apply Hhead].
      + intros t'. upd_cases t' t; simpl; [reflexivity | apply Hw].
      + intros t' b'. upd_cases t' t; simpl; [discriminate|].
        intros Hb. destruct (Hown t' b' Hb) as (H1 & H2 & H3 & H4).
        assert (b' <> b) by (intro; subst b'; exact (Hb3 t' Hdiff Hb)).
        repeat split; auto.
        * rewrite in_app_iff; simpl. intuition.
        * intros t'' Hne. unfold updf. destruct (Nat.eqb_spec t'' t); simpl; [discriminate | auto].
        * rewrite updf_neq by auto. exact H4.
      + split.
        * apply NoDup_app_snoc; auto.
        * intros b' Hin. rewrite in_app_iff in Hin; simpl in Hin. destruct Hin as [Hin | [<- | []]].
          -- destruct (Hpool b' Hin). split; auto. rewrite updf_neq; auto. intro; subst; contradiction.
          -- split; auto. rewrite updf_eq. reflexivity.
      + intros t'. upd_cases t' t; simpl; [discriminate | apply Hmu].
      + intros t' b' k. upd_cases t' t; simpl; [split; discriminate | apply Hk].
    - (* Drop *)
      assert (holds (ph _ _ (thr _ _ s t)) = Some b) as Hb0 by (rewrite Eth; destruct Hp; subst p; reflexivity).
      destruct (Hown t b Hb0) as (Hb1 & Hb2 & Hb3 & Hb4).
      constructor; simpl.
      + intros t'. upd_cases t' t; simpl; [congruence | apply Hhead].
      + intros t'. upd_cases t' t; simpl; [reflexivity | apply Hw].
      + intros t' b'. upd_cases t' t; simpl; [discriminate|]. intros Hb.
        destruct (Hown t' b' Hb) as (H1 & H2 & H3 & H4). repeat split; auto.
        intros t'' Hne. unfold updf. destruct (Nat.eqb_spec t'' t); simpl; [discriminate | auto].
      + split; auto.
      + intros t'. upd_cases t' t; simpl; [discriminate | apply Hmu].
      + intros t' b' k. upd_cases t' t; simpl; [split; discriminate | apply Hk].
  Qed.

  (** *** conservation: what is written + what is still to be written = what the program asks for *)
  Definition pendingW (th : thread) : list (list N) :=
    match ph _ _ th with
    | Lck _ (S _) | InW _ (S _) | Unl _ => lines_of (tl (todo _ _ th))
    | _ => lines_of (todo _ _ th)
    end.
  Definition pendingF (th : thread) : list (list N) :=
    match ph _ _ th with
    | Idle | Gated _ | Got _ _ => lines_of (todo _ _ th)
    | _ => lines_of (tl (todo _ _ th))
    end.
  Definition pend_all (F : thread -> list (list N)) (s : state) : list (list N) :=
    flat_map (fun t => F (thr _ _ s t)) (seq 0 (nthr _ _ s)).

  Lemma fm_upd_notin : forall (F : thread -> list (list N)) g t th' l, ~ In t l ->
    flat_map (fun i => F (updf g t th' i)) l = flat_map (fun i => F (g i)) l.
  Proof.
    intros F g t th' l; induction l as [|x l IH]; simpl; intros Hn; auto.
    rewrite updf_neq by intuition. f_equal. apply IH. intuition.
  Qed.

  Lemma fm_upd : forall (F : thread -> list (list N)) g t th' Xs l, NoDup l -> In t l ->
    Permutation (F (g t)) (Xs ++ F th') ->
    Permutation (flat_map (fun i => F (g i)) l) (Xs ++ flat_map (fun i => F (updf g t th' i)) l).
  Proof.
    intros F g t th' Xs l Hnd; induction Hnd as [|x l Hx Hl IH]; simpl; intros Hin HP; [contradiction|].
    destruct (Nat.eq_dec x t) as [->|Hne].
    - rewrite updf_eq, fm_upd_notin by auto. rewrite app_assoc. apply Permutation_app_tail. exact HP.
    - destruct Hin as [?|Hin]; [contradiction|]. rewrite updf_neq by auto.
      eapply Permutation_trans; [apply Permutation_app_head; apply IH; auto|].
      apply Permutation_app_swap_app.
  Qed.

  Lemma pend_upd : forall F (s : state) t th' Xs, t < nthr _ _ s ->
    Permutation (F (thr _ _ s t)) (Xs ++ F th') ->
    Permutation (pend_all F s) (Xs ++ flat_map (fun i => F (updf (thr _ _ s) t th' i)) (seq 0 (nthr _ _ s))).
  Proof.
    intros. apply fm_upd; auto. apply seq_NoDup. apply in_seq. lia.
  Qed.

  Definition is_wend (l : label) (t : nat) : nat := match l with LWriteEnd t' => if Nat.eqb t t' then 1 else 0 | _ => 0 end.
  Definition is_fmt (l : label) (t : nat) : nat := match l with LFormat t' => if Nat.eqb t t' then 1 else 0 | _ => 0 end.

  Ltac other_thread t' t :=
    destruct (Nat.eq_dec t' t) as [->|Hdiff];
    [rewrite ?updf_eq | repeat rewrite (updf_neq _ (thr D R _) t _ t' Hdiff)].

  Lemma Step_conserve : forall d s l s', Inv s -> Step d s l s' ->
    nthr _ _ s' = nthr _ _ s
    /\ (exists Xs, dest _ _ s' = dest _ _ s ++ Xs /\ Permutation (pend_all pendingW s) (Xs ++ pend_all pendingW s'))
    /\ (forall t, length (pendingW (thr _ _ s t)) = length (pendingW (thr _ _ s' t)) + is_wend l t)
    /\ (forall t, length (pendingF (thr _ _ s t)) = length (pendingF (thr _ _ s' t)) + is_fmt l t).
  Proof.
    intros d s l s' [Hhead Hw Hown [Hnd Hpool] Hmu Hk] HS.
    destruct HS as [t c dd rest Hlt Eth | t c r rest Hlt Eth Een | t c r rest Hlt Eth Een
                   | t td w b Hlt Eth Hin | t td w Hlt Eth | t c r rest w b Hlt Eth
                   | t c r rest b Hlt Eth Hfree | t td b Hlt Eth | t td b k Hlt Eth
                   | t c r rest b Hlt Eth | t i rest p b Hlt Eth Hp | t i rest p b Hlt Eth Hp];
      (split; [reflexivity|]).
    - split; [exists []; rewrite app_nil_r; split; [reflexivity|]; apply (pend_upd pendingW s t _ [] Hlt); rewrite Eth; reflexivity|].
      split; intros t'; simpl; other_thread t' t; rewrite ?Eth; unfold pendingW, pendingF; simpl; lia.
    - split; [exists []; rewrite app_nil_r; split; [reflexivity|]; apply (pend_upd pendingW s t _ [] Hlt); rewrite Eth; reflexivity|].
      split; intros t'; simpl; other_thread t' t; rewrite ?Eth; unfold pendingW, pendingF; simpl; lia.
    - split; [exists []; rewrite app_nil_r; split; [reflexivity|]; apply (pend_upd pendingW s t _ [] Hlt); rewrite Eth;
              unfold pendingW; simpl; rewrite Een; reflexivity|].
      split; intros t'; simpl; other_thread t' t; rewrite ?Eth; unfold pendingW, pendingF; simpl; rewrite ?Een; simpl; lia.
    - split; [exists []; rewrite app_nil_r; split; [reflexivity|]; apply (pend_upd pendingW s t _ [] Hlt); rewrite Eth; reflexivity|].
      split; intros t'; simpl; other_thread t' t; rewrite ?Eth; unfold pendingW, pendingF; simpl; lia.
    - split; [exists []; rewrite app_nil_r; split; [reflexivity|]; apply (pend_upd pendingW s t _ [] Hlt); rewrite Eth; reflexivity|].
      split; intros t'; simpl; other_thread t' t; rewrite ?Eth; unfold pendingW, pendingF; simpl; lia.
    - (* Format *)
      pose proof (Hhead t) as Hh. rewrite Eth in Hh; simpl in Hh.
      destruct (Hh ltac:(discriminate)) as (c0 & r0 & rest0 & E0 & Een). inversion E0; subst c0 r0 rest0.
      split; [exists []; rewrite app_nil_r; split; [reflexivity|]; apply (pend_upd pendingW s t _ [] Hlt); rewrite Eth; reflexivity|].
      split; intros t'; simpl; other_thread t' t; rewrite ?Eth; unfold pendingW, pendingF; simpl; rewrite ?Een, ?Nat.eqb_refl; simpl; try lia.
      destruct (Nat.eqb_spec t' t); [contradiction | lia].
    - split; [exists []; rewrite app_nil_r; split; [reflexivity|]; apply (pend_upd pendingW s t _ [] Hlt); rewrite Eth; reflexivity|].
      split; intros t'; simpl; other_thread t' t; rewrite ?Eth; unfold pendingW, pendingF; simpl; lia.
    - split; [exists []; rewrite app_nil_r; split; [reflexivity|]; apply (pend_upd pendingW s t _ [] Hlt); rewrite Eth; reflexivity|].
      split; intros t'; simpl; other_thread t' t; rewrite ?Eth; unfold pendingW, pendingF; simpl; lia.
    - (* WriteEnd: the chunk is the record's line *)
      pose proof (Hhead t) as Hh. rewrite Eth in Hh; simpl in Hh.
      destruct (Hh ltac:(discriminate)) as (c & r & rest & E0 & Een). subst td.
      assert (holds (ph _ _ (thr _ _ s t)) = Some b) as Hb0 by (rewrite Eth; reflexivity).
      destruct (Hown t b Hb0) as (_ & _ & _ & Hb4).
      unfold want_data in Hb4; rewrite Eth in Hb4; simpl in Hb4. inversion Hb4 as [Hdata].
      destruct (Hk t b k) as [_ Hk0]. rewrite Eth in Hk0; simpl in Hk0. specialize (Hk0 eq_refl). subst k.
      split; [exists [line c r]; split; [simpl; congruence|];
              apply (pend_upd pendingW s t _ [line c r] Hlt); rewrite Eth; unfold pendingW; simpl; rewrite Een; reflexivity|].
      split; intros t'; simpl; other_thread t' t; rewrite ?Eth; unfold pendingW, pendingF; simpl; rewrite ?Een, ?Nat.eqb_refl; simpl; try lia.
      destruct (Nat.eqb_spec t' t); [contradiction | lia].
    - split; [exists []; rewrite app_nil_r; split; [reflexivity|]; apply (pend_upd pendingW s t _ [] Hlt); rewrite Eth; reflexivity|].
      split; intros t'; simpl; other_thread t' t; rewrite ?Eth; unfold pendingW, pendingF; simpl; lia.
    - (* PoolPut *)
      pose proof (Hw t) as Hwt. rewrite Eth in Hwt; simpl in Hwt.
      destruct Hp as [-> | ->]; [| simpl in Hwt; discriminate].
      split; [exists []; rewrite app_nil_r; split; [reflexivity|]; apply (pend_upd pendingW s t _ [] Hlt); rewrite Eth; reflexivity|].
      split; intros t'; simpl; other_thread t' t; rewrite ?Eth; unfold pendingW, pendingF; simpl; lia.
    - (* Drop *)
      pose proof (Hw t) as Hwt. rewrite Eth in Hwt; simpl in Hwt.
      destruct Hp as [-> | ->]; [| simpl in Hwt; discriminate].
      split; [exists []; rewrite app_nil_r; split; [reflexivity|]; apply (pend_upd pendingW s t _ [] Hlt); rewrite Eth; reflexivity|].
      split; intros t'; simpl; other_thread t' t; rewrite ?Eth; unfold pendingW, pendingF; simpl; lia.
  Qed.

  (** *** Write calls never overlap *)
  Definition isInW (p : phase) : bool := match p with InW _ _ => true | _ => false end.
  Definition wokf (g : nat -> thread) (cur : option nat) : Prop :=
    forall t, isInW (ph _ _ (g t)) = true <-> cur = Some t.
  Definition mon_step (cur : option nat) (l : label) : option (option nat) :=
    match l with
    | LWriteBegin t => match cur with None => Some (Some t) | Some _ => None end
    | LWriteEnd t => match cur with Some t' => if Nat.eqb t t' then Some None else None | None => None end
    | _ => Some cur
    end.
  Lemma no_overlap_step : forall cur l r,
    no_overlap cur (l :: r) = match mon_step cur l with Some c => no_overlap c r | None => false end.
  Proof.
    intros cur l r; destruct l; simpl; try reflexivity; destruct cur; try reflexivity.
    destruct (Nat.eqb t n); reflexivity.
  Qed.

  Lemma wokf_upd : forall g cur t th', wokf g cur ->
    isInW (ph _ _ (g t)) = false -> isInW (ph _ _ th') = false -> wokf (updf g t th') cur.
  Proof.
    intros g cur t th' H H1 H2 t'. destruct (Nat.eq_dec t' t) as [->|Hne].
    - rewrite updf_eq. split; [congruence|]. intro E. apply H in E. congruence.
    - rewrite updf_neq by auto. apply H.
  Qed.

  Lemma Step_overlap : forall d s l s' cur, Inv s -> wokf (thr _ _ s) cur -> Step d s l s' ->
    exists cur', mon_step cur l = Some cur' /\ wokf (thr _ _ s') cur'.
  Proof.
    intros d s l s' cur [Hhead Hw Hown [Hnd Hpool] Hmu Hk] Hwok HS.
    destruct HS as [t c dd rest Hlt Eth | t c r rest Hlt Eth Een | t c r rest Hlt Eth Een
                   | t td w b Hlt Eth Hin | t td w Hlt Eth | t c r rest w b Hlt Eth
                   | t c r rest b Hlt Eth Hfree | t td b Hlt Eth | t td b k Hlt Eth
                   | t c r rest b Hlt Eth | t i rest p b Hlt Eth Hp | t i rest p b Hlt Eth Hp]; simpl;
      try (eexists; split; [reflexivity|]; apply wokf_upd; auto; rewrite Eth; reflexivity).
    - (* WriteBegin: nobody else is inside Write, because the writer-to-be holds the mutex *)
      pose proof (Hmu t) as Hmt. rewrite Eth in Hmt; simpl in Hmt. specialize (Hmt eq_refl).
      destruct cur as [t0|].
      + exfalso. assert (isInW (ph _ _ (thr _ _ s t0)) = true) as H0 by (apply Hwok; reflexivity).
        assert (locked (ph _ _ (thr _ _ s t0)) = true) as Hl by (destruct (ph _ _ (thr _ _ s t0)); simpl in *; congruence).
        apply Hmu in Hl. assert (t0 = t) by congruence. subst t0. rewrite Eth in H0. discriminate.
      + eexists; split; [reflexivity|]. intros t'. destruct (Nat.eq_dec t' t) as [->|Hne].
        * rewrite updf_eq. simpl. split; auto.
        * rewrite updf_neq by auto. split; [intro E; apply Hwok in E; discriminate | intro E; inversion E; congruence].
    - (* WriteEnd *)
      assert (cur = Some t) as -> by (apply Hwok; rewrite Eth; reflexivity).
      rewrite Nat.eqb_refl. eexists; split; [reflexivity|]. intros t'. destruct (Nat.eq_dec t' t) as [->|Hne].
      * rewrite updf_eq. simpl. split; discriminate.
      * rewrite updf_neq by auto. split; [intro E; apply Hwok in E; congruence | discriminate].
    - destruct Hp; subst p; eexists; (split; [reflexivity|]); apply wokf_upd; auto; rewrite Eth; reflexivity.
    - destruct Hp; subst p; eexists; (split; [reflexivity|]); apply wokf_upd; auto; rewrite Eth; reflexivity.
  Qed.

  (** *** whole runs *)
  Lemma count_writes_cons : forall t l ls, count_writes t (l :: ls) = is_wend l t + count_writes t ls.
  Proof. intros t l ls; unfold count_writes; destruct l; simpl; try reflexivity. destruct (Nat.eqb t t0); reflexivity. Qed.
  Lemma count_formats_cons : forall t l ls, count_formats t (l :: ls) = is_fmt l t + count_formats t ls.
  Proof. intros t l ls; unfold count_formats; destruct l; simpl; try reflexivity. destruct (Nat.eqb t t0); reflexivity. Qed.

  Lemma run_all : forall d ls s s' cur, Inv s -> wokf (thr _ _ s) cur -> run (gf d) s ls = Some s' ->
    Inv s' /\ nthr _ _ s' = nthr _ _ s
    /\ (exists Xs, dest _ _ s' = dest _ _ s ++ Xs /\ Permutation (pend_all pendingW s) (Xs ++ pend_all pendingW s'))
    /\ (forall t, length (pendingW (thr _ _ s t)) = length (pendingW (thr _ _ s' t)) + count_writes t ls)
    /\ (forall t, length (pendingF (thr _ _ s t)) = length (pendingF (thr _ _ s' t)) + count_formats t ls)
    /\ no_overlap cur ls = true.
  Proof.
    intros d ls; induction ls as [|l ls IH]; intros s s' cur HI Hwok Hrun; simpl in Hrun.
    - inversion Hrun; subst s'. split; [auto|]. split; [auto|]. split; [exists []; rewrite app_nil_r; auto|].
      repeat split; intros; try (unfold count_writes, count_formats; simpl; lia).
    - destruct (step (gf d) s l) as [s1|] eqn:Es; [| discriminate].
      apply step_Step in Es.
      pose proof (Step_Inv d s l s1 HI Es) as HI1.
      destruct (Step_conserve d s l s1 HI Es) as (Hn1 & (X1 & Hd1 & HP1) & HW1 & HF1).
      destruct (Step_overlap d s l s1 cur HI Hwok Es) as (cur1 & Hm & Hwok1).
      destruct (IH s1 s' cur1 HI1 Hwok1 Hrun) as (HI' & Hn' & (X2 & Hd2 & HP2) & HW2 & HF2 & Hov).
      split; [exact HI'|]. split; [congruence|]. split.
      { exists (X1 ++ X2). split; [rewrite Hd2, Hd1, app_assoc; reflexivity|].
        eapply Permutation_trans; [exact HP1|]. rewrite <- app_assoc. apply Permutation_app_head. exact HP2. }
      split; [intros t; rewrite count_writes_cons, HW1, HW2; lia|].
      split; [intros t; rewrite count_formats_cons, HF1, HF2; lia|].
      rewrite no_overlap_step, Hm. exact Hov.
  Qed.

  Lemma flat_map_nth_seq : forall (F : list instr -> list (list N)) l k,
    flat_map (fun t => F (nth (t - k) l [])) (seq k (length l)) = flat_map F l.
  Proof.
    intros F l; induction l as [|x l IH]; intros k; simpl; [reflexivity|].
    rewrite Nat.sub_diag. f_equal. rewrite <- (IH (S k)).
    rewrite !flat_map_concat_map. f_equal. apply map_ext_in. intros a Ha. apply in_seq in Ha.
    replace (a - k) with (S (a - S k)) by lia. reflexivity.
  Qed.

  Lemma pend_init : forall prog, pend_all pendingW (init prog) = expected prog.
  Proof.
    intros prog. unfold pend_all, LoggerConc.expected; simpl.
    rewrite <- (flat_map_nth_seq lines_of prog 0).
    apply flat_map_ext. intros a. rewrite Nat.sub_0_r. reflexivity.
  Qed.

  Lemma finished_idle : forall s t, finished s = true -> t < nthr _ _ s ->
    ph _ _ (thr _ _ s t) = Idle /\ todo _ _ (thr _ _ s t) = [].
  Proof.
    intros s t Hf Ht. unfold LoggerConc.finished in Hf. rewrite forallb_forall in Hf.
    specialize (Hf t ltac:(apply in_seq; lia)). unfold idle_done in Hf.
    destruct (ph _ _ (thr _ _ s t)); try discriminate. destruct (todo _ _ (thr _ _ s t)); [auto | discriminate].
  Qed.

  Lemma pend_finished : forall s, finished s = true -> pend_all pendingW s = [].
  Proof.
    intros s Hf. unfold pend_all. rewrite flat_map_concat_map.
    assert (forall l, (forall t, In t l -> t < nthr _ _ s) ->
            concat (map (fun t => pendingW (thr _ _ s t)) l) = []) as H.
    { induction l as [|x l IH]; intros Hl; simpl; [reflexivity|].
      destruct (finished_idle s x Hf (Hl x (or_introl eq_refl))) as [Hp Ht].
      unfold pendingW. rewrite Hp, Ht. simpl. apply IH. intros; apply Hl; right; auto. }
    apply H. intros t Ht. apply in_seq in Ht. lia.
  Qed.

  Lemma wokf_init : forall prog, wokf (thr _ _ (init prog)) None.
  Proof. intros prog t; simpl. split; discriminate. Qed.

  (** THE THEOREM *)
  Theorem atomic_lines : forall f prog sched s, discipline f = true ->
    run f (init prog) sched = Some s -> finished s = true ->
    Permutation (dest _ _ s) (expected prog)
    /\ no_overlap None sched = true
    /\ (forall t, t < length prog -> count_writes t sched = length (lines_of (nth t prog [])))
    /\ (forall t, t < length prog -> count_formats t sched = length (lines_of (nth t prog []))).
  Proof.
    intros f prog sched s Hd Hrun Hfin. rewrite (discipline_gf f Hd) in Hrun.
    destruct (run_all _ sched (init prog) s None (Inv_init prog) (wokf_init prog) Hrun)
      as (HI & Hn & (Xs & Hdst & HP) & HW & HF & Hov).
    rewrite pend_init, (pend_finished s Hfin), app_nil_r in HP. simpl in Hdst. subst Xs.
    split; [apply Permutation_sym; exact HP|]. split; [exact Hov|].
    simpl in Hn.
    split; intros t Ht.
    - specialize (HW t). destruct (finished_idle s t Hfin ltac:(lia)) as [Hp Htd].
      unfold pendingW in HW at 2. rewrite Hp, Htd in HW. simpl in HW. unfold pendingW in HW; simpl in HW. lia.
    - specialize (HF t). destruct (finished_idle s t Hfin ltac:(lia)) as [Hp Htd].
      unfold pendingF in HF at 2. rewrite Hp, Htd in HF. simpl in HF. unfold pendingF in HF; simpl in HF. lia.
  Qed.

  (** invariants of every reachable state, under the discipline *)
  Theorem reachable_inv : forall f prog sched s, discipline f = true ->
    run f (init prog) sched = Some s -> Inv s.
  Proof.
    intros f prog sched s Hd Hrun. rewrite (discipline_gf f Hd) in Hrun.
    apply (run_all _ sched (init prog) s None (Inv_init prog) (wokf_init prog) Hrun).
  Qed.

  Theorem writer_holds_mu : forall f prog sched s t b k, discipline f = true ->
    run f (init prog) sched = Some s -> ph _ _ (thr _ _ s t) = InW b k ->
    exists c r rest, todo _ _ (thr _ _ s t) = ILog c r :: rest /\ mus _ _ s (mu_of D f c) = Some t.
  Proof.
    intros f prog sched s t b k Hd Hrun Hp. destruct (reachable_inv f prog sched s Hd Hrun) as [Hhead _ _ _ Hmu _].
    destruct (Hhead t ltac:(rewrite Hp; discriminate)) as (c & r & rest & E & _).
    exists c, r, rest. split; [exact E|]. rewrite (discipline_gf f Hd). unfold mu_of; simpl.
    apply Hmu. rewrite Hp. reflexivity.
  Qed.

  Theorem pool_buffers_empty : forall f prog sched s b, discipline f = true ->
    run f (init prog) sched = Some s -> In b (pool _ _ s) -> bdata (bufs _ _ s b) = [].
  Proof.
    intros f prog sched s b Hd Hrun Hin. destruct (reachable_inv f prog sched s Hd Hrun) as [_ _ _ [_ Hpool] _ _].
    apply Hpool. exact Hin.
  Qed.

  Theorem buffer_single_owner : forall f prog sched s t t' b, discipline f = true ->
    run f (init prog) sched = Some s ->
    holds (ph _ _ (thr _ _ s t)) = Some b ->
    ~ In b (pool _ _ s) /\ (holds (ph _ _ (thr _ _ s t')) = Some b -> t' = t).
  Proof.
    intros f prog sched s t t' b Hd Hrun Hb. destruct (reachable_inv f prog sched s Hd Hrun) as [_ _ Hown _ _ _].
    destruct (Hown t b Hb) as (_ & H2 & H3 & _). split; [exact H2|].
    intros Hb'. destruct (Nat.eq_dec t' t); [auto|]. exfalso. exact (H3 t' n Hb').
  Qed.

  (** *** no deadlock: in every reachable state that is not finished some action is enabled *)
  Definition conv (s : state) : Prop :=
    forall t, mus _ _ s 0 = Some t -> locked (ph _ _ (thr _ _ s t)) = true /\ t < nthr _ _ s.

  Lemma Step_conv : forall d s l s', conv s -> Step d s l s' -> conv s'.
  Proof.
    intros d s l s' Hc HS.
    destruct HS as [t c dd rest Hlt Eth | t c r rest Hlt Eth Een | t c r rest Hlt Eth Een
                   | t td w b Hlt Eth Hin | t td w Hlt Eth | t c r rest w b Hlt Eth
                   | t c r rest b Hlt Eth Hfree | t td b Hlt Eth | t td b k Hlt Eth
                   | t c r rest b Hlt Eth | t i rest p b Hlt Eth Hp | t i rest p b Hlt Eth Hp];
      intros t' Hm; simpl in Hm |- *;
      try solve [destruct (Hc t' Hm) as [Hl Hn]; destruct (Nat.eq_dec t' t) as [->|Hne];
           [rewrite updf_eq; rewrite Eth in Hl; simpl in Hl; try discriminate; auto
           | rewrite updf_neq by auto; auto]].
    - (* Lock *) unfold updf in Hm; simpl in Hm. injection Hm as <-. rewrite updf_eq. simpl. auto.
    - (* Unlock *) unfold updf in Hm; simpl in Hm. discriminate.
    - (* Put *) destruct (Hc t' Hm) as [Hl Hn]. destruct (Nat.eq_dec t' t) as [->|Hne].
      + rewrite Eth in Hl. destruct Hp; subst p; discriminate.
      + rewrite updf_neq by auto. auto.
    - (* Drop *) destruct (Hc t' Hm) as [Hl Hn]. destruct (Nat.eq_dec t' t) as [->|Hne].
      + rewrite Eth in Hl. destruct Hp; subst p; discriminate.
      + rewrite updf_neq by auto. auto.
  Qed.

  Lemma run_conv : forall d ls s s', conv s -> run (gf d) s ls = Some s' -> conv s'.
  Proof.
    intros d ls; induction ls as [|l ls IH]; intros s s' Hc Hrun; simpl in Hrun.
    - inversion Hrun; subst; auto.
    - destruct (step (gf d) s l) as [s1|] eqn:Es; [| discriminate].
      apply step_Step in Es. eapply IH; [| exact Hrun]. eapply Step_conv; eauto.
  Qed.

  (** the thread that holds the mutex can always move *)
  Lemma holder_moves : forall d s t, Inv s -> t < nthr _ _ s -> locked (ph _ _ (thr _ _ s t)) = true ->
    exists l s', step (gf d) s l = Some s'.
  Proof.
    intros d s t [Hhead _ _ _ _ Hk] Hlt Hl.
    assert (Hltb : (t <? nthr _ _ s) = true) by (apply Nat.ltb_lt; exact Hlt).
    destruct (thr _ _ s t) as [td p] eqn:Eth. simpl in Hl.
    pose proof (Hhead t) as Hh. rewrite Eth in Hh; simpl in Hh.
    destruct p as [| | | |b k|b k|]; try discriminate.
    - destruct (Hh ltac:(discriminate)) as (c & r & rest & -> & _).
      destruct (Hk t b k) as [Hk1 _]. rewrite Eth in Hk1; simpl in Hk1. specialize (Hk1 eq_refl).
      destruct k as [|[|k]]; [| | lia].
      + exists (LWriteBegin t). unfold LoggerConc.step; simpl. rewrite Hltb, Eth; simpl. eexists; reflexivity.
      + exists (LUnlock t). unfold LoggerConc.step; simpl. rewrite Hltb, Eth; simpl. eexists; reflexivity.
    - exists (LWriteEnd t). unfold LoggerConc.step; simpl. rewrite Hltb, Eth; simpl. eexists; reflexivity.
  Qed.

  Theorem no_deadlock : forall f prog sched s, discipline f = true ->
    run f (init prog) sched = Some s -> finished s = false ->
    exists l s', step f s l = Some s'.
  Proof.
    intros f prog sched s Hd Hrun Hfin.
    pose proof (reachable_inv f prog sched s Hd Hrun) as HI.
    rewrite (discipline_gf f Hd) in Hrun |- *. set (d := drops_oversized f) in *.
    assert (conv s) as Hc.
    { eapply run_conv; [| exact Hrun]. intros t Hm; simpl in Hm; discriminate. }
    unfold LoggerConc.finished in Hfin.
    assert (exists t, t < nthr _ _ s /\ idle_done D R (thr _ _ s t) = false) as (t & Hlt & Hid).
    { assert (forall l, forallb (fun t => idle_done D R (thr _ _ s t)) l = false ->
                        exists t, In t l /\ idle_done D R (thr _ _ s t) = false) as Hex.
      { induction l as [|x l IH]; simpl; intros Hf; [discriminate|].
        destruct (idle_done D R (thr _ _ s x)) eqn:Ex; simpl in Hf.
        - destruct (IH Hf) as (t & Hin & Ht). exists t; auto.
        - exists x; auto. }
      destruct (Hex _ Hfin) as (t & Hin & Ht). exists t. split; [apply in_seq in Hin; lia | exact Ht]. }
    assert (Hltb : (t <? nthr _ _ s) = true) by (apply Nat.ltb_lt; exact Hlt).
    pose proof HI as HI0.
    destruct HI as [Hhead Hw Hown Hpool Hmu Hk].
    destruct (thr _ _ s t) as [td p] eqn:Eth. unfold idle_done in Hid; simpl in Hid.
    pose proof (Hhead t) as Hh. rewrite Eth in Hh; simpl in Hh.
    pose proof (Hw t) as Hwt. rewrite Eth in Hwt; simpl in Hwt.
    destruct p as [|w|w b|w b|b k|b k|b].
    - destruct td as [|[c r|c dd] rest]; [discriminate| |].
      + exists (LGate t). unfold LoggerConc.step; simpl. rewrite Hltb, Eth; simpl.
        destruct (enabled r); eexists; reflexivity.
      + exists (LDerive t). unfold LoggerConc.step; simpl. rewrite Hltb, Eth; simpl. eexists; reflexivity.
    - exists (LPoolGet t None). unfold LoggerConc.step; simpl. rewrite Hltb, Eth; simpl. eexists; reflexivity.
    - destruct (Hh ltac:(discriminate)) as (c & r & rest & -> & _).
      exists (LFormat t). unfold LoggerConc.step; simpl. rewrite Hltb, Eth; simpl. eexists; reflexivity.
    - simpl in Hwt; subst w. destruct (Hh ltac:(discriminate)) as (c & r & rest & -> & _).
      destruct (mus _ _ s 0) as [t'|] eqn:Em.
      + destruct (Hc t' Em) as [Hl' Hlt']. apply (holder_moves d s t'); auto.
      + exists (LLock t). unfold LoggerConc.step; simpl. rewrite Hltb, Eth; simpl. unfold mu_of; simpl. rewrite Em.
        eexists; reflexivity.
    - apply (holder_moves d s t); [exact HI0 | auto | rewrite Eth; reflexivity].
    - apply (holder_moves d s t); [exact HI0 | auto | rewrite Eth; reflexivity].
    - destruct (Hh ltac:(discriminate)) as (c & r & rest & -> & _).
      destruct (d && (max_buf <? bcap (bufs _ _ s b))%N) eqn:Ed.
      + exists (LDrop t). unfold LoggerConc.step; simpl. rewrite Hltb, Eth; simpl. fold d. rewrite Ed. eexists; reflexivity.
      + exists (LPoolPut t). unfold LoggerConc.step; simpl. rewrite Hltb, Eth; simpl. fold d.
        assert ((negb d || (bcap (bufs _ _ s b) <=? max_buf)%N) = true) as ->.
        { destruct d; simpl in *; [| reflexivity]. rewrite N.leb_le. rewrite N.ltb_ge in Ed. exact Ed. }
        eexists; reflexivity.
  Qed.

  Lemma rstep_step : forall f s lr, unlock_deferred f = true ->
    LoggerConc.rstep D R line enabled grow f s lr = step f s (fst lr).
  Proof.
    intros f s [l r] H. unfold LoggerConc.rstep. destruct l; destruct r; simpl; try reflexivity. rewrite H. reflexivity.
  Qed.

  Lemma rrun_run : forall f ls s, unlock_deferred f = true ->
    LoggerConc.rrun D R line enabled grow f s ls = run f s (map fst ls).
  Proof.
    intros f ls; induction ls as [|l r IH]; intros s H; simpl; [reflexivity|].
    rewrite rstep_step by exact H. destruct (step f s (fst l)); [apply IH; exact H | reflexivity].
  Qed.

  Lemma discipline_unlock_deferred : forall f, discipline f = true -> unlock_deferred f = true.
  Proof. intros f H. rewrite (discipline_gf f H). reflexivity. Qed.

  Lemma conc_discipline_flags : forall x, conc_discipline x = true -> discipline (conc_flags x) = true.
  Proof. intros x H. unfold conc_discipline in H. do 3 (apply andb_prop in H as [H _]). exact H. Qed.
End ConcP.

(** *** what the discipline buys: witnesses on a concrete instance.
    Records are numbers, record 0 is below the level, line c r = [r; 10] (any chain). *)
Definition wline (c : list unit) (r : N) : list N := [r; 10%N].
Definition wen (r : N) : bool := negb (N.eqb r 0).
Definition wgrow (a b : N) : N := 0%N.
Definition wrun f := run unit N wline wen wgrow f.
Definition winit := init unit N.
Definition wexpected := expected unit N wline wen.
Definition wsched f fuel prog := snd (sched_rr unit N wline wen wgrow f fuel (winit prog) []).

(** the good model on two threads, three records, one of them disabled: two lines *)
Lemma good_run_example :
  let prog := [[ILog [] 1%N; ILog [tt] 0%N]; [ILog [tt] 2%N]] in
  match wrun good_flags (winit prog) (wsched good_flags 40 prog) with
  | Some s => finished unit N s = true /\ dest unit N s = [[1;10]; [2;10]]%N
  | None => False
  end.
Proof. vm_compute. auto. Qed.

Ltac witness_run f prog :=
  exists prog, (wsched f 40 prog);
  let E := fresh "E" in
  destruct (wrun f (winit prog) (wsched f 40 prog)) as [s|] eqn:E; [| vm_compute in E; discriminate];
  exists s; split; [reflexivity|]; vm_compute in E; injection E as <-; split; [vm_compute; reflexivity|].

(** without the reset a recycled buffer pollutes the next line *)
Lemma no_reset_refuted_w :
  let f := mkCF true true true false true true true true in
  exists prog sched s, wrun f (winit prog) sched = Some s /\ finished unit N s = true
    /\ ~ Permutation (dest unit N s) (wexpected prog).
Proof.
  intros f. witness_run f [[@ILog unit N [] 1%N; ILog [] 2%N]].
  intro HP. apply Permutation_sym in HP. apply (Permutation_in [2;10]%N) in HP; [| vm_compute; auto].
  vm_compute in HP. destruct HP as [H|[H|[]]]; discriminate.
Qed.

(** the newline in a second Write: the destination sees pieces, not lines *)
Lemma second_write_refuted_w :
  let f := mkCF false true true true true true true true in
  exists prog sched s, wrun f (winit prog) sched = Some s /\ finished unit N s = true
    /\ ~ Permutation (dest unit N s) (wexpected prog).
Proof.
  intros f. witness_run f [[@ILog unit N [] 1%N]].
  intro HP. apply Permutation_length in HP. vm_compute in HP. discriminate.
Qed.

(** Write outside the lock: two goroutines are inside Write at once *)
Definition overlap_sched : list label :=
  [LGate 0; LPoolGet 0 None; LFormat 0; LLock 0; LWriteBegin 0;
   LGate 1; LPoolGet 1 None; LFormat 1; LLock 1; LWriteBegin 1].
Lemma write_outside_lock_refuted_w :
  let f := mkCF true false true true true true true true in
  exists prog sched, wrun f (winit prog) sched <> None /\ no_overlap None sched = false.
Proof.
  intros f. exists [[ILog [] 1%N]; [ILog [] 2%N]], overlap_sched. split; [vm_compute; discriminate | reflexivity].
Qed.

(** a clone with its own mutex: root and derived logger overlap *)
Lemma cloned_mutex_refuted_w :
  let f := mkCF true true false true true true true true in
  exists prog sched, wrun f (winit prog) sched <> None /\ no_overlap None sched = false.
Proof.
  intros f. exists [[ILog [] 1%N]; [ILog [tt] 2%N]], overlap_sched. split; [vm_compute; discriminate | reflexivity].
Qed.
(** … while the disciplined model refuses that schedule (the second Lock is not enabled) *)
Lemma overlap_sched_rejected :
  wrun good_flags (winit [[ILog [] 1%N]; [ILog [tt] 2%N]]) overlap_sched = None.
Proof. vm_compute. reflexivity. Qed.

(** the buffer released before the Write: the line is gone *)
Lemma early_free_refuted_w :
  let f := mkCF true true true true true true false true in
  exists prog sched s, wrun f (winit prog) sched = Some s /\ finished unit N s = true
    /\ ~ Permutation (dest unit N s) (wexpected prog).
Proof.
  intros f. witness_run f [[@ILog unit N [] 1%N]].
  intro HP. apply Permutation_sym in HP. apply (Permutation_in [1;10]%N) in HP; [| vm_compute; auto].
  vm_compute in HP. destruct HP as [H|[]]; discriminate.
Qed.

(** the level gate after formatting: a disabled record is formatted *)
Lemma late_gate_refuted_w :
  let f := mkCF true true true true true false true true in
  exists prog sched s, wrun f (winit prog) sched = Some s /\ finished unit N s = true
    /\ count_formats 0 sched <> length (lines_of unit N wline wen (nth 0 prog [])).
Proof.
  intros f. witness_run f [[@ILog unit N [] 0%N]]. vm_compute. discriminate.
Qed.

(** the Unlock not deferred: a Write that panics (recovered above the logging call) leaves the mutex locked;
    the other goroutine can never write its record: the system is stuck before it has finished *)
Definition wrrun f := rrun unit N wline wen wgrow f.
Definition panic_sched : list (label * wresult) :=
  map (fun l => (l, WOk)) [LGate 0; LPoolGet 0 None; LFormat 0; LLock 0; LWriteBegin 0]
  ++ [(LWriteEnd 0, WPanic)] ++ map (fun l => (l, WOk)) [LGate 1; LPoolGet 1 None; LFormat 1].
Lemma unlock_not_deferred_refuted_w :
  let f := mkCF true true true true true true true false in
  exists s, wrrun f (winit [[ILog [] 1%N]; [ILog [tt] 2%N]]) panic_sched = Some s
    /\ finished unit N s = false
    /\ step unit N wline wen wgrow f s (LLock 1) = None
    /\ idle_done unit N (thr unit N s 0) = true.
Proof.
  intros f.
  destruct (wrrun f (winit [[ILog [] 1%N]; [ILog [tt] 2%N]]) panic_sched) as [s|] eqn:E; [| vm_compute in E; discriminate].
  exists s. split; [reflexivity|]. vm_compute in E. injection E as <-. repeat split; vm_compute; reflexivity.
Qed.
(** with the deferred Unlock the same schedule goes on: the second goroutine gets the lock *)
Lemma unlock_deferred_continues :
  exists s, wrrun good_flags (winit [[ILog [] 1%N]; [ILog [tt] 2%N]]) (panic_sched ++ [(LUnlock 0, WOk); (LLock 1, WOk)]) = Some s.
Proof. eexists. vm_compute. reflexivity. Qed.
