(** Lemmas for C11 (and reused by C12): the filter refines a plain set of prefixes. *)
From Coq Require Import List Arith NArith Bool Lia ZifyBool ZifyN ZifyNat.
Import ListNotations.
From Glb Require Import Lib.NetIP Lib.CidrSet Model.Filter.
Open Scope N_scope.

(* ------------------------------------------------------------------ panic-free shadow of the model *)

(** The model (Model/Filter.v) returns [None] where Go panics.  The proofs go through total
    "shadow" functions (suffix [_t]) which do something arbitrary where the model panics;
    section "no panic" below shows that on well-formed states — all reachable ones — the model
    returns [Some] of what its shadow computes, so every theorem about the shadows is a
    theorem about the model. *)

Definition gm_add_t (x : N) (m : gomap) : gomap := Some (set_add x (gm_elems m)).
Definition maps_insert_t (maps : list gomap) (i : nat) (a : N) : list gomap := upd_f maps i (gm_add_t a).
Definition maps_delete_t (maps : list gomap) (i : nat) (a : N) : list gomap := upd_f maps i (gm_del a).
Definition migrate_slot_t (maps : list gomap) (sl : N * N) : list gomap :=
  if 0 <? snd sl then maps_insert_t maps (N.to_nat (snd sl - 1)) (fst sl) else maps.
Definition migrate_t (slots : list (N * N)) (maps : list gomap) : list gomap :=
  fold_left migrate_slot_t slots maps.

Definition add_locked_t (s : state) (nip ones : N) : state :=
  let e := N.land nip (mask ones) in
  let k := N.to_nat (ones - 1) in
  if mode_maps s then
    mkSt (match_all s) true (index s) (ip_list s) (maps_insert_t (ip_maps s) k e)
  else if (index s <? list_size)%nat then
    mkSt (match_all s) false (S (index s)) (upd (ip_list s) (index s) (e, ones)) (ip_maps s)
  else
    let m1 := migrate_t (firstn (index s) (ip_list s)) (made_maps (ip_maps s)) in
    mkSt (match_all s) true (index s) (ip_list s) (maps_insert_t m1 k e).

Definition remove_locked_t (s : state) (nip ones : N) : state :=
  let e := N.land nip (mask ones) in
  let k := N.to_nat (ones - 1) in
  if mode_maps s then
    mkSt (match_all s) true (index s) (ip_list s) (maps_delete_t (ip_maps s) k e)
  else
    mkSt (match_all s) false (index s)
         (map (zero_if e ones) (firstn (index s) (ip_list s)) ++ skipn (index s) (ip_list s))
         (ip_maps s).

Definition arg_nip_t (c : cidr) : N := be32 (c_ip c).

Definition add_t (s : state) (c : cidr) : state * result :=
  if invalid_arg c then (s, RErrInvalid)
  else if arg_ones c =? 0 then (set_match_all s true, ROk)
  else (add_locked_t s (arg_nip_t c) (arg_ones c), ROk).

Definition remove_t (s : state) (c : cidr) : state * result :=
  if invalid_arg c then (s, RErrInvalid)
  else if arg_ones c =? 0 then (set_match_all s false, ROk)
  else (remove_locked_t s (arg_nip_t c) (arg_ones c), ROk).

Definition scan_t (s : state) (nip : N) : bool :=
  if mode_maps s then
    existsb (fun i => gm_mem (N.land nip (nth i ipv4_masks 0)) (nth i (ip_maps s) None)) (seq 0 32)
  else
    existsb (fun sl => (0 <? snd sl) && (N.land nip (mask (snd sl)) =? fst sl))
            (firstn (index s) (ip_list s)).

Definition contains_t (s : state) (ip : list N) : bool :=
  if match_all s then true
  else match to4 ip with
       | None => false
       | Some ip4 => scan_t s (be32 ip4)
       end.

Definition apply_t (s : state) (o : op) : state * result :=
  match o with Add c => add_t s c | Remove c => remove_t s c end.
Definition run_from_t (s : state) (ops : list op) : state :=
  fold_left (fun s o => fst (apply_t s o)) ops s.
Definition run_t (ops : list op) : state := run_from_t init ops.

(* ------------------------------------------------------------------ arrays *)

Lemma upd_length {A} (l : list A) i x : length (upd l i x) = length l.
Proof. revert i; induction l as [|h t IH]; intros [|i]; cbn [upd length]; auto. Qed.

Lemma firstn_upd_snoc {A} (l : list A) i x :
  (i < length l)%nat -> firstn (S i) (upd l i x) = firstn i l ++ [x].
Proof.
  revert i; induction l as [|h t IH]; intros i H; cbn [length] in H; [lia|].
  destruct i as [|i]; cbn [upd firstn app]; [reflexivity|].
  f_equal. change (firstn (S i) (upd t i x) = firstn i t ++ [x]). apply IH. lia.
Qed.

Lemma upd_f_length {A} (l : list A) i f : length (upd_f l i f) = length l.
Proof. revert i; induction l as [|h t IH]; intros [|i]; cbn [upd_f length]; auto. Qed.

Lemma nth_upd_f_eq {A} (l : list A) i f d :
  (i < length l)%nat -> nth i (upd_f l i f) d = f (nth i l d).
Proof.
  revert i; induction l as [|h t IH]; intros i H; cbn [length] in H; [lia|].
  destruct i as [|i]; cbn [upd_f nth]; [reflexivity|]. apply IH. lia.
Qed.

Lemma nth_upd_f_neq {A} (l : list A) i j f d :
  i <> j -> nth j (upd_f l i f) d = nth j l d.
Proof.
  revert i j; induction l as [|h t IH]; intros i j H; [destruct i; reflexivity|].
  destruct i as [|i], j as [|j]; cbn [upd_f nth]; try reflexivity; try congruence.
  apply IH. congruence.
Qed.

(* ------------------------------------------------------------------ Go maps as sets *)

Lemma set_mem_In x m : set_mem x m = true <-> In x m.
Proof.
  unfold set_mem. rewrite existsb_exists. split.
  - intros [y [Hy E]]. apply N.eqb_eq in E. subst. exact Hy.
  - intros H. exists x. split; [exact H | apply N.eqb_refl].
Qed.

Lemma In_set_add x a m : In x (set_add a m) <-> x = a \/ In x m.
Proof.
  unfold set_add. destruct (set_mem a m) eqn:E.
  - apply set_mem_In in E. split; [auto | intros [->|H]; auto].
  - cbn [In]. split; intros [H|H]; auto.
Qed.

Lemma In_set_del x a m : In x (set_del a m) <-> In x m /\ x <> a.
Proof.
  unfold set_del. rewrite filter_In. split; intros [H1 H2]; split; auto.
  - intros ->. rewrite N.eqb_refl in H2. discriminate.
  - apply negb_true_iff. apply N.eqb_neq. exact H2.
Qed.

Lemma In_gm_add_t x a m : In x (gm_elems (gm_add_t a m)) <-> x = a \/ In x (gm_elems m).
Proof. unfold gm_add_t. cbn [gm_elems]. apply In_set_add. Qed.

Lemma In_gm_del x a m : In x (gm_elems (gm_del a m)) <-> In x (gm_elems m) /\ x <> a.
Proof. destruct m as [l|]; cbn [gm_del gm_elems]; [apply In_set_del | cbn [In]; tauto]. Qed.

Lemma gm_mem_In x m : gm_mem x m = true <-> In x (gm_elems m).
Proof. unfold gm_mem. apply set_mem_In. Qed.

(* ------------------------------------------------------------------ the mask table *)

Lemma mask_table_sweep :
  forallb (fun i => nth i ipv4_masks 0 =? pmask (N.of_nat (S i))) (seq 0 32) = true.
Proof. vm_compute. reflexivity. Qed.

Lemma mask_table i : (i < 32)%nat -> nth i ipv4_masks 0 = pmask (N.of_nat (S i)).
Proof.
  intros H. pose proof mask_table_sweep as S. rewrite forallb_forall in S.
  apply N.eqb_eq. apply S. apply in_seq. lia.
Qed.

Definition keyok (k : key) : Prop := 1 <= snd k <= 32.

Lemma mask_pmask ones : 1 <= ones <= 32 -> mask ones = pmask ones.
Proof.
  intros H. unfold mask. rewrite mask_table by lia. f_equal. lia.
Qed.

Lemma pmask_0 : pmask 0 = 0. Proof. reflexivity. Qed.

(* ------------------------------------------------------------------ abstraction function *)

Definition abs_list (slots : list (N * N)) : list key := filter (fun sl => 0 <? snd sl) slots.

Definition abs_maps (maps : list gomap) : list key :=
  flat_map (fun i => map (fun a => (a, N.of_nat (S i))) (gm_elems (nth i maps None))) (seq 0 32).

(** the set of ranges a concrete state stands for (0.0.0.0/0 is the separate flag) *)
Definition abs (s : state) : list key :=
  if mode_maps s then abs_maps (ip_maps s) else abs_list (firstn (index s) (ip_list s)).

Lemma In_abs_maps k m :
  In k (abs_maps m) <-> exists i, (i < 32)%nat /\ snd k = N.of_nat (S i) /\ In (fst k) (gm_elems (nth i m None)).
Proof.
  unfold abs_maps. rewrite in_flat_map. split.
  - intros [i [Hi Hk]]. apply in_seq in Hi. apply in_map_iff in Hk. destruct Hk as [a [E Ha]].
    subst k. exists i. cbn [fst snd]. repeat split; auto. lia.
  - intros [i [Hi [E Ha]]]. exists i. split; [apply in_seq; lia|].
    apply in_map_iff. exists (fst k). split; auto. destruct k; cbn [fst snd] in *. congruence.
Qed.

Lemma abs_maps_keyok k m : In k (abs_maps m) -> keyok k.
Proof. rewrite In_abs_maps. intros [i [Hi [E _]]]. unfold keyok. lia. Qed.

Lemma In_abs_list k slots : In k (abs_list slots) <-> In k slots /\ 0 < snd k.
Proof.
  unfold abs_list. rewrite filter_In. split; intros [H1 H2]; split; auto.
  - apply N.ltb_lt. exact H2.
  - apply N.ltb_lt. exact H2.
Qed.

Lemma made_maps_length l : length (made_maps l) = length l.
Proof. apply map_length. Qed.

Lemma nth_made_maps i l : gm_elems (nth i (made_maps l) None) = [].
Proof.
  unfold made_maps. revert i. induction l as [|h t IH]; intros [|i]; cbn [map nth gm_elems]; auto.
Qed.

Lemma abs_maps_empty k l : ~ In k (abs_maps (made_maps l)).
Proof.
  rewrite In_abs_maps. intros [i [Hi [_ H]]]. rewrite nth_made_maps in H. exact H.
Qed.

Lemma In_abs_maps_insert k m i a :
  (i < 32)%nat -> length m = 32%nat ->
  (In k (abs_maps (maps_insert_t m i a)) <-> k = (a, N.of_nat (S i)) \/ In k (abs_maps m)).
Proof.
  intros Hi Hl. rewrite !In_abs_maps. unfold maps_insert_t. split.
  - intros [j [Hj [E H]]]. destruct (Nat.eq_dec i j) as [->|Ne].
    + rewrite nth_upd_f_eq in H by lia. apply In_gm_add_t in H. destruct H as [H|H].
      * left. destruct k; cbn [fst snd] in *. congruence.
      * right. exists j. auto.
    + rewrite nth_upd_f_neq in H by exact Ne. right. exists j. auto.
  - intros [->|[j [Hj [E H]]]].
    + exists i. cbn [fst snd]. repeat split; auto.
      rewrite nth_upd_f_eq by lia. apply In_gm_add_t. auto.
    + exists j. repeat split; auto. destruct (Nat.eq_dec i j) as [->|Ne].
      * rewrite nth_upd_f_eq by lia. apply In_gm_add_t. auto.
      * rewrite nth_upd_f_neq by exact Ne. exact H.
Qed.

Lemma In_abs_maps_delete k m i a :
  (i < 32)%nat -> length m = 32%nat ->
  (In k (abs_maps (maps_delete_t m i a)) <-> In k (abs_maps m) /\ k <> (a, N.of_nat (S i))).
Proof.
  intros Hi Hl. rewrite !In_abs_maps. unfold maps_delete_t. split.
  - intros [j [Hj [E H]]]. destruct (Nat.eq_dec i j) as [->|Ne].
    + rewrite nth_upd_f_eq in H by lia. apply In_gm_del in H. destruct H as [H Hn]. split.
      * exists j. auto.
      * intros ->. cbn [fst] in Hn. congruence.
    + rewrite nth_upd_f_neq in H by exact Ne. split; [exists j; auto|].
      intros ->. cbn [snd] in E. apply Ne. lia.
  - intros [[j [Hj [E H]]] Hn]. exists j. repeat split; auto.
    destruct (Nat.eq_dec i j) as [->|Ne].
    + rewrite nth_upd_f_eq by lia. apply In_gm_del. split; auto.
      intros Ea. apply Hn. destruct k; cbn [fst snd] in *. congruence.
    + rewrite nth_upd_f_neq by exact Ne. exact H.
Qed.

Lemma maps_insert_length m i a : length (maps_insert_t m i a) = length m.
Proof. apply upd_f_length. Qed.
Lemma maps_delete_length m i a : length (maps_delete_t m i a) = length m.
Proof. apply upd_f_length. Qed.

(** the migration copies exactly the slots that are not zeroed *)
Lemma migrate_length slots m : length (migrate_t slots m) = length m.
Proof.
  revert m; induction slots as [|sl r IH]; intros m; cbn [migrate_t fold_left]; [reflexivity|].
  change (length (migrate_t r (migrate_slot_t m sl)) = length m). rewrite IH.
  unfold migrate_slot_t. destruct (0 <? snd sl); [apply maps_insert_length | reflexivity].
Qed.

Lemma In_abs_migrate k slots m :
  length m = 32%nat -> (forall k', In k' (abs_list slots) -> keyok k') ->
  (In k (abs_maps (migrate_t slots m)) <-> In k (abs_list slots) \/ In k (abs_maps m)).
Proof.
  revert m; induction slots as [|sl r IH]; intros m Hl Hok.
  - cbn [migrate_t fold_left abs_list filter In]. tauto.
  - change (migrate_t (sl :: r) m) with (migrate_t r (migrate_slot_t m sl)).
    assert (Hokr : forall k', In k' (abs_list r) -> keyok k').
    { intros k' H. apply Hok. unfold abs_list in *. cbn [filter]. destruct (0 <? snd sl); [right|]; exact H. }
    unfold migrate_slot_t. unfold abs_list. cbn [filter]. fold (abs_list r).
    destruct (0 <? snd sl) eqn:E.
    + assert (Hk : keyok sl). { apply Hok. unfold abs_list. cbn [filter]. rewrite E. left. reflexivity. }
      unfold keyok in Hk.
      rewrite IH; [| rewrite maps_insert_length; exact Hl | exact Hokr].
      rewrite In_abs_maps_insert by (try exact Hl; lia).
      replace (N.of_nat (S (N.to_nat (snd sl - 1)))) with (snd sl) by lia.
      cbn [In]. destruct sl as [a n]; cbn [fst snd]. intuition congruence.
    + rewrite IH by assumption. tauto.
Qed.

(* ------------------------------------------------------------------ well-formed states *)

Definition wf0 (s : state) : Prop :=
  length (ip_list s) = list_size /\ (index s <= list_size)%nat /\ length (ip_maps s) = 32%nat
  /\ (forall k, In k (abs s) -> keyok k).

Lemma wf0_init : wf0 init.
Proof.
  unfold wf0, init, abs. cbn [ip_list index ip_maps mode_maps].
  split; [apply repeat_length|]. split; [unfold list_size; lia|]. split; [apply repeat_length|].
  intros k H. cbn [firstn abs_list filter In] in H. contradiction.
Qed.

Lemma canon_mask nip ones : 1 <= ones <= 32 -> (N.land nip (mask ones), ones) = canon nip ones.
Proof. intros H. unfold canon. rewrite mask_pmask by exact H. reflexivity. Qed.

Lemma canon_keyok nip ones : 1 <= ones <= 32 -> keyok (canon nip ones).
Proof. intros H. exact H. Qed.

(** Add's critical section adds exactly one range to the abstract set — in list mode,
    at the migration, and in map mode *)
Lemma abs_add_locked s nip ones k :
  wf0 s -> 1 <= ones <= 32 ->
  (In k (abs (add_locked_t s nip ones)) <-> k = canon nip ones \/ In k (abs s)).
Proof.
  intros (Hl & Hi & Hm & Hok) Ho. unfold add_locked_t, abs in *.
  destruct (mode_maps s) eqn:Em; cbn [mode_maps ip_maps index ip_list].
  - rewrite In_abs_maps_insert by (try exact Hm; lia).
    replace (N.of_nat (S (N.to_nat (ones - 1)))) with ones by lia.
    rewrite canon_mask by exact Ho. tauto.
  - destruct (index s <? list_size)%nat eqn:Ei; cbn [mode_maps ip_maps index ip_list].
    + apply Nat.ltb_lt in Ei. rewrite firstn_upd_snoc by lia.
      unfold abs_list. rewrite filter_app. cbn [filter snd].
      replace (0 <? ones) with true by lia.
      rewrite in_app_iff. cbn [In]. rewrite canon_mask by exact Ho. intuition congruence.
    + rewrite In_abs_maps_insert;
        [| lia | rewrite migrate_length, made_maps_length; exact Hm].
      replace (N.of_nat (S (N.to_nat (ones - 1)))) with ones by lia.
      rewrite canon_mask by exact Ho.
      rewrite In_abs_migrate; [| rewrite made_maps_length; exact Hm | exact Hok].
      pose proof (abs_maps_empty k (ip_maps s)). tauto.
Qed.

Lemma firstn_map_app {A} (f : A -> A) (l : list A) n :
  (n <= length l)%nat -> firstn n (map f (firstn n l) ++ skipn n l) = map f (firstn n l).
Proof.
  intros H. rewrite firstn_app. rewrite map_length, firstn_length_le by exact H.
  rewrite Nat.sub_diag. cbn [firstn]. rewrite app_nil_r.
  apply firstn_all2. rewrite map_length, firstn_length_le by exact H. lia.
Qed.

Lemma In_abs_list_zero k e ones slots :
  0 < ones ->
  (In k (abs_list (map (zero_if e ones) slots)) <-> In k (abs_list slots) /\ k <> (e, ones)).
Proof.
  intros Ho. induction slots as [|sl r IH].
  - cbn [map abs_list filter In]. tauto.
  - cbn [map]. unfold abs_list in *. cbn [filter].
    assert (Z : zero_if e ones sl = if (ones =? snd sl) && (e =? fst sl) then (0, 0) else sl) by reflexivity.
    rewrite Z. clear Z.
    destruct ((ones =? snd sl) && (e =? fst sl)) eqn:E.
    + apply andb_true_iff in E. destruct E as [E1 E2]. apply N.eqb_eq in E1, E2.
      cbn [snd]. replace (0 <? 0) with false by reflexivity.
      replace (0 <? snd sl) with true by lia. cbn [In]. rewrite IH.
      destruct sl as [a n]; cbn [fst snd] in *. subst. intuition congruence.
    + destruct (0 <? snd sl) eqn:Ep; cbn [In]; rewrite IH; [|tauto].
      assert (sl <> (e, ones)).
      { intros ->. cbn [fst snd] in E. rewrite !N.eqb_refl in E. discriminate. }
      intuition congruence.
Qed.

(** Remove's critical section deletes exactly that range (every copy) *)
Lemma abs_remove_locked s nip ones k :
  wf0 s -> 1 <= ones <= 32 ->
  (In k (abs (remove_locked_t s nip ones)) <-> In k (abs s) /\ k <> canon nip ones).
Proof.
  intros (Hl & Hi & Hm & Hok) Ho. unfold remove_locked_t, abs in *.
  destruct (mode_maps s) eqn:Em; cbn [mode_maps ip_maps index ip_list].
  - rewrite In_abs_maps_delete by (try exact Hm; lia).
    replace (N.of_nat (S (N.to_nat (ones - 1)))) with ones by lia.
    rewrite canon_mask by exact Ho. tauto.
  - rewrite firstn_map_app by lia. rewrite In_abs_list_zero by lia.
    rewrite canon_mask by exact Ho. tauto.
Qed.

Lemma wf0_add_locked s nip ones : wf0 s -> 1 <= ones <= 32 -> wf0 (add_locked_t s nip ones).
Proof.
  intros W Ho. pose proof W as (Hl & Hi & Hm & Hok). unfold wf0. split; [|split; [|split]].
  - unfold add_locked_t. destruct (mode_maps s); [exact Hl|].
    destruct (index s <? list_size)%nat; cbn [ip_list]; [rewrite upd_length|]; exact Hl.
  - unfold add_locked_t. destruct (mode_maps s); [exact Hi|].
    destruct (index s <? list_size)%nat eqn:E; cbn [index]; [apply Nat.ltb_lt in E; lia | exact Hi].
  - unfold add_locked_t. destruct (mode_maps s); cbn [ip_maps]; [rewrite maps_insert_length; exact Hm|].
    destruct (index s <? list_size)%nat; cbn [ip_maps]; [exact Hm|].
    rewrite maps_insert_length, migrate_length, made_maps_length. exact Hm.
  - intros k H. apply abs_add_locked in H; [| exact W | exact Ho].
    destruct H as [->|H]; [exact Ho | apply Hok; exact H].
Qed.

Lemma wf0_remove_locked s nip ones : wf0 s -> 1 <= ones <= 32 -> wf0 (remove_locked_t s nip ones).
Proof.
  intros W Ho. pose proof W as (Hl & Hi & Hm & Hok). unfold wf0. split; [|split; [|split]].
  - unfold remove_locked_t. destruct (mode_maps s); cbn [ip_list]; [exact Hl|].
    rewrite app_length, map_length, <- app_length, firstn_skipn. exact Hl.
  - unfold remove_locked_t. destruct (mode_maps s); exact Hi.
  - unfold remove_locked_t. destruct (mode_maps s); cbn [ip_maps]; [rewrite maps_delete_length|]; exact Hm.
  - intros k H. apply abs_remove_locked in H; [| exact W | exact Ho]. apply Hok. tauto.
Qed.

Lemma wf0_set_match_all s b : wf0 (set_match_all s b) <-> wf0 s.
Proof. unfold wf0, set_match_all, abs. cbn [ip_list index ip_maps mode_maps]. tauto. Qed.

Lemma abs_set_match_all s b : abs (set_match_all s b) = abs s.
Proof. reflexivity. Qed.

(* ------------------------------------------------------------------ the scan_t *)

Lemma existsb_ext_in {A} (f g : A -> bool) l :
  (forall x, In x l -> f x = g x) -> existsb f l = existsb g l.
Proof.
  induction l as [|h t IH]; intros H; cbn [existsb]; [reflexivity|].
  rewrite H by (left; reflexivity). rewrite IH; [reflexivity|]. intros x Hx. apply H. right. exact Hx.
Qed.

(** Contains' critical section answers membership in the abstract set *)
Lemma scan_abs s nip : wf0 s -> scan_t s nip = existsb (fun k => covers k nip) (abs s).
Proof.
  intros (Hl & Hi & Hm & Hok). unfold scan_t, abs in *. destruct (mode_maps s).
  - apply eq_true_iff_eq. rewrite !existsb_exists. split.
    + intros [i [Hi' H]]. apply in_seq in Hi'. apply set_mem_In in H.
      rewrite mask_table in H by lia.
      exists (N.land nip (pmask (N.of_nat (S i))), N.of_nat (S i)). split.
      * apply In_abs_maps. exists i. cbn [fst snd]. repeat split; auto. lia.
      * unfold covers. cbn [fst snd]. apply N.eqb_refl.
    + intros [k [Hk Hc]]. apply In_abs_maps in Hk. destruct Hk as [i [Hi' [E H]]].
      exists i. split; [apply in_seq; lia|]. apply set_mem_In. rewrite mask_table by lia.
      unfold covers in Hc. apply N.eqb_eq in Hc. rewrite E in Hc. rewrite Hc. exact H.
  - revert Hok. generalize (firstn (index s) (ip_list s)). intros slots Hok.
    induction slots as [|sl r IH]; [reflexivity|].
    unfold abs_list in *. cbn [existsb filter]. destruct (0 <? snd sl) eqn:E.
    + cbn [existsb andb]. rewrite IH by (intros k Hk; apply Hok; cbn [filter]; rewrite E; right; exact Hk).
      f_equal. unfold covers. rewrite mask_pmask; [reflexivity|].
      apply Hok. cbn [filter]. rewrite E. left. reflexivity.
    + cbn [andb orb]. apply IH. intros k Hk. apply Hok. cbn [filter]. rewrite E. exact Hk.
Qed.

(* ------------------------------------------------------------------ arguments *)

Lemma invalid_arg_spec c : invalid_arg c = true <-> cidr_arg c = None.
Proof.
  unfold invalid_arg, cidr_arg. destruct (mask_size (c_mask c)) as [ones bits].
  destruct (bits =? 32), (N.leb_spec ones 32), (N.ltb_spec 32 ones), (length (c_ip c) =? 4)%nat;
    cbn [negb orb andb]; try lia; split; intros; congruence.
Qed.

Lemma valid_arg_spec c : invalid_arg c = false -> cidr_arg c = Some (arg_nip_t c, arg_ones c) /\ arg_ones c <= 32.
Proof.
  unfold invalid_arg, cidr_arg, arg_nip_t, arg_ones. destruct (mask_size (c_mask c)) as [ones bits].
  cbn [fst].
  destruct (bits =? 32), (N.leb_spec ones 32), (N.ltb_spec 32 ones), (length (c_ip c) =? 4)%nat;
    cbn [negb orb andb]; try lia; try discriminate. intros _. split; [reflexivity | lia].
Qed.

Theorem invalid_rejected s c :
  cidr_arg c = None -> add_t s c = (s, RErrInvalid) /\ remove_t s c = (s, RErrInvalid).
Proof.
  intros H. apply invalid_arg_spec in H. unfold add_t, remove_t. rewrite H. split; reflexivity.
Qed.

Theorem valid_accepted s c :
  cidr_arg c <> None -> snd (add_t s c) = ROk /\ snd (remove_t s c) = ROk.
Proof.
  intros H. unfold add_t, remove_t. destruct (invalid_arg c) eqn:E.
  - apply invalid_arg_spec in E. contradiction.
  - destruct (arg_ones c =? 0); split; reflexivity.
Qed.

(* ------------------------------------------------------------------ no panic *)

(** in map mode all 32 maps have been made *)
Definition made (s : state) : Prop := mode_maps s = true -> Forall (fun m : gomap => m <> None) (ip_maps s).

(** the invariant of reachable states *)
Definition wf (s : state) : Prop := wf0 s /\ made s.

Lemma Forall_upd_f {A} (P : A -> Prop) l i f :
  Forall P l -> (forall x, P x -> P (f x)) -> Forall P (upd_f l i f).
Proof.
  intros H Hf. revert i. induction H as [|h t Hh Ht IH]; intros [|i]; cbn [upd_f]; constructor; auto.
Qed.

Lemma maps_insert_t_made m i a :
  Forall (fun m : gomap => m <> None) m -> Forall (fun m : gomap => m <> None) (maps_insert_t m i a).
Proof. intros H. apply Forall_upd_f; [exact H|]. intros x _. unfold gm_add_t. discriminate. Qed.

Lemma maps_delete_t_made m i a :
  Forall (fun m : gomap => m <> None) m -> Forall (fun m : gomap => m <> None) (maps_delete_t m i a).
Proof.
  intros H. apply Forall_upd_f; [exact H|]. intros [l|] Hx; cbn [gm_del]; [discriminate | exact Hx].
Qed.

Lemma made_maps_made l : Forall (fun m : gomap => m <> None) (made_maps l).
Proof. unfold made_maps. apply Forall_forall. intros x Hx. apply in_map_iff in Hx. destruct Hx as [y [<- _]]. discriminate. Qed.

Lemma migrate_t_made slots : forall m,
  Forall (fun m : gomap => m <> None) m -> Forall (fun m : gomap => m <> None) (migrate_t slots m).
Proof.
  induction slots as [|sl r IH]; intros m H; [exact H|].
  change (migrate_t (sl :: r) m) with (migrate_t r (migrate_slot_t m sl)). apply IH.
  unfold migrate_slot_t. destruct (0 <? snd sl); [apply maps_insert_t_made|]; exact H.
Qed.

Lemma wf_init : wf init.
Proof. split; [exact wf0_init|]. intros H. discriminate. Qed.

Lemma wf_add_locked_t s nip ones : wf s -> 1 <= ones <= 32 -> wf (add_locked_t s nip ones).
Proof.
  intros [W M] Ho. split; [apply wf0_add_locked; assumption|].
  unfold made, add_locked_t in *. destruct (mode_maps s) eqn:Em; cbn [mode_maps ip_maps].
  - intros _. apply maps_insert_t_made. apply M. reflexivity.
  - destruct (index s <? list_size)%nat; cbn [mode_maps ip_maps]; [discriminate|].
    intros _. apply maps_insert_t_made, migrate_t_made, made_maps_made.
Qed.

Lemma wf_remove_locked_t s nip ones : wf s -> 1 <= ones <= 32 -> wf (remove_locked_t s nip ones).
Proof.
  intros [W M] Ho. split; [apply wf0_remove_locked; assumption|].
  unfold made, remove_locked_t in *. destruct (mode_maps s) eqn:Em; cbn [mode_maps ip_maps].
  - intros _. apply maps_delete_t_made. apply M. reflexivity.
  - discriminate.
Qed.

Lemma wf_set_match_all s b : wf (set_match_all s b) <-> wf s.
Proof. unfold wf, made. rewrite wf0_set_match_all. cbn [set_match_all mode_maps ip_maps]. tauto. Qed.

Lemma ipv4_masks_length : length ipv4_masks = 32%nat. Proof. reflexivity. Qed.

Lemma mask_at_ok ones : 1 <= ones <= 32 -> mask_at ones = Some (mask ones).
Proof.
  intros H. unfold mask_at, mask. replace (ones =? 0) with false by lia.
  apply nth_error_nth'. rewrite ipv4_masks_length. lia.
Qed.

Lemma upd_f_upd {A} (l : list A) i f x : nth_error l i = Some x -> upd_f l i f = upd l i (f x).
Proof.
  revert i. induction l as [|h t IH]; intros [|i] H; cbn [nth_error] in H; try discriminate; cbn [upd_f upd].
  - inversion H. reflexivity.
  - f_equal. apply IH. exact H.
Qed.

Lemma maps_insert_ok m i a :
  (i < length m)%nat -> Forall (fun m : gomap => m <> None) m ->
  maps_insert m i a = Some (maps_insert_t m i a).
Proof.
  intros Hi Hm. unfold maps_insert, maps_insert_t.
  destruct (nth_error m i) as [x|] eqn:E; [|apply nth_error_None in E; lia].
  rewrite Forall_forall in Hm. specialize (Hm x (nth_error_In _ _ E)).
  destruct x as [l|]; [|congruence]. cbn [gm_add]. rewrite (upd_f_upd _ _ _ _ E). reflexivity.
Qed.

Lemma maps_delete_ok m i a : (i < length m)%nat -> maps_delete m i a = Some (maps_delete_t m i a).
Proof.
  intros Hi. unfold maps_delete, maps_delete_t.
  destruct (nth_error m i) as [x|] eqn:E; [|apply nth_error_None in E; lia].
  rewrite (upd_f_upd _ _ _ _ E). reflexivity.
Qed.

Lemma migrate_ok slots : forall m,
  length m = 32%nat -> Forall (fun m : gomap => m <> None) m ->
  (forall k, In k (abs_list slots) -> keyok k) ->
  migrate slots m = Some (migrate_t slots m).
Proof.
  induction slots as [|sl r IH]; intros m Hl Hm Hok; [reflexivity|].
  cbn [migrate]. change (migrate_t (sl :: r) m) with (migrate_t r (migrate_slot_t m sl)).
  assert (Hokr : forall k, In k (abs_list r) -> keyok k).
  { intros k H. apply Hok. unfold abs_list in *. cbn [filter]. destruct (0 <? snd sl); [right|]; exact H. }
  unfold migrate_slot, migrate_slot_t. destruct (0 <? snd sl) eqn:E.
  - assert (Hk : keyok sl). { apply Hok. unfold abs_list. cbn [filter]. rewrite E. left. reflexivity. }
    unfold keyok in Hk. rewrite maps_insert_ok by (try exact Hm; lia).
    apply IH; [rewrite maps_insert_length; exact Hl | apply maps_insert_t_made; exact Hm | exact Hokr].
  - apply IH; assumption.
Qed.

Lemma slots_upto_ok s : (index s <= length (ip_list s))%nat -> slots_upto s = Some (firstn (index s) (ip_list s)).
Proof. intros H. unfold slots_upto. replace (index s <=? length (ip_list s))%nat with true by lia. reflexivity. Qed.

(** Add's critical section does not panic on a well-formed state *)
Lemma add_locked_ok s nip ones :
  wf s -> 1 <= ones <= 32 -> add_locked s nip ones = Some (add_locked_t s nip ones).
Proof.
  intros [(Hl & Hi & Hm & Hok) M] Ho. unfold add_locked, add_locked_t. rewrite mask_at_ok by exact Ho.
  unfold made, abs in *. destruct (mode_maps s) eqn:Em.
  - rewrite maps_insert_ok by (try (apply M; reflexivity); lia). reflexivity.
  - destruct (index s <? list_size)%nat eqn:Ei.
    + unfold upd_p. replace (index s <? length (ip_list s))%nat with true by lia. reflexivity.
    + rewrite slots_upto_ok by lia.
      rewrite migrate_ok; [| rewrite made_maps_length; exact Hm | apply made_maps_made | exact Hok].
      rewrite maps_insert_ok; [reflexivity | rewrite migrate_length, made_maps_length; lia |].
      apply migrate_t_made, made_maps_made.
Qed.

(** Remove's critical section does not panic on a well-formed state *)
Lemma remove_locked_ok s nip ones :
  wf s -> 1 <= ones <= 32 -> remove_locked s nip ones = Some (remove_locked_t s nip ones).
Proof.
  intros [(Hl & Hi & Hm & Hok) M] Ho. unfold remove_locked, remove_locked_t. rewrite mask_at_ok by exact Ho.
  destruct (mode_maps s) eqn:Em.
  - rewrite maps_delete_ok by lia. reflexivity.
  - rewrite slots_upto_ok by lia. reflexivity.
Qed.

Lemma scan_list_ok nip slots :
  (forall k, In k (abs_list slots) -> keyok k) ->
  scan_list nip slots
  = Some (existsb (fun sl => (0 <? snd sl) && (N.land nip (mask (snd sl)) =? fst sl)) slots).
Proof.
  induction slots as [|sl r IH]; intros Hok; [reflexivity|].
  assert (Hokr : forall k, In k (abs_list r) -> keyok k).
  { intros k H. apply Hok. unfold abs_list in *. cbn [filter]. destruct (0 <? snd sl); [right|]; exact H. }
  cbn [scan_list existsb]. destruct (0 <? snd sl) eqn:E; cbn [andb orb].
  - assert (Hk : keyok sl). { apply Hok. unfold abs_list. cbn [filter]. rewrite E. left. reflexivity. }
    rewrite mask_at_ok by exact Hk. destruct (N.land nip (mask (snd sl)) =? fst sl); cbn [orb]; [reflexivity|].
    apply IH. exact Hokr.
  - apply IH. exact Hokr.
Qed.

Lemma scan_maps_ok nip maps is :
  length maps = 32%nat -> (forall i, In i is -> (i < 32)%nat) ->
  scan_maps nip maps is
  = Some (existsb (fun i => gm_mem (N.land nip (nth i ipv4_masks 0)) (nth i maps None)) is).
Proof.
  intros Hl. induction is as [|i r IH]; intros Hi; [reflexivity|].
  cbn [scan_maps existsb].
  rewrite (nth_error_nth' ipv4_masks 0) by (rewrite ipv4_masks_length; apply Hi; left; reflexivity).
  rewrite (nth_error_nth' maps None) by (rewrite Hl; apply Hi; left; reflexivity).
  destruct (gm_mem (N.land nip (nth i ipv4_masks 0)) (nth i maps None)); cbn [orb]; [reflexivity|].
  apply IH. intros j Hj. apply Hi. right. exact Hj.
Qed.

(** Contains' critical section does not panic on a well-formed state *)
Lemma scan_ok s nip : wf s -> scan s nip = Some (scan_t s nip).
Proof.
  intros [(Hl & Hi & Hm & Hok) M]. unfold scan, scan_t, abs in *. destruct (mode_maps s).
  - apply scan_maps_ok; [exact Hm|]. intros i H. apply in_seq in H. lia.
  - rewrite slots_upto_ok by lia. apply scan_list_ok. exact Hok.
Qed.

Lemma to4_length ip b : to4 ip = Some b -> length b = 4%nat.
Proof.
  unfold to4. destruct (Nat.eqb_spec (length ip) 4) as [E|_].
  - intros H. inversion H. subst. exact E.
  - destruct (Nat.eqb_spec (length ip) 16) as [E|_]; cbn [andb]; [|discriminate].
    destruct (is_zeros (firstn 10 ip) && (nth 10 ip 0 =? 255) && (nth 11 ip 0 =? 255)); [|discriminate].
    intros H. assert (Hb : b = skipn 12 ip) by congruence. rewrite Hb, skipn_length. lia.
Qed.

Lemma be32_p_ok b : length b = 4%nat -> be32_p b = Some (be32 b).
Proof. destruct b as [|? [|? [|? [|? ?]]]]; cbn [length]; intros H; try lia. reflexivity. Qed.

Lemma contains_ok s ip : wf s -> contains s ip = Some (contains_t s ip).
Proof.
  intros W. unfold contains, contains_t. destruct (match_all s); [reflexivity|].
  destruct (to4 ip) as [b|] eqn:E; [|reflexivity].
  rewrite (be32_p_ok b (to4_length _ _ E)). apply scan_ok. exact W.
Qed.

(* ------------------------------------------------------------------ refinement *)

(** the simulation relation between a concrete state and a live set *)
Definition R (s : state) (st : sstate) : Prop :=
  wf s /\ match_all s = fst st /\ (forall k, In k (abs s) <-> In k (snd st)).

Lemma R_init : R init (false, []).
Proof.
  split; [exact wf_init|]. split; [reflexivity|]. intros k. cbn [snd In]. unfold abs, init.
  cbn [mode_maps index ip_list firstn abs_list filter In]. tauto.
Qed.

Lemma key_eqb_eq a b : key_eqb a b = true <-> a = b.
Proof.
  unfold key_eqb. rewrite andb_true_iff, !N.eqb_eq. destruct a, b; cbn [fst snd].
  split; [intros [-> ->]; reflexivity | intros H; inversion H; auto].
Qed.

Lemma In_filter_ne (k kc : key) (l : list key) :
  In k (filter (fun k' => negb (key_eqb k' kc)) l) <-> In k l /\ k <> kc.
Proof.
  rewrite filter_In. split; intros [H1 H2]; split; auto.
  - intros ->. rewrite (proj2 (key_eqb_eq kc kc) eq_refl) in H2. discriminate.
  - apply negb_true_iff. destruct (key_eqb k kc) eqn:E; [|reflexivity].
    apply key_eqb_eq in E. contradiction.
Qed.

(** every operation commutes with the abstraction *)
Lemma R_step s st o : R s st -> R (fst (apply_t s o)) (spec_step st o).
Proof.
  intros (W & Hma & Hin). pose proof (proj1 W) as W0. destruct o as [c|c]; cbn [apply_t spec_step].
  - unfold add_t. destruct (invalid_arg c) eqn:Ei.
    + apply invalid_arg_spec in Ei. rewrite Ei. cbn [fst]. split; [exact W|]. split; [exact Hma | exact Hin].
    + destruct (valid_arg_spec c Ei) as [Ea Hle]. rewrite Ea.
      destruct (arg_ones c =? 0) eqn:E0; cbn [fst snd].
      * split; [apply wf_set_match_all; exact W|]. split; [reflexivity|]. exact Hin.
      * assert (Ho : 1 <= arg_ones c <= 32) by lia.
        split; [apply wf_add_locked_t; assumption|]. split.
        { unfold add_locked_t. destruct (mode_maps s); [exact Hma|]. destruct (index s <? list_size)%nat; exact Hma. }
        intros k. rewrite abs_add_locked by assumption. rewrite Hin. cbn [snd In]. intuition congruence.
  - unfold remove_t. destruct (invalid_arg c) eqn:Ei.
    + apply invalid_arg_spec in Ei. rewrite Ei. cbn [fst]. split; [exact W|]. split; [exact Hma | exact Hin].
    + destruct (valid_arg_spec c Ei) as [Ea Hle]. rewrite Ea.
      destruct (arg_ones c =? 0) eqn:E0; cbn [fst snd].
      * split; [apply wf_set_match_all; exact W|]. split; [reflexivity|]. exact Hin.
      * assert (Ho : 1 <= arg_ones c <= 32) by lia.
        split; [apply wf_remove_locked_t; assumption|]. split.
        { unfold remove_locked_t. destruct (mode_maps s); exact Hma. }
        intros k. rewrite abs_remove_locked by assumption. cbn [snd]. rewrite In_filter_ne, Hin. tauto.
Qed.

Lemma R_run_from s st ops : R s st -> R (run_from_t s ops) (spec_run_from st ops).
Proof.
  revert s st; induction ops as [|o r IH]; intros s st H; [exact H|].
  cbn [run_from_t spec_run_from fold_left]. apply IH. apply R_step. exact H.
Qed.

Lemma R_run ops : R (run_t ops) (spec_run ops).
Proof. apply R_run_from. exact R_init. Qed.

Lemma existsb_iff {A} (f : A -> bool) l1 l2 :
  (forall x, In x l1 <-> In x l2) -> existsb f l1 = existsb f l2.
Proof.
  intros H. apply eq_true_iff_eq. rewrite !existsb_exists.
  split; intros [x [Hx Hf]]; exists x; split; auto; apply H; exact Hx.
Qed.

(** a concrete state answers every probe as its live set does *)
Lemma R_contains s st ip : R s st -> contains_t s ip = spec_contains_st st ip.
Proof.
  intros (W & Hma & Hin). unfold contains_t, spec_contains_st. rewrite Hma.
  destruct (fst st); [destruct (to4 ip); reflexivity|].
  destruct (to4 ip) as [b|]; [|reflexivity]. cbn [orb].
  rewrite scan_abs by exact (proj1 W). apply existsb_iff. exact Hin.
Qed.

Theorem membership ops ip : contains_t (run_t ops) ip = spec_contains ops ip.
Proof. apply R_contains. apply R_run. Qed.

Theorem refinement ops :
  match_all (run_t ops) = match_all_live ops /\ forall k, In k (abs (run_t ops)) <-> In k (live_set ops).
Proof. destruct (R_run ops) as (_ & H1 & H2). split; assumption. Qed.

(* ------------------------------------------------------------------ probe forms *)

Definition v4mapped (b : list N) : list N := [0;0;0;0;0;0;0;0;0;0;255;255] ++ b.

Lemma to4_len4 a b c d : to4 [a; b; c; d] = Some [a; b; c; d].
Proof. reflexivity. Qed.

Lemma to4_mapped a b c d : to4 (v4mapped [a; b; c; d]) = Some [a; b; c; d].
Proof. reflexivity. Qed.

Lemma to4_other ip : length ip <> 4%nat -> length ip <> 16%nat -> to4 ip = None.
Proof.
  intros H4 H16. unfold to4.
  destruct (Nat.eqb_spec (length ip) 4); [contradiction|].
  destruct (Nat.eqb_spec (length ip) 16); [contradiction|]. reflexivity.
Qed.

Theorem membership_v4 ops a b c d :
  let r := match_all_live ops || existsb (fun k => covers k (be32 [a; b; c; d])) (live_set ops) in
  contains_t (run_t ops) [a; b; c; d] = r /\ contains_t (run_t ops) (v4mapped [a; b; c; d]) = r.
Proof.
  cbn zeta. rewrite !membership. unfold spec_contains, spec_contains_st.
  rewrite to4_len4, to4_mapped. split; reflexivity.
Qed.

Theorem membership_not_v4 ops ip : to4 ip = None -> contains_t (run_t ops) ip = match_all_live ops.
Proof. intros H. rewrite membership. unfold spec_contains, spec_contains_st. rewrite H. reflexivity. Qed.

(* ------------------------------------------------------------------ what [covers] means *)

Lemma pmask_shift_sweep :
  forallb (fun n => pmask n =? N.shiftl (N.ones n) (32 - n)) (map N.of_nat (seq 0 33)) = true.
Proof. vm_compute. reflexivity. Qed.

Lemma pmask_shift n : n <= 32 -> pmask n = N.shiftl (N.ones n) (32 - n).
Proof.
  intros H. pose proof pmask_shift_sweep as S. rewrite forallb_forall in S.
  apply N.eqb_eq. apply S. apply in_map_iff. exists (N.to_nat n). split; [lia|]. apply in_seq. lia.
Qed.

Lemma testbit_above x m i : x < 2 ^ m -> m <= i -> N.testbit x i = false.
Proof.
  intros Hx Hi. rewrite N.testbit_eqb. rewrite N.div_small; [reflexivity|].
  apply N.lt_le_trans with (2 ^ m); [exact Hx|]. apply N.pow_le_mono_r; lia.
Qed.

(** masking with the netmask clears the 32-n host bits *)
Lemma land_pmask x n :
  n <= 32 -> x < 2 ^ 32 -> N.land x (pmask n) = x / 2 ^ (32 - n) * 2 ^ (32 - n).
Proof.
  intros Hn Hx. rewrite pmask_shift by exact Hn.
  rewrite <- N.shiftr_div_pow2, <- N.shiftl_mul_pow2.
  apply N.bits_inj. intros i. rewrite N.land_spec.
  destruct (N.ltb_spec i (32 - n)) as [Hlt|Hge].
  - rewrite !N.shiftl_spec_low by exact Hlt. apply andb_false_r.
  - rewrite !N.shiftl_spec_high' by exact Hge. rewrite N.shiftr_spec'.
    replace (i - (32 - n) + (32 - n)) with i by lia.
    destruct (N.ltb_spec (i - (32 - n)) n) as [Hl|Hh].
    + rewrite N.ones_spec_low by exact Hl. apply andb_true_r.
    + rewrite N.ones_spec_high by exact Hh. rewrite andb_false_r.
      symmetry. apply testbit_above with 32; [exact Hx | lia].
Qed.

(** [covers (canon nip ones) ip]: [ip] and [nip] agree on their top [ones] bits *)
Theorem covers_same_prefix nip ones ip :
  ones <= 32 -> nip < 2 ^ 32 -> ip < 2 ^ 32 ->
  covers (canon nip ones) ip = same_prefix ones nip ip.
Proof.
  intros Hn Ha Hi. unfold covers, canon, same_prefix. cbn [fst snd].
  rewrite !land_pmask by assumption.
  assert (P : 2 ^ (32 - ones) <> 0) by (apply N.pow_nonzero; lia).
  apply eq_true_iff_eq. rewrite !N.eqb_eq. split.
  - intros H. apply N.mul_cancel_r in H; assumption.
  - intros ->. reflexivity.
Qed.

Lemma be32_bound a b c d : a < 256 -> b < 256 -> c < 256 -> d < 256 -> be32 [a; b; c; d] < 2 ^ 32.
Proof. intros. unfold be32. change (2 ^ 32) with 4294967296. lia. Qed.

(* ------------------------------------------------------------------ the model itself: no panic, same answers *)

Lemma add_ok s c : wf s -> add s c = Some (add_t s c).
Proof.
  intros W. unfold add, add_t. destruct (invalid_arg c) eqn:Ei; [reflexivity|].
  destruct (valid_arg_spec c Ei) as [Ea Hle]. destruct (arg_ones c =? 0) eqn:E0; [reflexivity|].
  assert (Hlen : length (c_ip c) = 4%nat).
  { unfold invalid_arg in Ei. destruct (mask_size (c_mask c)) as [ones bits].
    destruct (Nat.eqb_spec (length (c_ip c)) 4) as [E|E]; [exact E|].
    rewrite !orb_true_r in Ei. discriminate. }
  unfold arg_nip, arg_nip_t. rewrite (be32_p_ok _ Hlen). rewrite add_locked_ok by (try exact W; lia). reflexivity.
Qed.

Lemma remove_ok s c : wf s -> remove s c = Some (remove_t s c).
Proof.
  intros W. unfold remove, remove_t. destruct (invalid_arg c) eqn:Ei; [reflexivity|].
  destruct (valid_arg_spec c Ei) as [Ea Hle]. destruct (arg_ones c =? 0) eqn:E0; [reflexivity|].
  assert (Hlen : length (c_ip c) = 4%nat).
  { unfold invalid_arg in Ei. destruct (mask_size (c_mask c)) as [ones bits].
    destruct (Nat.eqb_spec (length (c_ip c)) 4) as [E|E]; [exact E|].
    rewrite !orb_true_r in Ei. discriminate. }
  unfold arg_nip, arg_nip_t. rewrite (be32_p_ok _ Hlen). rewrite remove_locked_ok by (try exact W; lia). reflexivity.
Qed.

Lemma apply_ok s o : wf s -> Filter.apply s o = Some (apply_t s o).
Proof. intros W. destruct o; [apply add_ok | apply remove_ok]; exact W. Qed.

Lemma run_from_ok ops : forall s st, R s st -> run_from s ops = Some (run_from_t s ops).
Proof.
  induction ops as [|o r IH]; intros s st H; [reflexivity|].
  cbn [run_from]. rewrite (apply_ok s o (proj1 H)).
  destruct (apply_t s o) as [s' res] eqn:E. cbn [run_from_t fold_left]. rewrite E. cbn [fst].
  apply (IH s' (spec_step st o)). pose proof (R_step s st o H) as H'. rewrite E in H'. exact H'.
Qed.

Lemma run_ok ops : run ops = Some (run_t ops).
Proof. exact (run_from_ok ops init _ R_init). Qed.

(** C11_no_panic: no call of any history panics, and in the state reached no call would *)
Theorem no_panic ops :
  exists s, run ops = Some s
            /\ (forall c, exists s' r, add s c = Some (s', r))
            /\ (forall c, exists s' r, remove s c = Some (s', r))
            /\ (forall ip, exists b, contains s ip = Some b).
Proof.
  exists (run_t ops). pose proof (proj1 (R_run ops)) as W. split; [apply run_ok|]. split; [|split].
  - intros c. rewrite (add_ok _ c W). destruct (add_t (run_t ops) c); eauto.
  - intros c. rewrite (remove_ok _ c W). destruct (remove_t (run_t ops) c); eauto.
  - intros ip. rewrite (contains_ok _ ip W). eauto.
Qed.

Theorem membership_p ops ip :
  exists s, run ops = Some s /\ contains s ip = Some (spec_contains ops ip).
Proof.
  exists (run_t ops). split; [apply run_ok|].
  rewrite (contains_ok _ ip (proj1 (R_run ops))). f_equal. apply membership.
Qed.

Theorem membership_v4_p ops a b c d :
  let r := match_all_live ops || existsb (fun k => covers k (be32 [a; b; c; d])) (live_set ops) in
  exists s, run ops = Some s /\ contains s [a; b; c; d] = Some r /\ contains s (v4mapped [a; b; c; d]) = Some r.
Proof.
  cbn zeta. exists (run_t ops). pose proof (proj1 (R_run ops)) as W. split; [apply run_ok|].
  rewrite !(contains_ok _ _ W). destruct (membership_v4 ops a b c d) as [H1 H2]. cbn zeta in H1, H2.
  rewrite H1, H2. split; reflexivity.
Qed.

Theorem invalid_rejected_p s c :
  cidr_arg c = None -> add s c = Some (s, RErrInvalid) /\ remove s c = Some (s, RErrInvalid).
Proof.
  intros H. apply invalid_arg_spec in H. unfold add, remove. rewrite H. split; reflexivity.
Qed.

Theorem valid_accepted_p ops s c :
  run ops = Some s -> cidr_arg c <> None ->
  (exists s', add s c = Some (s', ROk)) /\ (exists s', remove s c = Some (s', ROk)).
Proof.
  intros Hr Hc. rewrite run_ok in Hr. inversion Hr. subst s. pose proof (proj1 (R_run ops)) as W.
  rewrite (add_ok _ c W), (remove_ok _ c W). destruct (valid_accepted (run_t ops) c Hc) as [H1 H2].
  destruct (add_t (run_t ops) c) as [s1 r1], (remove_t (run_t ops) c) as [s2 r2]. cbn [snd] in *. subst.
  split; eauto.
Qed.

Theorem refinement_p ops :
  exists s, run ops = Some s /\ match_all s = match_all_live ops
            /\ forall k, In k (abs s) <-> In k (live_set ops).
Proof. exists (run_t ops). split; [apply run_ok | apply refinement]. Qed.

(* ------------------------------------------------------------------ the pinned commit *)

(** net.ParseIP("10.1.2.3") (16-byte form) with 10.0.0.0/8 present: the pinned Contains said false *)
Theorem pinned_refuted :
  exists ops ip s, run ops = Some s /\ spec_contains ops ip = true
                   /\ contains_pinned s ip = Some false /\ contains s ip = Some true.
Proof.
  exists [Add (mkCidr [10; 0; 0; 0] [255; 0; 0; 0])], (v4mapped [10; 1; 2; 3]). eexists.
  vm_compute. repeat split; reflexivity.
Qed.
