(** TaskLane tight variant: refinement of the loose model, no new deadlocks, and "the own worker takes it". *)
From Coq Require Import List Arith Bool Lia.
Import ListNotations.
From Glb Require Import Model.TaskLane Model.TaskLaneTight Proofs.TaskLaneP Proofs.TaskLaneInv Proofs.TaskLaneLive.

(* ---------- refinement: every tight run is a run of the loose model ---------- *)
Theorem tstep_refines qs s l s' : tstep qs s l = Some s' -> step qs s l = Some s'.
Proof. unfold tstep. destruct (tight_blocked s l); [discriminate|auto]. Qed.

Theorem trun_refines qs ls : forall s s', trun qs s ls = Some s' -> run qs s ls = Some s'.
Proof.
  induction ls as [|l r IH]; cbn [trun run]; intros s s' H; [exact H|].
  destruct (tstep qs s l) as [s1|] eqn:Hs; [|discriminate].
  rewrite (tstep_refines _ _ _ _ Hs). apply IH. exact H.
Qed.

(* every property of all reachable states of the loose model holds in all reachable states of the tight one *)
Theorem tight_transfer qs n (P : state -> Prop) :
  (forall ls s, run qs (init n) ls = Some s -> P s) ->
  forall ls s, trun qs (init n) ls = Some s -> P s.
Proof. intros H ls s Hr. apply (H ls). apply trun_refines. exact Hr. Qed.

(* ---------- no new deadlock: whenever a default is disabled, the rendezvous it would have skipped is enabled ---------- *)
Theorem tight_no_new_deadlock qs s :
  (exists l, internal l = true /\ step qs s l <> None) ->
  (exists l, internal l = true /\ tstep qs s l <> None).
Proof.
  intros (l & Hl & He). destruct (tight_blocked s l) eqn:Hb.
  - destruct l; try discriminate Hb; cbn [tight_blocked] in Hb; cbn [step] in He.
    + (* QTryFail i, worker parked *)
      destruct (nth_error (lanes s) i) as [[b0 q0 w0]|] eqn:Hn; [|discriminate]. cbn [w] in Hb.
      destruct w0; try discriminate Hb. destruct q0; try (exfalso; apply He; reflexivity).
      exists (QTryOwn i). split; [reflexivity|]. unfold tstep. cbn [tight_blocked step]. rewrite Hn. cbn [receptive_own].
      eapply handover_enabled; eauto. apply nth_error_Some. congruence.
    + (* WTryFail j, queue goroutine offering *)
      destruct (nth_error (lanes s) j) as [[b0 q0 w0]|] eqn:Hn; [|discriminate]. cbn [q] in Hb.
      destruct q0; try discriminate Hb. destruct w0; try (exfalso; apply He; reflexivity).
      exists (QOfferOwn j). split; [reflexivity|]. unfold tstep. cbn [tight_blocked step]. rewrite Hn. cbn [receptive_own].
      eapply handover_enabled; eauto. apply nth_error_Some. congruence.
  - exists l. split; [exact Hl|]. unfold tstep. rewrite Hb. exact He.
Qed.

Definition tstuck (qs : nat) (P : label -> bool) (s : state) : Prop :=
  forall l, P l = true -> tstep qs s l = None.

Corollary tstuck_stuck qs s : tstuck qs internal s -> stuck qs internal s.
Proof.
  intros Ht l Hl. destruct (step qs s l) eqn:E; [|reflexivity]. exfalso.
  destruct (tight_no_new_deadlock qs s) as (l' & Hl' & He').
  - exists l. split; [exact Hl|congruence].
  - apply He'. apply Ht. exact Hl'.
Qed.

Corollary tstuck_quiet_stuck qs s : tstuck qs quiet s -> stuck qs quiet s.
Proof.
  intros Ht l Hl. unfold quiet in Hl. destruct (internal l) eqn:Hi.
  - apply tstuck_stuck; [|exact Hi]. intros l' Hl'. apply Ht. unfold quiet. rewrite Hl'. reflexivity.
  - cbn [orb] in Hl. specialize (Ht l). unfold quiet in Ht. rewrite Hi, Hl in Ht. specialize (Ht eq_refl).
    unfold tstep in Ht. destruct l; try discriminate Hl. exact Ht.
Qed.

(* progress, work sharing and "a maximal quiet run starts everything", in the tight model *)
Theorem tight_progress qs n ls s t :
  trun qs (init n) ls = Some s -> cancelled s = false -> In t (accepted s) -> ~ In t (started s) ->
  (exists l, internal l = true /\ tstep qs s l <> None) \/ all_workers_running s = true.
Proof.
  intros Hr Hc Ha Hs. destruct (progress _ _ _ _ _ (trun_refines _ _ _ _ Hr) Hc Ha Hs) as [H|H]; [left|right; exact H].
  apply tight_no_new_deadlock. exact H.
Qed.

Theorem tight_all_started qs n ls s :
  trun qs (init n) ls = Some s -> cancelled s = false -> tstuck qs quiet s ->
  forall t, In t (accepted s) -> In t (started s).
Proof.
  intros Hr Hc Hst. apply (quiet_all_started qs n ls); auto using trun_refines, tstuck_quiet_stuck.
Qed.

(* ---------- the own worker takes it ---------- *)
(* Queue goroutine i is offering t, worker i is at its non-blocking receive, context live. Then whatever step the
   system takes, either both are still there, or t has just been started. In particular worker i cannot fall
   through to the universal queue and serve another lane. *)
Theorem tight_own_worker_takes qs s i b0 t l s' :
  nth_error (lanes s) i = Some (mkLane b0 (QOffer t) WTry) -> cancelled s = false ->
  tstep qs s l = Some s' ->
  (exists b1, nth_error (lanes s') i = Some (mkLane b1 (QOffer t) WTry))
  \/ started s' = t :: started s.
Proof.
  intros Hi Hc Hs. unfold tstep in Hs. destruct (tight_blocked s l) eqn:Hb; [discriminate|].
  assert (Hkeep : forall k x, k <> i -> nth_error (upd (lanes s) k x) i = Some (mkLane b0 (QOffer t) WTry)).
  { intros k x Hk. rewrite nth_error_upd_other by exact Hk. exact Hi. }
  step_cases Hs s' l; try (left; exists b0; exact Hi);
    try congruence;
    try (match goal with Hn : nth_error (lanes s) ?k = Some _ |- _ =>
           lazymatch k with i => fail | _ => idtac end;
           destruct (Nat.eq_dec k i) as [->|Hk];
           [ rewrite Hi in Hn; try discriminate Hn; injection Hn; intros; subst; try discriminate
           | ] end).
  all: try (left; exists b0; apply Hkeep; assumption).
  all: try (left; exists b0; rewrite !nth_error_upd_other by assumption; exact Hi).
  all: try (right; reflexivity).
  all: try (cbn [tight_blocked] in Hb; rewrite Hi in Hb; discriminate Hb).
  - (* PushOk on lane i: only the buffer grows *)
    left. unfold push_lane in Heqo0. cbn [buf q w] in Heqo0. destruct (qs =? 0); [discriminate|].
    destruct (length b0 <? qs); [|discriminate]. injection Heqo0 as <-.
    eexists. eapply nth_error_upd_same; exact Hi.
  - (* QOfferUni i0 j, j <> i *)
    destruct (Nat.eq_dec i0 i) as [->|Hk0].
    + rewrite Hi in Heqo. injection Heqo as <- <- <-. right. reflexivity.
    + left. exists b0. rewrite !nth_error_upd_other by assumption. exact Hi.
Qed.

(* ... and the hand-over to the own worker is enabled there, so the iteration can complete *)
Theorem tight_own_receive_enabled qs s i b0 t :
  nth_error (lanes s) i = Some (mkLane b0 (QOffer t) WTry) -> tstep qs s (QOfferOwn i) <> None.
Proof.
  intros Hi. unfold tstep. cbn [tight_blocked step]. rewrite Hi. cbn [receptive_own].
  eapply handover_enabled; eauto. apply nth_error_Some. congruence.
Qed.

(* worker i at its loop top with its queue goroutine offering: the loop-top test leads to the situation above *)
Theorem tight_loop_top qs s i b0 t :
  nth_error (lanes s) i = Some (mkLane b0 (QOffer t) WTop) -> cancelled s = false ->
  exists s', tstep qs s (WCheck i) = Some s' /\ nth_error (lanes s') i = Some (mkLane b0 (QOffer t) WTry)
             /\ cancelled s' = false.
Proof.
  intros Hi Hc. unfold tstep. cbn [tight_blocked step]. rewrite Hi, Hc. eexists. split; [reflexivity|].
  st_simpl. split; [eapply nth_error_upd_same; exact Hi|exact Hc].
Qed.
