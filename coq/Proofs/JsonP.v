(** Generic facts about the strict JSON parser of [Lib/Json.v]:
    unfolding / inversion lemmas, monotonicity in both fuels, and the PREFIX-EXTENSION
    lemma (a successful parse is unchanged when a continuation starting with [,] or [}] is
    appended to the input) — the latter is what makes embedded raw values compositional. *)
From Coq Require Import List NArith Lia Bool ZArith.
From Coq Require Import ZifyBool ZifyN ZifyNat.
Import ListNotations.
From Glb Require Import Lib.Utf8 Proofs.Utf8P Lib.Json.
Open Scope N_scope.

(** continuations that may follow a member's value inside an object *)
Definition dh (K : list N) : Prop := exists c K', K = c :: K' /\ (c = 44 \/ c = 125).

Lemma dh_cons c K : c = 44 \/ c = 125 -> dh (c :: K).
Proof. intros H. exists c, K. auto. Qed.

(** ** whitespace *)
Lemma skip_ws_cons b t : is_ws b = false -> skip_ws (b :: t) = b :: t.
Proof. intros H. cbn [skip_ws]. rewrite H. reflexivity. Qed.

Lemma skip_ws_ext s b t K : skip_ws s = b :: t -> skip_ws (s ++ K) = b :: t ++ K.
Proof.
  induction s as [|x s IH]; cbn [skip_ws app]; [discriminate|].
  destruct (is_ws x); [exact IH|]. intros H. inversion H; subst. reflexivity.
Qed.

Lemma skip_ws_dh K : dh K -> skip_ws K = K.
Proof. intros (c & K' & -> & [-> | ->]); reflexivity. Qed.

(** ** the string scanner *)
Lemma psb_S f b t :
  psb (S f) (b :: t) =
  if b =? 34 then Some ([], t)
  else if b =? 92 then
    match escape1 t with
    | Some (bs, r) => match psb f r with Some (o, r') => Some (bs ++ o, r') | None => None end
    | None => None
    end
  else if b <? 32 then None
  else if b <? 128 then match psb f t with Some (o, r') => Some (b :: o, r') | None => None end
  else
    let d := decode (b :: t) in
    if invalid d then match psb f t with Some (o, r') => Some (239 :: 191 :: 189 :: o, r') | None => None end
    else match psb f (skipn (snd d) (b :: t)) with
         | Some (o, r') => Some (firstn (snd d) (b :: t) ++ o, r')
         | None => None
         end.
Proof. reflexivity. Qed.

Lemma psb_mono : forall f f' s x, psb f s = Some x -> (f <= f')%nat -> psb f' s = Some x.
Proof.
  induction f as [|f IH]; intros f' s x H Hle; [discriminate|].
  destruct f' as [|f']; [lia|]. destruct s as [|b t]; [discriminate|].
  rewrite psb_S in *.
  destruct (b =? 34); [exact H|].
  destruct (b =? 92).
  { destruct (escape1 t) as [[bs r]|]; [|discriminate].
    destruct (psb f r) as [[o r']|] eqn:E; [|discriminate]. rewrite (IH f' r _ E) by lia. exact H. }
  destruct (b <? 32); [discriminate|].
  destruct (b <? 128).
  { destruct (psb f t) as [[o r']|] eqn:E; [|discriminate]. rewrite (IH f' t _ E) by lia. exact H. }
  cbv zeta in *. destruct (invalid (decode (b :: t))).
  { destruct (psb f t) as [[o r']|] eqn:E; [|discriminate]. rewrite (IH f' t _ E) by lia. exact H. }
  destruct (psb f (skipn (snd (decode (b :: t))) (b :: t))) as [[o r']|] eqn:E; [|discriminate].
  rewrite (IH f' _ _ E) by lia. exact H.
Qed.

Lemma hex4_ext s c t K : hex4 s = Some (c, t) -> hex4 (s ++ K) = Some (c, t ++ K).
Proof.
  destruct s as [|h1 [|h2 [|h3 [|h4 s]]]]; try discriminate. cbn [app]. unfold hex4.
  destruct (unhex h1), (unhex h2), (unhex h3), (unhex h4); try discriminate.
  intros [= <- <-]. reflexivity.
Qed.

Lemma uescape_ext s c t K : uescape s = Some (c, t) -> uescape (s ++ K) = Some (c, t ++ K).
Proof.
  unfold uescape. destruct (hex4 s) as [[c1 t1]|] eqn:E; [|discriminate].
  rewrite (hex4_ext _ _ _ K E).
  destruct (is_lo_surr c1); [discriminate|].
  destruct (is_hi_surr c1).
  - destruct t1 as [|b1 [|b2 t']]; try discriminate. cbn [app].
    destruct ((b1 =? 92) && (b2 =? 117)); [|discriminate].
    destruct (hex4 t') as [[c2 t'']|] eqn:E2; [|discriminate]. rewrite (hex4_ext _ _ _ K E2).
    destruct (is_lo_surr c2); [|discriminate].
    generalize (65536 + (c1 - 55296) * 1024 + (c2 - 56320)). intros cp [= <- <-]; reflexivity.
  - intros [= <- <-]; reflexivity.
Qed.

Lemma escape1_ext s bs r K : escape1 s = Some (bs, r) -> escape1 (s ++ K) = Some (bs, r ++ K).
Proof.
  destruct s as [|e t]; [discriminate|]. cbn [app]. unfold escape1.
  repeat match goal with
         | |- context [if ?c then Some _ else _] => destruct c; [intros H; inversion H; subst; reflexivity|]
         end.
  destruct (e =? 117); [|discriminate].
  destruct (uescape t) as [[c t']|] eqn:E; [|discriminate]. rewrite (uescape_ext _ _ _ K E).
  intros H; inversion H; subst; reflexivity.
Qed.

Lemma decode_size b t : (1 <= snd (decode (b :: t)) <= 4)%nat.
Proof.
  unfold decode.
  repeat match goal with
         | |- context [if ?c then _ else _] => destruct c
         | |- context [match ?l with [] => _ | _ :: _ => _ end] => destruct l
         end; cbn [snd]; lia.
Qed.

Lemma decode_ext b t K :
  invalid (decode (b :: t)) = false ->
  decode ((b :: t) ++ K) = decode (b :: t) /\ (snd (decode (b :: t)) <= length (b :: t))%nat.
Proof.
  intros Hi. destruct (decode (b :: t)) as [c k] eqn:Ed.
  pose proof (decode_size b t) as Hs. rewrite Ed in Hs. cbn [snd] in *.
  destruct (decode_valid_enc (b :: t) c k Ed Hi) as (_ & Hst & Hlen); [lia|].
  split.
  - rewrite <- (firstn_skipn k (b :: t)) at 1. rewrite <- app_assoc. apply Hst.
  - rewrite <- Hlen. rewrite firstn_length. lia.
Qed.

(** An INVALID decode is stable under appending, too, as soon as the scanner can still succeed on the
    rest: then a byte below 0x80 (at the latest the closing quote) stands among the next three bytes
    or the rest has three bytes anyway, and [decode] never looks further. *)
Definition ascii_stop (t : list N) : Prop :=
  match t with
  | [] => False
  | [b1] => b1 < 128
  | [b1; b2] => b1 < 128 \/ b2 < 128
  | _ => True
  end.

Lemma decode_app_stop b t K : ascii_stop t -> decode (b :: t ++ K) = decode (b :: t).
Proof.
  destruct t as [|b1 [|b2 [|b3 t']]]; cbn [ascii_stop app]; intros Hs; try contradiction; [| |reflexivity].
  - unfold decode, cont.
    destruct (b <? 128); [reflexivity|]. destruct (b <? 194); [reflexivity|].
    replace (128 <=? b1) with false by lia. rewrite ?andb_false_l.
    destruct (b <? 224); [reflexivity|].
    destruct (b <? 240).
    { destruct K as [|k1 K]; [reflexivity|].
      replace ((if b =? 224 then 160 else 128) <=? b1) with false by (destruct (b =? 224); lia). reflexivity. }
    destruct (b <? 245); [|reflexivity].
    destruct K as [|k1 [|k2 K]]; try reflexivity.
    replace ((if b =? 240 then 144 else 128) <=? b1) with false by (destruct (b =? 240); lia). reflexivity.
  - unfold decode, cont.
    destruct (b <? 128); [reflexivity|]. destruct (b <? 194); [reflexivity|].
    destruct (b <? 224); [reflexivity|].
    destruct (b <? 240); [reflexivity|].
    destruct (b <? 245); [|reflexivity].
    destruct K as [|k1 K]; [reflexivity|].
    destruct Hs as [Hs|Hs].
    + replace ((if b =? 240 then 144 else 128) <=? b1) with false by (destruct (b =? 240); lia). reflexivity.
    + replace (128 <=? b2) with false by lia. rewrite ?andb_false_l, ?andb_false_r. reflexivity.
Qed.

Lemma psb_nil f : psb f [] = None.
Proof. destruct f; reflexivity. Qed.

Lemma decode_valid_size2 b t : 128 <= b -> invalid (decode (b :: t)) = false -> (2 <= snd (decode (b :: t)))%nat.
Proof.
  intros Hb. unfold decode, invalid, RE.
  replace (b <? 128) with false by lia.
  repeat match goal with
         | |- context [if ?c then _ else _] => destruct c
         | |- context [match ?l with [] => _ | _ :: _ => _ end] => destruct l
         end; cbn [fst snd]; intros H; try lia; discriminate H.
Qed.

Lemma psb_some_stop : forall f t x, psb f t = Some x -> ascii_stop t.
Proof.
  assert (H1 : forall f b1 x, psb f [b1] = Some x -> b1 < 128).
  { intros f b1 x H. destruct f as [|f]; [discriminate|]. rewrite psb_S in H.
    destruct (b1 =? 34) eqn:E; [lia|].
    destruct (b1 =? 92); [cbn in H; discriminate|].
    destruct (b1 <? 32); [discriminate|].
    destruct (b1 <? 128) eqn:E2; [lia|].
    cbv zeta in H. destruct (invalid (decode [b1])) eqn:Ei.
    - rewrite psb_nil in H. discriminate.
    - pose proof (decode_valid_size2 b1 [] ltac:(lia) Ei) as Hk.
      destruct (snd (decode [b1])) as [|[|k]]; try lia. cbn [skipn] in H. rewrite psb_nil in H. discriminate. }
  intros f t x H. destruct t as [|b1 [|b2 [|b3 t']]]; cbn [ascii_stop]; auto.
  - rewrite psb_nil in H. discriminate.
  - eapply H1; eauto.
  - destruct (b1 <? 128) eqn:E1; [left; lia|right].
    destruct f as [|f]; [discriminate|]. rewrite psb_S in H.
    replace (b1 =? 34) with false in H by lia. replace (b1 =? 92) with false in H by lia.
    replace (b1 <? 32) with false in H by lia. rewrite E1 in H. cbv zeta in H.
    destruct (invalid (decode [b1; b2])) eqn:Ei.
    + destruct (psb f [b2]) as [y|] eqn:E; [|discriminate]. eapply H1; eauto.
    + pose proof (decode_valid_size2 b1 [b2] ltac:(lia) Ei) as Hk.
      destruct (snd (decode [b1; b2])) as [|[|k]]; try lia.
      assert (Hn : skipn (S (S k)) [b1; b2] = []) by (destruct k; reflexivity).
      rewrite Hn, psb_nil in H. discriminate.
Qed.

Lemma psb_ext : forall f s o r K, psb f s = Some (o, r) -> psb f (s ++ K) = Some (o, r ++ K).
Proof.
  induction f as [|f IH]; intros s o r K H; [discriminate|].
  destruct s as [|b t]; [discriminate|].
  change ((b :: t) ++ K) with (b :: (t ++ K)). rewrite psb_S in *.
  destruct (b =? 34); [inversion H; subst; reflexivity|].
  destruct (b =? 92).
  { destruct (escape1 t) as [[bs r1]|] eqn:E1; [|discriminate]. rewrite (escape1_ext _ _ _ K E1).
    destruct (psb f r1) as [[o1 r']|] eqn:E; [|discriminate]. rewrite (IH _ _ _ K E).
    inversion H; subst; reflexivity. }
  destruct (b <? 32); [discriminate|].
  destruct (b <? 128).
  { destruct (psb f t) as [[o1 r']|] eqn:E; [|discriminate]. rewrite (IH _ _ _ K E).
    inversion H; subst; reflexivity. }
  cbv zeta in *. destruct (invalid (decode (b :: t))) eqn:Ei.
  { destruct (psb f t) as [[o1 r']|] eqn:E; [|discriminate].
    rewrite (decode_app_stop b t K (psb_some_stop _ _ _ E)), Ei. rewrite (IH _ _ _ K E).
    inversion H; subst; reflexivity. }
  destruct (decode_ext b t K Ei) as [Hd Hl].
  change (b :: t ++ K) with ((b :: t) ++ K). rewrite Hd, Ei.
  set (k := snd (decode (b :: t))) in *.
  rewrite skipn_app, firstn_app. replace (k - length (b :: t))%nat with 0%nat by lia.
  cbn [skipn firstn]. rewrite app_nil_r.
  destruct (psb f (skipn k (b :: t))) as [[o1 r']|] eqn:E; [|discriminate]. rewrite (IH _ _ _ K E).
  inversion H; subst; reflexivity.
Qed.

Lemma parse_string_body_ext s o r K :
  parse_string_body s = Some (o, r) -> parse_string_body (s ++ K) = Some (o, r ++ K).
Proof.
  unfold parse_string_body. intros H. apply psb_ext.
  eapply psb_mono; [exact H|]. rewrite app_length. lia.
Qed.

(** ** numbers *)
Lemma span_digits_ext : forall s a r K, dh K -> span_digits s = (a, r) -> span_digits (s ++ K) = (a, r ++ K).
Proof.
  induction s as [|d t IH]; intros a r K HK H.
  - cbn in H. inversion H; subst. cbn [app].
    destruct HK as (c & K' & -> & [-> | ->]); reflexivity.
  - cbn [span_digits app] in *. destruct (is_digit d).
    + destruct (span_digits t) as [a1 r1] eqn:E. rewrite (IH _ _ K HK eq_refl). inversion H; subst. reflexivity.
    + inversion H; subst. reflexivity.
Qed.

Lemma num_int_ext s ip r K : dh K -> num_int s = Some (ip, r) -> num_int (s ++ K) = Some (ip, r ++ K).
Proof.
  intros HK. destruct s as [|d t]; [discriminate|]. cbn [app]. unfold num_int.
  destruct (is_digit d); [|discriminate].
  destruct (d =? 48); [intros H; inversion H; subst; reflexivity|].
  destruct (span_digits t) as [a r1] eqn:E. rewrite (span_digits_ext _ _ _ K HK E).
  intros H; inversion H; subst; reflexivity.
Qed.

Lemma num_frac_ext s fp r K : dh K -> num_frac s = Some (fp, r) -> num_frac (s ++ K) = Some (fp, r ++ K).
Proof.
  intros HK. destruct s as [|p t].
  - cbn [app]. intros H; inversion H; subst. destruct HK as (c & K' & -> & [-> | ->]); reflexivity.
  - cbn [app]. unfold num_frac. destruct (p =? 46).
    + destruct (span_digits t) as [a r1] eqn:E. rewrite (span_digits_ext _ _ _ K HK E).
      destruct a; [discriminate|]. intros H; inversion H; subst; reflexivity.
    + intros H; inversion H; subst; reflexivity.
Qed.

Lemma num_exp_ext s ep r K : dh K -> num_exp s = Some (ep, r) -> num_exp (s ++ K) = Some (ep, r ++ K).
Proof.
  intros HK. destruct s as [|e t].
  - cbn [app]. intros H; inversion H; subst. destruct HK as (c & K' & -> & [-> | ->]); reflexivity.
  - cbn [app]. unfold num_exp. destruct ((e =? 101) || (e =? 69)).
    + destruct t as [|g u].
      * cbn [app span_digits]. discriminate.
      * cbn [app]. destruct ((g =? 43) || (g =? 45)).
        -- destruct (span_digits u) as [a r1] eqn:E. rewrite (span_digits_ext _ _ _ K HK E).
           destruct a; [discriminate|]. intros H; inversion H; subst; reflexivity.
        -- change (g :: u ++ K) with ((g :: u) ++ K).
           destruct (span_digits (g :: u)) as [a r1] eqn:E. rewrite (span_digits_ext _ _ _ K HK E).
           destruct a; [discriminate|]. intros H; inversion H; subst; reflexivity.
    + intros H; inversion H; subst; reflexivity.
Qed.

Lemma parse_number_ext s txt r K : dh K -> parse_number s = Some (txt, r) -> parse_number (s ++ K) = Some (txt, r ++ K).
Proof.
  intros HK. unfold parse_number.
  assert (Hs : forall sg s1, num_sign s = (sg, s1) ->
            (s1 = [] /\ s = [] /\ sg = []) \/ (num_sign (s ++ K) = (sg, s1 ++ K))).
  { intros sg s1. destruct s as [|b t]; cbn [num_sign app].
    - intros H; inversion H; subst. left; auto.
    - destruct (b =? 45); intros H; inversion H; subst; right; reflexivity. }
  destruct (num_sign s) as [sg s1] eqn:E. destruct (Hs sg s1 eq_refl) as [(-> & -> & ->)|Hx].
  { cbn. discriminate. }
  rewrite Hx.
  destruct (num_int s1) as [[ip s2]|] eqn:E1; [|discriminate]. rewrite (num_int_ext _ _ _ K HK E1).
  destruct (num_frac s2) as [[fp s3]|] eqn:E2; [|discriminate]. rewrite (num_frac_ext _ _ _ K HK E2).
  destruct (num_exp s3) as [[ep s4]|] eqn:E3; [|discriminate]. rewrite (num_exp_ext _ _ _ K HK E3).
  intros H; inversion H; subst; reflexivity.
Qed.

Lemma strip_prefix_ext : forall w s r K, strip_prefix w s = Some r -> strip_prefix w (s ++ K) = Some (r ++ K).
Proof.
  induction w as [|x w IH]; intros s r K H; cbn [strip_prefix] in *.
  - inversion H; subst; reflexivity.
  - destruct s as [|y s]; [discriminate|]. cbn [app]. destruct (x =? y); [apply IH; exact H|discriminate].
Qed.

(** ** member / element loops: introduction and inversion *)
Section LoopFacts.
  Variable pv : list N -> option (jval * list N).

  Lemma mloop_intro n s t k r1 r2 v r3 ms r :
    skip_ws s = 34 :: t -> parse_string_body t = Some (k, r1) -> skip_ws r1 = 58 :: r2 ->
    pv r2 = Some (v, r3) -> mtail pv n r3 = Some (ms, r) ->
    mloop pv (S n) s = Some ((k, v) :: ms, r).
  Proof.
    intros H1 H2 H3 H4 H5. cbn [mloop]. rewrite H1. change (34 =? 34) with true. cbv iota.
    rewrite H2, H3. change (58 =? 58) with true. cbv iota. rewrite H4.
    unfold mtail in H5. destruct (skip_ws r3) as [|d r4]; [discriminate|].
    destruct (d =? 44).
    - rewrite H5. reflexivity.
    - destruct (d =? 125); [|discriminate]. inversion H5; subst. reflexivity.
  Qed.

  Lemma mloop_inv n s ms r :
    mloop pv (S n) s = Some (ms, r) ->
    exists t k r1 r2 v r3 ms',
      skip_ws s = 34 :: t /\ parse_string_body t = Some (k, r1) /\ skip_ws r1 = 58 :: r2 /\
      pv r2 = Some (v, r3) /\ mtail pv n r3 = Some (ms', r) /\ ms = (k, v) :: ms'.
  Proof.
    cbn [mloop]. destruct (skip_ws s) as [|b t] eqn:E1; [discriminate|].
    destruct (b =? 34) eqn:Eb; [|discriminate]. apply N.eqb_eq in Eb. subst b.
    destruct (parse_string_body t) as [[k r1]|] eqn:E2; [|discriminate].
    destruct (skip_ws r1) as [|c r2] eqn:E3; [discriminate|].
    destruct (c =? 58) eqn:Ec; [|discriminate]. apply N.eqb_eq in Ec. subst c.
    destruct (pv r2) as [[v r3]|] eqn:E4; [|discriminate].
    intros H. exists t, k, r1, r2, v, r3.
    unfold mtail. destruct (skip_ws r3) as [|d r4]; [discriminate|].
    destruct (d =? 44).
    - destruct (mloop pv n r4) as [[ms' r5]|]; [|discriminate]. injection H as <- <-.
      exists ms'. repeat split; auto.
    - destruct (d =? 125); [|discriminate]. injection H as <- <-. exists []. repeat split; auto.
  Qed.

  Lemma mtail_inv n s ms r :
    mtail pv n s = Some (ms, r) ->
    (exists r', skip_ws s = 44 :: r' /\ mloop pv n r' = Some (ms, r)) \/ (skip_ws s = 125 :: r /\ ms = []).
  Proof.
    unfold mtail. destruct (skip_ws s) as [|d r']; [discriminate|].
    destruct (d =? 44) eqn:E1.
    - apply N.eqb_eq in E1. subst. intros H. left. eauto.
    - destruct (d =? 125) eqn:E2; [|discriminate]. apply N.eqb_eq in E2. subst.
      intros H; inversion H; subst. right. auto.
  Qed.

  Lemma mtail_close n K : mtail pv n (125 :: K) = Some ([], K).
  Proof. reflexivity. Qed.
  Lemma ostart_close n K : ostart pv n (125 :: K) = Some ([], K).
  Proof. reflexivity. Qed.
  Lemma mtail_comma n K : mtail pv n (44 :: K) = mloop pv n K.
  Proof. reflexivity. Qed.
  Lemma ostart_quote n K : ostart pv n (34 :: K) = mloop pv n (34 :: K).
  Proof. reflexivity. Qed.

  Lemma aloop_inv n s l r :
    aloop pv (S n) s = Some (l, r) ->
    exists v r1, pv s = Some (v, r1) /\
      ((exists r2 l', skip_ws r1 = 44 :: r2 /\ aloop pv n r2 = Some (l', r) /\ l = v :: l') \/
       (skip_ws r1 = 93 :: r /\ l = [v])).
  Proof.
    cbn [aloop]. destruct (pv s) as [[v r1]|]; [|discriminate].
    intros H. exists v, r1. split; [reflexivity|].
    destruct (skip_ws r1) as [|d r2]; [discriminate|].
    destruct (d =? 44) eqn:E1.
    - apply N.eqb_eq in E1. subst. destruct (aloop pv n r2) as [[l' r3]|] eqn:E; [|discriminate].
      inversion H; subst. left. eauto.
    - destruct (d =? 93) eqn:E2; [|discriminate]. apply N.eqb_eq in E2. subst.
      inversion H; subst. right. auto.
  Qed.
End LoopFacts.

(** ** monotonicity *)
Definition pv_le (p q : list N -> option (jval * list N)) : Prop := forall s x, p s = Some x -> q s = Some x.

Lemma mloop_mono p q : pv_le p q ->
  forall n n' s x, mloop p n s = Some x -> (n <= n')%nat -> mloop q n' s = Some x.
Proof.
  intros Hpq. induction n as [|n IH]; intros n' s [ms r] H Hle; [discriminate|].
  destruct n' as [|n']; [lia|].
  apply mloop_inv in H as (t & k & r1 & r2 & v & r3 & ms' & H1 & H2 & H3 & H4 & H5 & ->).
  eapply mloop_intro; eauto.
  apply mtail_inv in H5 as [(r' & Ha & Hb)|(Ha & ->)].
  - unfold mtail. rewrite Ha. change (44 =? 44) with true. cbv iota. apply (IH n' _ _ Hb). lia.
  - unfold mtail. rewrite Ha. reflexivity.
Qed.

Lemma ostart_mono p q : pv_le p q ->
  forall n n' s x, ostart p n s = Some x -> (n <= n')%nat -> ostart q n' s = Some x.
Proof.
  intros Hpq n n' s x. unfold ostart. destruct (skip_ws s) as [|c r]; [discriminate|].
  destruct (c =? 125); [auto|]. intros H Hle. eapply mloop_mono; eauto.
Qed.

Lemma aloop_mono p q : pv_le p q ->
  forall n n' s x, aloop p n s = Some x -> (n <= n')%nat -> aloop q n' s = Some x.
Proof.
  intros Hpq. induction n as [|n IH]; intros n' s [l r] H Hle; [discriminate|].
  destruct n' as [|n']; [lia|].
  apply aloop_inv in H as (v & r1 & Hv & [(r2 & l' & Ha & Hb & ->)|(Ha & ->)]).
  - cbn [aloop]. rewrite (Hpq _ _ Hv), Ha. change (44 =? 44) with true. cbv iota.
    rewrite (IH n' _ _ Hb) by lia. reflexivity.
  - cbn [aloop]. rewrite (Hpq _ _ Hv), Ha. reflexivity.
Qed.

Lemma astart_mono p q : pv_le p q ->
  forall n n' s x, astart p n s = Some x -> (n <= n')%nat -> astart q n' s = Some x.
Proof.
  intros Hpq n n' s x. unfold astart. destruct (skip_ws s) as [|c r]; [discriminate|].
  destruct (c =? 93); [auto|]. intros H Hle. eapply aloop_mono; eauto.
Qed.

Lemma parse_value_S f s :
  parse_value (S f) s =
  match skip_ws s with
  | [] => None
  | b :: t =>
    if b =? 34 then match parse_string_body t with Some (x, r) => Some (JStr x, r) | None => None end
    else if b =? 123 then match ostart (parse_value f) (length t) t with Some (ms, r) => Some (JObj ms, r) | None => None end
    else if b =? 91 then match astart (parse_value f) (length t) t with Some (l, r) => Some (JArr l, r) | None => None end
    else if b =? 116 then match strip_prefix [114; 117; 101] t with Some r => Some (JTrue, r) | None => None end
    else if b =? 102 then match strip_prefix [97; 108; 115; 101] t with Some r => Some (JFalse, r) | None => None end
    else if b =? 110 then match strip_prefix [117; 108; 108] t with Some r => Some (JNull, r) | None => None end
    else match parse_number (b :: t) with Some (txt, r) => Some (JNum txt, r) | None => None end
  end.
Proof. reflexivity. Qed.

Lemma parse_value_mono : forall f f', (f <= f')%nat -> pv_le (parse_value f) (parse_value f').
Proof.
  induction f as [|f IH]; intros f' Hle s x H; [discriminate|].
  destruct f' as [|f']; [lia|]. rewrite parse_value_S in *.
  destruct (skip_ws s) as [|b t]; [discriminate|].
  destruct (b =? 34); [exact H|].
  destruct (b =? 123).
  { destruct (ostart (parse_value f) (length t) t) as [[ms r]|] eqn:E; [|discriminate].
    rewrite (ostart_mono _ _ (IH f' ltac:(lia)) _ _ _ _ E (le_n _)). exact H. }
  destruct (b =? 91).
  { destruct (astart (parse_value f) (length t) t) as [[l r]|] eqn:E; [|discriminate].
    rewrite (astart_mono _ _ (IH f' ltac:(lia)) _ _ _ _ E (le_n _)). exact H. }
  exact H.
Qed.

(** ** prefix extension *)
Definition pv_ext (p : list N -> option (jval * list N)) (K : list N) : Prop :=
  forall s v r, p s = Some (v, r) -> p (s ++ K) = Some (v, r ++ K).

Lemma mloop_ext p K : pv_ext p K ->
  forall n s ms r, mloop p n s = Some (ms, r) -> mloop p n (s ++ K) = Some (ms, r ++ K).
Proof.
  intros Hp. induction n as [|n IH]; intros s ms r H; [discriminate|].
  apply mloop_inv in H as (t & k & r1 & r2 & v & r3 & ms' & H1 & H2 & H3 & H4 & H5 & ->).
  eapply mloop_intro.
  - apply skip_ws_ext; exact H1.
  - apply parse_string_body_ext; exact H2.
  - apply skip_ws_ext; exact H3.
  - apply Hp; exact H4.
  - apply mtail_inv in H5 as [(r' & Ha & Hb)|(Ha & ->)]; unfold mtail.
    + rewrite (skip_ws_ext _ _ _ K Ha). change (44 =? 44) with true. cbv iota. apply IH; exact Hb.
    + rewrite (skip_ws_ext _ _ _ K Ha). reflexivity.
Qed.

Lemma ostart_ext p K : pv_ext p K ->
  forall n s ms r, ostart p n s = Some (ms, r) -> ostart p n (s ++ K) = Some (ms, r ++ K).
Proof.
  intros Hp n s ms r. unfold ostart. destruct (skip_ws s) as [|c r'] eqn:E; [discriminate|].
  rewrite (skip_ws_ext _ _ _ K E). destruct (c =? 125).
  - intros H; inversion H; subst; reflexivity.
  - apply mloop_ext; exact Hp.
Qed.

Lemma aloop_ext p K : pv_ext p K ->
  forall n s l r, aloop p n s = Some (l, r) -> aloop p n (s ++ K) = Some (l, r ++ K).
Proof.
  intros Hp. induction n as [|n IH]; intros s l r H; [discriminate|].
  apply aloop_inv in H as (v & r1 & Hv & [(r2 & l' & Ha & Hb & ->)|(Ha & ->)]); cbn [aloop].
  - rewrite (Hp _ _ _ Hv), (skip_ws_ext _ _ _ K Ha). change (44 =? 44) with true. cbv iota.
    rewrite (IH _ _ _ Hb). reflexivity.
  - rewrite (Hp _ _ _ Hv), (skip_ws_ext _ _ _ K Ha). reflexivity.
Qed.

Lemma astart_ext p K : pv_ext p K ->
  forall n s l r, astart p n s = Some (l, r) -> astart p n (s ++ K) = Some (l, r ++ K).
Proof.
  intros Hp n s l r. unfold astart. destruct (skip_ws s) as [|c r'] eqn:E; [discriminate|].
  rewrite (skip_ws_ext _ _ _ K E). destruct (c =? 93).
  - intros H; inversion H; subst; reflexivity.
  - apply aloop_ext; exact Hp.
Qed.

Lemma pv_le_refl p : pv_le p p.
Proof. intros s x H; exact H. Qed.

Theorem parse_value_ext K : dh K -> forall f, pv_ext (parse_value f) K.
Proof.
  intros HK. induction f as [|f IH]; intros s v r H; [discriminate|].
  rewrite parse_value_S in *.
  destruct (skip_ws s) as [|b t] eqn:Es; [discriminate|]. rewrite (skip_ws_ext _ _ _ K Es).
  destruct (b =? 34).
  { destruct (parse_string_body t) as [[x r1]|] eqn:E; [|discriminate].
    rewrite (parse_string_body_ext _ _ _ K E). inversion H; subst; reflexivity. }
  destruct (b =? 123).
  { destruct (ostart (parse_value f) (length t) t) as [[ms r1]|] eqn:E; [|discriminate].
    apply (ostart_ext _ K IH) in E.
    rewrite (ostart_mono _ _ (pv_le_refl _) _ (length (t ++ K)) _ _ E) by (rewrite app_length; lia).
    inversion H; subst; reflexivity. }
  destruct (b =? 91).
  { destruct (astart (parse_value f) (length t) t) as [[l r1]|] eqn:E; [|discriminate].
    apply (astart_ext _ K IH) in E.
    rewrite (astart_mono _ _ (pv_le_refl _) _ (length (t ++ K)) _ _ E) by (rewrite app_length; lia).
    inversion H; subst; reflexivity. }
  destruct (b =? 116).
  { destruct (strip_prefix [114; 117; 101] t) as [r1|] eqn:E; [|discriminate].
    rewrite (strip_prefix_ext _ _ _ K E). inversion H; subst; reflexivity. }
  destruct (b =? 102).
  { destruct (strip_prefix [97; 108; 115; 101] t) as [r1|] eqn:E; [|discriminate].
    rewrite (strip_prefix_ext _ _ _ K E). inversion H; subst; reflexivity. }
  destruct (b =? 110).
  { destruct (strip_prefix [117; 108; 108] t) as [r1|] eqn:E; [|discriminate].
    rewrite (strip_prefix_ext _ _ _ K E). inversion H; subst; reflexivity. }
  destruct (parse_number (b :: t)) as [[txt r1]|] eqn:E; [|discriminate].
  change (b :: t ++ K) with ((b :: t) ++ K). rewrite (parse_number_ext _ _ _ K HK E).
  inversion H; subst; reflexivity.
Qed.

(** an embedded text that is exactly one JSON value parses to that value in front of any [,] / [}] continuation *)
Corollary parse_exact_embedded b j K f :
  parse_exact b = Some j -> dh K -> (length b <= f)%nat -> parse_value f (b ++ K) = Some (j, K).
Proof.
  unfold parse_exact. destruct (parse_value (length b) b) as [[v [|x r]]|] eqn:E; try discriminate.
  intros H HK Hf. inversion H; subst.
  apply (parse_value_mono _ f Hf). apply (parse_value_ext K HK) in E. exact E.
Qed.
