(** Refutation of the pinned appendJsonAttr: a well-formed record whose line is not JSON. *)
From Coq Require Import List NArith ZArith Bool.
Import ListNotations.
From Glb Require Import Lib.Utf8 Lib.JsonDec Lib.Json Model.LoggerJson Model.LoggerJsonSpec Model.LoggerJsonPinned.
Open Scope N_scope.

(** the witness: an empty inline group (what [With(slog.Group(""))] or a LogValuer hands over) before [k=1] *)
Definition witness : record :=
  mkR [50; 48; 48; 48] LInfo None [109] [([], VGroup []); ([107], VInt 1)].

Definition strip_nl (l : list N) : list N := removelast l.

Theorem old_attr_refuted :
  exists r, wf_record r = true /\ parse_object (strip_nl (old_handle r)) = None.
Proof. exists witness. split; vm_compute; reflexivity. Qed.

(** the printed line really is  ...,"msg":"m",,"k":1}  *)
Example old_attr_witness_text :
  strip_nl (old_handle witness)
  = [123;34;116;105;109;101;34;58;34;50;48;48;48;34;44;34;108;101;118;101;108;34;58;34;73;78;70;79;34;44;
     34;109;115;103;34;58;34;109;34;44;44;34;107;34;58;49;125].
Proof. vm_compute. reflexivity. Qed.

(** the repaired function prints valid JSON for the same record *)
Example new_attr_on_witness :
  parse_object (strip_nl (handle (derive []) witness)) = Some (JObj (expected [] witness), []).
Proof. vm_compute. reflexivity. Qed.
