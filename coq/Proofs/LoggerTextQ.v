(** C13, stage 1: strconv.Unquote reads back what strconv.AppendQuote wrote, for every byte
    string; plus the UTF-8 facts and the rune-wise induction principle shared by the stages. *)
From Coq Require Import List NArith Lia Bool ZArith Arith.
From Coq Require Import ZifyBool ZifyN ZifyNat.
Import ListNotations.
From Glb Require Import Lib.Utf8 Proofs.Utf8P Lib.GoQuote.
Open Scope N_scope.
Ltac Zify.zify_post_hook ::= Z.div_mod_to_equations.

(** ---- decode facts ---- *)

Lemma decode_size_pos b t : (1 <= snd (decode (b :: t)))%nat.
Proof.
  unfold decode.
  repeat match goal with
         | |- context [if ?c then _ else _] => destruct c
         | |- context [match ?l with [] => _ | _ :: _ => _ end] => destruct l
         end; cbn [snd]; lia.
Qed.

Lemma invalid_size d : invalid d = true -> snd d = 1%nat /\ fst d = RE.
Proof.
  unfold invalid. intros H. apply andb_true_iff in H as [H1 H2].
  apply N.eqb_eq in H1. apply Nat.eqb_eq in H2. auto.
Qed.

Lemma decode_valid_range b0 t c n :
  (b0 <? 128) = false -> decode (b0 :: t) = (c, n) -> invalid (c, n) = false ->
  128 <= c /\ valid_rune c = true.
Proof.
  unfold decode, invalid, valid_rune, cont, RE; cbn [fst snd]. intros E0. rewrite E0.
  destruct (b0 <? 194) eqn:E1.
  { intros H; inversion H; subst. cbn. discriminate. }
  destruct (b0 <? 224) eqn:E2.
  { destruct t as [|b1 t]; [intros H; inversion H; subst; cbn; discriminate|].
    destruct ((128 <=? b1) && (b1 <? 192)) eqn:E3; [|intros H; inversion H; subst; cbn; discriminate].
    intros H; inversion H; subst. intros _. lia. }
  destruct (b0 <? 240) eqn:E4.
  { destruct t as [|b1 [|b2 t]]; try (intros H; inversion H; subst; cbn; discriminate).
    match goal with |- context [if ?c then (_, 3%nat) else _] => destruct c eqn:E3 end;
      [|intros H; inversion H; subst; cbn; discriminate].
    intros H; inversion H; subst. intros _.
    destruct (b0 =? 224) eqn:?; destruct (b0 =? 237) eqn:?; lia. }
  destruct (b0 <? 245) eqn:E5.
  { destruct t as [|b1 [|b2 [|b3 t]]]; try (intros H; inversion H; subst; cbn; discriminate).
    match goal with |- context [if ?c then (_, 4%nat) else _] => destruct c eqn:E3 end;
      [|intros H; inversion H; subst; cbn; discriminate].
    intros H; inversion H; subst. intros _.
    destruct (b0 =? 240) eqn:?; destruct (b0 =? 244) eqn:?; lia. }
  intros H; inversion H; subst; cbn; discriminate.
Qed.

(** everything one needs to know about a valid multi-byte rune at the head of [s] *)
Lemma decode_valid_split b0 t c n :
  (b0 <? 128) = false -> decode (b0 :: t) = (c, n) -> invalid (c, n) = false ->
  b0 :: t = enc c ++ skipn n (b0 :: t) /\ length (enc c) = n /\ (1 <= n)%nat /\
  128 <= c /\ valid_rune c = true /\ (forall r, decode (enc c ++ r) = (c, n)).
Proof.
  intros E0 D V.
  assert (Hn : (1 <= n)%nat) by (pose proof (decode_size_pos b0 t) as Hp; rewrite D in Hp; exact Hp).
  destruct (decode_valid_enc _ _ _ D V) as (H1 & H2 & H3); [lia|].
  destruct (decode_valid_range _ _ _ _ E0 D V) as (H4 & H5).
  rewrite <- H1. repeat split; auto.
  symmetry; apply firstn_skipn.
Qed.

Lemma enc_high c : 128 <= c -> Forall (fun b => 128 <= b) (enc c).
Proof.
  intros H. unfold enc.
  destruct (c <? 128) eqn:E0; [lia|].
  destruct (c <? 2048) eqn:E1; [repeat constructor; lia|].
  destruct (c <? 65536) eqn:E2; repeat constructor; lia.
Qed.

Lemma enc_nonempty c : enc c <> [].
Proof. unfold enc. repeat match goal with |- context [if ?c then _ else _] => destruct c end; discriminate. Qed.

(** ---- strings rune by rune ---- *)

Lemma skipn_length_le {A} n (l : list A) : (length (skipn n l) <= length l)%nat.
Proof. rewrite skipn_length. lia. Qed.

Lemma rune_ind (P : list N -> Prop) :
  P [] ->
  (forall b t, (b <? 128) = true -> P t -> P (b :: t)) ->
  (forall b t, (b <? 128) = false -> invalid (decode (b :: t)) = true -> P t -> P (b :: t)) ->
  (forall b t c n, (b <? 128) = false -> decode (b :: t) = (c, n) -> invalid (c, n) = false ->
                   P (skipn n (b :: t)) -> P (b :: t)) ->
  forall s, P s.
Proof.
  intros H0 H1 H2 H3 s.
  remember (length s) as k eqn:Hk.
  assert (Hle : (length s <= k)%nat) by lia. clear Hk. revert s Hle.
  induction k as [|k IH]; intros s Hle.
  - destruct s; [exact H0|cbn in Hle; lia].
  - destruct s as [|b t]; [exact H0|]. cbn [length] in Hle.
    destruct (b <? 128) eqn:E0.
    + apply H1; auto. apply IH. lia.
    + destruct (decode (b :: t)) as [c n] eqn:D.
      destruct (invalid (c, n)) eqn:V.
      * apply H2; auto. { rewrite D; exact V. } apply IH. lia.
      * apply (H3 b t c n); auto. apply IH.
        pose proof (decode_size_pos b t) as Hp. rewrite D in Hp. cbn [snd] in Hp.
        destruct n as [|n']; [lia|]. cbn [skipn]. pose proof (skipn_length_le n' t). lia.
Qed.

Lemma wf_bytes_cons b t : wf_bytes (b :: t) = true -> b < 256 /\ wf_bytes t = true.
Proof. unfold wf_bytes. cbn [forallb]. intros H. apply andb_true_iff in H as [H1 H2]. split; [lia|exact H2]. Qed.

Lemma wf_bytes_skipn n s : wf_bytes s = true -> wf_bytes (skipn n s) = true.
Proof.
  revert s; induction n as [|n IH]; intros s H; [exact H|].
  destruct s as [|b t]; [exact H|]. cbn [skipn]. apply IH. apply wf_bytes_cons in H. tauto.
Qed.

Lemma wf_bytes_app a b : wf_bytes (a ++ b) = true <-> wf_bytes a = true /\ wf_bytes b = true.
Proof. unfold wf_bytes. rewrite forallb_app. apply andb_true_iff. Qed.

(** ---- hex digits ---- *)

Lemma unhex_hexdigit d : d < 16 -> unhex (hexdigit d) = Some d.
Proof.
  intros H. unfold unhex, hexdigit.
  destruct (d <? 10) eqn:E.
  - replace ((48 <=? 48 + d) && (48 + d <=? 57)) with true by lia. f_equal. lia.
  - replace ((48 <=? 87 + d) && (87 + d <=? 57)) with false by lia.
    replace ((97 <=? 87 + d) && (87 + d <=? 102)) with true by lia. f_equal. lia.
Qed.

Lemma hexdigit_not d x : x < 48 -> hexdigit d <> x.
Proof. unfold hexdigit. destruct (d <? 10); lia. Qed.

Lemma pow16_pos k : 16 ^ N.of_nat k <> 0.
Proof. apply N.pow_nonzero. lia. Qed.

Lemma unhexn_hexn n r X acc :
  unhexn n (hexn n r ++ X) acc = Some (acc * 16 ^ N.of_nat n + r mod 16 ^ N.of_nat n, X).
Proof.
  revert acc; induction n as [|k IH]; intros acc.
  - cbn [unhexn hexn app N.of_nat]. rewrite N.pow_0_r, N.mod_1_r. f_equal. f_equal. lia.
  - cbn [unhexn hexn app].
    rewrite unhex_hexdigit by (apply N.mod_lt; lia).
    rewrite IH. f_equal. f_equal.
    rewrite Nat2N.inj_succ, N.pow_succ_r'.
    rewrite (N.mul_comm 16 (16 ^ N.of_nat k)).
    rewrite (N.mod_mul_r r (16 ^ N.of_nat k) 16) by (try apply pow16_pos; lia).
    ring.
Qed.

Lemma hexn_no n r x : x < 48 -> ~ In x (hexn n r).
Proof.
  intros Hx. induction n as [|k IH]; cbn [hexn In]; [tauto|].
  intros [H|H]; [exact (hexdigit_not _ _ Hx H)|exact (IH H)].
Qed.

(** ---- unfolding the fuelled printer ---- *)
Section QuoteFacts.
  Variable sp_print : N -> bool.
  Notation quote_go := (quote_go sp_print).
  Notation quote_body := (quote_body sp_print).
  Notation escape_rune := (escape_rune sp_print).

  Lemma quote_go_fuel f1 : forall f2 s, (length s <= f1)%nat -> (length s <= f2)%nat -> quote_go f1 s = quote_go f2 s.
  Proof.
    induction f1 as [|f1 IH]; intros f2 s H1 H2.
    - destruct s; [|cbn in H1; lia]. destruct f2; reflexivity.
    - destruct s as [|b t]; [destruct f2; reflexivity|].
      destruct f2 as [|f2]; [cbn in H2; lia|].
      cbn [length] in H1, H2. cbn [GoQuote.quote_go].
      destruct (b <? 128); [f_equal; apply IH; lia|].
      destruct (invalid (decode (b :: t))); [f_equal; f_equal; f_equal; apply IH; lia|].
      f_equal. pose proof (decode_size_pos b t) as Hp.
      destruct (snd (decode (b :: t))) as [|n']; [lia|]. cbn [skipn].
      pose proof (skipn_length_le n' t). apply IH; lia.
  Qed.

  Lemma quote_body_nil : quote_body [] = [].
  Proof. reflexivity. Qed.

  Lemma quote_body_ascii b t : (b <? 128) = true -> quote_body (b :: t) = escape_rune b ++ quote_body t.
  Proof. intros E. unfold GoQuote.quote_body. cbn [length GoQuote.quote_go]. rewrite E. reflexivity. Qed.

  Lemma quote_body_invalid b t :
    (b <? 128) = false -> invalid (decode (b :: t)) = true ->
    quote_body (b :: t) = 92 :: 120 :: hexn 2 b ++ quote_body t.
  Proof. intros E V. unfold GoQuote.quote_body. cbn [length GoQuote.quote_go]. rewrite E, V. reflexivity. Qed.

  Lemma quote_body_valid b t c n :
    (b <? 128) = false -> decode (b :: t) = (c, n) -> invalid (c, n) = false ->
    quote_body (b :: t) = escape_rune c ++ quote_body (skipn n (b :: t)).
  Proof.
    intros E D V. unfold GoQuote.quote_body. cbn [length GoQuote.quote_go]. rewrite E, D, V. cbn [fst snd].
    f_equal. pose proof (decode_size_pos b t) as Hp. rewrite D in Hp. cbn [snd] in Hp.
    destruct n as [|n']; [lia|]. cbn [skipn]. pose proof (skipn_length_le n' t). apply quote_go_fuel; lia.
  Qed.
End QuoteFacts.

(** ---- one character: UnquoteChar after appendEscapedRune ---- *)

Lemma unquote_char_bs2 e Y : unquote_char (92 :: e :: Y) =
  if e =? 97 then Some ([7], Y) else if e =? 98 then Some ([8], Y) else if e =? 102 then Some ([12], Y)
  else if e =? 110 then Some ([10], Y) else if e =? 114 then Some ([13], Y) else if e =? 116 then Some ([9], Y)
  else if e =? 118 then Some ([11], Y)
  else if e =? 120 then match unhexn 2 Y 0 with Some (v, r) => Some ([v], r) | None => None end
  else if e =? 117 then match unhexn 4 Y 0 with Some (v, r) => if valid_rune v then Some (enc v, r) else None | None => None end
  else if e =? 85 then match unhexn 8 Y 0 with Some (v, r) => if valid_rune v then Some (enc v, r) else None | None => None end
  else if (48 <=? e) && (e <=? 55) then
    match Y with
    | o1 :: o2 :: r =>
      match octal o1, octal o2 with
      | Some x1, Some x2 => let v := ((e - 48) * 8 + x1) * 8 + x2 in if 255 <? v then None else Some ([v], r)
      | _, _ => None
      end
    | _ => None
    end
  else if e =? 92 then Some ([92], Y) else if e =? 34 then Some ([34], Y) else None.
Proof. reflexivity. Qed.

Lemma unquote_char_x Y : unquote_char (92 :: 120 :: Y) = match unhexn 2 Y 0 with Some (v, r) => Some ([v], r) | None => None end.
Proof. reflexivity. Qed.
Lemma unquote_char_u Y : unquote_char (92 :: 117 :: Y) =
  match unhexn 4 Y 0 with Some (v, r) => if valid_rune v then Some (enc v, r) else None | None => None end.
Proof. reflexivity. Qed.
Lemma unquote_char_U Y : unquote_char (92 :: 85 :: Y) =
  match unhexn 8 Y 0 with Some (v, r) => if valid_rune v then Some (enc v, r) else None | None => None end.
Proof. reflexivity. Qed.

Lemma unquote_char_plain c Y :
  c <> 34 -> c <> 10 -> c <> 92 -> c < 128 -> unquote_char (c :: Y) = Some ([c], Y).
Proof.
  intros H1 H2 H3 H4. unfold unquote_char.
  replace (c =? 34) with false by lia. replace (c =? 10) with false by lia.
  replace (128 <=? c) with false by lia. replace (c =? 92) with false by lia. reflexivity.
Qed.

Lemma unquote_char_high r X :
  128 <= r -> decode (enc r ++ X) = (r, length (enc r)) -> unquote_char (enc r ++ X) = Some (enc r, X).
Proof.
  intros Hr D. pose proof (enc_high r Hr) as Hh.
  destruct (enc r) as [|h tl] eqn:E; [exact (False_ind _ (enc_nonempty r E))|].
  inversion Hh as [|? ? Hh1 _]; subst.
  cbn [app] in *. unfold unquote_char.
  replace (h =? 34) with false by lia. replace (h =? 10) with false by lia.
  replace (128 <=? h) with true by lia. rewrite D. cbn [fst snd]. rewrite E.
  f_equal. f_equal. cbn [length skipn].
  change (skipn (length tl) (tl ++ X) = X).
  rewrite skipn_app, skipn_all, Nat.sub_diag. reflexivity.
Qed.

Section EscapeFacts.
  Variable sp_print : N -> bool.
  Notation escape_rune := (escape_rune sp_print).

  (** for a valid rune: the escape reads back as the rune's UTF-8 encoding; the escape
      is non-empty, does not start with a double quote and holds no newline *)
  Lemma escape_rune_unquote r :
    valid_rune r = true ->
    (128 <= r -> forall X, decode (enc r ++ X) = (r, length (enc r))) ->
    (forall X, unquote_char (escape_rune r ++ X) = Some (enc r, X)) /\
    (exists h tl, escape_rune r = h :: tl /\ h <> 34) /\
    ~ In 10 (escape_rune r).
  Proof.
    intros Hv Hd. unfold GoQuote.escape_rune.
    destruct ((r =? 34) || (r =? 92)) eqn:E1.
    { apply orb_true_iff in E1 as [E|E]; apply N.eqb_eq in E; subst r;
        (split; [intros X; reflexivity|]); (split; [eexists; eexists; split; [reflexivity|lia]|]);
        cbn [In]; lia. }
    apply orb_false_iff in E1 as [E1a E1b].
    destruct (str_is_print sp_print r) eqn:E2.
    { unfold str_is_print in E2. destruct (r <? 128) eqn:E0.
      - unfold ascii_print in E2. assert (He : enc r = [r]) by (unfold enc; rewrite E0; reflexivity).
        rewrite He. split; [intros X; cbn [app]; apply unquote_char_plain; lia|].
        split; [eexists; eexists; split; [reflexivity|lia]|]. cbn [In]; lia.
      - assert (Hr : 128 <= r) by lia.
        split; [intros X; apply unquote_char_high; auto|].
        pose proof (enc_high r Hr) as Hh.
        destruct (enc r) as [|h tl] eqn:E; [exact (False_ind _ (enc_nonempty r E))|].
        split; [eexists; eexists; split; [reflexivity|inversion Hh; subst; lia]|].
        intros Hin. rewrite Forall_forall in Hh. apply Hh in Hin. lia. }
    assert (Hsmall : r < 128 -> enc r = [r]).
    { intros H. unfold enc. replace (r <? 128) with true by lia. reflexivity. }
    Ltac concrete_escape E :=
      apply N.eqb_eq in E; subst;
      (split; [intros X; reflexivity|]); (split; [eexists; eexists; split; [reflexivity|lia]|]); cbn [In]; lia.
    destruct (r =? 7) eqn:E7; [concrete_escape E7|].
    destruct (r =? 8) eqn:E8; [concrete_escape E8|].
    destruct (r =? 12) eqn:E12; [concrete_escape E12|].
    destruct (r =? 10) eqn:E10; [concrete_escape E10|].
    destruct (r =? 13) eqn:E13; [concrete_escape E13|].
    destruct (r =? 9) eqn:E9; [concrete_escape E9|].
    destruct (r =? 11) eqn:E11; [concrete_escape E11|].
    destruct ((r <? 32) || (r =? 127)) eqn:E3.
    { assert (Hr : r < 128) by lia.
      split; [|split; [eexists; eexists; split; [reflexivity|lia]|]].
      - intros X. cbn [app]. rewrite unquote_char_x, unhexn_hexn.
        replace (16 ^ N.of_nat 2) with 256 by reflexivity.
        rewrite (N.mod_small r 256) by lia. rewrite (Hsmall Hr). f_equal.
      - cbn [In]. intros [H|[H|H]]; [lia|lia|]. revert H. apply hexn_no. lia. }
    destruct (r <? 65536) eqn:E4.
    { split; [|split; [eexists; eexists; split; [reflexivity|lia]|]].
      - intros X. cbn [app]. rewrite unquote_char_u, unhexn_hexn.
        replace (16 ^ N.of_nat 4) with 65536 by reflexivity.
        rewrite (N.mod_small r 65536) by lia. cbn [N.mul N.add]. rewrite Hv. reflexivity.
      - cbn [In]. intros [H|[H|H]]; [lia|lia|]. revert H. apply hexn_no. lia. }
    split; [|split; [eexists; eexists; split; [reflexivity|lia]|]].
    - intros X. cbn [app]. rewrite unquote_char_U, unhexn_hexn.
      replace (16 ^ N.of_nat 8) with 4294967296 by reflexivity.
      unfold valid_rune in Hv.
      rewrite (N.mod_small r 4294967296) by lia. cbn [N.mul N.add].
      unfold valid_rune. rewrite Hv. reflexivity.
    - cbn [In]. intros [H|[H|H]]; [lia|lia|]. revert H. apply hexn_no. lia.
  Qed.
End EscapeFacts.

(** ---- the whole literal ---- *)

Lemma unquote_go_step f c t bs r v rest :
  c <> 34 -> unquote_char (c :: t) = Some (bs, r) -> unquote_go f r = Some (v, rest) ->
  unquote_go (S f) (c :: t) = Some (bs ++ v, rest).
Proof.
  intros Hc Hu Hr. cbn [unquote_go]. replace (c =? 34) with false by lia. rewrite Hu, Hr. reflexivity.
Qed.

Section UnquoteQuote.
  Variable sp_print : N -> bool.
  Notation quote_body := (quote_body sp_print).
  Notation quote := (quote sp_print).

  Lemma unquote_go_quote_body s :
    wf_bytes s = true ->
    forall rest f, (length (quote_body s) < f)%nat ->
    unquote_go f (quote_body s ++ 34 :: rest) = Some (s, rest).
  Proof.
    induction s as [| b t E0 IH | b t E0 V IH | b t c n E0 D V IH] using rune_ind; intros Hwf rest f Hf.
    - rewrite quote_body_nil in *. cbn [app]. destruct f; [cbn in Hf; lia|]. reflexivity.
    - apply wf_bytes_cons in Hwf as [Hb Hwf].
      rewrite (quote_body_ascii _ _ _ E0) in *.
      assert (Hv : valid_rune b = true) by (unfold valid_rune; lia).
      destruct (escape_rune_unquote sp_print b Hv) as (Hu & (h & tl & He & Hh) & _); [lia|].
      rewrite He in *. rewrite <- app_assoc. cbn [app length] in *.
      destruct f as [|f]; [lia|].
      replace (b :: t) with (enc b ++ t) by (unfold enc; rewrite E0; reflexivity).
      eapply unquote_go_step; [exact Hh| |].
      + specialize (Hu (quote_body t ++ 34 :: rest)). try rewrite He in Hu. exact Hu.
      + apply IH; auto. rewrite app_length in Hf. lia.
    - apply wf_bytes_cons in Hwf as [Hb Hwf].
      rewrite (quote_body_invalid _ _ _ E0 V) in *. cbn [app length] in *.
      destruct f as [|f]; [lia|].
      change (b :: t) with ([b] ++ t).
      eapply unquote_go_step; [lia| |].
      + rewrite <- app_assoc. rewrite unquote_char_x, unhexn_hexn.
        replace (16 ^ N.of_nat 2) with 256 by reflexivity.
        rewrite (N.mod_small b 256) by lia. reflexivity.
      + apply IH; auto. rewrite app_length in Hf. lia.
    - destruct (decode_valid_split _ _ _ _ E0 D V) as (Hs & Hl & Hn & Hc & Hv & Hd).
      rewrite (quote_body_valid _ _ _ _ _ E0 D V) in *.
      assert (Hd' : 128 <= c -> forall X, decode (enc c ++ X) = (c, length (enc c))) by (intros _ X; rewrite Hl; apply Hd).
      destruct (escape_rune_unquote sp_print c Hv Hd') as (Hu & (h & tl & He & Hh) & _).
      rewrite He in *. rewrite <- app_assoc. cbn [app length] in *.
      destruct f as [|f]; [lia|].
      rewrite Hs at 2.
      eapply unquote_go_step; [exact Hh| |].
      + specialize (Hu (quote_body (skipn n (b :: t)) ++ 34 :: rest)). try rewrite He in Hu. exact Hu.
      + apply IH; [apply wf_bytes_skipn; exact Hwf|]. rewrite app_length in Hf. lia.
  Qed.

  (** stage 1: reading [quote s ++ rest] as a quoted item yields exactly [(s, rest)] *)
  Theorem unquote_quote s rest :
    wf_bytes s = true -> unquote_prefix (quote s ++ rest) = Some (s, rest).
  Proof.
    intros Hwf. unfold GoQuote.quote, unquote_prefix. cbn [app]. cbn [N.eqb Pos.eqb].
    rewrite <- app_assoc. cbn [app]. apply unquote_go_quote_body; auto.
    rewrite app_length. cbn [length]. lia.
  Qed.

  Corollary unquote_quote_whole s : wf_bytes s = true -> unquote (quote s) = Some s.
  Proof.
    intros Hwf. unfold unquote. rewrite <- (app_nil_r (quote s)). rewrite unquote_quote; auto.
  Qed.

  (** no newline anywhere in a quoted string *)
  Lemma quote_body_no_newline s : ~ In 10 (quote_body s).
  Proof.
    induction s as [| b t E0 IH | b t E0 V IH | b t c n E0 D V IH] using rune_ind.
    - rewrite quote_body_nil. cbn; tauto.
    - rewrite (quote_body_ascii _ _ _ E0). rewrite in_app_iff. intros [H|H]; [|exact (IH H)].
      assert (Hv : valid_rune b = true) by (unfold valid_rune; lia).
      destruct (escape_rune_unquote sp_print b Hv) as (_ & _ & Hn); [lia|]. exact (Hn H).
    - rewrite (quote_body_invalid _ _ _ E0 V). cbn [In]. rewrite in_app_iff.
      intros [H|[H|[H|H]]]; [lia|lia| |exact (IH H)]. revert H. apply hexn_no. lia.
    - destruct (decode_valid_split _ _ _ _ E0 D V) as (Hs & Hl & Hn & Hc & Hv & Hd).
      rewrite (quote_body_valid _ _ _ _ _ E0 D V). rewrite in_app_iff. intros [H|H]; [|exact (IH H)].
      assert (Hd' : 128 <= c -> forall X, decode (enc c ++ X) = (c, length (enc c))) by (intros _ X; rewrite Hl; apply Hd).
      destruct (escape_rune_unquote sp_print c Hv Hd') as (_ & _ & Hnn). exact (Hnn H).
  Qed.

  Lemma quote_no_newline s : ~ In 10 (quote s).
  Proof.
    unfold GoQuote.quote. cbn [In]. rewrite in_app_iff. cbn [In].
    intros [H|[H|[H|H]]]; try lia; try tauto. exact (quote_body_no_newline s H).
  Qed.
End UnquoteQuote.
