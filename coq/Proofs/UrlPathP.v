(** Lemmas about GoPath (split / stack machine / render) and ResolveUrlPath. *)
From Coq Require Import List NArith Bool Lia.
Import ListNotations.
From Glb Require Import Lib.GoPath Model.UrlPath.
Open Scope N_scope.

(** * reflection of the byte tests *)

Lemma is_empty_true : forall s, is_empty s = true <-> s = [].
Proof. destruct s; cbn; split; congruence. Qed.

Lemma is_dot_true : forall s, is_dot s = true <-> s = [46].
Proof.
  destruct s as [|a [|b r]]; cbn; split; try congruence.
  - intros H. apply N.eqb_eq in H. now subst.
  - intros H. injection H as ->. reflexivity.
Qed.

Lemma is_dotdot_true : forall s, is_dotdot s = true <-> s = [46; 46].
Proof.
  destruct s as [|a [|b [|c r]]]; cbn; split; try congruence.
  - intros H. apply andb_true_iff in H as [H1 H2]. apply N.eqb_eq in H1, H2. now subst.
  - intros H. injection H as -> ->. reflexivity.
Qed.

Lemma noslashb_true : forall s, noslashb s = true <-> ~ In 47 s.
Proof.
  induction s as [|b r IH]; cbn.
  - split; auto.
  - rewrite andb_true_iff, IH, negb_true_iff, N.eqb_neq. split.
    + intros [H1 H2] [H | H]; [congruence | auto].
    + intros H. split; [intros E; apply H; left; congruence | intros E; apply H; now right].
Qed.

Lemma ordinaryb_true : forall s, ordinaryb s = true <-> ordinary s.
Proof.
  intros s. unfold ordinaryb, ordinary.
  rewrite !andb_true_iff, !negb_true_iff, noslashb_true.
  split.
  - intros [[[H1 H2] H3] H4]. repeat split; auto.
    + intros E. apply is_empty_true in E. congruence.
    + intros E. apply is_dot_true in E. congruence.
    + intros E. apply is_dotdot_true in E. congruence.
  - intros (H1 & H2 & H3 & H4). repeat split; auto.
    + destruct (is_empty s) eqn:E; auto. apply is_empty_true in E. contradiction.
    + destruct (is_dot s) eqn:E; auto. apply is_dot_true in E. contradiction.
    + destruct (is_dotdot s) eqn:E; auto. apply is_dotdot_true in E. contradiction.
Qed.

Lemma Forall_ordinaryb : forall q, forallb ordinaryb q = true <-> Forall ordinary q.
Proof.
  intros q. rewrite forallb_forall, Forall_forall.
  split; intros H x Hx; apply ordinaryb_true; auto.
Qed.

Lemma bytes_eqb_true : forall a b, bytes_eqb a b = true <-> a = b.
Proof.
  induction a as [|x a IH]; destruct b as [|y b]; cbn; split; try congruence; auto.
  - intros H. apply andb_true_iff in H as [H1 H2]. apply N.eqb_eq in H1. apply IH in H2. congruence.
  - intros H. injection H as -> ->. rewrite N.eqb_refl. cbn. now apply IH.
Qed.

Lemma bytes_eqb_refl : forall a, bytes_eqb a a = true.
Proof. intros a. now apply bytes_eqb_true. Qed.

Lemma bytes_eqb_false : forall a b, a <> b -> bytes_eqb a b = false.
Proof. intros a b H. destruct (bytes_eqb a b) eqn:E; auto. apply bytes_eqb_true in E. contradiction. Qed.

(** * split / segments / intercalate *)

Lemma segments_nil : segments [] = [[]].
Proof. reflexivity. Qed.

Lemma segments_cons_slash : forall r, segments (47 :: r) = [] :: segments r.
Proof. intros r. unfold segments. cbn [split]. destruct (split r) as [h t]. reflexivity. Qed.

Lemma segments_cons_other : forall b r, b <> 47 ->
  segments (b :: r) = match segments r with h :: t => (b :: h) :: t | [] => [[b]] end.
Proof.
  intros b r H. unfold segments. cbn [split]. destruct (split r) as [h t].
  apply N.eqb_neq in H. rewrite H. reflexivity.
Qed.

Lemma segments_not_nil : forall s, segments s <> [].
Proof. intros s. unfold segments. destruct (split s). congruence. Qed.

(** the separator splits: segments (a ++ "/" ++ b) = segments a ++ segments b *)
Lemma segments_app : forall a b, segments (a ++ 47 :: b) = segments a ++ segments b.
Proof.
  induction a as [|x a IH]; intros b.
  - cbn [app]. rewrite segments_cons_slash. reflexivity.
  - cbn [app]. destruct (N.eq_dec x 47) as [-> | Hx].
    + rewrite !segments_cons_slash, IH. reflexivity.
    + rewrite !segments_cons_other by assumption. rewrite IH.
      destruct (segments a) as [|h t] eqn:E; [now apply segments_not_nil in E|]. reflexivity.
Qed.

Lemma segments_noslash_seg : forall s, ~ In 47 s -> segments s = [s].
Proof.
  induction s as [|b r IH]; intros H; [reflexivity|].
  rewrite segments_cons_other, IH; [reflexivity | |]; intros E; apply H; [now right | now left].
Qed.

Lemma segments_noslash : forall s, Forall (fun x => ~ In 47 x) (segments s).
Proof.
  induction s as [|b r IH].
  - constructor; auto.
  - destruct (N.eq_dec b 47) as [-> | Hb].
    + rewrite segments_cons_slash. constructor; auto.
    + rewrite segments_cons_other by assumption.
      destruct (segments r) as [|h t]; [repeat constructor; intros [E | []]; congruence|].
      inversion IH; subst. constructor; auto. intros [E | E]; [congruence | auto].
Qed.

Lemma intercalate_cons2 : forall h x t, intercalate (h :: x :: t) = h ++ 47 :: intercalate (x :: t).
Proof. reflexivity. Qed.

Lemma segments_intercalate : forall q, q <> [] -> Forall (fun x => ~ In 47 x) q ->
  segments (intercalate q) = q.
Proof.
  induction q as [|h t IH]; intros Hne Hq; [congruence|].
  inversion Hq; subst. destruct t as [|x t].
  - cbn [intercalate]. now apply segments_noslash_seg.
  - rewrite intercalate_cons2, segments_app, segments_noslash_seg by assumption.
    rewrite IH; [reflexivity | congruence | assumption].
Qed.

Lemma intercalate_segments : forall s, intercalate (segments s) = s.
Proof.
  induction s as [|b r IH]; [reflexivity|].
  destruct (N.eq_dec b 47) as [-> | Hb].
  - rewrite segments_cons_slash.
    destruct (segments r) as [|h t] eqn:E; [now apply segments_not_nil in E|].
    rewrite intercalate_cons2, IH. reflexivity.
  - rewrite segments_cons_other by assumption.
    destruct (segments r) as [|h t] eqn:E; [now apply segments_not_nil in E|].
    destruct t as [|x t].
    + cbn [intercalate] in *. congruence.
    + rewrite intercalate_cons2 in *. cbn [app]. congruence.
Qed.

Lemma intercalate_app : forall a q, a <> [] -> q <> [] ->
  intercalate (a ++ q) = intercalate a ++ 47 :: intercalate q.
Proof.
  induction a as [|h t IH]; intros q Ha Hq; [congruence|].
  destruct t as [|x t].
  - cbn [app]. destruct q as [|y q]; [congruence|]. reflexivity.
  - change ((h :: x :: t) ++ q) with (h :: x :: (t ++ q)).
    rewrite !intercalate_cons2. change (x :: t ++ q) with ((x :: t) ++ q).
    rewrite IH by congruence. rewrite <- app_assoc. reflexivity.
Qed.

(** * the stack machine *)

Lemma run_app : forall r l1 l2 st, run r (l1 ++ l2) st = run r l2 (run r l1 st).
Proof. intros. unfold run. apply fold_left_app. Qed.

Lemma run_cons : forall r s l st, run r (s :: l) st = run r l (step r st s).
Proof. reflexivity. Qed.

Lemma step_skip_empty : forall r st, step r st [] = st.
Proof. reflexivity. Qed.

Lemma step_ordinary : forall r st s, ordinary s -> step r st s = s :: st.
Proof.
  intros r st s H. apply ordinaryb_true in H. unfold ordinaryb in H.
  rewrite !andb_true_iff, !negb_true_iff in H. destruct H as [[[H1 H2] H3] _].
  unfold step. rewrite H1, H2, H3. reflexivity.
Qed.

Lemma run_ordinary : forall r q st, Forall ordinary q -> run r q st = rev q ++ st.
Proof.
  induction q as [|s q IH]; intros st H; [reflexivity|].
  inversion H; subst. unfold run in *. cbn [fold_left rev].
  rewrite step_ordinary by assumption. rewrite IH by assumption. rewrite <- app_assoc. reflexivity.
Qed.

Lemma step_dotdot_push : forall st, Forall (fun s => s = [46; 46]) st -> step false st [46; 46] = [46; 46] :: st.
Proof.
  intros st H. unfold step. cbn. destruct st as [|t st']; [reflexivity|].
  inversion H; subst. reflexivity.
Qed.

Lemma run_dotdots : forall l st, Forall (fun s => s = [46; 46]) l -> Forall (fun s => s = [46; 46]) st ->
  run false l st = rev l ++ st.
Proof.
  induction l as [|s l IH]; intros st Hl Hst; [reflexivity|].
  inversion Hl; subst. unfold run in *. cbn [fold_left rev].
  rewrite step_dotdot_push by assumption. rewrite IH; auto. rewrite <- app_assoc. reflexivity.
Qed.

(** normal form of a stack (top at the head): ordinary names above a block of ".."s,
    and no ".." at all on a rooted path *)
Definition nf (r : bool) (st : list seg) : Prop :=
  exists a b, st = a ++ b /\ Forall ordinary a /\ Forall (fun s => s = [46; 46]) b /\ (r = true -> b = []).

Lemma nf_nil : forall r, nf r [].
Proof. intros r. exists [], []. repeat split; auto. Qed.

Lemma nf_push : forall r st q, nf r st -> Forall ordinary q -> nf r (rev q ++ st).
Proof.
  intros r st q (a & b & -> & Ha & Hb & Hr) Hq.
  exists (rev q ++ a), b. rewrite app_assoc. repeat split; auto.
  apply Forall_app. split; auto. now apply Forall_rev.
Qed.

Lemma nf_step : forall r st s, ~ In 47 s -> nf r st -> nf r (step r st s).
Proof.
  intros r st s Hs (a & b & -> & Ha & Hb & Hr).
  unfold step.
  destruct (is_empty s) eqn:E1; [exists a, b; repeat split; auto|].
  destruct (is_dot s) eqn:E2; cbn [orb]; [exists a, b; repeat split; auto|].
  destruct (is_dotdot s) eqn:E3.
  - apply is_dotdot_true in E3. subst s.
    destruct a as [|t a'].
    + cbn [app]. destruct b as [|t b'].
      * destruct r; [apply nf_nil|]. exists [], [[46; 46]]. repeat split; auto. discriminate.
      * inversion Hb; subst. destruct r.
        { specialize (Hr eq_refl). discriminate. }
        cbn. exists [], ([46; 46] :: [46; 46] :: b'). repeat split; auto. discriminate.
    + cbn [app]. inversion Ha; subst.
      assert (Ht : is_dotdot t = false).
      { destruct (is_dotdot t) eqn:E; auto. apply is_dotdot_true in E. destruct H1 as (_ & _ & H & _). contradiction. }
      rewrite Ht, andb_false_r. exists a', b. repeat split; auto.
  - exists (s :: a), b. repeat split; auto. constructor; auto.
    unfold ordinary. repeat split; auto.
    + intros E. apply is_empty_true in E. congruence.
    + intros E. apply is_dot_true in E. congruence.
    + intros E. apply is_dotdot_true in E. congruence.
Qed.

Lemma nf_run : forall r l st, Forall (fun x => ~ In 47 x) l -> nf r st -> nf r (run r l st).
Proof.
  induction l as [|s l IH]; intros st Hl Hst; [assumption|].
  inversion Hl; subst. unfold run in *. cbn [fold_left]. apply IH; auto. now apply nf_step.
Qed.

Lemma nf_stack : forall r s, nf r (run r (segments s) []).
Proof. intros r s. apply nf_run; [apply segments_noslash | apply nf_nil]. Qed.

(** replaying a normal-form stack reproduces it *)
Lemma run_replay : forall r st, nf r st -> run r (rev st) [] = st.
Proof.
  intros r st (a & b & -> & Ha & Hb & Hr).
  rewrite rev_app_distr, run_app.
  assert (Hb' : run r (rev b) [] = b).
  { destruct r.
    - rewrite (Hr eq_refl). reflexivity.
    - rewrite run_dotdots; auto; [rewrite rev_involutive; apply app_nil_r | now apply Forall_rev]. }
  rewrite Hb', run_ordinary by now apply Forall_rev. rewrite rev_involutive. reflexivity.
Qed.

Lemma nf_segment_props : forall r st, nf r st -> Forall (fun s => s <> [] /\ ~ In 47 s /\ s <> [46]) st.
Proof.
  intros r st (a & b & -> & Ha & Hb & _). apply Forall_app. split.
  - eapply Forall_impl; [|exact Ha]. intros s (H1 & H2 & H3 & H4). auto.
  - eapply Forall_impl; [|exact Hb]. intros s ->. repeat split; try congruence.
    intros [E | [E | []]]; discriminate.
Qed.

(** * render *)

Lemma is_rooted_render : forall r st, nf r (rev st) -> is_rooted (render r st) = r.
Proof.
  intros r st H. apply nf_segment_props in H. apply Forall_rev in H. rewrite rev_involutive in H.
  destruct r; [reflexivity|]. unfold render.
  destruct st as [|h t]; [reflexivity|]. inversion H; subst. destruct H2 as (Hne & Hns & _).
  destruct h as [|x h]; [congruence|].
  assert (is_rooted (x :: h) = false).
  { cbn. apply N.eqb_neq. intros ->. apply Hns. now left. }
  destruct t; cbn [intercalate]; [assumption|]. cbn [app is_rooted] in *. assumption.
Qed.

Lemma run_segments_render : forall r st, nf r (rev st) -> run r (segments (render r st)) [] = rev st.
Proof.
  intros r st H. pose proof H as Hp. apply nf_segment_props in Hp. apply Forall_rev in Hp.
  rewrite rev_involutive in Hp.
  assert (Hns : Forall (fun x => ~ In 47 x) st) by (eapply Forall_impl; [|exact Hp]; intros s (_ & ? & _); auto).
  destruct st as [|h t].
  - destruct r; reflexivity.
  - assert (Hseg : segments (intercalate (h :: t)) = h :: t) by (apply segments_intercalate; [congruence | assumption]).
    pose proof (run_replay _ _ H) as R. rewrite rev_involutive in R.
    destruct r; unfold render.
    + rewrite segments_cons_slash, Hseg. exact R.
    + rewrite Hseg. exact R.
Qed.

(** cleaning is idempotent, on the segment level and on bytes *)
Lemma segs_render : forall r st, nf r (rev st) -> segs (render r st) = st.
Proof.
  intros r st H. unfold segs, stack. rewrite is_rooted_render by assumption.
  rewrite run_segments_render by assumption. apply rev_involutive.
Qed.

Lemma nf_segs : forall s, nf (is_rooted s) (rev (segs s)).
Proof. intros s. unfold segs, stack. rewrite rev_involutive. apply nf_stack. Qed.

Lemma segs_clean : forall s, segs (clean s) = segs s.
Proof. intros s. unfold clean. apply segs_render. apply nf_segs. Qed.

Lemma is_rooted_clean : forall s, is_rooted (clean s) = is_rooted s.
Proof. intros s. unfold clean. apply is_rooted_render. apply nf_segs. Qed.

Lemma clean_idem : forall s, clean (clean s) = clean s.
Proof. intros s. unfold clean at 1. rewrite segs_clean, is_rooted_clean. reflexivity. Qed.

(** a rooted path cleans to "/" followed by ordinary names *)
Lemma rooted_stack_ordinary : forall s, Forall ordinary (stack true s).
Proof.
  intros s. unfold stack. apply Forall_rev.
  destruct (nf_stack true s) as (a & b & E & Ha & _ & Hr). rewrite E, (Hr eq_refl), app_nil_r. assumption.
Qed.

(** * ResolveUrlPath *)

Lemma is_rooted_force_slash : forall p, is_rooted (force_slash p) = true.
Proof. intros p. unfold force_slash. destruct (is_rooted p) eqn:E; [assumption | reflexivity]. Qed.

Definition url_names (p : list N) : list seg := stack true (force_slash p).

Lemma clean_force_slash : forall p, clean (force_slash p) = 47 :: intercalate (url_names p).
Proof. intros p. unfold clean, segs. rewrite is_rooted_force_slash. reflexivity. Qed.

Lemma url_names_ordinary : forall p, Forall ordinary (url_names p).
Proof. intros p. apply rooted_stack_ordinary. Qed.

Lemma is_rooted_app : forall a b, a <> [] -> is_rooted (a ++ b) = is_rooted a.
Proof. intros [|x a] b H; [congruence | reflexivity]. Qed.

(** joining a base with "/"-rooted ordinary names pushes them on the base's stack *)
Lemma join_rooted_names : forall base q, base <> [] -> Forall ordinary q ->
  join base (47 :: intercalate q) = render (is_rooted base) (segs base ++ q).
Proof.
  intros base q Hb Hq. unfold join. destruct base as [|x base'] eqn:Eb; [congruence|]. rewrite <- Eb in *.
  unfold clean. f_equal.
  - apply is_rooted_app. assumption.
  - unfold segs, stack. rewrite is_rooted_app by assumption.
    rewrite segments_app, segments_cons_slash, run_app.
    assert (Hq' : run (is_rooted base) ([] :: segments (intercalate q)) (run (is_rooted base) (segments base) [])
                  = rev q ++ run (is_rooted base) (segments base) []).
    { rewrite run_cons, step_skip_empty.
      destruct q as [|h t].
      - reflexivity.
      - rewrite segments_intercalate; [now apply run_ordinary | congruence |].
        eapply Forall_impl; [|exact Hq]. intros s (_ & _ & _ & H). exact H. }
    rewrite Hq', rev_app_distr, rev_involutive. reflexivity.
Qed.

Lemma resolve_render : forall base p, base <> [] ->
  resolve base p = render (is_rooted base) (segs base ++ url_names p).
Proof.
  intros base p Hb. unfold resolve. rewrite clean_force_slash.
  apply join_rooted_names; [assumption | apply url_names_ordinary].
Qed.

Lemma nf_base_names : forall base q, Forall ordinary q -> nf (is_rooted base) (rev (segs base ++ q)).
Proof. intros base q Hq. rewrite rev_app_distr. apply nf_push; [apply nf_segs | assumption]. Qed.

Lemma resolve_segs : forall base p, base <> [] ->
  segs (resolve base p) = segs (clean base) ++ url_names p.
Proof.
  intros base p Hb. rewrite resolve_render by assumption. rewrite segs_clean.
  apply segs_render. apply nf_base_names. apply url_names_ordinary.
Qed.

Lemma is_rooted_resolve : forall base p, base <> [] -> is_rooted (resolve base p) = is_rooted (clean base).
Proof.
  intros base p Hb. rewrite resolve_render, is_rooted_clean by assumption.
  apply is_rooted_render. apply nf_base_names. apply url_names_ordinary.
Qed.

(** ** bytes: the result is the cleaned base with the names attached *)

Lemma render_root_only : forall r st, nf r (rev st) -> (render r st = [47] <-> r = true /\ st = []).
Proof.
  intros r st H. apply nf_segment_props in H. apply Forall_rev in H. rewrite rev_involutive in H.
  split.
  - destruct r; unfold render.
    + intros E. split; auto. destruct st as [|h t]; auto. inversion H; subst. destruct H2 as (Hne & _).
      destruct t; cbn [intercalate] in E; destruct h; try congruence; cbn [app] in E; discriminate.
    + destruct st as [|h t]; [discriminate|]. inversion H; subst. destruct H2 as (Hne & Hns & _).
      intros E. exfalso. destruct h as [|x h]; [congruence|].
      destruct t; cbn [intercalate app] in E; injection E as -> _; apply Hns; now left.
  - intros [-> ->]. reflexivity.
Qed.

Lemma render_dot_only : forall r st, nf r (rev st) -> (render r st = [46] <-> r = false /\ st = []).
Proof.
  intros r st H. apply nf_segment_props in H. apply Forall_rev in H. rewrite rev_involutive in H.
  split.
  - destruct r; unfold render; [discriminate|].
    destruct st as [|h t]; [auto|]. inversion H; subst. destruct H2 as (Hne & _ & Hnd).
    intros E. exfalso. destruct t as [|y t].
    + cbn [intercalate] in E. contradiction.
    + rewrite intercalate_cons2 in E. destruct h as [|x [|x' h]]; [congruence | cbn [app] in E; discriminate | cbn [app] in E; discriminate].
  - intros [-> ->]. reflexivity.
Qed.

Lemma render_attach : forall r a q, nf r (rev a) ->
  render r (a ++ q) = attach (render r a) q.
Proof.
  intros r a q H. unfold attach. destruct q as [|y q]; [now rewrite app_nil_r|].
  destruct (bytes_eqb (render r a) [47]) eqn:E1.
  - apply bytes_eqb_true, render_root_only in E1; [|assumption]. destruct E1 as [-> ->]. reflexivity.
  - destruct (bytes_eqb (render r a) [46]) eqn:E2.
    + apply bytes_eqb_true, render_dot_only in E2; [|assumption]. destruct E2 as [-> ->]. reflexivity.
    + destruct a as [|h t].
      * destruct r; [now rewrite bytes_eqb_refl in E1 | now rewrite bytes_eqb_refl in E2].
      * destruct r; unfold render.
        -- rewrite intercalate_app by congruence. reflexivity.
        -- change ((h :: t) ++ y :: q) with (h :: (t ++ y :: q)).
           rewrite <- (intercalate_app (h :: t) (y :: q)) by congruence. reflexivity.
Qed.

Lemma resolve_attach : forall base p, base <> [] ->
  resolve base p = attach (clean base) (url_names p).
Proof.
  intros base p Hb. rewrite resolve_render by assumption. unfold clean at 1.
  apply render_attach. apply nf_segs.
Qed.

(** ** the decidable predicate [beneath] *)

Lemma strip_prefix_app : forall pre s, strip_prefix pre (pre ++ s) = Some s.
Proof. induction pre as [|x pre IH]; intros s; [reflexivity|]. cbn. rewrite N.eqb_refl. apply IH. Qed.

Lemma strip_prefix_some : forall pre s r, strip_prefix pre s = Some r -> s = pre ++ r.
Proof.
  induction pre as [|x pre IH]; intros s r H; cbn in H; [injection H as ->; reflexivity|].
  destruct s as [|y s]; [discriminate|]. destruct (x =? y) eqn:E; [|discriminate].
  apply N.eqb_eq in E. subst. cbn. f_equal. now apply IH.
Qed.

(** soundness: whatever [beneath] accepts is the directory plus ordinary names *)
Lemma beneath_sound : forall cb out, beneath cb out = true ->
  exists q, Forall ordinary q /\ out = attach cb q.
Proof.
  intros cb out. unfold beneath.
  destruct (bytes_eqb out cb) eqn:E0.
  - intros _. apply bytes_eqb_true in E0. exists []. split; auto.
  - intros H.
    assert (G : forall r, forallb ordinaryb (segments r) = true ->
                exists q, Forall ordinary q /\ q <> [] /\ r = intercalate q).
    { intros r Hr. exists (segments r). split; [now apply Forall_ordinaryb|]. split; [apply segments_not_nil|].
      symmetry. apply intercalate_segments. }
    unfold attach.
    destruct (bytes_eqb cb [47]) eqn:E1.
    + destruct (strip_prefix [47] out) as [r|] eqn:Es; [|discriminate].
      apply strip_prefix_some in Es. destruct (G r H) as (q & Hq & Hne & ->).
      exists q. split; auto. destruct q; [congruence|]. exact Es.
    + destruct (bytes_eqb cb [46]) eqn:E2.
      * destruct (G out H) as (q & Hq & Hne & ->). exists q. split; auto. destruct q; [congruence|]. reflexivity.
      * destruct (strip_prefix (cb ++ [47]) out) as [r|] eqn:Es; [|discriminate].
        apply strip_prefix_some in Es. destruct (G r H) as (q & Hq & Hne & ->).
        exists q. split; auto. destruct q; [congruence|]. rewrite <- app_assoc in Es. exact Es.
Qed.

Lemma beneath_attach : forall cb q, Forall ordinary q -> beneath cb (attach cb q) = true.
Proof.
  intros cb q Hq. unfold beneath.
  destruct (bytes_eqb (attach cb q) cb) eqn:E0; [reflexivity|].
  destruct q as [|y q]; [cbn in E0; now rewrite bytes_eqb_refl in E0|].
  assert (Hs : forallb ordinaryb (segments (intercalate (y :: q))) = true).
  { rewrite segments_intercalate; [now apply Forall_ordinaryb | congruence |].
    eapply Forall_impl; [|exact Hq]. intros s (_ & _ & _ & H). exact H. }
  unfold attach.
  destruct (bytes_eqb cb [47]) eqn:E1.
  - cbn [strip_prefix]. rewrite N.eqb_refl. exact Hs.
  - destruct (bytes_eqb cb [46]) eqn:E2; [exact Hs|].
    replace (cb ++ 47 :: intercalate (y :: q)) with ((cb ++ [47]) ++ intercalate (y :: q)) by (rewrite <- app_assoc; reflexivity).
    rewrite strip_prefix_app. exact Hs.
Qed.

Lemma resolve_beneath : forall base p, base <> [] -> beneath (clean base) (resolve base p) = true.
Proof.
  intros base p Hb. rewrite resolve_attach by assumption. apply beneath_attach. apply url_names_ordinary.
Qed.

(** ** dot-free URL paths: the result is Join(base, p) *)

Lemma dot_freeb_true : forall p, dot_freeb p = true <-> dot_free p.
Proof.
  intros p. unfold dot_freeb, dot_free. rewrite forallb_forall, Forall_forall.
  split; intros H s Hs; specialize (H s Hs).
  - apply andb_true_iff in H as [H1 H2]. apply negb_true_iff in H1, H2. split; intros E.
    + apply is_dot_true in E. congruence.
    + apply is_dotdot_true in E. congruence.
  - destruct H as [H1 H2]. apply andb_true_iff. split; apply negb_true_iff.
    + destruct (is_dot s) eqn:E; auto. apply is_dot_true in E. contradiction.
    + destruct (is_dotdot s) eqn:E; auto. apply is_dotdot_true in E. contradiction.
Qed.

(** on dot-free segment lists the machine only skips empty segments and pushes the others *)
Definition nonempty_segs (l : list seg) : list seg := filter (fun s => negb (is_empty s)) l.

Lemma run_dot_free : forall r l st,
  Forall (fun s => s <> [46] /\ s <> [46; 46]) l ->
  run r l st = rev (nonempty_segs l) ++ st.
Proof.
  induction l as [|s l IH]; intros st H; [reflexivity|].
  inversion H; subst. destruct H2 as [H2 H2']. unfold run in *. cbn [fold_left nonempty_segs filter].
  assert (Hd : is_dot s = false) by (destruct (is_dot s) eqn:E; auto; apply is_dot_true in E; contradiction).
  assert (Hdd : is_dotdot s = false) by (destruct (is_dotdot s) eqn:E; auto; apply is_dotdot_true in E; contradiction).
  unfold step at 2. rewrite Hd, Hdd. destruct (is_empty s) eqn:He; cbn [orb negb].
  - apply IH. assumption.
  - rewrite IH by assumption. cbn [rev]. rewrite <- app_assoc. reflexivity.
Qed.

Lemma nonempty_segs_ordinary : forall l,
  Forall (fun s => s <> [46] /\ s <> [46; 46]) l -> Forall (fun x => ~ In 47 x) l ->
  Forall ordinary (nonempty_segs l).
Proof.
  induction l as [|s l IH]; intros H1 H2; [constructor|].
  inversion H1; subst. inversion H2; subst. cbn [nonempty_segs filter].
  destruct (is_empty s) eqn:E; cbn [negb]; [now apply IH|].
  constructor; [|now apply IH]. destruct H3. unfold ordinary. repeat split; auto.
  intros ->. discriminate.
Qed.

Lemma dot_free_force_slash : forall p, dot_free p -> dot_free (force_slash p).
Proof.
  intros p H. unfold force_slash. destruct (is_rooted p); [assumption|].
  unfold dot_free. rewrite segments_cons_slash. constructor; [split; discriminate | exact H].
Qed.

Lemma nonempty_segs_force_slash : forall p, nonempty_segs (segments (force_slash p)) = nonempty_segs (segments p).
Proof.
  intros p. unfold force_slash. destruct (is_rooted p); [reflexivity|].
  rewrite segments_cons_slash. reflexivity.
Qed.

Lemma url_names_dot_free : forall p, dot_free p -> url_names p = nonempty_segs (segments p).
Proof.
  intros p H. unfold url_names, stack. rewrite run_dot_free by now apply dot_free_force_slash.
  rewrite app_nil_r, rev_involutive. apply nonempty_segs_force_slash.
Qed.

Lemma join_dot_free : forall base p, base <> [] -> dot_free p ->
  join base p = render (is_rooted base) (segs base ++ nonempty_segs (segments p)).
Proof.
  intros base p Hb Hp. unfold join. destruct base as [|x base'] eqn:Eb; [congruence|]. rewrite <- Eb in *.
  unfold clean. f_equal.
  - now apply is_rooted_app.
  - unfold segs, stack. rewrite is_rooted_app by assumption.
    rewrite segments_app, run_app, run_dot_free by exact Hp.
    rewrite rev_app_distr, rev_involutive. reflexivity.
Qed.

Lemma resolve_dot_free : forall base p, base <> [] -> dot_free p -> resolve base p = join base p.
Proof.
  intros base p Hb Hp. rewrite resolve_render, join_dot_free, url_names_dot_free by assumption. reflexivity.
Qed.

(** * judging modulo lexical cleaning of the output *)

Lemma clean_render : forall r st, nf r (rev st) -> clean (render r st) = render r st.
Proof. intros r st H. unfold clean. rewrite is_rooted_render, segs_render by assumption. reflexivity. Qed.

Lemma clean_attach : forall base q, Forall ordinary q -> clean (attach (clean base) q) = attach (clean base) q.
Proof.
  intros base q Hq. unfold clean at 2 3.
  rewrite <- (render_attach (is_rooted base) (segs base) q (nf_segs base)).
  apply clean_render. now apply nf_base_names.
Qed.

(** whatever [beneath] accepts is already clean, so cleaning the output first accepts at least as much *)
Lemma beneath_clean_out : forall base out, beneath (clean base) out = true ->
  clean out = out /\ beneath (clean base) (clean out) = true.
Proof.
  intros base out H. destruct (beneath_sound _ _ H) as (q & Hq & E). subst out.
  rewrite clean_attach by assumption. split; [reflexivity | exact H].
Qed.

Lemma resolve_clean : forall base p, base <> [] -> clean (resolve base p) = resolve base p.
Proof.
  intros base p Hb. destruct (beneath_clean_out base (resolve base p) (resolve_beneath base p Hb)) as [E _]. exact E.
Qed.

Lemma resolve_beneath_clean : forall base p, base <> [] -> beneath (clean base) (clean (resolve base p)) = true.
Proof. intros base p Hb. rewrite resolve_clean by assumption. now apply resolve_beneath. Qed.

Lemma join_clean : forall a b, a <> [] -> clean (join a b) = join a b.
Proof. intros [|x a] b H; [congruence|]. cbn [join]. apply clean_idem. Qed.
