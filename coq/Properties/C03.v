(** C03 - Derived loggers are isolated: the output of a logger depends only on its own derivation chain. *)
From Coq Require Import List NArith ZArith.
Import ListNotations.
From Glb Require Import Lib.GoSlice Proofs.GoSliceP Model.LoggerChain Proofs.LoggerChainP.
From Glb Require Lib.TextTok Model.LoggerJson Proofs.LoggerJsonWithP Model.LoggerText Proofs.LoggerTextWithP.

(** SCOPE. The theorems below are about SEQUENTIAL histories: [Derive] is one atomic operation of the
    model, operations do not interleave inside a derivation, and the only channel between handlers that is
    modelled is the backing array of [preformatted] (plus the value-copied context [C]).  Other state a
    handler could share - TextHandler's prefixPool, a slice-typed context field, *Options, the Logger
    wrapper around the handler, package-level variables - is NOT in the model: it is covered by the
    source facts (gen/loggerfacts: only the fresh clone is written, Logger.With returns a new Logger,
    every slice field is clipped) and by the harness (trees built through Handler and through Logger
    APIs, concurrent derivation under the race detector).  C03 is "partial" in that sense.

    For every handler context type and EVERY rendering of attributes, group openers, header and
    closing bytes (JSON, Text, Nano and anything else), every append growth policy [grow] (each
    allocation may pick any capacity >= the needed length), every sequence of Derive(parent, With |
    WithGroup) and Log operations on a tree of loggers, every node and record: under the source
    discipline (clone clips; WithAttrs/WithGroup assign only to the clone) the line the node writes
    after the whole sequence equals the line of a handler built alone, on a fresh heap with its own
    growth policy [grow'], by replaying just that node's chain. *)
Theorem C03_isolation :
  forall (C A G M : Type) (render_attrs : C -> list A -> list (list N) * C)
         (render_group : C -> G -> list (list N) * C) (header : M -> list N) (closer : C -> list N) (ctx0 : C)
         (f : flags) (grow grow' : growth) (ops : list (op A G M)) (n : nat) (r : record A M),
  clips f = true -> fresh_only f = true ->
  line_in_tree C A G M render_attrs render_group header closer ctx0 f grow ops n r
  = line_alone C A G M render_attrs render_group header closer ctx0 f grow' (chain_of A G M ops n) r.
Proof. exact isolation. Qed.
Print Assumptions C03_isolation.

(** Both sides of the isolation theorem are the heap-free meaning of the chain: the bytes rendered by the
    steps of the node's own chain, in order, then the record's own attributes (the specification
    [pure_line]; [group_noop] is NanoHandler's WithGroup). *)
Theorem C03_line_is_pure_chain :
  forall (C A G M : Type) (render_attrs : C -> list A -> list (list N) * C)
         (render_group : C -> G -> list (list N) * C) (header : M -> list N) (closer : C -> list N) (ctx0 : C)
         (f : flags) (grow : growth) (ops : list (op A G M)) (n : nat) (c : chain A G) (r : record A M),
  clips f = true -> fresh_only f = true ->
  line_in_tree C A G M render_attrs render_group header closer ctx0 f grow ops n r
  = pure_line C A G M render_attrs render_group header closer ctx0 (group_noop f) (chain_of A G M ops n) r
  /\ line_alone C A G M render_attrs render_group header closer ctx0 f grow c r
     = pure_line C A G M render_attrs render_group header closer ctx0 (group_noop f) c r.
Proof. intros; split; [apply tree_refines_pure | apply alone_refines_pure]; assumption. Qed.
Print Assumptions C03_line_is_pure_chain.

(** The same for a line written in the MIDDLE of a history (derive and log operations in any
    order): what [Log n r] writes after [ops1] is the isolated line of n's chain, whatever was
    derived before and whatever [ops2] does afterwards. *)
Theorem C03_every_logged_line :
  forall (C A G M : Type) (render_attrs : C -> list A -> list (list N) * C)
         (render_group : C -> G -> list (list N) * C) (header : M -> list N) (closer : C -> list N) (ctx0 : C)
         (f : flags) (grow grow' : growth) (ops1 : list (op A G M)) (n : nat) (r : record A M) (ops2 : list (op A G M)),
  clips f = true -> fresh_only f = true -> n < length (chains_of A G M ops1) ->
  written C (exec_all C A G M render_attrs render_group header closer ctx0 f grow (ops1 ++ [Log n r]))
  = written C (exec_all C A G M render_attrs render_group header closer ctx0 f grow ops1)
    ++ [(n, line_alone C A G M render_attrs render_group header closer ctx0 f grow'
              (chain_of A G M (ops1 ++ Log n r :: ops2) n) r)].
Proof.
  intros. rewrite written_snoc. rewrite (logged_line_isolated _ _ _ _ _ _ _ _ _ f grow grow' ops1 n r ops2) by assumption.
  reflexivity.
Qed.
Print Assumptions C03_every_logged_line.

(** The heap invariant behind it: no operation ever writes into an array that already exists, so
    the bytes of a published handler are immutable. *)
Theorem C03_published_bytes_immutable :
  forall (C A G M : Type) (render_attrs : C -> list A -> list (list N) * C)
         (render_group : C -> G -> list (list N) * C) (header : M -> list N) (closer : C -> list N) (ctx0 : C)
         (f : flags) (grow : growth) (ops1 ops2 : list (op A G M)) (a : addr),
  clips f = true -> fresh_only f = true ->
  a < length (theap C (exec_all C A G M render_attrs render_group header closer ctx0 f grow ops1)) ->
  arr (theap C (exec_all C A G M render_attrs render_group header closer ctx0 f grow (ops1 ++ ops2))) a
  = arr (theap C (exec_all C A G M render_attrs render_group header closer ctx0 f grow ops1)) a.
Proof. exact published_immutable. Qed.
Print Assumptions C03_published_bytes_immutable.

(** The Go-slice fact the invariant rests on: appending a non-empty chunk to a clipped slice
    allocates; and an append never disturbs a slice that lies in another array or ends before the
    write position. *)
Theorem C03_append_frame : forall grow H s bs t, wf H s -> wf H t ->
  (sa t <> sa s \/ soff t + slen t <= soff s + slen s) ->
  read (fst (append grow H s bs)) t = read H t.
Proof. exact append_frame. Qed.
Print Assumptions C03_append_frame.

(** Attributes given to With appear exactly as if passed at the call site, ahead of the call's own
    attributes - for every rendering that is compositional (rendering a list = rendering its parts
    in sequence, threading the context; attributes do not change the closing bytes). *)
Theorem C03_with_is_callsite :
  forall (C A G M : Type) (render_attrs : C -> list A -> list (list N) * C)
         (render_group : C -> G -> list (list N) * C) (header : M -> list N) (closer : C -> list N) (ctx0 : C)
         (f : flags) (grow grow' : growth) (c : chain A G) (l : list A) (r : record A M),
  clips f = true -> compositional C A render_attrs closer ->
  line_alone C A G M render_attrs render_group header closer ctx0 f grow (c ++ [DAttrs l]) r
  = line_alone C A G M render_attrs render_group header closer ctx0 f grow' c (prepend A M l r).
Proof. exact with_is_callsite. Qed.
Print Assumptions C03_with_is_callsite.

(** The [compositional] hypothesis is DISCHARGED for the two real byte-level renderers - the JSON model
    (Model/LoggerJson.v, tied to the code by the C01 correspondence) and the Text model
    (Model/LoggerText.v, tied by the C13 correspondence; for every choice of the unicode oracles):
    for every handler state [h] (any open groups, any separator state, any preformatted bytes), every
    list [l] given to With and every record, the line is byte-for-byte the line of [h] for the record
    with [l] put in front of its own attributes; and two Withs in a row are one With of the concatenation. *)
Theorem C03_json_with_is_callsite :
  forall (h : LoggerJson.handler) (l : list (list N * LoggerJson.value)) (r : LoggerJson.record),
  LoggerJson.handle (LoggerJson.with_attrs h l) r = LoggerJson.handle h (LoggerJsonWithP.prepend l r).
Proof. exact LoggerJsonWithP.json_with_is_callsite. Qed.
Print Assumptions C03_json_with_is_callsite.

Theorem C03_json_with_chain :
  forall (c : list LoggerJson.deriv) (a b : list (list N * LoggerJson.value)) (r : LoggerJson.record),
  LoggerJson.handle (LoggerJson.derive (c ++ [LoggerJson.DAttrs a])) r
  = LoggerJson.handle (LoggerJson.derive c) (LoggerJsonWithP.prepend a r)
  /\ LoggerJson.handle (LoggerJson.derive (c ++ [LoggerJson.DAttrs a; LoggerJson.DAttrs b])) r
     = LoggerJson.handle (LoggerJson.derive (c ++ [LoggerJson.DAttrs (a ++ b)])) r.
Proof. intros; split; [apply LoggerJsonWithP.json_with_chain | apply LoggerJsonWithP.json_with_split]. Qed.
Print Assumptions C03_json_with_chain.

Theorem C03_text_with_is_callsite :
  forall (isSpace isPrint sp_print : N -> bool) (h : LoggerText.handler) (l : list TextTok.attr) (r : TextTok.record),
  LoggerText.handle isSpace isPrint sp_print (LoggerText.with_attrs isSpace isPrint sp_print h l) r
  = LoggerText.handle isSpace isPrint sp_print h (LoggerTextWithP.prepend l r).
Proof. exact LoggerTextWithP.text_with_is_callsite. Qed.
Print Assumptions C03_text_with_is_callsite.

Theorem C03_text_with_chain :
  forall (isSpace isPrint sp_print : N -> bool) (c : list TextTok.deriv) (l : list TextTok.attr) (r : TextTok.record),
  LoggerText.handle isSpace isPrint sp_print (LoggerText.derive isSpace isPrint sp_print (c ++ [TextTok.DAttrs l])) r
  = LoggerText.handle isSpace isPrint sp_print (LoggerText.derive isSpace isPrint sp_print c) (LoggerTextWithP.prepend l r).
Proof. exact LoggerTextWithP.text_with_chain. Qed.
Print Assumptions C03_text_with_chain.

(** non-vacuity: a With under an open group, a keyed group and a leaf - the JSON line nests them under the group *)
Example C03_json_with_example :
  LoggerJson.handle (LoggerJson.derive [LoggerJson.DGroup [103%N]; LoggerJson.DAttrs [([97%N], LoggerJson.VInt 1%Z)]])
                    (LoggerJson.mkR [84%N] LoggerJson.LInfo None [109%N] [([98%N], LoggerJson.VBool true)])
  = LoggerJson.handle (LoggerJson.derive [LoggerJson.DGroup [103%N]])
                    (LoggerJson.mkR [84%N] LoggerJson.LInfo None [109%N] [([97%N], LoggerJson.VInt 1%Z); ([98%N], LoggerJson.VBool true)]).
Proof. vm_compute. reflexivity. Qed.

(** Facts read from the source (gen/loggerfacts) select the model's flags; a fact table that
    satisfies the discipline gives isolation. *)
Theorem C03_isolation_from_facts :
  forall (x : chain_facts), chain_discipline x = true ->
  forall (C A G M : Type) (render_attrs : C -> list A -> list (list N) * C)
         (render_group : C -> G -> list (list N) * C) (header : M -> list N) (closer : C -> list N) (ctx0 : C)
         (grow grow' : growth) (ops : list (op A G M)) (n : nat) (r : record A M),
  line_in_tree C A G M render_attrs render_group header closer ctx0 (chain_flags x) grow ops n r
  = line_alone C A G M render_attrs render_group header closer ctx0 (chain_flags x) grow' (chain_of A G M ops n) r.
Proof. intros x Hx; intros. destruct (discipline_flags x Hx). apply isolation; assumption. Qed.
Print Assumptions C03_isolation_from_facts.

(** What the discipline buys. Without clip (the child gets the parent's slice with its spare
    capacity) two children of one parent overwrite each other; assigning to the receiver changes
    the parent. Witnesses by computation on the token rendering. *)
Theorem no_clip_refuted :
  exists ops grow n r,
    tok_line_in_tree 0 (mkFlags false true false) grow ops n r
    <> tok_line_alone 0 (mkFlags false true false) grow (chain_of tokA tokA unit ops n) r.
Proof. exact no_clip_refuted_w. Qed.
Print Assumptions no_clip_refuted.

Theorem assign_receiver_refuted :
  exists ops grow n r,
    tok_line_in_tree 1 (mkFlags true false false) grow ops n r
    <> tok_line_alone 1 (mkFlags true false false) grow (chain_of tokA tokA unit ops n) r.
Proof. exact assign_receiver_refuted_w. Qed.
Print Assumptions assign_receiver_refuted.

(** Non-vacuity. The compositionality hypothesis is satisfiable (token rendering, and a JSON-like
    rendering that threads a separator flag); the siblings history under the discipline is isolated
    and really contains the parent's and only the own attribute. *)
Example C03_compositional_inhabited :
  compositional (list N) (N * nat) tok_render_attrs tok_closer /\ compositional bool N sep_render_attrs (fun _ => [125%N; 10%N]).
Proof. split; [exact tok_compositional | exact sep_compositional]. Qed.

Example C03_siblings_with_clip :
  tok_line_in_tree 0 (mkFlags true true false) (fun _ _ _ => 4) siblings 2 (mkRecord tt [(9%N, 2)]) = [3; 5; 19; 0]%N
  /\ tok_line_in_tree 0 (mkFlags false true false) (fun _ _ _ => 4) siblings 2 (mkRecord tt [(9%N, 2)]) = [3; 7; 19; 0]%N.
Proof. vm_compute. split; reflexivity. Qed.
