(** C11 — IPv4Filter answers membership exactly as the set of CIDRs added and not removed. *)
From Coq Require Import List Arith NArith Bool.
Import ListNotations.
From Glb Require Import Lib.NetIP Lib.CidrSet Model.Filter Proofs.FilterP Proofs.NetIPP.
Open Scope N_scope.

(** [run ops : option state] and [contains s ip : option bool] are the model's outcomes;
    [None] is a Go run-time panic (index out of range, write to a nil map, short slice).

    No call of any history panics — whatever the arguments, valid or not — and in the
    state reached no further Add, Remove or Contains panics either: the guards keep every
    index of [ipv4Masks], [ipList] and [ipMaps] in range, the migration reads only slots
    with ones > 0, map entries are written only after the maps were made, and
    [BigEndian.Uint32] only ever sees 4-byte slices. *)
Theorem C11_no_panic : forall ops,
  exists s, run ops = Some s
            /\ (forall c, exists s' r, add s c = Some (s', r))
            /\ (forall c, exists s' r, remove s c = Some (s', r))
            /\ (forall ip, exists b, contains s ip = Some b).
Proof. exact no_panic. Qed.
Print Assumptions C11_no_panic.

(** For every history [ops] of Add/Remove calls (any length, any arguments, valid or
    not, so in particular histories that cross the switch from the 256-slot list to the
    per-prefix-length maps with zeroed slots before, at and after it) and every probe
    [ip] (any byte slice): [Contains] answers exactly as the plain set of prefixes added
    and not since removed — [match_all_live] is "0.0.0.0/0 was added and not removed
    since", [live_set] the other ranges; a probe that is not an IPv4 address (neither 4
    bytes nor a 16-byte IPv4-mapped address) is inside 0.0.0.0/0 only. *)
Theorem C11_membership : forall ops ip,
  exists s, run ops = Some s /\
  contains s ip = Some
  match to4 ip with
  | Some b => match_all_live ops || existsb (fun k => covers k (be32 b)) (live_set ops)
  | None => match_all_live ops
  end.
Proof. exact membership_p. Qed.
Print Assumptions C11_membership.

(** the 4-byte and the 16-byte (net.IP.To16 / net.ParseIP) form of an address get the same answer *)
Theorem C11_both_forms : forall ops a b c d,
  let r := match_all_live ops || existsb (fun k => covers k (be32 [a; b; c; d])) (live_set ops) in
  exists s, run ops = Some s /\ contains s [a; b; c; d] = Some r /\ contains s (v4mapped [a; b; c; d]) = Some r.
Proof. exact membership_v4_p. Qed.
Print Assumptions C11_both_forms.

(** arguments that are not IPv4 CIDRs are rejected and change nothing, in every state;
    all others are accepted (in every reachable state) *)
Theorem C11_invalid_rejected : forall s c,
  cidr_arg c = None -> add s c = Some (s, RErrInvalid) /\ remove s c = Some (s, RErrInvalid).
Proof. exact invalid_rejected_p. Qed.
Print Assumptions C11_invalid_rejected.

Theorem C11_valid_accepted : forall ops s c,
  run ops = Some s -> cidr_arg c <> None ->
  (exists s', add s c = Some (s', ROk)) /\ (exists s', remove s c = Some (s', ROk)).
Proof. exact valid_accepted_p. Qed.
Print Assumptions C11_valid_accepted.

(** which arguments are "IPv4 CIDRs": exactly those whose mask is the 4-byte netmask of some
    /n (n one-bits then zeros) and whose address has 4 bytes; they denote (address, n).
    ([wf_bytes]: the slice elements are bytes.) *)
Theorem C11_valid_argument_meaning : forall c nip n,
  wf_bytes (c_mask c) ->
  (cidr_arg c = Some (nip, n) <->
   length (c_ip c) = 4%nat /\ length (c_mask c) = 4%nat /\ n <= 32 /\
   be32 (c_mask c) = 2 ^ 32 - 2 ^ (32 - n) /\ nip = be32 (c_ip c)).
Proof. exact cidr_arg_meaning. Qed.
Print Assumptions C11_valid_argument_meaning.

(** the refinement behind it: the abstraction [abs] of the concrete state (list mode and
    map mode) is the live set, after every history *)
Theorem C11_refinement : forall ops,
  exists s, run ops = Some s /\ match_all s = match_all_live ops
            /\ forall k, In k (abs s) <-> In k (live_set ops).
Proof. exact refinement_p. Qed.
Print Assumptions C11_refinement.

(** what [covers] says in arithmetic: the probe and the network address agree on their
    top [ones] bits (for 32-bit numbers, as [be32] of four bytes are) *)
Theorem C11_covers_meaning : forall nip ones ip,
  ones <= 32 -> nip < 2 ^ 32 -> ip < 2 ^ 32 ->
  covers (canon nip ones) ip = (ip / 2 ^ (32 - ones) =? nip / 2 ^ (32 - ones)).
Proof. exact covers_same_prefix. Qed.
Print Assumptions C11_covers_meaning.

(** the code's table is the netmask table *)
Theorem C11_mask_table : forall ones, 1 <= ones <= 32 -> mask ones = 2 ^ 32 - 2 ^ (32 - ones).
Proof. exact mask_pmask. Qed.
Print Assumptions C11_mask_table.

(** the statement is not satisfied by everything: Contains as it was at the pinned commit
    (length test instead of To4) violates it — the witness is the replayable finding, now fixed *)
Theorem C11_pinned_refuted :
  exists ops ip s, run ops = Some s /\ spec_contains ops ip = true
                   /\ contains_pinned s ip = Some false /\ contains s ip = Some true.
Proof. exact pinned_refuted. Qed.
Print Assumptions C11_pinned_refuted.

(* ---- non-vacuity: concrete histories, evaluated on the model ---- *)

Definition net (a b c d n : N) : cidr := mkCidr [a; b; c; d] (bytes_of_u32 (pmask n)).
(** i-th range 10.(i/256).(i mod 256).77/24  (host bits set: non-canonical) *)
Definition nth_net (i : nat) : cidr := net 10 (N.of_nat i / 256) (N.of_nat i mod 256) 77 24.
Definition adds (lo n : nat) : list op := map (fun i => Add (nth_net i)) (seq lo n).

(** 300 adds with removals before (slot 5), at (the 256th add, slot 255) and after (range 280)
    the switch, a re-add, a /0 toggle and two invalid arguments *)
Definition long_history : list op :=
  adds 0 200 ++ [Remove (nth_net 5); Add (net 0 0 0 0 0)] ++ adds 200 56 ++ [Remove (nth_net 255)]
  ++ adds 256 44 ++ [Remove (nth_net 280); Remove (net 1 2 3 4 0); Add (nth_net 5); Remove (nth_net 6);
                     Add (mkCidr [10;0;0;0] [255;0;255;0]); Remove (mkCidr (v4mapped [10;0;7;0]) [255;255;255;0])].

Example C11_example_crosses_switch :
  match run long_history with
  | Some s =>
    (mode_maps s, index s, length (live_set long_history), match_all_live long_history)
    = (true, 256%nat, 297%nat, false)
    /\ map (contains s) [[10;0;5;0]; [10;0;5;255]; [10;0;4;255]; [10;0;6;0]; [10;0;7;1];
                         v4mapped [10;0;7;1]; [10;0;255;9]; [10;1;24;9]; [10;1;43;255]; [10;1;44;0];
                         [0;0;0;0;0;0;0;0;0;0;0;0;10;0;7;1]; [10;0;7]; []]
       = map Some [true; true; true; false; true;
                   true; false; false; true; false;
                   false; false; false]
  | None => False
  end.
Proof. vm_compute. split; reflexivity. Qed.

(** 256 copies of one range fill the list; Remove zeroes all of them; the next Add
    migrates 256 zeroed slots and the filter holds only the new range *)
Example C11_example_all_zeroed :
  let h := map (fun _ => Add (nth_net 1)) (seq 0 256) ++ [Remove (nth_net 1); Add (nth_net 2)] in
  match run h with
  | Some s => (mode_maps s, live_set h, contains s [10;0;1;1], contains s [10;0;2;1])
              = (true, [(167772672, 24)], Some false, Some true)
  | None => False
  end.
Proof. vm_compute. reflexivity. Qed.

(** the panic outcomes of the model are real: on states no history reaches (a list-mode state whose
    slot claims prefix length 40; a map-mode state whose maps were never made) Contains / Add do
    panic — C11_no_panic says such states are unreachable, not that the model cannot panic *)
Example C11_example_model_can_panic :
  contains (mkSt false false 1 ((1, 40) :: repeat (0, 0) 255) (repeat None 32)) [10;0;0;1] = None
  /\ add (mkSt false true 0 (repeat (0, 0) 256) (repeat None 32)) (net 10 0 0 0 8) = None
  /\ add_locked init 5 0 = None /\ be32_p [1; 2] = None.
Proof. vm_compute. repeat split; reflexivity. Qed.

Example C11_example_invalid :
  map cidr_arg [mkCidr [10;0;0;0] [255;0;255;0]; mkCidr (v4mapped [10;0;7;0]) [255;255;255;0];
                mkCidr [10;0;0;0] (repeat 255 13 ++ [0;0;0]); mkCidr [10;0;0;0] []; net 10 1 2 3 8]
  = [None; None; None; None; Some (167838211, 8)].
Proof. vm_compute. reflexivity. Qed.
