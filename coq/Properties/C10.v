(** C10 — Command-line grammar: flags, values and trailing args are split as documented. *)
From Coq Require Import List NArith Bool.
Import ListNotations.
From Glb Require Import Lib.ArgGrammar Model.ArgParse Proofs.ArgParseP.
Open Scope N_scope.

(** For every flag table and EVERY token vector over arbitrary bytes, the model of argParse
    succeeds with exactly the assignments and rest the documented grammar derives, fails
    with exactly the documented error on the vectors the grammar calls malformed, and never
    panics (no index or slice of the Go code goes out of range). *)
Theorem C10_grammar : forall (tbl : flagtable) (toks : list token),
  (forall asg rest, arg_parse tbl toks = Ok asg rest <-> Parses tbl toks asg rest)
  /\ (forall e, arg_parse tbl toks = Err e <-> Malformed tbl toks e)
  /\ arg_parse tbl toks <> Panic.
Proof. exact grammar_equiv. Qed.
Print Assumptions C10_grammar.

(** The grammar is total and unambiguous: every vector is parsed or malformed, never both,
    and with a single outcome. *)
Theorem C10_total : forall tbl toks,
  (exists asg rest, Parses tbl toks asg rest) \/ (exists e, Malformed tbl toks e).
Proof. exact parses_or_malformed. Qed.
Print Assumptions C10_total.

Theorem C10_deterministic : forall tbl toks a1 r1 a2 r2 e1 e2,
  (Parses tbl toks a1 r1 -> Parses tbl toks a2 r2 -> a1 = a2 /\ r1 = r2)
  /\ (Malformed tbl toks e1 -> Malformed tbl toks e2 -> e1 = e2)
  /\ (Parses tbl toks a1 r1 -> Malformed tbl toks e1 -> False).
Proof.
  intros. repeat split; [eapply parses_functional; eassumption | eapply parses_functional; eassumption
    | apply malformed_functional | apply parses_not_malformed].
Qed.
Print Assumptions C10_deterministic.

(** Args() is a suffix of the vector, unchanged and in order; every assignment used one or
    two tokens (plus possibly the terminator); and parsing stopped at the end of the vector,
    at the first token that is not a flag, or just after a literal "--". *)
Theorem C10_rest_is_suffix : forall tbl toks asg rest,
  arg_parse tbl toks = Ok asg rest ->
  exists used, toks = used ++ rest
    /\ (length asg <= length used <= 2 * length asg + 1)%nat
    /\ (rest = [] \/ (exists t r, rest = t :: r /\ NonFlag t) \/ (exists u, used = u ++ [terminator])).
Proof.
  intros tbl toks asg rest H. apply (proj1 (C10_grammar tbl toks)) in H.
  destruct (parses_suffix _ _ _ _ H) as [u [E L]]. destruct (parses_stop_reason _ _ _ _ H) as [u' [E' R]].
  assert (u' = u) by (rewrite E in E'; apply app_inv_tail in E'; symmetry; exact E'). subst u'. eauto.
Qed.
Print Assumptions C10_rest_is_suffix.

(** The effective value of a flag is its last assignment; a flag without assignment has none;
    every effective value was literally assigned. *)
Theorem C10_last_wins : forall asg1 n v asg2 asg m,
  (~ In n (map fst asg2) -> final_value (asg1 ++ (n, v) :: asg2) n = Some v)
  /\ (final_value asg m = None <-> ~ In m (map fst asg))
  /\ (forall w, final_value asg m = Some w -> In (m, w) asg).
Proof.
  intros. repeat split; [apply final_value_last_wins | apply final_value_none | apply final_value_none | apply final_value_in].
Qed.
Print Assumptions C10_last_wins.

(** On the tables NewFlagSet builds (no name starts with '-' or contains '='): every defined
    flag accepts every value — arbitrary bytes, empty, or looking like a flag — in the '=' forms;
    a non-boolean flag takes the next token whatever it looks like; a boolean flag leaves it. *)
Theorem C10_every_value_reachable : forall tbl n b v rest,
  wf_table tbl -> lookup tbl n = Some b -> (forall t r, rest = t :: r -> NonFlag t) ->
  arg_parse tbl ((45 :: n ++ 61 :: v) :: rest) = Ok [(n, v)] rest
  /\ arg_parse tbl ((45 :: 45 :: n ++ 61 :: v) :: rest) = Ok [(n, v)] rest
  /\ (b = false -> arg_parse tbl ((45 :: n) :: v :: rest) = Ok [(n, v)] rest)
  /\ (b = true -> arg_parse tbl ((45 :: n) :: rest) = Ok [(n, true_text)] rest).
Proof. exact every_value_reachable. Qed.
Print Assumptions C10_every_value_reachable.

(** Non-vacuity. Table: help(bool) config(string) b(bool) s(string). *)
Definition ex_tbl : flagtable := [([104;101;108;112], true); ([99;111;110;102;105;103], false); ([98], true); ([115], false)].

Example ex_tbl_wf : wf_table ex_tbl.
Proof.
  intros n b [H|[H|[H|[H|[]]]]]; injection H as <- _; (split; [discriminate | cbn; intuition discriminate]).
Qed.

(** [-b x -s=1]: the boolean flag does not take "x"; parsing stops there and -s=1 stays in Args(). *)
Example C10_example_bool_stray :
  arg_parse ex_tbl [[45;98]; [120]; [45;115;61;49]] = Ok [([98], true_text)] [[120]; [45;115;61;49]].
Proof. vm_compute. reflexivity. Qed.
(** [-s -b --s== -- -b]: "-b" is the value of -s; "--s==" assigns "="; "--" is dropped; "-b" is an argument. *)
Example C10_example_value_like_flag :
  arg_parse ex_tbl [[45;115]; [45;98]; [45;45;115;61;61]; [45;45]; [45;98]]
  = Ok [([115], [45;98]); ([115], [61])] [[45;98]].
Proof. vm_compute. reflexivity. Qed.
Example C10_example_errors :
  arg_parse ex_tbl [[45;98]; [45;45;45;115]] = Err (BadSyntax [45;45;45;115])
  /\ arg_parse ex_tbl [[45;61;118]] = Err (BadSyntax [45;61;118])
  /\ arg_parse ex_tbl [[45;120;61]] = Err (NotDefined [120])
  /\ arg_parse ex_tbl [[45;98]; [45;115]] = Err (NeedsArg [115]).
Proof. vm_compute. repeat split; reflexivity. Qed.
