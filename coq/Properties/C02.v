(** C02 - Logging is atomic per record: one Write, one whole line, never interleaved. *)
From Coq Require Import List NArith ZArith Permutation.
Import ListNotations.
From Glb Require Import Model.LoggerConc Proofs.LoggerConcP.

(** For every meaning [line] of handlers (any function of the derivation chain and the record),
    every level predicate, every buffer growth policy; every program - any number of threads, each
    logging any records through the root or through handlers derived from it (any chains, derived
    before or during the run) - and EVERY schedule of the atomic actions
    Gate / PoolGet (any pooled buffer or a fresh one) / Format / Lock / WriteBegin / WriteEnd / Unlock /
    PoolPut | Drop: under the source discipline, when all threads have finished,

    - the destination has received, as separate Write calls, exactly the lines of the enabled
      records: each once, byte for byte [line c r], nothing for a disabled record;
    - no Write began while another was in progress;
    - every thread made exactly one Write per enabled record of its program, and formatted
      nothing else (a disabled record costs no formatting). *)
Theorem C02_atomic_lines :
  forall (D R : Type) (line : list D -> R -> list N) (enabled : R -> bool) (grow : N -> N -> N)
         (f : cflags) (prog : list (list (instr D R))) (sched : list label) (s : state D R),
  discipline f = true ->
  run D R line enabled grow f (init D R prog) sched = Some s -> finished D R s = true ->
  Permutation (dest D R s) (expected D R line enabled prog)
  /\ no_overlap None sched = true
  /\ (forall t, t < length prog -> count_writes t sched = length (lines_of D R line enabled (nth t prog [])))
  /\ (forall t, t < length prog -> count_formats t sched = length (lines_of D R line enabled (nth t prog []))).
Proof. exact atomic_lines. Qed.
Print Assumptions C02_atomic_lines.

(** The gate is [level >= threshold] for ARBITRARY integer thresholds and levels (a threshold between
    two named levels, below Debug, or above Fatal = "off" included): with records that carry a level,
    exactly the records with [threshold <= level] are written, whatever the threshold. *)
Theorem C02_atomic_lines_threshold :
  forall (D R : Type) (line : list D -> R -> list N) (level : R -> Z) (threshold : Z) (grow : N -> N -> N)
         (f : cflags) (prog : list (list (instr D R))) (sched : list label) (s : state D R),
  discipline f = true ->
  run D R line (fun r => level_enabled threshold (level r)) grow f (init D R prog) sched = Some s -> finished D R s = true ->
  Permutation (dest D R s) (expected D R line (fun r => level_enabled threshold (level r)) prog)
  /\ (forall t, t < length prog ->
        count_writes t sched = length (lines_of D R line (fun r => level_enabled threshold (level r)) (nth t prog []))).
Proof. intros. edestruct atomic_lines as (H2 & _ & H3 & _); eauto. Qed.
Print Assumptions C02_atomic_lines_threshold.

(** Whatever the destination's Write calls RETURN (success, short write, any error - a closed file, a broken
    pipe, a full disk): the result of a Write is no input of the model, so the atomicity theorem holds for
    every assignment of results to the labels of the schedule - including [WPanic], a Write that unwinds
    instead of returning: under the discipline Unlock and freeBuffer are deferred, so the unwinding performs the
    same actions as a return.  In particular an enabled record logged after a failed or panicking Write still
    causes exactly one Write with its complete line. *)
Theorem C02_write_results_do_not_matter :
  forall (D R : Type) (line : list D -> R -> list N) (enabled : R -> bool) (grow : N -> N -> N)
         (f : cflags) (prog : list (list (instr D R))) (sched : list (label * wresult)) (s : state D R),
  discipline f = true ->
  rrun D R line enabled grow f (init D R prog) sched = Some s -> finished D R s = true ->
  Permutation (dest D R s) (expected D R line enabled prog)
  /\ no_overlap None (map fst sched) = true
  /\ (forall t, t < length prog -> count_writes t (map fst sched) = length (lines_of D R line enabled (nth t prog []))).
Proof. intros until s; intros Hd Hr Hf. rewrite rrun_run in Hr by (apply discipline_unlock_deferred; exact Hd). edestruct atomic_lines as (H1 & H2 & H3 & _); eauto. Qed.
Print Assumptions C02_write_results_do_not_matter.

(** In every reachable state a thread that is inside Write holds the mutex of its handler. *)
Theorem C02_writer_holds_mu :
  forall (D R : Type) (line : list D -> R -> list N) (enabled : R -> bool) (grow : N -> N -> N)
         (f : cflags) (prog : list (list (instr D R))) (sched : list label) (s : state D R) (t b k : nat),
  discipline f = true -> run D R line enabled grow f (init D R prog) sched = Some s ->
  ph D R (thr D R s t) = InW b k ->
  exists c r rest, todo D R (thr D R s t) = ILog c r :: rest /\ mus D R s (mu_of D f c) = Some t.
Proof. exact writer_holds_mu. Qed.
Print Assumptions C02_writer_holds_mu.

(** Every pooled buffer has length 0 (so a recycled buffer cannot pollute a line). *)
Theorem C02_pool_buffers_empty :
  forall (D R : Type) (line : list D -> R -> list N) (enabled : R -> bool) (grow : N -> N -> N)
         (f : cflags) (prog : list (list (instr D R))) (sched : list label) (s : state D R) (b : nat),
  discipline f = true -> run D R line enabled grow f (init D R prog) sched = Some s ->
  In b (pool D R s) -> bdata (bufs D R s b) = [].
Proof. exact pool_buffers_empty. Qed.
Print Assumptions C02_pool_buffers_empty.

(** Between PoolGet and PoolPut a buffer belongs to one thread: it is not in the pool and nobody else holds it. *)
Theorem C02_buffer_single_owner :
  forall (D R : Type) (line : list D -> R -> list N) (enabled : R -> bool) (grow : N -> N -> N)
         (f : cflags) (prog : list (list (instr D R))) (sched : list label) (s : state D R) (t t' b : nat),
  discipline f = true -> run D R line enabled grow f (init D R prog) sched = Some s ->
  holds (ph D R (thr D R s t)) = Some b ->
  ~ In b (pool D R s) /\ (holds (ph D R (thr D R s t')) = Some b -> t' = t).
Proof. exact buffer_single_owner. Qed.
Print Assumptions C02_buffer_single_owner.

(** No deadlock: in every reachable state in which some thread has not finished, some action is
    enabled (a thread waiting for outMu waits for a holder that can always proceed). *)
Theorem C02_no_deadlock :
  forall (D R : Type) (line : list D -> R -> list N) (enabled : R -> bool) (grow : N -> N -> N)
         (f : cflags) (prog : list (list (instr D R))) (sched : list label) (s : state D R),
  discipline f = true -> run D R line enabled grow f (init D R prog) sched = Some s -> finished D R s = false ->
  exists l s', step D R line enabled grow f s l = Some s'.
Proof. exact no_deadlock. Qed.
Print Assumptions C02_no_deadlock.

(** Facts read from the source select the flags; a fact table satisfying the discipline gives the theorem. *)
Theorem C02_atomic_lines_from_facts :
  forall (x : conc_facts), conc_discipline x = true ->
  forall (D R : Type) (line : list D -> R -> list N) (enabled : R -> bool) (grow : N -> N -> N)
         (prog : list (list (instr D R))) (sched : list label) (s : state D R),
  run D R line enabled grow (conc_flags x) (init D R prog) sched = Some s -> finished D R s = true ->
  Permutation (dest D R s) (expected D R line enabled prog)
  /\ no_overlap None sched = true
  /\ (forall t, t < length prog -> count_writes t sched = length (lines_of D R line enabled (nth t prog [])))
  /\ (forall t, t < length prog -> count_formats t sched = length (lines_of D R line enabled (nth t prog []))).
Proof. intros x Hx; intros. eapply atomic_lines; eauto using conc_discipline_flags. Qed.
Print Assumptions C02_atomic_lines_from_facts.

(** What the discipline buys: with one flag off the model performs the defect (witnesses by computation). *)
Theorem no_reset_refuted :
  exists prog sched s, wrun (mkCF true true true false true true true true) (winit prog) sched = Some s
    /\ finished unit N s = true /\ ~ Permutation (dest unit N s) (wexpected prog).
Proof. exact no_reset_refuted_w. Qed.
Print Assumptions no_reset_refuted.

Theorem second_write_refuted :
  exists prog sched s, wrun (mkCF false true true true true true true true) (winit prog) sched = Some s
    /\ finished unit N s = true /\ ~ Permutation (dest unit N s) (wexpected prog).
Proof. exact second_write_refuted_w. Qed.
Print Assumptions second_write_refuted.

Theorem write_outside_lock_refuted :
  exists prog sched, wrun (mkCF true false true true true true true true) (winit prog) sched <> None
    /\ no_overlap None sched = false.
Proof. exact write_outside_lock_refuted_w. Qed.
Print Assumptions write_outside_lock_refuted.

Theorem cloned_mutex_refuted :
  exists prog sched, wrun (mkCF true true false true true true true true) (winit prog) sched <> None
    /\ no_overlap None sched = false.
Proof. exact cloned_mutex_refuted_w. Qed.
Print Assumptions cloned_mutex_refuted.

Theorem early_free_refuted :
  exists prog sched s, wrun (mkCF true true true true true true false true) (winit prog) sched = Some s
    /\ finished unit N s = true /\ ~ Permutation (dest unit N s) (wexpected prog).
Proof. exact early_free_refuted_w. Qed.
Print Assumptions early_free_refuted.

Theorem late_gate_refuted :
  exists prog sched s, wrun (mkCF true true true true true false true true) (winit prog) sched = Some s
    /\ finished unit N s = true
    /\ count_formats 0 sched <> length (lines_of unit N wline wen (nth 0 prog [])).
Proof. exact late_gate_refuted_w. Qed.
Print Assumptions late_gate_refuted.

(** The Unlock must be DEFERRED: when it is an explicit call after the Write, a Write that panics (recovered above the
    logging call, as net/http and Relay do) leaves the mutex locked for good - the panicking goroutine's call is over,
    the other goroutine has formatted its record and can never take the lock. *)
Theorem unlock_not_deferred_refuted :
  exists s, wrrun (mkCF true true true true true true true false) (winit [[ILog [] 1%N]; [ILog [tt] 2%N]]) panic_sched = Some s
    /\ finished unit N s = false
    /\ step unit N wline wen wgrow (mkCF true true true true true true true false) s (LLock 1) = None
    /\ idle_done unit N (thr unit N s 0) = true.
Proof. exact unlock_not_deferred_refuted_w. Qed.
Print Assumptions unlock_not_deferred_refuted.

(** Non-vacuity: the disciplined model runs two threads and three records (one disabled) to the
    end and delivers two whole lines; the overlapping schedule is refused by it. *)
Example C02_good_run :
  let prog := [[ILog [] 1%N; ILog [tt] 0%N]; [ILog [tt] 2%N]] in
  match wrun good_flags (winit prog) (wsched good_flags 40 prog) with
  | Some s => finished unit N s = true /\ dest unit N s = [[1;10]; [2;10]]%N
  | None => False
  end.
Proof. vm_compute. auto. Qed.
Example C02_overlap_refused :
  wrun good_flags (winit [[ILog [] 1%N]; [ILog [tt] 2%N]]) overlap_sched = None.
Proof. vm_compute. reflexivity. Qed.
