(** C17 — ResolveUrlPath never leaves the base directory. *)
From Coq Require Import List NArith Bool.
Import ListNotations.
From Glb Require Import Lib.GoPath Model.UrlPath Proofs.UrlPathP.
Open Scope N_scope.

(** For every non-empty base (absolute, relative, ".", "..", "a/../..", with trailing or doubled
    slashes, any bytes) and every URL path (any byte string, no length bound):
    the cleaned segment list of the result is the cleaned segment list of the base followed
    by ordinary file names only (non-empty, not ".", not "..", without '/'), the result is
    rooted exactly when the base is, and as a byte string the result is the cleaned base
    with those names attached ([attach]: "<base>", "<base>/n1/.../nk", or "/n1/.../nk" for
    base "/", or "n1/.../nk" for base "."). *)
Theorem C17_contained : forall base p, base <> [] ->
  exists q, Forall ordinary q
    /\ segs (resolve base p) = segs (clean base) ++ q
    /\ is_rooted (resolve base p) = is_rooted (clean base)
    /\ resolve base p = attach (clean base) q.
Proof.
  intros base p Hb. exists (url_names p).
  split; [exact (url_names_ordinary p) | split; [exact (resolve_segs base p Hb) | split;
    [exact (is_rooted_resolve base p Hb) | exact (resolve_attach base p Hb)]]].
Qed.
Print Assumptions C17_contained.

(** The cleaned base is a fixed point of cleaning: "the base itself" above means the same
    directory whether the caller spelled it cleaned or not. *)
Theorem C17_clean_base : forall base, segs (clean base) = segs base /\ clean (clean base) = clean base.
Proof. intros base. split; [exact (segs_clean base) | exact (clean_idem base)]. Qed.
Print Assumptions C17_clean_base.

(** The decidable predicate the correspondence check evaluates on the implementation's
    output holds for the model, and means containment for whatever string it accepts. *)
Theorem C17_beneath : forall base p, base <> [] -> beneath (clean base) (resolve base p) = true.
Proof. exact resolve_beneath. Qed.
Print Assumptions C17_beneath.

Theorem C17_beneath_sound : forall cb out, beneath cb out = true ->
  exists q, Forall ordinary q /\ out = attach cb q.
Proof. exact beneath_sound. Qed.
Print Assumptions C17_beneath_sound.

(** The correspondence check judges LOCATION, not spelling: the implementation's output is first
    cleaned lexically, then tested with [beneath].  That is the proved predicate: whatever [beneath]
    accepts is already clean (so nothing accepted before is rejected now), the model passes, and an
    accepted output is — once cleaned — the cleaned base plus ordinary names. *)
Theorem C17_judged_modulo_clean : forall base,
  (forall out, beneath (clean base) out = true -> clean out = out /\ beneath (clean base) (clean out) = true)
  /\ (forall p, base <> [] -> beneath (clean base) (clean (resolve base p)) = true)
  /\ (forall out, beneath (clean base) (clean out) = true ->
        exists q, Forall ordinary q /\ clean out = attach (clean base) q).
Proof.
  intros base. split; [exact (beneath_clean_out base) | split;
    [intros p Hb; exact (resolve_beneath_clean base p Hb) | intros out H; exact (beneath_sound _ _ H)]].
Qed.
Print Assumptions C17_judged_modulo_clean.

(** A URL path without "." and ".." segments resolves to filepath.Join(base, path). *)
Theorem C17_dot_free : forall base p, base <> [] -> dot_free p -> resolve base p = join base p.
Proof. exact resolve_dot_free. Qed.
Print Assumptions C17_dot_free.

(** Non-vacuity: hostile inputs. *)
(* base '/data', path '/../../etc/passwd' -> '/data/etc/passwd' *)
Example C17_example_etc_passwd : resolve [47;100;97;116;97] [47;46;46;47;46;46;47;101;116;99;47;112;97;115;115;119;100] = [47;100;97;116;97;47;101;116;99;47;112;97;115;115;119;100] /\ beneath (clean [47;100;97;116;97]) [47;100;97;116;97;47;101;116;99;47;112;97;115;115;119;100] = true.
Proof. vm_compute. split; reflexivity. Qed.
(* base '/data', path '..\\..' -> '/data/..\\..' *)
Example C17_example_backslash : resolve [47;100;97;116;97] [46;46;92;46;46] = [47;100;97;116;97;47;46;46;92;46;46] /\ beneath (clean [47;100;97;116;97]) [47;100;97;116;97;47;46;46;92;46;46] = true.
Proof. vm_compute. split; reflexivity. Qed.
(* base 'srv/www/', path 'a/./../../b' -> 'srv/www/b' *)
Example C17_example_mixed : resolve [115;114;118;47;119;119;119;47] [97;47;46;47;46;46;47;46;46;47;98] = [115;114;118;47;119;119;119;47;98] /\ beneath (clean [115;114;118;47;119;119;119;47]) [115;114;118;47;119;119;119;47;98] = true.
Proof. vm_compute. split; reflexivity. Qed.
(* base '../x/', path '/../../etc/passwd' -> '../x/etc/passwd' *)
Example C17_example_relative_base : resolve [46;46;47;120;47] [47;46;46;47;46;46;47;101;116;99;47;112;97;115;115;119;100] = [46;46;47;120;47;101;116;99;47;112;97;115;115;119;100] /\ beneath (clean [46;46;47;120;47]) [46;46;47;120;47;101;116;99;47;112;97;115;115;119;100] = true.
Proof. vm_compute. split; reflexivity. Qed.
(* base 'a/../..', path '../..//' -> '..' *)
Example C17_example_dotdot_base : resolve [97;47;46;46;47;46;46] [46;46;47;46;46;47;47] = [46;46] /\ beneath (clean [97;47;46;46;47;46;46]) [46;46] = true.
Proof. vm_compute. split; reflexivity. Qed.
(* base '/', path '../a/../b/.' -> '/b' *)
Example C17_example_root_base : resolve [47] [46;46;47;97;47;46;46;47;98;47;46] = [47;98] /\ beneath (clean [47]) [47;98] = true.
Proof. vm_compute. split; reflexivity. Qed.
(* base '.', path '/../../etc/passwd' -> 'etc/passwd' *)
Example C17_example_dot_base : resolve [46] [47;46;46;47;46;46;47;101;116;99;47;112;97;115;115;119;100] = [101;116;99;47;112;97;115;115;119;100] /\ beneath (clean [46]) [101;116;99;47;112;97;115;115;119;100] = true.
Proof. vm_compute. split; reflexivity. Qed.
(* the checker's predicate rejects escapes: base "/data", candidate "/data/../etc", "/etc", "/database" *)
Example C17_beneath_rejects :
  beneath [47;100;97;116;97] [47;100;97;116;97;47;46;46;47;101;116;99] = false /\ beneath [47;100;97;116;97] [47;101;116;99] = false /\ beneath [47;100;97;116;97] [47;100;97;116;97;98;97;115;101] = false.
Proof. vm_compute. repeat split; reflexivity. Qed.
(* a dot-free path with doubled and trailing slashes *)
Example C17_example_dot_free : dot_freeb [97;47;47;98;46;99;47;46;46;100;47] = true /\ resolve [47;100;97;116;97;47] [97;47;47;98;46;99;47;46;46;100;47] = [47;100;97;116;97;47;97;47;98;46;99;47;46;46;100].
Proof. vm_compute. split; reflexivity. Qed.
