(** C14 — TaskLane survives task panics and reports status consistently.

    [WEnd j (Some v)] is "Start() of worker j's task panicked with value v" (recover + lastPanic.Store);
    [WEnd j None] is a normal return. Status() is a separate observer goroutine reading the buffer lengths
    one after the other, then the counter, then the panic slot ([StatusReadLen o i], [StatusReadCnt o],
    [StatusReadPanic o]); arbitrary steps of everybody else may happen between two reads. [snaps s] is the
    log of completed calls (observer, PendingTask, LastPanic).
    Exactly-once of all the other tasks in executions with panics is C06_exactly_once (its quantification
    over executions includes every [WEnd j (Some v)]); progress after a panic is C06_progress (the worker is
    back at its loop top). Data-race freedom of the panic slot is not an LTS statement: it is checked by the
    race detector on the Go side (the model's atomic steps assume the atomic.Pointer of the current code). *)
From Coq Require Import List Arith Bool.
Import ListNotations.
From Glb Require Import Model.TaskLane Proofs.TaskLaneP Proofs.TaskLaneInv Proofs.TaskLaneStatus Proofs.TaskLaneLive Proofs.TaskLaneDec.

(** A panic changes worker j (back to its loop top, where [WCheck j] is enabled), the finished log, the
    panic slot and the panic log — nothing else. *)
Theorem C14_panic_contained : forall qs s j v s',
  step qs s (WEnd j (Some v)) = Some s' ->
  exists b0 q0 t,
    nth_error (lanes s) j = Some (mkLane b0 q0 (WRun t)) /\
    lanes s' = upd (lanes s) j (mkLane b0 q0 WTop) /\
    last_panic s' = Some v /\ panics s' = v :: panics s /\ finished s' = t :: finished s /\
    cancelled s' = cancelled s /\ cnt s' = cnt s /\ accepted s' = accepted s /\ started s' = started s /\
    prods s' = prods s /\ obs s' = obs s /\ pushed s' = pushed s /\ failed s' = failed s /\ snaps s' = snaps s.
Proof. exact panic_contained. Qed.
Print Assumptions C14_panic_contained.

(** A panic is exactly a normal return plus the write of the panic slot (slot and log). *)
Theorem C14_panic_like_return : forall qs s j v s',
  step qs s (WEnd j (Some v)) = Some s' ->
  exists s0, step qs s (WEnd j None) = Some s0 /\ s' = set_panic s0 v.
Proof. exact panic_like_return. Qed.
Print Assumptions C14_panic_like_return.

(** The worker keeps serving: after the return or the recovered panic its next loop iteration is enabled. *)
Theorem C14_worker_survives : forall qs s j r s',
  step qs s (WEnd j r) = Some s' -> step qs s' (WCheck j) <> None.
Proof. exact worker_survives. Qed.
Print Assumptions C14_worker_survives.

(** [upd] touches index j only *)
Theorem C14_other_lanes_untouched : forall (l : list lane) j x k, k <> j -> nth_error (upd l j x) k = nth_error l k.
Proof. exact (@upd_nth_other lane). Qed.
Print Assumptions C14_other_lanes_untouched.

(** The panic slot always holds a value that some task panicked with. *)
Theorem C14_last_panic_real : forall qs n ls s v,
  run qs (init n) ls = Some s -> last_panic s = Some v -> In v (panics s).
Proof. intros qs n ls s v Hr. exact (reachable_panicinv qs n ls s Hr v). Qed.
Print Assumptions C14_last_panic_real.

(** ... and so does the LastPanic field of every completed Status() call. *)
Theorem C14_status_panic_real : forall qs n ls s o pend v,
  run qs (init n) ls = Some s -> In (o, pend, Some v) (snaps s) -> In v (panics s).
Proof. exact snapshot_panic_real. Qed.
Print Assumptions C14_status_panic_real.

(** Every completed Status() call in every execution: 0 <= PendingTask <= laneSize * (queueSize + 1)
    ([pend : nat], so 0 <= is in the type), although the reads are not atomic. *)
Theorem C14_pending_bounds : forall qs n ls s o pend lp,
  run qs (init n) ls = Some s -> In (o, pend, lp) (snaps s) -> pend <= n * (qs + 1).
Proof. exact pending_bounds. Qed.
Print Assumptions C14_pending_bounds.

(** Exact accounting in every reachable state: what an atomic Status() would report, plus the queue
    goroutines between receive and count, equals accepted - started, plus those between hand-over and
    decrement. (Tasks dropped at cancel stay counted: they were accepted and never started.) *)
Theorem C14_pending_balance : forall qs n ls s,
  run qs (init n) ls = Some s ->
  pending_of s + list_sum (map (fun l => match q l with QTook _ => 1 | _ => 0 end) (lanes s)) + length (started s)
  = length (accepted s) + list_sum (map (fun l => match q l with QSent => 1 | _ => 0 end) (lanes s)).
Proof. exact pending_balance. Qed.
Print Assumptions C14_pending_balance.

(** At rest (no queue goroutine in [QTook] or [QSent]) PendingTask is exactly the number of accepted, not
    yet started tasks. *)
Theorem C14_pending_exact : forall qs n ls s,
  run qs (init n) ls = Some s -> at_rest s = true ->
  pending_of s = length (accepted s) - length (started s).
Proof. exact pending_exact. Qed.
Print Assumptions C14_pending_exact.

(** Status() can be called at any time and never blocks: in every state the observer's next read is enabled. *)
Theorem C14_status_never_blocks : forall qs s o,
  match ostate_of s o with
  | OIdle => step qs s (StatusBegin o) <> None
  | OLen k a => if k <? length (lanes s) then step qs s (StatusReadLen o k) <> None
                else step qs s (StatusReadCnt o) <> None
  | OPanic a => step qs s (StatusReadPanic o) <> None
  end.
Proof. exact status_never_blocks. Qed.
Print Assumptions C14_status_never_blocks.

(** A Status() call whose reads run uninterrupted from [s] (no other label in between) is enabled and
    records exactly (o, pending_of s, last_panic s); nothing else changes except the observer's entry. *)
Theorem C14_status_snapshot_exact : forall qs s o,
  ostate_of s o = OIdle ->
  exists ob, run qs s (StatusBegin o :: map (StatusReadLen o) (seq 0 (length (lanes s))) ++ [StatusReadCnt o; StatusReadPanic o])
             = Some (set_snaps (set_obs s ob) ((o, pending_of s, last_panic s) :: snaps s))
             /\ aget OIdle ob o = OIdle.
Proof. exact status_snapshot_exact. Qed.
Print Assumptions C14_status_snapshot_exact.

(** ... hence at rest it reports exactly the number of accepted, not yet started tasks. *)
Theorem C14_status_snapshot_at_rest : forall qs n ls s o,
  run qs (init n) ls = Some s -> at_rest s = true -> ostate_of s o = OIdle ->
  exists ob, run qs s (status_labels o n)
             = Some (set_snaps (set_obs s ob)
                       ((o, length (accepted s) - length (started s), last_panic s) :: snaps s)).
Proof. exact status_snapshot_at_rest. Qed.
Print Assumptions C14_status_snapshot_at_rest.

(** Once a panic has been recorded the slot is never empty again, and every Status() call that completes
    afterwards (its last read is the slot) reports a panic value, never none. *)
Theorem C14_last_panic_stable : forall qs ls s s',
  last_panic s <> None -> run qs s ls = Some s' ->
  last_panic s' <> None /\
  exists new, snaps s' = new ++ snaps s /\ Forall (fun x => snd x <> None) new.
Proof. intros qs ls s s'. exact (last_panic_stable qs ls s s'). Qed.
Print Assumptions C14_last_panic_stable.

(** After shutdown (every goroutine dead) in any execution: what Status reports (atomically read) is exactly
    accepted - started. Buffered tasks stay in len(); a queue goroutine that returned holding a task did so
    after its increment and before its decrement (there is no Done case between receive and increment), so the
    counter keeps it; one that returned from its first select holds nothing. No correction term. *)
Theorem C14_pending_after_shutdown : forall qs n ls s,
  run qs (init n) ls = Some s -> all_dead s ->
  pending_of s = length (accepted s) - length (started s).
Proof. exact pending_after_shutdown. Qed.
Print Assumptions C14_pending_after_shutdown.

(** Non-vacuity: queueSize 0 (rendezvous push), two workers panic with values 7 and 8, Status before and after,
    worker 1 then runs a third task. *)
Definition C14_ex : list label :=
  [WCheck 0; WTryFail 0; WCheck 1; WTryFail 1;
   PushBegin 0 0 10; PushOk 0; QCount 0; QCheck 0; QTryOwn 0; QDecr 0;
   PushBegin 1 1 11; PushOk 1; QCount 1; QCheck 1; QTryFail 1; QOfferOwn 1; QDecr 1;
   StatusBegin 5; StatusReadLen 5 0; StatusReadLen 5 1; StatusReadCnt 5; StatusReadPanic 5;
   WEnd 1 (Some 7); WEnd 0 (Some 8);
   StatusBegin 5; StatusReadLen 5 0; StatusReadLen 5 1; StatusReadCnt 5; StatusReadPanic 5;
   WCheck 0; WCheck 1;
   PushBegin 0 1 12; PushOk 0; QCount 1; QCheck 1; QTryOwn 1; WEnd 1 None].

Example C14_ex_run :
  option_map (fun s => (last_panic s, panics s, snapshots s, started s, finished s, map w (lanes s)))
             (run 0 (init 2) C14_ex)
  = Some (Some 8, [8; 7], [(0, Some 8); (0, None)], [12; 11; 10], [12; 10; 11], [WTry; WTop]).
Proof. vm_compute. reflexivity. Qed.

(** queueSize 1, 2 lanes: three tasks pending, one of them held by a queue goroutine, workers not yet scheduled:
    at rest, pending = 3 = accepted - started, and a Status() call reports 3 <= 2 * (1 + 1) *)
Example C14_ex_pending :
  option_map (fun s => (at_rest s, pending_of s, length (accepted s), length (started s), snapshots s))
    (run 1 (init 2)
       [PushBegin 0 0 10; PushOk 0; QTake 0; QCount 0; PushBegin 0 0 11; PushOk 0; PushBegin 0 1 12; PushOk 0;
        StatusBegin 0; StatusReadLen 0 0; StatusReadLen 0 1; StatusReadCnt 0; StatusReadPanic 0])
  = Some (true, 3, 3, 0, [(3, None)]).
Proof. vm_compute. reflexivity. Qed.

(** a non-atomic Status(): lane 0 is read while 10 is buffered, then 10 is taken and counted before the counter
    is read: the call reports 2 although only one task is pending — within the bound, and why the bound theorem
    speaks of the individual reads *)
Example C14_ex_nonatomic :
  option_map (fun s => (snapshots s, pending_of s))
    (run 1 (init 1)
       [PushBegin 0 0 10; PushOk 0; StatusBegin 0; StatusReadLen 0 0; QTake 0; QCount 0; StatusReadCnt 0; StatusReadPanic 0])
  = Some ([(2, None)], 1).
Proof. vm_compute. reflexivity. Qed.

(** uninterrupted Status() from a state with a buffered task, a counted held task and an earlier panic *)
Definition C14_ex2 : list label :=
  [WCheck 0; WTryFail 0; PushBegin 0 0 10; PushOk 0; QTake 0; QCount 0; QCheck 0; QTryOwn 0; QDecr 0; WEnd 0 (Some 7);
   PushBegin 0 0 11; PushOk 0; QTake 0; QCount 0; PushBegin 0 0 12; PushOk 0].
Example C14_ex_snapshot_exact :
  option_map (fun s => (at_rest s, pending_of s, length (accepted s) - length (started s), last_panic s,
                        option_map snapshots (run 1 s (status_labels 3 1))))
    (run 1 (init 1) C14_ex2)
  = Some (true, 2, 2, Some 7, Some [(2, Some 7)]).
Proof. vm_compute. reflexivity. Qed.

(** shutdown with a dropped counted task (10, held), a dropped buffered task (11) and a task pushed into the
    buffer of lane 1 AFTER every goroutine died (13; its producer had passed the first Done test before the cancel):
    all dead, pending = 3 = accepted - started, and Status reports 3 *)
Example C14_ex_after_shutdown :
  option_map (fun s => (all_deadb s, cancelled s, pending_of s, length (accepted s), length (started s),
                        option_map snapshots (run 1 s (status_labels 0 2))))
    (run 1 (init 2)
       [PushBegin 0 0 10; PushOk 0; QTake 0; QCount 0; PushBegin 1 0 11; PushOk 1; PushBegin 2 1 13;
        Cancel; QCheck 0; QDie 1; WCheck 0; WCheck 1; PushOk 2])
  = Some (true, true, 3, 3, 0, Some [(3, None)]).
Proof. vm_compute. reflexivity. Qed.
