(** C18 — CopyFile and MoveFile never lose file content.  (partial: see the end) *)
From Coq Require Import List NArith Bool.
Import ListNotations.
From Glb Require Import Model.FileOps Lib.FsScenarios Proofs.FileOpsP Check.C18.
Open Scope N_scope.

(** For every file system [s] (any slots, symbolic links, hard links, devices, parents missing
    or not directories), every pair of paths [src], [dst] — however they alias: the same
    slot, a chain of symbolic links, two hard links to one inode, or not at all — and every
    content [c]: if [src] names a regular file (inode [i]) holding [c] when CopyFile is called,
    then
    - result nil: [dst] reads exactly [c] and is a different file than the source;
    - whatever the result: [src] still reads [c], still names inode [i], inode [i] still holds [c];
    - every other file except the one [dst] named is unchanged, and no directory entry
      disappeared or was redirected. *)
(* corollary of C18_copy_faults for the oracle that never faults *)
Theorem C18_copy : forall s src dst i c s' r,
  wf s -> stat s src = Ok i -> inode s i = Some (File c) ->
  copy_file s src dst = (s', r) ->
  (r = None -> read_path s' dst = Some c /\ stat s' dst <> Ok i)
  /\ read_path s' src = Some c
  /\ stat s' src = Ok i /\ inode s' i = Some (File c)
  /\ (forall j n, inode s j = Some n -> stat s dst <> Ok j -> inode s' j = Some n)
  /\ (forall e, slot s e <> Empty -> slot s' e = slot s e).
Proof. exact copy_file_safe. Qed.
Print Assumptions C18_copy.

(** MoveFile, for a source path that is itself a hard link to a regular file (inode [i],
    content [c]); the destination may be anything, on the same or another device (rename then
    fails with EXDEV and the function falls back to CopyFile + Remove):
    - result nil: [dst] reads exactly [c], and the source entry is gone — or nothing had to
      move because [dst] already named the source's inode, which is untouched;
    - result error: the source entry is still a link to inode [i] and that still holds [c];
    - every other file except the one [dst] named is unchanged.
    In particular the source is only removed in states where the destination is complete. *)
Theorem C18_move : forall s src dst i c s' r,
  wf s -> slot s src = Link i -> inode s i = Some (File c) ->
  move_file s src dst = (s', r) ->
  (r = None ->
     read_path s' dst = Some c
     /\ (slot s' src = Empty \/ (stat s dst = Ok i /\ slot s' src = Link i /\ inode s' i = Some (File c))))
  /\ (r <> None -> slot s' src = Link i /\ inode s' i = Some (File c))
  /\ (forall j n, inode s j = Some n -> stat s dst <> Ok j -> inode s' j = Some n).
Proof. exact move_file_safe. Qed.
Print Assumptions C18_move.

(** ** Faults.  Every system call the two functions make may fail: the oracle [F : site -> choice]
    picks, per call site (rename, open, src.Stat, os.Stat(dest), create, io.Copy, remove), normal
    behaviour, failure without effect, or — for io.Copy — "only the first n bytes were stored, then
    an error" (ENOSPC, EIO, a signal ...).  The statements hold for every oracle, with one
    exception that is real: [stat_fault_harmless] excludes a spurious failure of os.Stat(dest)
    while dest is in fact the source — the code treats every Stat error as "does not exist" and
    goes on to truncate (see [copy_stat_fault_on_alias_refuted]). *)

(** CopyFile under faults: whatever fails, the source still reads [c] through the same inode, every
    file other than the one [dst] named is intact, no directory entry is lost; nil still means the
    destination is complete.  The destination itself is NOT protected on error: an existing
    destination file is either untouched or holds some prefix of [c] (possibly empty: truncated). *)
Theorem C18_copy_faults : forall F s src dst i c s' r,
  wf s -> stat s src = Ok i -> inode s i = Some (File c) -> stat_fault_harmless F s dst i ->
  copy_file_f F s src dst = (s', r) ->
  (r = None -> read_path s' dst = Some c /\ stat s' dst <> Ok i)
  /\ read_path s' src = Some c
  /\ stat s' src = Ok i /\ inode s' i = Some (File c)
  /\ (forall j n, inode s j = Some n -> stat s dst <> Ok j -> inode s' j = Some n)
  /\ (forall e, slot s e <> Empty -> slot s' e = slot s e)
  /\ (forall d old, stat s dst = Ok d -> inode s d = Some (File old) ->
        inode s' d = Some (File old) \/ exists k, inode s' d = Some (File (firstn k c))).
Proof. exact copy_file_f_safe. Qed.
Print Assumptions C18_copy_faults.

(** MoveFile under faults: an error — from rename, any step of the fallback copy (a partial
    write included) or the final remove — leaves the source entry and its content intact; the
    source entry is empty afterwards ONLY IF the destination reads the complete content. *)
Theorem C18_move_faults : forall F s src dst i c s' r,
  wf s -> slot s src = Link i -> inode s i = Some (File c) -> stat_fault_harmless F s dst i ->
  move_file_f F s src dst = (s', r) ->
  (r = None ->
     read_path s' dst = Some c
     /\ (slot s' src = Empty \/ (stat s dst = Ok i /\ slot s' src = Link i /\ inode s' i = Some (File c))))
  /\ (r <> None -> slot s' src = Link i /\ inode s' i = Some (File c))
  /\ (forall j n, inode s j = Some n -> stat s dst <> Ok j -> inode s' j = Some n)
  /\ (slot s' src = Empty -> read_path s' dst = Some c).
Proof. exact move_file_f_safe. Qed.
Print Assumptions C18_move_faults.

(** When rename fails, the copy succeeds and the final Remove fails with [e]: MoveFile returns [e]
    and both copies are present — the destination complete, the source untouched. *)
Theorem C18_move_remove_fails : forall F s src dst i c s1 e,
  wf s -> slot s src = Link i -> inode s i = Some (File c) -> stat_fault_harmless F s dst i ->
  (forall s0, faulty (F SRename) (rename s src dst) <> Ok s0) ->
  copy_file_f F s src dst = (s1, None) -> F SRemove = Fail e ->
  move_file_f F s src dst = (s1, Some e)
  /\ read_path s1 dst = Some c /\ read_path s1 src = Some c /\ slot s1 src = Link i /\ stat s1 dst <> Ok i.
Proof. exact move_file_remove_fails. Qed.
Print Assumptions C18_move_remove_fails.

(** ** The second copy strategy: temporary file in the destination's directory + rename over the
    destination NAME (atomic replace).  [tmp] is the temporary name; nothing is assumed about it
    except that it is not the destination itself (an occupied name makes the exclusive create fail).
    Same guarantees as C18_copy_faults, for every fault oracle (faults at create, copy incl. partial
    write, the rename of the temporary file, and its removal on the failure paths — it may stay
    behind); where they differ the replace strategy is stronger or necessarily different:
    every file that existed, the old destination included, is untouched (never truncated), and the
    destination ENTRY is what changes on success (a symbolic link or second hard link there is
    replaced, not written through) — all other entries except the temporary name are unchanged. *)
Theorem C18_copy_replace_faults : forall F s src dst tmp i c s' r,
  wf s -> stat s src = Ok i -> inode s i = Some (File c) -> stat_fault_harmless F s dst i -> tmp <> dst ->
  copy_replace_f F s src dst tmp = (s', r) ->
  (r = None -> read_path s' dst = Some c /\ stat s' dst <> Ok i)
  /\ read_path s' src = Some c
  /\ stat s' src = Ok i /\ inode s' i = Some (File c)
  /\ (forall j n, inode s j = Some n -> inode s' j = Some n)
  /\ (forall e, e <> dst -> e <> tmp -> slot s' e = slot s e)
  /\ (r <> None -> slot s' dst = slot s dst).
Proof. exact copy_replace_f_safe. Qed.
Print Assumptions C18_copy_replace_faults.

(** MoveFile over the replace strategy: literally the statement of C18_move_faults. *)
Theorem C18_move_replace_faults : forall F s src dst tmp i c s' r,
  wf s -> slot s src = Link i -> inode s i = Some (File c) -> stat_fault_harmless F s dst i -> tmp <> dst ->
  move_replace_f F s src dst tmp = (s', r) ->
  (r = None ->
     read_path s' dst = Some c
     /\ (slot s' src = Empty \/ (stat s dst = Ok i /\ slot s' src = Link i /\ inode s' i = Some (File c))))
  /\ (r <> None -> slot s' src = Link i /\ inode s' i = Some (File c))
  /\ (forall j n, inode s j = Some n -> stat s dst <> Ok j -> inode s' j = Some n)
  /\ (slot s' src = Empty -> read_path s' dst = Some c).
Proof. exact move_replace_f_safe. Qed.
Print Assumptions C18_move_replace_faults.

(** ** The second alias policy: when the destination IS the source, CopyFile does nothing and returns nil
    ("the destination already holds the bytes") instead of refusing.  Everything of C18_copy_faults /
    C18_copy_replace_faults holds; a nil result now means: the destination reads [c], and it is a
    different file OR nothing at all was touched and it is the source itself. *)
Theorem C18_copy_noop_faults : forall F s src dst i c s' r,
  wf s -> stat s src = Ok i -> inode s i = Some (File c) -> stat_fault_harmless F s dst i ->
  copy_file_n F s src dst = (s', r) ->
  (r = None -> read_path s' dst = Some c /\ (stat s' dst <> Ok i \/ (s' = s /\ stat s dst = Ok i)))
  /\ read_path s' src = Some c
  /\ stat s' src = Ok i /\ inode s' i = Some (File c)
  /\ (forall j n, inode s j = Some n -> stat s dst <> Ok j -> inode s' j = Some n)
  /\ (forall e, slot s e <> Empty -> slot s' e = slot s e)
  /\ (forall d old, stat s dst = Ok d -> inode s d = Some (File old) ->
        inode s' d = Some (File old) \/ exists k, inode s' d = Some (File (firstn k c))).
Proof. exact copy_file_n_safe. Qed.
Print Assumptions C18_copy_noop_faults.

Theorem C18_copy_replace_noop_faults : forall F s src dst tmp i c s' r,
  wf s -> stat s src = Ok i -> inode s i = Some (File c) -> stat_fault_harmless F s dst i -> tmp <> dst ->
  copy_replace_n F s src dst tmp = (s', r) ->
  (r = None -> read_path s' dst = Some c /\ (stat s' dst <> Ok i \/ (s' = s /\ stat s dst = Ok i)))
  /\ read_path s' src = Some c
  /\ stat s' src = Ok i /\ inode s' i = Some (File c)
  /\ (forall j n, inode s j = Some n -> inode s' j = Some n)
  /\ (forall e, e <> dst -> e <> tmp -> slot s' e = slot s e)
  /\ (r <> None -> slot s' dst = slot s dst).
Proof. exact copy_replace_n_safe. Qed.
Print Assumptions C18_copy_replace_noop_faults.

(** MoveFile over a no-op CopyFile: after a failed rename it must itself test whether the destination
    names the source and then return the rename error (so the covered behaviours on an alias are: the
    rename of two names of one file succeeds without effect, or MoveFile refuses) — otherwise the no-op
    "copy" would be followed by the removal of the only copy ([move_noop_without_test_refuted]).  With
    the test, [move_statement] — literally the conclusion of C18_move_faults — holds for every fault
    oracle; [move_alias_harmless] excludes, like [stat_fault_harmless], a spurious failure of the test's
    own Stat calls while the destination really is the source. *)
Theorem C18_move_noop_faults : forall F s src dst i c s' r,
  wf s -> slot s src = Link i -> inode s i = Some (File c) ->
  stat_fault_harmless F s dst i -> move_alias_harmless F s dst i ->
  move_file_n F s src dst = (s', r) ->
  (r = None ->
     read_path s' dst = Some c
     /\ (slot s' src = Empty \/ (stat s dst = Ok i /\ slot s' src = Link i /\ inode s' i = Some (File c))))
  /\ (r <> None -> slot s' src = Link i /\ inode s' i = Some (File c))
  /\ (forall j n, inode s j = Some n -> stat s dst <> Ok j -> inode s' j = Some n)
  /\ (slot s' src = Empty -> read_path s' dst = Some c).
Proof. exact move_file_n_safe. Qed.
Print Assumptions C18_move_noop_faults.

Theorem C18_move_replace_noop_faults : forall F s src dst tmp i c s' r,
  wf s -> slot s src = Link i -> inode s i = Some (File c) ->
  stat_fault_harmless F s dst i -> move_alias_harmless F s dst i -> tmp <> dst ->
  move_replace_n F s src dst tmp = (s', r) ->
  (r = None ->
     read_path s' dst = Some c
     /\ (slot s' src = Empty \/ (stat s dst = Ok i /\ slot s' src = Link i /\ inode s' i = Some (File c))))
  /\ (r <> None -> slot s' src = Link i /\ inode s' i = Some (File c))
  /\ (forall j n, inode s j = Some n -> stat s dst <> Ok j -> inode s' j = Some n)
  /\ (slot s' src = Empty -> read_path s' dst = Some c).
Proof. exact move_replace_n_safe. Qed.
Print Assumptions C18_move_replace_noop_faults.

(** A no-op CopyFile under the unchanged MoveFile (no alias test of its own) loses the file: destination a
    symbolic link to the source on another device — rename fails, the "copy" succeeds without copying,
    the source is removed, the link dangles. *)
Theorem move_noop_without_test_refuted :
  exists s src dst i c,
    wf s /\ slot s src = Link i /\ inode s i = Some (File c) /\ c <> []
    /\ snd (move_unchecked_n no_faults s src dst) = None
    /\ slot (fst (move_unchecked_n no_faults s src dst)) src = Empty
    /\ read_path (fst (move_unchecked_n no_faults s src dst)) dst = None.
Proof. exact move_unchecked_noop_loses. Qed.
Print Assumptions move_noop_without_test_refuted.

(** The excluded fault is a real window of the present code: with only os.Stat(dest) failing and
    dest an alias of the source, CopyFile returns nil and the non-empty source reads as empty. *)
Theorem copy_stat_fault_on_alias_refuted :
  exists F s src dst i c,
    wf s /\ stat s src = Ok i /\ inode s i = Some (File c) /\ c <> []
    /\ (forall st, st <> SStatDst -> F st = Pass) /\ stat s dst = Ok i
    /\ snd (copy_file_f F s src dst) = None
    /\ read_path (fst (copy_file_f F s src dst)) src = Some [].
Proof. exact copy_stat_fault_on_alias_loses. Qed.
Print Assumptions copy_stat_fault_on_alias_refuted.

(** The repaired defect (pinned commit, before "fix: CopyFile truncates the source when target
    is the same file"): without the os.SameFile test the same model loses content — CopyFile
    returns nil and the non-empty source reads as empty afterwards. *)
Theorem copy_without_samefile_refuted :
  exists s src dst i c,
    wf s /\ stat s src = Ok i /\ inode s i = Some (File c) /\ c <> []
    /\ snd (copy_file_old s src dst) = None
    /\ read_path (fst (copy_file_old s src dst)) src = Some [].
Proof. exact copy_old_loses_content. Qed.
Print Assumptions copy_without_samefile_refuted.

(** The scenarios replayed by the correspondence check are instances of the theorems. *)
Theorem C18_scenarios_covered : forall k od c,
  wf (scenario k od false c)
  /\ slot (scenario k od false c) src_path = Link 0
  /\ stat (scenario k od false c) src_path = Ok 0
  /\ inode (scenario k od false c) 0 = Some (File c)
  /\ (forall replace, stat_fault_harmless (scenario_faults replace k) (scenario k od false c) (dst_path k) 0)
  /\ tmp_path <> dst_path k /\ slot (scenario k od false c) tmp_path = Empty
  /\ parent (scenario k od false c) tmp_path = parent (scenario k od false c) (dst_path k).
Proof.
  intros k od c. split; [exact (scenario_wf k od false c) |].
  destruct (scenario_source k od c) as (H1 & H2 & H3). destruct (scenario_tmp k od c) as (T1 & T2 & T3).
  repeat split; auto. intros b. exact (scenario_faults_harmless b k _ _ _).
Qed.
Print Assumptions C18_scenarios_covered.

(** Non-vacuity.  Old code on: same path, "./" spelling, symlink to the source, hard link — the
    call "succeeds" and the source is empty; the present code refuses and keeps the content. *)
Example C18_old_code_aliasing :
  map old_outcome [KSamePath; KDotSpelling; KSymlinkToSrc; KHardlink]
  = [(true, Some []); (true, Some []); (true, Some []); (true, Some [])].
Proof. vm_compute. reflexivity. Qed.

Example C18_new_code_aliasing :
  map new_outcome [KSamePath; KDotSpelling; KSymlinkToSrc; KHardlink]
  = [(false, Some [1; 2; 3]); (false, Some [1; 2; 3]); (false, Some [1; 2; 3]); (false, Some [1; 2; 3])].
Proof. vm_compute. reflexivity. Qed.

(** a cross-device move onto an existing file: EXDEV, copy, remove — ok, source gone, destination original *)
Example C18_move_cross_device :
  model_fields 1 1 1 0 1 = [true; false; false; true; true]
  /\ rename (scenario KOther true false [1]) src_path 1 = Err EXDEV.
Proof. vm_compute. split; reflexivity. Qed.

(** a cross-device move onto a symbolic link to the source is refused, the source stays *)
Example C18_move_cross_device_symlink :
  model_fields 1 4 1 0 1 = [false; true; true; true; true].
Proof. vm_compute. reflexivity. Qed.

(** fault scenarios: a short write (ENOSPC) on the copy to /dev/full across devices — error, source intact *)
Example C18_devfull :
  model_fields 0 10 1 0 1 = [false; true; true; false; true]
  /\ model_fields 1 10 1 0 1 = [false; true; true; false; true]
  /\ model_fields 1 11 1 0 1 = [false; true; true; false; true].
Proof. vm_compute. repeat split; reflexivity. Qed.

(** the two strategies differ on a symbolic link to the device that fails every write: writing through
    fails with ENOSPC, replacing the link succeeds and the name then holds the bytes *)
Example C18_strategies_differ :
  model_fields_for 0 0 11 0 0 1 = [false; true; true; false; true]
  /\ model_fields_for 1 0 11 0 0 1 = [true; true; true; true; true].
Proof. vm_compute. split; reflexivity. Qed.

(** the two alias policies differ exactly on CopyFile onto the source itself (here: a hard link): refused / nil, nothing touched;
    MoveFile onto a symbolic link to the source on another device is refused under both *)
Example C18_alias_policies_differ :
  model_fields_for 0 0 5 0 0 1 = [false; true; true; true; true]
  /\ model_fields_for 2 0 5 0 0 1 = [true; true; true; true; true]
  /\ model_fields_for 0 1 4 1 0 1 = model_fields_for 2 1 4 1 0 1
  /\ model_fields_for 2 1 4 1 0 1 = [false; true; true; true; true].
Proof. vm_compute. repeat split; reflexivity. Qed.

(** PARTIAL.  Proved: the statements above, for every file system state, aliasing relation,
    content and fault oracle (with the one excluded fault named above), under the system-call
    semantics of Model/FileOps.v.  Not modelled, hence not covered: other processes changing the
    files during the call, crash consistency.  MoveFile with a source path that is itself a
    symbolic link is outside the property's quantifier (rename moves the link). *)

(** directory-like destination spellings ("dir/" ...; Check/C18.v [spec_dirlike]): accepted are the model's failure with the
    source intact, a copy into another directory under the source's base name, a move into it; rejected are a "successful"
    CopyFile into the source's own directory that leaves the source changed, and a MoveFile there after which the file is gone.
    Arguments: variant op modelkind otherdev srcmissing nonempty ok srcpresent srcorig dstgiven third dstinside selfparent srcsym *)
Example C18_dirlike_spellings :
  map (fun f => f 0) [
    (fun v => dirlike_ok_for v 0 6 0 0 1 0 1 1 0 1 1 1 0);   (* CopyFile(dir/f, dir/) refused, source intact *)
    (fun v => dirlike_ok_for v 1 6 1 0 1 0 1 1 0 1 0 0 0);   (* MoveFile(f, other/) refused across devices *)
    (fun v => dirlike_ok_for v 1 7 0 0 1 0 1 1 0 1 0 0 0);   (* MoveFile(f, nodir/) refused *)
    (fun v => dirlike_ok_for v 0 6 0 0 1 1 1 1 0 1 1 0 0);   (* CopyFile(f, other/) = nil, other/f complete *)
    (fun v => dirlike_ok_for v 1 6 0 0 1 1 0 0 0 1 1 0 0);   (* MoveFile(f, other/) = nil, other/f complete, f gone *)
    (fun v => dirlike_ok_for v 0 6 0 0 1 1 1 0 0 1 0 1 0);   (* CopyFile(dir/f, dir/) = nil, f truncated: content lost *)
    (fun v => dirlike_ok_for v 1 6 0 0 1 1 0 0 0 1 0 1 0);   (* MoveFile(dir/f, dir/) = nil, f gone *)
    (fun v => dirlike_ok_for v 1 6 0 0 1 1 0 0 0 1 0 1 1);   (* the same with a symbolic link as source path *)
    (fun v => dirlike_ok_for v 0 6 0 0 1 0 1 0 0 1 0 1 0)]   (* error, but the source is damaged *)
  = [true; true; true; true; true; false; false; false; false].
Proof. vm_compute. reflexivity. Qed.
