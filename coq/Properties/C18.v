(** C18 — CopyFile and MoveFile never lose file content.  (partial: see the end) *)
From Coq Require Import List NArith Bool.
Import ListNotations.
From Glb Require Import Model.FileOps Lib.FsScenarios Proofs.FileOpsP Check.C18.
Open Scope N_scope.

(** For every file system [s] (any slots, symbolic links, hard links, devices, parents missing
    or not directories), every pair of paths [src], [dst] — however they alias: the same
    slot, a chain of symbolic links, two hard links to one inode, or not at all — and every
    content [c]: if [src] names a regular file (inode [i]) holding [c] when CopyFile is called,
    then
    - result nil: [dst] reads exactly [c] and is a different file than the source;
    - whatever the result: [src] still reads [c], still names inode [i], inode [i] still holds [c];
    - every other file except the one [dst] named is unchanged, and no directory entry
      disappeared or was redirected. *)
Theorem C18_copy : forall s src dst i c s' r,
  wf s -> stat s src = Ok i -> inode s i = Some (File c) ->
  copy_file s src dst = (s', r) ->
  (r = None -> read_path s' dst = Some c /\ stat s' dst <> Ok i)
  /\ read_path s' src = Some c
  /\ stat s' src = Ok i /\ inode s' i = Some (File c)
  /\ (forall j n, inode s j = Some n -> stat s dst <> Ok j -> inode s' j = Some n)
  /\ (forall e, slot s e <> Empty -> slot s' e = slot s e).
Proof. exact copy_file_safe. Qed.
Print Assumptions C18_copy.

(** MoveFile, for a source path that is itself a hard link to a regular file (inode [i],
    content [c]); the destination may be anything, on the same or another device (rename then
    fails with EXDEV and the function falls back to CopyFile + Remove):
    - result nil: [dst] reads exactly [c], and the source entry is gone — or nothing had to
      move because [dst] already named the source's inode, which is untouched;
    - result error: the source entry is still a link to inode [i] and that still holds [c];
    - every other file except the one [dst] named is unchanged.
    In particular the source is only removed in states where the destination is complete. *)
Theorem C18_move : forall s src dst i c s' r,
  wf s -> slot s src = Link i -> inode s i = Some (File c) ->
  move_file s src dst = (s', r) ->
  (r = None ->
     read_path s' dst = Some c
     /\ (slot s' src = Empty \/ (stat s dst = Ok i /\ slot s' src = Link i /\ inode s' i = Some (File c))))
  /\ (r <> None -> slot s' src = Link i /\ inode s' i = Some (File c))
  /\ (forall j n, inode s j = Some n -> stat s dst <> Ok j -> inode s' j = Some n).
Proof. exact move_file_safe. Qed.
Print Assumptions C18_move.

(** The repaired defect (pinned commit, before "fix: CopyFile truncates the source when target
    is the same file"): without the os.SameFile test the same model loses content — CopyFile
    returns nil and the non-empty source reads as empty afterwards. *)
Theorem copy_without_samefile_refuted :
  exists s src dst i c,
    wf s /\ stat s src = Ok i /\ inode s i = Some (File c) /\ c <> []
    /\ snd (copy_file_old s src dst) = None
    /\ read_path (fst (copy_file_old s src dst)) src = Some [].
Proof. exact copy_old_loses_content. Qed.
Print Assumptions copy_without_samefile_refuted.

(** The scenarios replayed by the correspondence check are instances of the theorems. *)
Theorem C18_scenarios_covered : forall k od c,
  wf (scenario k od false c)
  /\ slot (scenario k od false c) src_path = Link 0
  /\ stat (scenario k od false c) src_path = Ok 0
  /\ inode (scenario k od false c) 0 = Some (File c).
Proof. intros k od c. split; [exact (scenario_wf k od false c) | exact (scenario_source k od c)]. Qed.
Print Assumptions C18_scenarios_covered.

(** Non-vacuity.  Old code on: same path, "./" spelling, symlink to the source, hard link — the
    call "succeeds" and the source is empty; the present code refuses and keeps the content. *)
Example C18_old_code_aliasing :
  map old_outcome [KSamePath; KDotSpelling; KSymlinkToSrc; KHardlink]
  = [(true, Some []); (true, Some []); (true, Some []); (true, Some [])].
Proof. vm_compute. reflexivity. Qed.

Example C18_new_code_aliasing :
  map new_outcome [KSamePath; KDotSpelling; KSymlinkToSrc; KHardlink]
  = [(false, Some [1; 2; 3]); (false, Some [1; 2; 3]); (false, Some [1; 2; 3]); (false, Some [1; 2; 3])].
Proof. vm_compute. reflexivity. Qed.

(** a cross-device move onto an existing file: EXDEV, copy, remove — ok, source gone, destination original *)
Example C18_move_cross_device :
  model_fields 1 1 1 0 1 = [true; false; false; true; true]
  /\ rename (scenario KOther true false [1]) src_path 1 = Err EXDEV.
Proof. vm_compute. split; reflexivity. Qed.

(** a cross-device move onto a symbolic link to the source is refused, the source stays *)
Example C18_move_cross_device_symlink :
  model_fields 1 4 1 0 1 = [false; true; true; true; true].
Proof. vm_compute. reflexivity. Qed.

(** PARTIAL.  Proved: the statements above, for every file system state, aliasing relation and
    content, under the system-call semantics of Model/FileOps.v.  Not modelled, hence not
    covered: a write that stores fewer bytes than requested or fails midway (ENOSPC, EIO,
    EDQUOT, signals), permission errors, other processes changing the files during the call,
    crash consistency; MoveFile with a source path that is itself a symbolic link (rename moves
    the link; outside the property's quantifier).  In the first group io.Copy returns an error
    after the destination was truncated; the source is only read, so "error => source intact"
    is expected to survive, but that is not proved here. *)
