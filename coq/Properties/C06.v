(** C06 — TaskLane runs every accepted task exactly once and no rejected task.

    Model: [Model/TaskLane.v], an LTS of startQueue / startWorker / PushTask / Status for any laneSize [n],
    any queueSize [qs] (0 included), any number of producers; [run qs (init n) ls = Some s] ranges over
    ALL executions (all interleavings, cancel at every point, timeouts at every point, panics).
    Logs: [accepted] = tasks whose PushTask returned nil, [failed] = tasks whose PushTask returned an error
    (context error or ErrTimeout), [started] = tasks whose Start() was entered (one entry per call).

    Safety is proved outright. The "eventually started" half is given in the only form an LTS can give it:
    (a) as long as an accepted task is unstarted (context live) either the lane itself can move or every
    worker is inside Start(); (b) every step the lane takes on its own strictly decreases a natural-number
    measure, so it cannot move forever without new input; (c) hence every maximal run of internal steps and
    task returns is finite and ends with every accepted task started.

    SCOPE OF THE LIVENESS THEOREMS (read this before citing them). C06_quiet_finite / C06_all_started speak
    about QUIET runs: closed-system runs made of internal steps and task returns only — no further PushOk.
    Every PushOk raises the measure again. Under SUSTAINED pushing the MODEL ADMITS STARVATION of an accepted
    task: [C06_ex_starvation_in_model] below is such a run (task 10 sits in queue goroutine 0's blocking offer
    while worker 0 serves 20 later tasks of lane 1 from the universal queue). Two features of the model allow
    it: the [default] branches QTryFail/WTryFail are always enabled, even when the partner is parked (worker 0's
    non-blocking receive "fails" although its queue goroutine is offering), and a [select] with several ready
    cases may take any of them forever (Go picks uniformly at random, so in the real program such a run has
    probability 0, but it is not excluded). So: no fairness, no bounded overtaking, no "eventually" under load
    is claimed here. [Model/TaskLaneTight.v] (theorems C06_tight_... below) gives the variant of the model in which a default
    branch is disabled while the partner sits in its blocking select, proves that it refines this model (all
    safety theorems transfer) and that there a worker returning to its loop top takes the task its own queue
    goroutine is offering in that very iteration; that variant idealises "in the blocking select" as "already
    parked" and is therefore NOT used for trace acceptance.
    Real time and scheduler fairness ("the runtime eventually runs an enabled goroutine") are outside the
    model: partial in that sense. *)
From Coq Require Import List Arith Bool.
Import ListNotations.
From Glb Require Import Model.TaskLane Proofs.TaskLaneP Proofs.TaskLaneInv Proofs.TaskLaneLive Proofs.TaskLaneDec
  Model.TaskLaneTight Proofs.TaskLaneTightP.

(** No task is started twice; only accepted tasks are started; a task whose push returned an error is
    never accepted and never started — in every reachable state of every execution. *)
Theorem C06_exactly_once : forall qs n ls s,
  run qs (init n) ls = Some s ->
  NoDup (started s) /\ incl (started s) (accepted s) /\ NoDup (accepted s) /\
  (forall t, In t (failed s) -> ~ In t (accepted s) /\ ~ In t (started s)).
Proof. exact exactly_once. Qed.
Print Assumptions C06_exactly_once.

(** What a recorded PushTask result means: nil = the task is in [accepted]; an error = it is in [failed]
    (and therefore, by C06_exactly_once, never accepted and never started). *)
Theorem C06_result_meaning : forall qs n ls s p t r,
  run qs (init n) ls = Some s -> pstate_of s p = Done t r ->
  match r with ROk => In t (accepted s) | _ => In t (failed s) end.
Proof. exact result_meaning. Qed.
Print Assumptions C06_result_meaning.

(** Context live, [t] accepted but not started: some internal step of the lane is enabled, or every
    worker is inside Start() (then a task return is what the lane is waiting for). *)
Theorem C06_progress : forall qs n ls s t,
  run qs (init n) ls = Some s -> cancelled s = false -> In t (accepted s) -> ~ In t (started s) ->
  (exists l, internal l = true /\ step qs s l <> None) \/ all_workers_running s = true.
Proof. exact progress. Qed.
Print Assumptions C06_progress.

(** Every internal step strictly decreases [measure] (so do task returns and Cancel). *)
Theorem C06_internal_finite : forall qs s l s',
  internal l = true -> step qs s l = Some s' -> measure s' < measure s.
Proof. exact internal_decreases. Qed.
Print Assumptions C06_internal_finite.

Theorem C06_quiet_finite : forall qs s ls s',
  forallb quiet ls = true -> run qs s ls = Some s' -> length ls <= measure s.
Proof. exact quiet_run_bounded. Qed.
Print Assumptions C06_quiet_finite.

(** A maximal run of internal steps and task returns with the context live ends with every accepted
    task started. ([stuck qs quiet s]: no internal step and no task return is enabled in [s].) *)
Theorem C06_all_started : forall qs n ls s,
  run qs (init n) ls = Some s -> cancelled s = false -> stuck qs quiet s ->
  forall t, In t (accepted s) -> In t (started s).
Proof. exact quiet_all_started. Qed.
Print Assumptions C06_all_started.

(** Non-vacuity. Two lanes, queueSize 1. Task 10 pins worker 0; task 11 is pushed to the same lane and is
    handed to worker 1 through the universal queue. *)
Definition C06_ex : list label :=
  [PushBegin 0 0 10; PushOk 0; QTake 0; QCount 0; QCheck 0; WCheck 0; QTryOwn 0; QDecr 0;
   PushBegin 0 0 11; PushOk 0; QTake 0; QCount 0; QCheck 0; QTryFail 0;
   WCheck 1; WTryFail 1; QOfferUni 0 1; QDecr 0].

Example C06_ex_reachable :
  option_map (fun s => (accepted s, started s, running s)) (run 1 (init 2) C06_ex)
  = Some ([11; 10], [11; 10], [10; 11]).
Proof. vm_compute. reflexivity. Qed.

(** after 14 of these labels task 11 is accepted, unstarted, the context is live (hypotheses of C06_progress) *)
Example C06_ex_progress_hyps :
  option_map (fun s => (cancelled s, accepted s, started s, all_workers_running s))
             (run 1 (init 2) (firstn 14 C06_ex))
  = Some (false, [11; 10], [10], false).
Proof. vm_compute. reflexivity. Qed.

(** a timed-out push and a push after cancel: failed, never accepted *)
Example C06_ex_failed :
  option_map (fun s => (failed s, accepted s, result_of s 1, result_of s 2))
    (run 1 (init 1) [PushBegin 0 0 10; PushOk 0; PushBegin 1 0 11; PushTimeout 1; Cancel; PushBegin 2 0 12])
  = Some ([12; 11], [10], Some RTimeout, Some RCtxErr).
Proof. vm_compute. reflexivity. Qed.

(** both tasks return, workers park again: the lane is quiet-stuck with the context live (hypotheses of C06_all_started) *)
Example C06_ex_all_started :
  option_map (fun s => (cancelled s, quiet_stuckb 1 s, accepted s, started s))
    (run 1 (init 2) (C06_ex ++ [WEnd 0 None; WEnd 1 None; WCheck 0; WTryFail 0; WCheck 1; WTryFail 1]))
  = Some (false, true, [11; 10], [11; 10]).
Proof. vm_compute. reflexivity. Qed.
(** [quiet_stuckb qs s = true] implies [stuck qs quiet s] *)
Theorem C06_stuck_check : forall qs s, quiet_stuckb qs s = true -> stuck qs quiet s.
Proof. exact quiet_stuckb_sound. Qed.
Print Assumptions C06_stuck_check.

(** NOT covered by the liveness theorems: starvation under sustained pushing, admitted by the model.
    2 lanes, queueSize 1. Worker 1 is pinned by task 1; task 10 is accepted on lane 0 and its queue goroutine
    parks in the blocking offer. In every round a new task is pushed to lane 1, worker 0 takes the [default]
    of its non-blocking receive (always enabled in this model) and then serves lane 1's task from the
    universal queue. After 20 rounds: context live, 10 accepted, 10 not started, 21 other tasks started. *)
Definition C06_starve_prefix : list label :=
  [PushBegin 0 1 1; PushOk 0; QTake 1; QCount 1; QCheck 1; WCheck 1; QTryOwn 1; QDecr 1;
   PushBegin 0 0 10; PushOk 0; QTake 0; QCount 0; QCheck 0; QTryFail 0].
Definition C06_starve_round (t : task) : list label :=
  [PushBegin 0 1 t; PushOk 0; QTake 1; QCount 1; QCheck 1; QTryFail 1;
   WCheck 0; WTryFail 0;
   QOfferUni 1 0; QDecr 1; WEnd 0 None].
Fixpoint C06_starve_rounds (k : nat) (t : task) : list label :=
  match k with O => [] | S k' => C06_starve_round t ++ C06_starve_rounds k' (S t) end.

Example C06_ex_starvation_in_model :
  option_map (fun s => (cancelled s, existsb (Nat.eqb 10) (accepted s), existsb (Nat.eqb 10) (started s),
                        length (started s), map q (lanes s), map w (lanes s)))
    (run 1 (init 2) (C06_starve_prefix ++ C06_starve_rounds 20 100))
  = Some (false, true, false, 21, [QOffer 10; QWait], [WTop; WRun 1]).
Proof. vm_compute. reflexivity. Qed.

(** ---- Tight variant ([Model/TaskLaneTight.v]): [tstep] = [step] minus QTryFail while the own worker is in its
    blocking receive, minus WTryFail while the own queue goroutine is in its blocking offer. ---- *)

(** Refinement: every tight run is a run of the model above, so every theorem about all reachable states
    (C06_exactly_once, C08_bound, C14_pending_bounds, ...) holds for the tight variant too. *)
Theorem C06_tight_refines : forall qs ls s s', trun qs s ls = Some s' -> run qs s ls = Some s'.
Proof. exact trun_refines. Qed.
Print Assumptions C06_tight_refines.

Theorem C06_tight_transfer : forall qs n (P : state -> Prop),
  (forall ls s, run qs (init n) ls = Some s -> P s) ->
  forall ls s, trun qs (init n) ls = Some s -> P s.
Proof. exact tight_transfer. Qed.
Print Assumptions C06_tight_transfer.

(** Disabling the defaults adds no deadlock: whenever the lane can move in the loose model it can move in the
    tight one (the rendezvous the default would have skipped is enabled) — so progress and "a maximal quiet run
    starts every accepted task" hold there as well. *)
Theorem C06_tight_no_new_deadlock : forall qs s,
  (exists l, internal l = true /\ step qs s l <> None) ->
  (exists l, internal l = true /\ tstep qs s l <> None).
Proof. exact tight_no_new_deadlock. Qed.
Print Assumptions C06_tight_no_new_deadlock.

Theorem C06_tight_progress : forall qs n ls s t,
  trun qs (init n) ls = Some s -> cancelled s = false -> In t (accepted s) -> ~ In t (started s) ->
  (exists l, internal l = true /\ tstep qs s l <> None) \/ all_workers_running s = true.
Proof. exact tight_progress. Qed.
Print Assumptions C06_tight_progress.

Theorem C06_tight_all_started : forall qs n ls s,
  trun qs (init n) ls = Some s -> cancelled s = false ->
  (forall l, quiet l = true -> tstep qs s l = None) ->
  forall t, In t (accepted s) -> In t (started s).
Proof. exact tight_all_started. Qed.
Print Assumptions C06_tight_all_started.

(** The own worker takes it. Queue goroutine i is offering [t]; worker i is back at its loop top, context live:
    its loop-top test brings it to the non-blocking receive ([C06_tight_loop_top]); there the hand-over from its
    own queue goroutine is enabled ([C06_tight_own_receive_enabled]); and whatever single step the whole system
    takes from there, either queue goroutine i is still offering [t] to worker i still at that receive, or [t]
    has just been started (by worker i, or by another worker over the universal queue)
    ([C06_tight_own_worker_takes]) — worker i cannot fall through and serve another lane in that iteration.
    NOT claimed: bounded overtaking in general. A worker already inside its blocking select with both its own
    channel and the universal queue ready may take either (Go: uniformly at random), in both variants. *)
Theorem C06_tight_loop_top : forall qs s i b0 t,
  nth_error (lanes s) i = Some (mkLane b0 (QOffer t) WTop) -> cancelled s = false ->
  exists s', tstep qs s (WCheck i) = Some s' /\ nth_error (lanes s') i = Some (mkLane b0 (QOffer t) WTry)
             /\ cancelled s' = false.
Proof. exact tight_loop_top. Qed.
Print Assumptions C06_tight_loop_top.

Theorem C06_tight_own_receive_enabled : forall qs s i b0 t,
  nth_error (lanes s) i = Some (mkLane b0 (QOffer t) WTry) -> tstep qs s (QOfferOwn i) <> None.
Proof. exact tight_own_receive_enabled. Qed.
Print Assumptions C06_tight_own_receive_enabled.

Theorem C06_tight_own_worker_takes : forall qs s i b0 t l s',
  nth_error (lanes s) i = Some (mkLane b0 (QOffer t) WTry) -> cancelled s = false ->
  tstep qs s l = Some s' ->
  (exists b1, nth_error (lanes s') i = Some (mkLane b1 (QOffer t) WTry))
  \/ started s' = t :: started s.
Proof. exact tight_own_worker_takes. Qed.
Print Assumptions C06_tight_own_worker_takes.

(** Non-vacuity / contrast: the starvation round above is not a run of the tight variant (it is refused at
    worker 0's WTryFail), its first 7 labels are and reach the hypotheses of C06_tight_own_worker_takes for task 10,
    and from there the own hand-over starts 10. *)
Example C06_ex_tight_rejects_starvation :
  (trun 1 (init 2) (C06_starve_prefix ++ C06_starve_round 100),
   option_map (fun s => (cancelled s, nth_error (lanes s) 0))
              (trun 1 (init 2) (C06_starve_prefix ++ firstn 7 (C06_starve_round 100))),
   option_map started (trun 1 (init 2) (C06_starve_prefix ++ firstn 7 (C06_starve_round 100) ++ [QOfferOwn 0])))
  = (None, Some (false, Some (mkLane [] (QOffer 10) WTry)), Some [10; 1]).
Proof. vm_compute. reflexivity. Qed.
