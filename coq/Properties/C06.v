(** C06 — TaskLane runs every accepted task exactly once and no rejected task.

    Model: [Model/TaskLane.v], an LTS of startQueue / startWorker / PushTask / Status for any laneSize [n],
    any queueSize [qs] (0 included), any number of producers; [run qs (init n) ls = Some s] ranges over
    ALL executions (all interleavings, cancel at every point, timeouts at every point, panics).
    Logs: [accepted] = tasks whose PushTask returned nil, [failed] = tasks whose PushTask returned an error
    (context error or ErrTimeout), [started] = tasks whose Start() was entered (one entry per call).

    Safety is proved outright. The "eventually started" half is given in the only form an LTS can give it:
    (a) as long as an accepted task is unstarted (context live) either the lane itself can move or every
    worker is inside Start(); (b) every step the lane takes on its own strictly decreases a natural-number
    measure, so it cannot move forever without new input; (c) hence every maximal run of internal steps and
    task returns is finite and ends with every accepted task started. Real time and scheduler fairness
    ("the runtime eventually runs an enabled goroutine") are outside the model: partial in that sense. *)
From Coq Require Import List Arith Bool.
Import ListNotations.
From Glb Require Import Model.TaskLane Proofs.TaskLaneP Proofs.TaskLaneInv Proofs.TaskLaneLive Proofs.TaskLaneDec.

(** No task is started twice; only accepted tasks are started; a task whose push returned an error is
    never accepted and never started — in every reachable state of every execution. *)
Theorem C06_exactly_once : forall qs n ls s,
  run qs (init n) ls = Some s ->
  NoDup (started s) /\ incl (started s) (accepted s) /\ NoDup (accepted s) /\
  (forall t, In t (failed s) -> ~ In t (accepted s) /\ ~ In t (started s)).
Proof. exact exactly_once. Qed.
Print Assumptions C06_exactly_once.

(** What a recorded PushTask result means: nil = the task is in [accepted]; an error = it is in [failed]
    (and therefore, by C06_exactly_once, never accepted and never started). *)
Theorem C06_result_meaning : forall qs n ls s p t r,
  run qs (init n) ls = Some s -> pstate_of s p = Done t r ->
  match r with ROk => In t (accepted s) | _ => In t (failed s) end.
Proof. exact result_meaning. Qed.
Print Assumptions C06_result_meaning.

(** Context live, [t] accepted but not started: some internal step of the lane is enabled, or every
    worker is inside Start() (then a task return is what the lane is waiting for). *)
Theorem C06_progress : forall qs n ls s t,
  run qs (init n) ls = Some s -> cancelled s = false -> In t (accepted s) -> ~ In t (started s) ->
  (exists l, internal l = true /\ step qs s l <> None) \/ all_workers_running s = true.
Proof. exact progress. Qed.
Print Assumptions C06_progress.

(** Every internal step strictly decreases [measure] (so do task returns and Cancel). *)
Theorem C06_internal_finite : forall qs s l s',
  internal l = true -> step qs s l = Some s' -> measure s' < measure s.
Proof. exact internal_decreases. Qed.
Print Assumptions C06_internal_finite.

Theorem C06_quiet_finite : forall qs s ls s',
  forallb quiet ls = true -> run qs s ls = Some s' -> length ls <= measure s.
Proof. exact quiet_run_bounded. Qed.
Print Assumptions C06_quiet_finite.

(** A maximal run of internal steps and task returns with the context live ends with every accepted
    task started. ([stuck qs quiet s]: no internal step and no task return is enabled in [s].) *)
Theorem C06_all_started : forall qs n ls s,
  run qs (init n) ls = Some s -> cancelled s = false -> stuck qs quiet s ->
  forall t, In t (accepted s) -> In t (started s).
Proof. exact quiet_all_started. Qed.
Print Assumptions C06_all_started.

(** Non-vacuity. Two lanes, queueSize 1. Task 10 pins worker 0; task 11 is pushed to the same lane and is
    handed to worker 1 through the universal queue. *)
Definition C06_ex : list label :=
  [PushBegin 0 0 10; PushOk 0; QTake 0; QCount 0; QCheck 0; WCheck 0; QTryOwn 0; QDecr 0;
   PushBegin 0 0 11; PushOk 0; QTake 0; QCount 0; QCheck 0; QTryFail 0;
   WCheck 1; WTryFail 1; QOfferUni 0 1; QDecr 0].

Example C06_ex_reachable :
  option_map (fun s => (accepted s, started s, running s)) (run 1 (init 2) C06_ex)
  = Some ([11; 10], [11; 10], [10; 11]).
Proof. vm_compute. reflexivity. Qed.

(** after 14 of these labels task 11 is accepted, unstarted, the context is live (hypotheses of C06_progress) *)
Example C06_ex_progress_hyps :
  option_map (fun s => (cancelled s, accepted s, started s, all_workers_running s))
             (run 1 (init 2) (firstn 14 C06_ex))
  = Some (false, [11; 10], [10], false).
Proof. vm_compute. reflexivity. Qed.

(** a timed-out push and a push after cancel: failed, never accepted *)
Example C06_ex_failed :
  option_map (fun s => (failed s, accepted s, result_of s 1, result_of s 2))
    (run 1 (init 1) [PushBegin 0 0 10; PushOk 0; PushBegin 1 0 11; PushTimeout 1; Cancel; PushBegin 2 0 12])
  = Some ([12; 11], [10], Some RTimeout, Some RCtxErr).
Proof. vm_compute. reflexivity. Qed.

(** both tasks return, workers park again: the lane is quiet-stuck with the context live (hypotheses of C06_all_started) *)
Example C06_ex_all_started :
  option_map (fun s => (cancelled s, quiet_stuckb 1 s, accepted s, started s))
    (run 1 (init 2) (C06_ex ++ [WEnd 0 None; WEnd 1 None; WCheck 0; WTryFail 0; WCheck 1; WTryFail 1]))
  = Some (false, true, [11; 10], [11; 10]).
Proof. vm_compute. reflexivity. Qed.
(** [quiet_stuckb qs s = true] implies [stuck qs quiet s] *)
Theorem C06_stuck_check : forall qs s, quiet_stuckb qs s = true -> stuck qs quiet s.
Proof. exact quiet_stuckb_sound. Qed.
Print Assumptions C06_stuck_check.
