(** C15 — Logger.Relay contains handler panics and logs each request once, truthfully.

    Model: [Model.Relay] — httpd.ResponseWriter over net/http's writer, handler scripts
    (header-map only / WriteHeader / body write directly or through io.Copy / panic), Relay's
    REQ_BEG and its two deferred blocks in LIFO order, the level gate.

    Explicit assumption: the rendering of the panic value by the log handler ([render], used
    inside Handle) is TOTAL — it never panics.  After commit 8de6726 the Text and JSON handlers
    guard Error()/MarshalText() (safeErrorString / safeMarshalText) and Nano uses fmt, which
    recovers; the correspondence harness exercises hostile values.  [C15_needs_total_render]
    shows the assumption cannot be dropped.

    Scope of the scripts: [codes_ok] (the first status code is 200..999, where the net/http model is
    faithful, or one that net/http rejects — 0..99, >= 1000, negative ints: WriteHeader then panics
    inside the call with nothing sent or recorded, which is a handler panic before any status was
    written; a WriteHeader after a header went out does not pass 0) and [no_abort] (the panic value is not http.ErrAbortHandler itself — values that
    merely wrap it are ordinary values [PV v]). *)
From Coq Require Import List NArith Bool.
Import ListNotations.
From Glb Require Import Model.Relay Proofs.RelayP Check.C15 Proofs.RelayCheckP.
Open Scope N_scope.

(** At Info level (threshold <= Info), for every request, every script in scope:
    - no panic escapes;
    - Relay sends 500 (http.Error: status 500 and the error text as the only body) iff the
      handler panicked before any header was written — and otherwise leaves the response
      exactly as the handler produced it (status on the wire, body chunks);
    - the records are exactly REQ_BEG, then the ERROR record with the panic value and the id
      iff the handler panicked, then REQ_END; BEG and END carry ip, method, URI and id of the
      request, ERR carries the same id;
    - when the status was set at most once ([set_once]: no WriteHeader after a header went
      out), REQ_END carries the status the client received.
    [set_once] is the exact extra hypothesis: a handler that calls WriteHeader twice makes
    net/http keep the first code while ResponseWriter.Status records the last one
    ([C15_example_double_header]); that is outside the property's quantifier. *)
Theorem C15_relay : forall render thr rq sc,
  (forall v, render v <> None) ->
  enabled thr LInfo = true -> codes_ok sc = true -> no_abort sc ->
  let r := relay render thr rq sc in
  escaped r = false
  /\ (relay500 r = true <-> panics_before_header sc = true)
  /\ (relay500 r = true -> wire r = 500 /\ body r = [err_chunk])
  /\ (relay500 r = false ->
        wire_hdr (final r) = wire_hdr (fst (exec true sc rw0)) /\ body r = wbody (fst (exec true sc rw0)))
  /\ records r = [BEG (rip rq) (rmethod rq) (ruri rq) (rid rq)]
                 ++ (match panic_of sc with Some p => [ERR p (rid rq)] | None => [] end)
                 ++ [END (logged r) (rip rq) (rmethod rq) (ruri rq) (rid rq)]
  /\ (set_once sc = true -> logged r = wire r).
Proof. exact relay_info. Qed.
Print Assumptions C15_relay.

(** every record of a request carries that request's id (any threshold, any rendering) *)
Theorem C15_same_id : forall render thr rq sc,
  Forall (fun x => rec_id x = rid rq) (records (relay render thr rq sc)).
Proof. exact all_ids. Qed.
Print Assumptions C15_same_id.

(** Requests in flight concurrently: whatever the interleaving of their record streams, if the
    ids are distinct (C05), filtering the stream by a request's id gives exactly that
    request's own sequence (BEG .. END). *)
Theorem C15_pairing : forall render thr (reqs : list (req * script)) s,
  NoDup (map (fun p => rid (fst p)) reqs) ->
  interleave (map (fun p => records (relay render thr (fst p) (snd p))) reqs) s ->
  forall k rq sc, nth_error reqs k = Some (rq, sc) ->
  filter (fun x => rec_id x =? rid rq) s = records (relay render thr rq sc).
Proof. exact pairing. Qed.
Print Assumptions C15_pairing.

(** Threshold above Info but not above Error: nothing but the ERROR record. *)
Theorem C15_above_info : forall render thr rq sc,
  (forall v, render v <> None) ->
  enabled thr LInfo = false -> enabled thr LError = true -> codes_ok sc = true -> no_abort sc ->
  let r := relay render thr rq sc in
  escaped r = false
  /\ (relay500 r = true <-> panics_before_header sc = true)
  /\ records r = match panic_of sc with Some p => [ERR p (rid rq)] | None => [] end.
Proof. exact relay_above_info. Qed.
Print Assumptions C15_above_info.

(** Threshold above Error: nothing is logged, the panic is still contained and 500 still sent;
    the rendering is never invoked, so no assumption on it. *)
Theorem C15_above_error : forall render thr rq sc,
  enabled thr LInfo = false -> enabled thr LError = false -> codes_ok sc = true -> no_abort sc ->
  let r := relay render thr rq sc in
  escaped r = false
  /\ (relay500 r = true <-> panics_before_header sc = true)
  /\ records r = [].
Proof. exact relay_above_error. Qed.
Print Assumptions C15_above_error.

(** http.ErrAbortHandler itself (excluded from the property; modelled as the code behaves):
    recover() has been called, so the panic is dropped silently: no ERROR record, no 500. *)
Theorem C15_abort_handler : forall render thr rq sc,
  panic_of sc = Some AbortHandler ->
  let r := relay render thr rq sc in
  escaped r = false /\ relay500 r = false
  /\ Forall (fun x => match x with ERR _ _ => False | _ => True end) (records r).
Proof. exact relay_abort. Qed.
Print Assumptions C15_abort_handler.

(** The totality assumption is necessary: a value whose rendering panics inside Handle makes
    the panic escape Relay, and no 500 is sent (the defect fixed by commit 8de6726). *)
Theorem C15_needs_total_render : forall render thr rq sc v,
  render v = None -> enabled thr LError = true -> panic_of sc = Some (PV v) ->
  let r := relay render thr rq sc in escaped r = true /\ relay500 r = false.
Proof. exact relay_render_partial. Qed.
Print Assumptions C15_needs_total_render.

(** Flush: the code before commit 9de7f2e left Status at 0 when Flush sent the implicit 200
    ([relay_gen _ false]).  Refuted: for a handler that flushes and then panics — a script inside
    the quantifier, which does NOT panic before a header was written — Relay still calls
    http.Error (text appended to the started 200 response) and REQ_END logs 500 for a 200.
    With the current Flush ([relay = relay_gen _ true]) [C15_relay] holds with Flush in the
    script language, see [C15_example_flush_then_panic]. *)
Theorem C15_flush_old_refuted : exists sc rq,
  codes_ok sc = true /\ no_abort sc /\ set_once sc = true /\ panics_before_header sc = false /\
  let r := relay_gen (fun v => Some v) false 4 rq sc in
  escaped r = false /\ relay500 r = true /\ wire r = 200 /\ logged r = 500 /\ body r = [err_chunk].
Proof. exact flush_old_refuted. Qed.
Print Assumptions C15_flush_old_refuted.

(** The executable verdict used by the correspondence check accepts every behaviour of the model
    at Info level (scripts in scope whose body chunks differ from the marker of http.Error's text):
    a SPECFAIL is never raised against something the theorems above allow. *)
Theorem C15_check_accepts_model : forall thr rq sc,
  enabled thr LInfo = true -> codes_ok sc = true -> no_abort sc -> no_err_chunk sc = true ->
  forall bs, let r := relay total_render thr rq sc in
  verdict_ok (check_case thr rq sc (escaped r) (wire r) bs (body r) (records r)) = true.
Proof. exact check_accepts_model. Qed.
Print Assumptions C15_check_accepts_model.

(** Non-vacuity *)
Definition ex_rq : req := mkReq 1 7 1 7.

(* panic before anything was written: 500 + text, BEG ERR END(500) *)
Example C15_example_panic_first :
  let r := relay total_render 4 ex_rq [Nop; Panic (PV 3); Hdr 200] in
  (escaped r, relay500 r, wire r, body r, records r)
  = (false, true, 500, [err_chunk], [BEG 1 1 7 7; ERR (PV 3) 7; END 500 1 1 7 7]).
Proof. vm_compute. reflexivity. Qed.

(* body through io.Copy without WriteHeader, then panic: the client keeps its 200 and exactly
   the copied body; END logs 200 *)
Example C15_example_copy_then_panic :
  let r := relay total_render 4 ex_rq [Body ViaCopyFile 11; Body ViaCopyString 12; Panic (PV 3)] in
  (escaped r, relay500 r, wire r, body r, records r)
  = (false, false, 200, [11; 12], [BEG 1 1 7 7; ERR (PV 3) 7; END 200 1 1 7 7]).
Proof. vm_compute. reflexivity. Qed.

(* Flush / FlushError before the panic count as "a status was written": no 500, END logs 200 = wire *)
Example C15_example_flush_then_panic :
  let r := relay total_render 4 ex_rq [Nop; Flush true; Panic (PV 3)] in
  (panics_before_header [Nop; Flush true; Panic (PV 3)], escaped r, relay500 r, wire r, body r, records r)
  = (false, false, false, 200, [], [BEG 1 1 7 7; ERR (PV 3) 7; END 200 1 1 7 7]).
Proof. vm_compute. reflexivity. Qed.

(* Store.Error500 / Redirect as the harness expands them: WriteHeader + helper body *)
Example C15_example_helpers :
  let r := relay total_render 4 ex_rq [Hdr 302; Body ViaHelper 777777; Panic (PV 3)] in
  (relay500 r, wire r, logged r) = (false, 302, 302).
Proof. vm_compute. reflexivity. Qed.

(* WriteHeader(1000) / WriteHeader(42) / WriteHeader(0) as the first write: net/http panics inside the call,
   nothing was sent: 500 + text, the ERROR record carries net/http's panic value, END logs 500 *)
Example C15_example_invalid_code_first :
  let sc := [Nop; Hdr 1000; Body ViaWrite 5] in
  let r := relay total_render 4 ex_rq sc in
  (codes_ok sc, set_once sc, panics_before_header sc, escaped r, relay500 r, wire r, body r, records r)
  = (true, true, true, false, true, 500, [err_chunk], [BEG 1 1 7 7; ERR (PV invalid_hdr_pv) 7; END 500 1 1 7 7])
  /\ (let r := relay total_render 4 ex_rq [Hdr 42] in (relay500 r, wire r, logged r)) = (true, 500, 500)
  /\ (let r := relay total_render 4 ex_rq [Hdr 0] in (codes_ok [Hdr 0], relay500 r, wire r, logged r)) = (true, true, 500, 500).
Proof. vm_compute. repeat split; reflexivity. Qed.

(* the same call after a valid status or after Flush: superfluous for net/http (no panic), the handler goes on;
   a later panic finds a started response: no 500 *)
Example C15_example_invalid_code_later :
  let sc := [Hdr 404; Hdr 1000; Panic (PV 3)] in
  let r := relay total_render 4 ex_rq sc in
  let sc' := [Flush false; Hdr 42; Panic (PV 3)] in
  let r' := relay total_render 4 ex_rq sc' in
  (codes_ok sc, panic_of sc, panics_before_header sc, relay500 r, wire r,
   codes_ok sc', panic_of sc', panics_before_header sc', relay500 r', wire r')
  = (true, Some (PV 3), false, false, 404, true, Some (PV 3), false, false, 200).
Proof. vm_compute. reflexivity. Qed.

(* nothing written, no panic: net/http sends 200, END logs 200 *)
Example C15_example_empty :
  let r := relay total_render 0 ex_rq [] in
  (wire r, records r) = (200, [BEG 1 1 7 7; END 200 1 1 7 7]).
Proof. vm_compute. reflexivity. Qed.

(* double WriteHeader: the wire keeps 404, REQ_END logs 503 — [set_once] fails *)
Example C15_example_double_header :
  let sc := [Hdr 404; Hdr 503] in
  let r := relay total_render 4 ex_rq sc in
  (set_once sc, wire r, logged r) = (false, 404, 503).
Proof. vm_compute. reflexivity. Qed.

(* hypotheses of C15_relay are satisfiable together *)
Example C15_example_hyps :
  let sc := [Nop; Hdr 404; Body ViaWrite 5; Panic (PV 2)] in
  enabled 4 LInfo = true /\ codes_ok sc = true /\ no_abort sc /\ set_once sc = true
  /\ (forall v, total_render v <> None).
Proof. repeat split; try reflexivity; discriminate. Qed.

(* thresholds: Warn (8) logs only ERR; Fatal (16) logs nothing; both still send the 500 *)
Example C15_example_thresholds :
  let sc := [Panic (PV 2)] in
  (records (relay total_render 8 ex_rq sc), records (relay total_render 16 ex_rq sc),
   wire (relay total_render 8 ex_rq sc), wire (relay total_render 16 ex_rq sc))
  = ([ERR (PV 2) 7], [], 500, 500).
Proof. vm_compute. reflexivity. Qed.

(* two requests interleaved *)
Example C15_example_pairing :
  let a := records (relay total_render 4 (mkReq 1 1 1 1) [Panic (PV 9)]) in
  let b := records (relay total_render 4 (mkReq 2 2 1 2) [Hdr 404]) in
  let s := [nth 0 a (ERR AbortHandler 0); nth 0 b (ERR AbortHandler 0); nth 1 a (ERR AbortHandler 0);
            nth 1 b (ERR AbortHandler 0); nth 2 a (ERR AbortHandler 0)] in
  filter (fun x => rec_id x =? 1) s = a /\ filter (fun x => rec_id x =? 2) s = b.
Proof. vm_compute. split; reflexivity. Qed.

Example C15_example_check :
  verdict_ok (check_case 4 ex_rq [Nop; Panic (PV 3)] false 500 true [err_chunk]
                [BEG 1 1 7 7; ERR (PV 3) 7; END 500 1 1 7 7]) = true
  /\ spec_records (check_case 4 ex_rq [Body ViaCopyFile 11; Panic (PV 3)] false 200 true [11; err_chunk]
                [BEG 1 1 7 7; ERR (PV 3) 7; END 500 1 1 7 7]) = false
  (* no 500 although the handler panicked before any status *)
  /\ spec_500 (check_case 4 ex_rq [Nop; Panic (PV 3)] false 200 true []
                [BEG 1 1 7 7; ERR (PV 3) 7; END 200 1 1 7 7]) = false
  (* a bare 500 without http.Error's text: the property is satisfied, only the body differs from the model *)
  /\ (let v := check_case 4 ex_rq [Nop; Panic (PV 3)] false 500 true []
                [BEG 1 1 7 7; ERR (PV 3) 7; END 500 1 1 7 7] in
      (spec_ok v, model_ok v, model_body v)) = (true, true, false)
  /\ spec_records (check_case 4 ex_rq [Hdr 404] false 404 true [] [BEG 1 1 7 7; END 200 1 1 7 7]) = false
  /\ spec_noescape (check_case 4 ex_rq [Panic (PV 3)] true 0 true [] [BEG 1 1 7 7; END 200 1 1 7 7]) = false
  (* the old Flush as observed: 200 + error text, END 500 *)
  /\ spec_ok (check_case 4 ex_rq [Flush false; Panic (PV 3)] false 200 true [err_chunk]
                [BEG 1 1 7 7; ERR (PV 3) 7; END 500 1 1 7 7]) = false
  (* an invalid first WriteHeader whose code was recorded although nothing was sent: no 500, END 1000 *)
  /\ (let v := check_case 4 ex_rq [Hdr 1000] false 200 true []
                [BEG 1 1 7 7; ERR (PV invalid_hdr_pv) 7; END 1000 1 1 7 7] in
      (in_scope v, spec_500 v, spec_records v)) = (true, false, false)
  /\ verdict_ok (check_case 4 ex_rq [Hdr 1000] false 500 true [err_chunk]
                [BEG 1 1 7 7; ERR (PV invalid_hdr_pv) 7; END 500 1 1 7 7]) = true
  (* repeated WriteHeader: a REQ_END carrying the first code instead of the last is no mismatch *)
  /\ verdict_ok (check_case 4 ex_rq [Hdr 404; Hdr 503] false 404 true [] [BEG 1 1 7 7; END 404 1 1 7 7]) = true.
Proof. vm_compute. repeat split; reflexivity. Qed.
