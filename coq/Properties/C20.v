(** C20 — daemon.Launch returns the daemon's pid, after Done(), with the daemon orphaned,
    however quickly or slowly the daemon reaches Done().

    The launcher's program [acts] is the action list extracted from the source of
    daemon.launch (gen/glbfacts launch); the per-run obligation
    [notify_before_start <extracted list> = true /\ well_formed <extracted list> = true] is checked
    by vm_compute on every run (lib/prop_c20.py). Process and signal semantics are the kernel's:
    what is proved here is the hand-shake logic of Model/Daemon.v (partial, see the manifest). *)
From Coq Require Import List Bool Arith.
Import ListNotations.
From Glb Require Import Model.Daemon Proofs.DaemonP.

(** For every launcher program that installs the SIGINT handler before it starts the daemon, every
    daemon delay, and EVERY schedule of the caller, the launcher, the daemon and signal delivery:
    whenever Launch has returned, it returned (pid of the daemon, nil); the daemon had written its
    marker and called Done() before Launch returned; the daemon is alive; the launcher is gone (and
    exited normally); the daemon's parent is init, not the caller.  The state [s] is any state at or
    after the return (the caller may have exited, the daemon goes on), so "keeps running" is included. *)
Theorem C20_handshake : forall acts,
  notify_before_start acts = true -> well_formed acts = true ->
  forall delay sched s, run acts delay init sched = Some s -> terminated s = true ->
    result s = Some (Returned pid_daemon)
    /\ ret_marker s = true /\ ret_done s = true
    /\ dalive s = true /\ launcher_gone s = true /\ lst s = LExited
    /\ dparent s = pid_init /\ dparent s <> pid_caller.
Proof. exact handshake. Qed.
Print Assumptions C20_handshake.

(** The launcher is never killed or crashed on the way, at any point of any run. *)
Theorem C20_launcher_never_killed : forall acts,
  notify_before_start acts = true -> well_formed acts = true ->
  forall delay sched s, run acts delay init sched = Some s -> lst s <> LAbnormal.
Proof. exact launcher_never_killed. Qed.
Print Assumptions C20_launcher_never_killed.

(** "fair enough for the run to finish": as long as Launch has not returned, some step other than the
    daemon's idle loop is enabled (no deadlock) … *)
Theorem C20_no_deadlock : forall acts,
  notify_before_start acts = true -> well_formed acts = true ->
  forall delay sched s, run acts delay init sched = Some s -> terminated s = false ->
    exists l s', step acts delay s l = Some s' /\ idle s l = false.
Proof. exact no_deadlock. Qed.
Print Assumptions C20_no_deadlock.

(** … and every step except that idle loop strictly decreases a natural number: a schedule that keeps
    taking enabled non-idle steps reaches the return of Launch after at most [measure init] of them. *)
Theorem C20_progress_measure : forall acts delay s l s',
  fits acts delay s -> step acts delay s l = Some s' ->
  fits acts delay s' /\ (idle s l = true /\ s' = s \/ measure acts delay s' < measure acts delay s).
Proof. exact step_measure. Qed.
Print Assumptions C20_progress_measure.

(** Without the discipline the property is false: with the order of the pinned commit there is a
    schedule (the daemon reaches Done() before the launcher has called signal.Notify) on which Launch
    reports failure although the daemon is alive, has written its marker and has called Done(). *)
Theorem handshake_refuted_without_discipline : exists acts delay sched s,
  well_formed acts = true /\ notify_before_start acts = false /\
  run acts delay init sched = Some s /\ terminated s = true /\
  result s = Some (Failed ErrRun) /\ dalive s = true /\ marker s = true /\ done s = true.
Proof. exact refuted. Qed.
Print Assumptions handshake_refuted_without_discipline.

(** … and this holds for every well-formed order that does not install the handler first. *)
Theorem C20_discipline_necessary : forall acts,
  well_formed acts = true -> notify_before_start acts = false ->
  exists sched s, run acts 0 init sched = Some s /\ terminated s = true /\
                  result s = Some (Failed ErrRun) /\ dalive s = true /\ done s = true.
Proof. exact discipline_necessary. Qed.
Print Assumptions C20_discipline_necessary.

(** An unbuffered Notify channel (never well-formed) loses a signal that arrives before the launcher is parked in
    its select: there is a run after which nothing but the daemon's idle loop can ever happen — the launcher
    waits forever and Launch never returns, although the daemon is alive and has called Done(). *)
Theorem C20_unbuffered_notify_deadlocks : exists sched s,
  run unbuffered_order 0 init sched = Some s /\ terminated s = false /\ done s = true /\ dalive s = true /\
  forall l s', step unbuffered_order 0 s l = Some s' -> idle s l = true /\ s' = s.
Proof. exact unbuffered_deadlock. Qed.
Print Assumptions C20_unbuffered_notify_deadlocks.

(** What the scanned discipline means: every cmd.Start() is preceded by a signal.Notify. *)
Theorem C20_discipline_meaning : forall acts,
  notify_before_start acts = true <-> (forall pre post, acts = pre ++ AStart :: post -> In ANotify pre).
Proof. exact notify_before_start_spec. Qed.
Print Assumptions C20_discipline_meaning.

(** Non-vacuity: the order of the current source satisfies the hypotheses, runs to the end on the two
    extreme schedules, and the pinned order does not satisfy the discipline but succeeds with natural
    timing (which is why the test suite never saw the defect). *)
Example C20_fixed_order_ok : well_formed fixed_order = true /\ notify_before_start fixed_order = true.
Proof. split; vm_compute; reflexivity. Qed.
(** writing the pid after the select is as good (the pid only has to be on stdout when the launcher exits) *)
Example C20_late_writepid_ok :
  well_formed [ANotify; AStart; ASpawnWait; ASelect; AWritePid] = true
  /\ notify_before_start [ANotify; AStart; ASpawnWait; ASelect; AWritePid] = true
  /\ well_formed unbuffered_order = false /\ well_formed [ANotify; AStart; AWritePid; ASelect] = false.
Proof. repeat split; vm_compute; reflexivity. Qed.
Example C20_fixed_order_runs :
  exists s, run fixed_order 2 init
      [StepCaller; StepLauncher; StepLauncher; StepDaemon; StepDaemon; StepDaemon; StepDaemon; StepDaemon; Deliver;
       StepLauncher; StepLauncher; StepLauncher; StepLauncher; StepCaller; StepCaller; StepDaemon] = Some s
    /\ terminated s = true /\ result s = Some (Returned pid_daemon) /\ dparent s = pid_init.
Proof. eexists. split; [vm_compute; reflexivity|repeat split; vm_compute; reflexivity]. Qed.
Example C20_pinned_order_natural_timing :
  notify_before_start pinned_order = false /\
  result (run_skip pinned_order 0 init (sched_launcher_first pinned_order 0)) = Some (Returned pid_daemon) /\
  result (run_skip pinned_order 0 init (sched_daemon_first pinned_order 0)) = Some (Failed ErrRun).
Proof. repeat split; vm_compute; reflexivity. Qed.
