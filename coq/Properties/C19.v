(** C19 — ProgressWriter reports true, monotone progress and never stalls the writer.

    Model: [Model.Progress] — an LTS with a writer goroutine (script of Write/WriteString
    calls, then Close) and a consumer that is at every instant away or blocked in a receive
    on Status().  All theorems quantify over every script (any reported counts, short and
    failed writes, Write or WriteString), every consumer behaviour and every interleaving:
    [reachable sc s] is "some finite label sequence leads from [init sc] to [s]". *)
From Coq Require Import List NArith Bool Arith.
Import ListNotations.
From Glb Require Import Model.Progress Proofs.ProgressP Check.C19 Proofs.ProgressCheckP.
Open Scope N_scope.

(** Size() = sum of the counts reported by the wrapped writer for the completed calls —
    whatever each call reported: short, with an error, for Write or WriteString. *)
Theorem C19_size : forall sc s, reachable sc s ->
  size s = sumN (reps (done s)) /\ done s ++ todo s = sc.
Proof. exact size_is_sum. Qed.
Print Assumptions C19_size.

(** The received values are non-decreasing; each equals Size() after some completed call
    (a prefix sum of the reported counts, prefix no longer than the completed calls); more
    precisely they are a sublist of the running sums followed by what Close sent. *)
Theorem C19_received_monotone : forall sc s, reachable sc s ->
  nondec (recvd s)
  /\ (forall v, In v (recvd s) ->
        exists j, (j <= length (done s))%nat /\ v = sumN (firstn j (reps sc)))
  /\ (exists rw, recvd s = rw ++ final_part s /\ sublist rw (psums 0 (reps (done s)))).
Proof. exact received_shape. Qed.
Print Assumptions C19_received_monotone.

(** A Write never blocks because nobody is receiving: whenever the writer is inside a call,
    its next label is enabled in the current consumer state, whatever that is — the return of
    the wrapped writer, and then [sum] with the flag the select is forced to ([waiting s]). *)
Theorem C19_never_blocks : forall sc s, reachable sc s ->
  (forall n, pc s = Summing n ->
     exists s', step s (WriteDone (length (done s)) (waiting s)) = Some s')
  /\ (pc s = Running -> todo s <> [] -> exists s', step s (Under (length (done s))) = Some s').
Proof. exact write_never_blocks. Qed.
Print Assumptions C19_never_blocks.

(** the select takes the send case iff the consumer is waiting at that instant *)
Theorem C19_select_faithful : forall s i d s', step s (WriteDone i d) = Some s' -> d = waiting s.
Proof. exact write_done_flag. Qed.
Print Assumptions C19_select_faithful.

(** After Close has returned: the channel is closed, every call completed, the last value
    received is the final total. *)
Theorem C19_close : forall sc s, reachable sc s -> pc s = Finished ->
  closed s = true /\ todo s = [] /\ done s = sc /\ size s = total sc
  /\ exists rw, recvd s = rw ++ [total sc].
Proof. exact close_result. Qed.
Print Assumptions C19_close.

(** ... and stays so: nothing more is received, later receives report "closed". *)
Theorem C19_after_close : forall sc s, reachable sc s -> pc s = Finished ->
  (forall l s', step s l = Some s' -> pc s' = Finished /\ recvd s' = recvd s /\ size s' = size s)
  /\ (waiting s = true ->
      exists s', step s CRecvClosed = Some s' /\ eofs s' = S (eofs s) /\ recvd s' = recvd s).
Proof.
  intros sc s Hr Hp. split; [intros l s'; exact (after_close s l s' Hp) | exact (recv_after_close sc s Hr Hp)].
Qed.
Print Assumptions C19_after_close.

(** The documented contract of Close ("sends total written size to the blocking channel"):
    its send is enabled iff a consumer is waiting. *)
Theorem C19_close_needs_receiver : forall sc s, reachable sc s -> pc s = Running -> todo s = [] ->
  ((exists s', step s CloseSend = Some s') <-> waiting s = true).
Proof. exact close_needs_receiver. Qed.
Print Assumptions C19_close_needs_receiver.

(** A value can only be received while the consumer is waiting. *)
Theorem C19_deliveries_need_waiting : forall s l s', step s l = Some s' -> recvd s' <> recvd s ->
  waiting s = true /\ (l = CloseSend \/ exists i, l = WriteDone i true).
Proof. exact deliveries_need_waiting. Qed.
Print Assumptions C19_deliveries_need_waiting.

(** Progress: writer labels strictly decrease a measure that consumer labels leave alone, and
    until Close has returned the writer either has an enabled label or waits in Close's send
    for a consumer (and then CWait enables it). *)
Theorem C19_progress : forall sc s, reachable sc s ->
  (forall l s', step s l = Some s' ->
     if is_writer_label l then (writer_measure s' < writer_measure s)%nat
     else writer_measure s' = writer_measure s)
  /\ (pc s <> Finished ->
      (exists l s', is_writer_label l = true /\ step s l = Some s')
      \/ (pc s = Running /\ todo s = [] /\ waiting s = false
          /\ exists s1 s2, step s CWait = Some s1 /\ step s1 CloseSend = Some s2)).
Proof.
  intros sc s Hr. split; [intros l s'; exact (writer_measure_decreases s l s') | exact (writer_progress sc s Hr)].
Qed.
Print Assumptions C19_progress.

(** The executable verdict used by the correspondence check: its specification part accepts
    every completed behaviour of the model, and its model part exhibits a run. *)
Theorem C19_check_accepts_model : forall sc s k pcs, reachable sc s -> pc s = Finished ->
  spec_ok (check_case k sc pcs (psums 0 (reps sc)) (recvd s) (closed s)) = true.
Proof. exact check_accepts_model. Qed.
Print Assumptions C19_check_accepts_model.

Theorem C19_check_model_run : forall k sc pcs sizes rc cl,
  model_run (check_case k sc pcs sizes rc cl) = true ->
  exists s, reachable sc s /\ recvd s = rc /\ size s = last sizes 0 /\ closed s = cl.
Proof. exact model_run_exhibits_run. Qed.
Print Assumptions C19_check_model_run.

(** Non-vacuity.  Script: Write 5 -> 5; Write 5 -> 2 + error (short, failed);
    WriteString 4 -> 0 + error; Write 3 -> 3.  Consumer: waits before the 2nd call, gives up
    and comes back, receives during the 2nd and 4th calls, then the total, then "closed". *)
Definition ex_script : script :=
  [mkOp KWrite 5 5 false; mkOp KWrite 5 2 true; mkOp KWriteString 4 0 true; mkOp KWrite 3 3 false].
Definition ex_labels : list label :=
  [Under 0; WriteDone 0 false; CWait; CLeave; CWait; Under 1; WriteDone 1 true;
   Under 2; WriteDone 2 false; Under 3; CWait; WriteDone 3 true;
   CWait; CloseSend; CloseChan; CWait; CRecvClosed].

Example C19_example_run :
  option_map (fun s => (pc s, size s, recvd s, closed s, eofs s)) (run (init ex_script) ex_labels)
  = Some (Finished, 10, [7; 10; 10], true, 1%nat).
Proof. vm_compute. reflexivity. Qed.

(** the select cannot deliver to an absent consumer, and cannot skip a waiting one *)
Example C19_example_no_receiver : run (init ex_script) [Under 0; WriteDone 0 true] = None.
Proof. vm_compute. reflexivity. Qed.
Example C19_example_must_deliver : run (init ex_script) [CWait; Under 0; WriteDone 0 false] = None.
Proof. vm_compute. reflexivity. Qed.
(** Close blocks without a receiver *)
Example C19_example_close_blocks : run (init []) [CloseSend] = None /\ run (init []) [CWait; CloseSend] <> None.
Proof. split; vm_compute; [reflexivity | discriminate]. Qed.

Example C19_example_check :
  verdict_ok (check_case 1 ex_script [5; 2; 0; 3] [5; 7; 7; 10] [7; 10; 10] true) = true
  /\ spec_final (check_case 1 ex_script [5; 2; 0; 3] [5; 7; 7; 10] [7] true) = false
  /\ spec_size (check_case 1 ex_script [5; 2; 0; 3] [5; 5; 5; 8] [7; 10; 10] true) = false
  /\ model_run (check_case 0 ex_script [5; 2; 0; 3] [5; 7; 7; 10] [7; 10; 10] true) = false
  (* a call handed on in pieces 2 + 1: Size() after the first piece (7) may be received ... *)
  /\ spec_ok (check_case 1 [mkOp KWrite 5 5 false; mkOp KWrite 9 3 false] [5; 2; 1] [5; 8] [7; 8; 8] true) = true
  (* ... a position that was never reported (5 + 4) may not *)
  /\ spec_prefix (check_case 1 [mkOp KWrite 5 5 false; mkOp KWrite 9 3 false] [5; 2; 1] [5; 8] [9; 8] true) = false.
Proof. vm_compute. repeat split; reflexivity. Qed.
