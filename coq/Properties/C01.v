(** C01 — JSON handler: every record is one valid, faithful JSON line.  (statements are added as the proofs land) *)
From Coq Require Import List NArith ZArith Bool.
Import ListNotations.
From Glb Require Import Lib.Utf8 Lib.JsonDec Lib.Json Model.LoggerJson Model.LoggerJsonSpec.
Open Scope N_scope.
