(** C01 — JSON handler: every record is one valid, faithful JSON line.

    Model: [Model/LoggerJson.v] (json_handler.go, colour off, function by function).
    Specification: the strict RFC 8259 parser of [Lib/Json.v] and [expected] of
    [Model/LoggerJsonSpec.v].  All statements are for ALL byte strings, ALL attribute trees (any
    depth, any mix of keyed / inline / empty groups anywhere), ALL derivation chains, the five
    levels, source on or off; no bounds.  [wf_chain] / [wf_record] are boolean and say only what
    the standard-library oracles promise: the time texts are printable ASCII without quote and
    backslash, an encoding/json result is exactly one JSON value without newline.

    Specification decisions pinned by [expected] (they follow the code as it is and are part of what the
    check enforces): [nest] demands an object — possibly the empty object — for every WithGroup, so a
    logger derived by WithGroup("g") alone prints "g":{} ; attribute groups without members are omitted;
    an encoding failure is the string holding exactly the text of the (unwrapped) error, so [VRaw (RErr m)]
    pins the wording; invalid UTF-8 inside any string reads as U+FFFD per byte (the parser's one leniency,
    the one of encoding/json), everywhere else the parser is strict. *)
From Coq Require Import List NArith ZArith Bool.
Import ListNotations.
From Glb Require Import Lib.Utf8 Lib.JsonDec Lib.Json Model.LoggerJson Model.LoggerJsonSpec Model.LoggerJsonPinned.
From Glb Require Import Proofs.JsonDecP Proofs.JsonP Proofs.LoggerJsonEscP Proofs.LoggerJsonP Proofs.LoggerJsonUtf8P Proofs.LoggerJsonPinnedP.
Open Scope N_scope.

(** THE property. *)
Theorem C01_json_line_faithful : forall chain rec,
  wf_chain chain = true -> wf_record rec = true ->
  exists body, handle (derive chain) rec = body ++ [10]
            /\ ~ In 10 body
            /\ parse_object body = Some (JObj (expected chain rec), []).
Proof. exact json_line_faithful. Qed.
Print Assumptions C01_json_line_faithful.

(** The leniency of the parser is not a licence for the handler: whenever every embedded encoding/json text is
    valid UTF-8 (always, unless a json.Marshaler returns invalid bytes, which encoding/json hands through), the whole
    line is valid UTF-8 — glb's own writer never emits a byte outside a valid sequence. *)
Theorem C01_json_line_utf8 : forall chain rec,
  wf_chain chain = true -> wf_record rec = true -> raws_utf8 chain rec = true ->
  utf8_ok (handle (derive chain) rec) = true.
Proof. exact json_line_utf8. Qed.
Print Assumptions C01_json_line_utf8.

(** Stage 1: appendJsonString is inverted by the strict string scanner up to U+FFFD per invalid byte,
    for every byte string and every continuation. *)
Theorem C01_escape_roundtrip : forall s r,
  parse_string_body (append_json_string s ++ 34 :: r) = Some (sanitize s, r).
Proof. exact escape_roundtrip. Qed.
Print Assumptions C01_escape_roundtrip.

Theorem C01_escape_no_newline : forall s, ~ In 10 (append_json_string s).
Proof. exact append_json_string_no_newline. Qed.
Print Assumptions C01_escape_no_newline.

(** Stage 2 in prefix-extension form: the printing of ANY well-formed attribute list, continued by
    anything that starts with [,] or [}], is read by the member parser (in the state matching addSep)
    as exactly [exp_attrs l] (inline groups spliced, keyed groups without members omitted), after which
    the parser stands in front of the continuation; addSep becomes true exactly when a member was written. *)
Theorem C01_members_print_parse : forall l, wf_attrs l = true ->
  forall sep o sep', append_json_attrs l sep = (o, sep') ->
  forall f n K, (length o <= f)%nat -> (sep' = true -> dh K) ->
    pstate sep (parse_value f) (n + length (exp_attrs l)) (o ++ K)
    = bindp (exp_attrs l) (pstate sep' (parse_value f) n K).
Proof. intros l Hwf sep o sep' E. exact (proj2 (proj2 (proj2 (proj2 (attrs_print l Hwf sep o sep' E))))). Qed.
Print Assumptions C01_members_print_parse.

Theorem C01_addsep_tracks_members : forall l, wf_attrs l = true ->
  forall sep o sep', append_json_attrs l sep = (o, sep') -> sep' = sep || nonempty (exp_attrs l).
Proof. intros l Hwf sep o sep' E. exact (proj1 (proj2 (attrs_print l Hwf sep o sep' E))). Qed.
Print Assumptions C01_addsep_tracks_members.

(** Stage 3: what With / WithGroup accumulate in [preformatted], [nOpenGroups], [addSep] is the
    recursive chain printer, for every tail. *)
Theorem C01_chain_invariant : forall c h inner T,
  pre (derive_from h c) ++ fst (append_json_attrs inner (addsep (derive_from h c)))
    ++ repeat 125 (nopen (derive_from h c)) ++ T
  = pre h ++ fst (chain_out c inner (addsep h)) ++ repeat 125 (nopen h) ++ T.
Proof. exact chain_invariant. Qed.
Print Assumptions C01_chain_invariant.

(** The source file printed is [source_file f.File]: the last two path elements ... *)
Theorem C01_source_file_last_two : forall p a b,
  (forall c, In c a -> c <> 47) -> (forall c, In c b -> c <> 47) ->
  source_file (p ++ 47 :: a ++ 47 :: b) = a ++ 47 :: b.
Proof. exact source_file_last_two. Qed.
Print Assumptions C01_source_file_last_two.

(** ... and, transcribed as the code is, f.File minus its FIRST BYTE when fewer than two '/' follow that byte
    (a known oddity: "a/b.go" is reported as "/b.go", "main.go" as "ain.go"; absolute paths never get there). *)
Theorem C01_source_file_short : forall c file,
  (forall a b, file <> a ++ 47 :: b) \/
  (exists a b, file = a ++ 47 :: b /\ (forall x, In x a -> x <> 47) /\ (forall x, In x b -> x <> 47)) ->
  source_file (c :: file) = file.
Proof. exact source_file_short. Qed.
Print Assumptions C01_source_file_short.

Example C01_source_file_examples :
  map source_file [ [47; 115; 114; 118; 47; 97; 34; 98; 47; 99; 46; 103; 111];   (* /srv/a<quote>b/c.go -> a<quote>b/c.go *)
                    [47; 97; 47; 98];                                            (* /a/b -> a/b *)
                    [97; 47; 98; 46; 103; 111];                                  (* a/b.go -> /b.go  (oddity) *)
                    [109; 97; 105; 110];                                         (* main -> ain      (oddity) *)
                    [] ]
  = [ [97; 34; 98; 47; 99; 46; 103; 111]; [97; 47; 98]; [47; 98; 46; 103; 111]; [97; 105; 110]; [] ].
Proof. vm_compute. reflexivity. Qed.

(** The numbers in the line denote the logged integers. *)
Theorem C01_int_text_faithful : forall z n, of_dec_z (to_dec_z z) = z /\ of_dec (to_dec n) = n.
Proof. intros z n. split; [exact (of_dec_z_to_dec_z z) | exact (of_dec_to_dec n)]. Qed.
Print Assumptions C01_int_text_faithful.

(** An embedded encoding/json result keeps its meaning in front of every continuation (prefix extension). *)
Theorem C01_raw_prefix_extension : forall b j K f,
  parse_exact b = Some j -> dh K -> (length b <= f)%nat -> parse_value f (b ++ K) = Some (j, K).
Proof. exact parse_exact_embedded. Qed.
Print Assumptions C01_raw_prefix_extension.

(** The REPAIRED defect (fix 4bd39fe), kept as a refutation of the pinned appendJsonAttr. *)
Theorem C01_old_attr_refuted :
  exists r, wf_record r = true /\ parse_object (strip_nl (old_handle r)) = None.
Proof. exact old_attr_refuted. Qed.
Print Assumptions C01_old_attr_refuted.

(** ** Non-vacuity: hostile inputs satisfy the hypotheses and the conclusion computes. *)
Definition hostile_chain : list deriv :=
  [ DAttrs [([97; 34; 10], VBool true); ([], VGroup [])];                 (* key with quote and newline; empty inline group *)
    DGroup [103; 255];                                                     (* group name with an invalid byte *)
    DAttrs [([], VGroup [([], VGroup [])])];                               (* With(...) of nothing, right after WithGroup *)
    DGroup [104];
    DAttrs [([101], VGroup []); ([120], VRaw (RErr [98; 97; 100; 34]))] ]. (* empty keyed group (omitted); encoding error *)

Definition hostile_record : record :=
  mkR [50; 48; 50; 52; 45; 48; 49; 45; 48; 49; 84; 48; 48; 58; 48; 48; 58; 48; 48; 90] LError
      (Some ([47; 120; 255; 47; 97; 34; 47; 98; 46; 103; 111], 42%Z))    (* /x<ff>/a<quote>/b.go *)
      [109; 0; 34; 92; 226; 128; 168; 237; 160; 128]
      [ ([107], VInt (-9223372036854775808));
        ([], VGroup []);
        ([117], VUint 18446744073709551615);
        ([], VGroup [([105], VStr [192; 175]); ([], VGroup []); ([106], VDur 1)]);
        ([114], VRaw (ROk [123; 34; 97; 34; 58; 91; 49; 44; 50; 46; 53; 101; 43; 49; 44; 110; 117; 108; 108; 93; 125]));
        ([226; 128; 169], VGroup [([], VGroup [])]);
        ([116], VTime [48; 48; 48; 49; 45; 48; 49; 45; 48; 49; 84; 48; 48; 58; 48; 48; 58; 48; 48; 90]);
        ([119], VRaw (ROk [34; 192; 175; 34]));                 (* a Marshaler returned invalid UTF-8 inside a string *)
        ([122], VErrStr [10; 13; 9]); ([], VAnsi [27]) ].

Example C01_hypotheses_satisfiable : wf_chain hostile_chain = true /\ wf_record hostile_record = true.
Proof. split; vm_compute; reflexivity. Qed.

Example C01_hostile_line :
  let w := handle (derive hostile_chain) hostile_record in
  parse_object (removelast w) = Some (JObj (expected hostile_chain hostile_record), []) /\ last w 0 = 10.
Proof. vm_compute. split; reflexivity. Qed.

(** the object really is nested and non-trivial: 4 fixed members, then a; g{ h{ x k u i j r t w z (empty key) } } —
    the keyed groups without members ([e], and U+2029 holding only an empty inline group) are omitted *)
Example C01_hostile_shape :
  match expected hostile_chain hostile_record with
  | [_; _; (_, JObj [_; _]); _; (_, JTrue); (_, JObj [(_, JObj ms)])] => length ms = 10%nat
  | _ => False
  end.
Proof. vm_compute. reflexivity. Qed.

(** the strict parser rejects what it must *)
Example C01_parser_is_strict :
  map parse_json
      [ [123; 34; 97; 34; 58; 49; 44; 125];            (* {"a":1,}  trailing comma *)
        [123; 34; 97; 34; 58; 49; 44; 44; 34; 98; 34; 58; 50; 125];  (* {"a":1,,"b":2} *)
        [34; 10; 34];                                   (* raw newline in a string *)
        [34; 92; 117; 100; 56; 48; 48; 34];             (* lone surrogate escape *)
        [48; 49];                                       (* leading zero *)
        [123; 125; 120] ]                               (* trailing garbage *)
  = [None; None; None; None; None; None].
Proof. vm_compute. reflexivity. Qed.

(** its one leniency: an invalid UTF-8 byte inside a string is U+FFFD; outside a string it is an error *)
Example C01_parser_leniency :
  parse_json [34; 255; 97; 192; 175; 34] = Some (JStr [239; 191; 189; 97; 239; 191; 189; 239; 191; 189])
  /\ parse_json [91; 255; 93] = None.
Proof. vm_compute. split; reflexivity. Qed.
