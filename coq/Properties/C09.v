(** C09 — Config sources obey priority: command line > environment > JSON > default. *)
From Coq Require Import List NArith ZArith Bool.
Import ListNotations.
From Glb Require Import Lib.ArgGrammar Model.ArgParse Model.FlagValue Model.Config Proofs.ArgParseP Proofs.ConfigP.
Open Scope N_scope.

(** For every world (environment, files, base64 and JSON decoders, value parsers outside the
    modelled sub-language), every list of struct fields and every argument vector: if
    NewFlagSet + Parse succeed with final state [s], then the command line was grammatical
    (C10) with assignments [asg], the JSON overlay [ov] is the one named by -config on the
    command line, else by CFG_CONFIG_B64, else none, and EVERY flag holds the value given by the
    highest-priority source that mentions it; texts go through the kind's Set ([set_T], where
    the empty text is the zero value), JSON values are taken as assigned. *)
Theorem C09_priority : forall (w : world) (fields : list flag) (args : list token) (s : state) (rest : list token),
  run w fields args = RParse (POk s rest) ->
  exists fs st0 asg ov,
    new_flag_set (w_set w) fields = NOk fs st0
    /\ arg_parse (table_of fs) args = Ok asg rest
    /\ json_overlay w asg = Some ov
    /\ forall f, In f fs -> exists v, get s (fname f) = Some v /\
         match cli_of asg f, env_of w f, json_of ov f with
         | Some t, _, _ => set_T (w_set w) (fkind f) t = SOk v
         | None, Some t, _ => set_T (w_set w) (fkind f) t = SOk v
         | None, None, Some jv => v = jv
         | None, None, None => set_T (w_set w) (fkind f) (fdef f) = SOk v
         end.
Proof. exact run_priority. Qed.
Print Assumptions C09_priority.

(** ([oracle_agree]: same IntSize and pointwise equal out-of-model parsers — no function extensionality.)
    The value of a flag depends only on its highest-priority source: two successful runs of
    the same flag set — other worlds, other command lines, other JSON, other values for every
    other flag and for the lower-priority sources of [f] — agree on [f] whenever the top source
    of [f] is the same. *)
Theorem C09_sources_independent : forall w1 w2 fields args1 args2 s1 s2 rest1 rest2,
  oracle_agree (w_set w1) (w_set w2) ->
  run w1 fields args1 = RParse (POk s1 rest1) -> run w2 fields args2 = RParse (POk s2 rest2) ->
  exists fs st0 asg1 asg2 ov1 ov2,
    new_flag_set (w_set w1) fields = NOk fs st0
    /\ arg_parse (table_of fs) args1 = Ok asg1 rest1 /\ arg_parse (table_of fs) args2 = Ok asg2 rest2
    /\ json_overlay w1 asg1 = Some ov1 /\ json_overlay w2 asg2 = Some ov2
    /\ forall f, In f fs ->
         top_source (cli_of asg1 f) (env_of w1 f) (json_of ov1 f) = top_source (cli_of asg2 f) (env_of w2 f) (json_of ov2 f) ->
         get s1 (fname f) = get s2 (fname f).
Proof. exact run_sources_independent. Qed.
Print Assumptions C09_sources_independent.

(** If the winning text of some flag (command line, else environment) is rejected by the kind's
    Set, Parse fails — whatever the other flags and the JSON say (C10's "unparsable effective
    value yields an error" rests on this); and no input makes NewFlagSet + Parse panic. *)
Theorem C09_winning_text_unparsable_fails : forall w fields args fs st0 asg rest f t,
  new_flag_set (w_set w) fields = NOk fs st0 ->
  arg_parse (table_of fs) args = Ok asg rest -> In f fs ->
  match cli_of asg f with Some x => Some x | None => env_of w f end = Some t ->
  set_T (w_set w) (fkind f) t = SErr ->
  run w fields args = RParse PErr.
Proof. exact run_unparsable_fails. Qed.
Print Assumptions C09_winning_text_unparsable_fails.

Theorem C09_never_panics : forall w fields args, run w fields args <> RParse PPanic.
Proof. exact run_never_panics. Qed.
Print Assumptions C09_never_panics.

(** One FlagSet, several Parse calls (each in its own world: the environment and the files may
    change in between): the first call is exactly [run] — to which [C09_priority] applies when it
    succeeds — and every later call is refused ("must be called once") and leaves the object, in
    particular the struct's fields, unchanged.  Hence a Parse that returns nil is always the first
    one on its FlagSet, and its values come from the sources of THAT call only. *)
Theorem C09_parse_once : forall w ob args, ob_parsed ob = true -> parse_call w ob args = (ob, PAlready).
Proof. exact parse_call_again. Qed.
Print Assumptions C09_parse_once.

Theorem C09_history : forall w fields ob a cs,
  new_object (w_set w) fields = Some ob ->
  exists r0, run w fields a = RParse r0 /\ history ob ((w, a) :: cs) = r0 :: repeat PAlready (length cs).
Proof. exact history_first. Qed.
Print Assumptions C09_history.

(** Tags: both syntaxes split into name / default / usage at the first two separators (extra
    separators belong to the usage); an empty name means the lower-cased field name; a nested
    struct contributes its fields with the group path extended by its name and '_'.
    ([C09_priority] holds for every field list, in particular for [flatten] of a struct.) *)
Theorem C09_tag_syntax : forall n v u fld,
  (~ In 44 n -> ~ In 44 v -> (forall r, n <> 124 :: r) ->
     parse_tag (n ++ 44 :: v ++ 44 :: u) fld = (match n with [] => ascii_lower fld | _ => n end, v, u)
     /\ parse_tag (n ++ 44 :: v) fld = (match n with [] => ascii_lower fld | _ => n end, v, [])
     /\ parse_tag n fld = (match n with [] => ascii_lower fld | _ => n end, [], []))
  /\ (~ In 124 n -> ~ In 124 v ->
     parse_tag (124 :: n ++ 124 :: v ++ 124 :: u) fld = (match n with [] => ascii_lower fld | _ => n end, v, u)
     /\ parse_tag (124 :: n ++ 124 :: v) fld = (match n with [] => ascii_lower fld | _ => n end, v, [])
     /\ parse_tag (124 :: n) fld = (match n with [] => ascii_lower fld | _ => n end, [], [])).
Proof.
  intros n v u fld. split.
  - intros H1 H2 H3. exact (tag_syntax n v u fld 44 (fun x => x) (or_introl (conj eq_refl (conj H3 eq_refl))) H1 H2).
  - intros H1 H2. exact (tag_syntax n v u fld 124 (cons 124) (or_intror (conj eq_refl eq_refl)) H1 H2).
Qed.
Print Assumptions C09_tag_syntax.

Theorem C09_struct_recursion : forall group n tag k fs,
  flatten_field group (SLeaf n tag k)
  = [ {| fname := fst (fst (parse_tag tag n)); fpath := group ++ n; fkind := k; fdef := snd (fst (parse_tag tag n)) |} ]
  /\ flatten_field group (SStruct n fs) = flat_map (flatten_field (group ++ n ++ [95])) fs.
Proof. intros. split; [apply flatten_leaf | apply flatten_struct]. Qed.
Print Assumptions C09_struct_recursion.

(** An empty textual value means the type's zero value, for every kind and every oracle —
    as a tag default, on the command line ("-name=") and in the environment (set but empty). *)
Theorem C09_empty_is_zero : forall o k, set_T o k [] = SOk (zero k).
Proof. exact set_T_empty. Qed.
Print Assumptions C09_empty_is_zero.

(** NewFlagSet hands argParse a table that is well-formed in the sense of C10. *)
Theorem C09_table_wf : forall o fields fs st0,
  new_flag_set o fields = NOk fs st0 -> (forall f, In f fields -> fname f <> []) -> wf_table (table_of fs).
Proof.
  intros o fields fs st0 H Hne. apply (new_flag_set_table_wf o fields fs st0 H Hne).
  exact (add_fields_sub o fields _ _ _ _ H).
Qed.
Print Assumptions C09_table_wf.

(** Environment names (Underscore(…, true)): only [A-Z0-9_], never a leading, trailing or
    doubled '_'; the function is idempotent (for both cases of [upper]). *)
Theorem C09_env_name_charset : forall s c, In c (underscore s true) ->
  c = 95 \/ (65 <=? c) && (c <=? 90) || (48 <=? c) && (c <=? 57) = true.
Proof. exact (fun s => underscore_charset s true). Qed.
Print Assumptions C09_env_name_charset.

Theorem C09_env_name_shape : forall s upper a b,
  no_lead (underscore s upper) = true
  /\ (underscore s upper = a ++ 95 :: b -> b <> [] /\ forall x r, b = x :: r -> x <> 95).
Proof.
  intros s upper a b. destruct (underscore_shape s upper) as [A B]. split; [exact B|].
  exact (snake_no_double upper _ a b A).
Qed.
Print Assumptions C09_env_name_shape.

Theorem C09_underscore_idempotent : forall s upper, underscore (underscore s upper) upper = underscore s upper.
Proof. exact underscore_idempotent. Qed.
Print Assumptions C09_underscore_idempotent.

(** Non-vacuity: fields  Port int `p,8080` (path Port), Addr string `addr,:80` (path Server_Addr),
    Debug bool `debug,false`, T duration `t,1s`.  Command line: -p=1 -config=c.json;
    environment: CFG_PORT=2, CFG_SERVER_ADDR="" (set but empty), CFG_T=5m;
    JSON: Port=3, Server.Addr="j", Debug=true. *)
Definition ex_fields : list flag :=
  [ {| fname := [112]; fpath := [80;111;114;116]; fkind := KInt; fdef := [56;48;56;48] |};
    {| fname := [97;100;100;114]; fpath := [83;101;114;118;101;114;95;65;100;100;114]; fkind := KString; fdef := [58;56;48] |};
    {| fname := [100;101;98;117;103]; fpath := [68;101;98;117;103]; fkind := KBool; fdef := [102;97;108;115;101] |};
    {| fname := [116]; fpath := [84]; fkind := KDuration; fdef := [49;115] |} ].

Definition ex_world : world :=
  {| w_env := fun n => if bytes_eqb n [67;70;71;95;80;79;82;84] then Some [50]
                       else if bytes_eqb n [67;70;71;95;83;69;82;86;69;82;95;65;68;68;82] then Some []
                       else if bytes_eqb n [67;70;71;95;84] then Some [53;109] else None;
     w_file := fun p => if bytes_eqb p [99;46;106;115;111;110] then Some [123;125] else None;
     w_b64 := fun _ => None;
     w_json := fun _ => Some [([112], VInt 3); ([97;100;100;114], VString [106]); ([100;101;98;117;103], VBool true)];
     w_set := {| o_int_size := 64; o_parse := fun _ _ => SErr |} |}.

Example C09_example :
  run ex_world ex_fields [[45;112;61;49]; [45;99;111;110;102;105;103;61;99;46;106;115;111;110]; [120]]
  = RParse (POk [ (help_name, VBool false); (config_name, VString [99;46;106;115;111;110]);
                  ([112], VInt 1);                 (* cli beats env and JSON *)
                  ([97;100;100;114], VString []);  (* env set-but-empty beats JSON and the default: zero value *)
                  ([100;101;98;117;103], VBool true);   (* JSON beats the default *)
                  ([116], VDur 300000000000) ]     (* env beats the default *)
                [[120]]).
Proof. vm_compute. reflexivity. Qed.

Example C09_example_env_name :
  fenv {| fname := [97]; fpath := [72;84;84;80;83;101;114;118;101;114;95;84;76;83;75;101;121;50;88]; fkind := KString; fdef := [] |}
  = [67;70;71;95;72;84;84;80;95;83;69;82;86;69;82;95;84;76;83;95;75;69;89;50;88].   (* CFG_HTTP_SERVER_TLS_KEY2X *)
Proof. vm_compute. reflexivity. Qed.

(** tags of the harness's third struct type: `flag:",33,"`, `flag:"||def|"`, `flag:"|"`, `flag:"a,b,c,d"` on field "MaxConn" *)
Example C09_example_tags :
  parse_tag [44;51;51;44] [77;97;120;67;111;110;110] = ([109;97;120;99;111;110;110], [51;51], [])
  /\ parse_tag [124;124;100;101;102;124] [77;97;120;67;111;110;110] = ([109;97;120;99;111;110;110], [100;101;102], [])
  /\ parse_tag [124] [77;97;120;67;111;110;110] = ([109;97;120;99;111;110;110], [], [])
  /\ parse_tag [97;44;98;44;99;44;100] [77;97;120;67;111;110;110] = ([97], [98], [99;44;100]).
Proof. vm_compute. repeat split; reflexivity. Qed.
