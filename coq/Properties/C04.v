(** C04 — the router dispatches every request to exactly one handler by the documented precedence. *)
From Coq Require Import List NArith.
Import ListNotations.
From Glb Require Import Lib.RouteBytes Lib.RouteSpec Model.Router Proofs.RouterP.

(** Objects.  [register_all routes] is [Mux.Handle] applied to every (pattern, method) in
    order on a fresh Mux ([None]: some Handle panicked).  [serve_http table path method] is
    the routing part of [Mux.ServeHTTP]: [None] would be a runtime panic of findRoute
    (index or slice out of range), otherwise the list of relay-handler invocations, each
    with the selected route (or the no-route info) and the request's [Params].
    [match_spec] (Lib/RouteSpec.v) is the table-level reading of the documented rules and
    never mentions the trie.  Everything is quantified over arbitrary byte strings.

    Two remarks on what is proved where.
    - "Exactly one handler, exactly once" is STRUCTURAL in the model: [serve_http] follows
      ServeHTTP, which calls [mux.relayHandler(store)] once after findRoute, so it builds a
      singleton list whenever findRoute does not panic.  What the theorems add is that findRoute
      never panics and WHICH target is in the singleton.  That the real Mux invokes exactly one
      handler is COUNTED by the harness on every request (outcomes calls<n> / panic are
      violations), not derived from the source.
    - Two quirks of the code are hard-coded in the specification rather than hidden: the FIRST
      BYTE of every pattern and of every request path is ignored whatever it is ([segments] splits
      [tl s]), and every path of at most one byte ("", "/", "x") behaves as "/" ([match_spec]'s
      [[ [] ]] case: the routes with the empty pattern are tried first). *)

(** Exactly one handler invocation, never a panic. *)
Theorem C04_no_panic_one_call : forall routes table path method,
  register_all routes = Some table ->
  exists r ps, serve_http table path method = Some [Call r ps].
Proof.
  intros routes table path method H.
  destruct (serve_http_dispatch routes table path method H) as [ps [E _]]. eauto.
Qed.
Print Assumptions C04_no_panic_one_call.

(** The invoked route is the one the specification selects, with that route's own
    parameter names and the values the specification binds; otherwise the no-route
    handler runs with no names. *)
Theorem C04_dispatch : forall routes table path method,
  register_all routes = Some table ->
  exists ps,
    serve_http table path method
    = Some [Call (match match_spec routes (segments path) method with
                  | Some m => Route (m_route m)
                  | None => NoRoute
                  end) ps]
    /\ match match_spec routes (segments path) method with
       | Some m => pK ps = m_names m /\ v_items (pV ps) = m_values m
       | None => pK ps = []
       end.
Proof. exact serve_http_dispatch. Qed.
Print Assumptions C04_dispatch.

(** When a route is matched: K and V are aligned (so [Params.Get] never indexes out of
    range and [RouteParam name] is the bound value, "" for foreign names), and every value
    is a piece of the request path: one of its '/'-free segments (:param) or the remainder
    [join47 (skipn k segments)] (for [*]) — literally a sub-string of [path]. *)
Theorem C04_params_bound : forall routes table path method m,
  register_all routes = Some table ->
  match_spec routes (segments path) method = Some m ->
  exists ps, serve_http table path method = Some [Call (Route (m_route m)) ps]
    /\ pK ps = m_names m /\ v_items (pV ps) = m_values m
    /\ length (pK ps) = length (v_items (pV ps))
    /\ (forall name, route_param_of ps name = Some (lookup_param (m_names m) (m_values m) name))
    /\ Forall (fun v => (In v (segments path) \/ exists k, v = join47 (skipn k (segments path)))
                        /\ exists pre post, path = pre ++ v ++ post)
              (v_items (pV ps)).
Proof. exact serve_http_params_bound. Qed.
Print Assumptions C04_params_bound.

(** The no-route handler reads "" for every parameter name, without panic. *)
Theorem C04_noroute_params : forall routes table path method,
  register_all routes = Some table ->
  match_spec routes (segments path) method = None ->
  exists ps, serve_http table path method = Some [Call NoRoute ps]
    /\ forall name, route_param_of ps name = Some [].
Proof. exact serve_http_noroute. Qed.
Print Assumptions C04_noroute_params.

(** Handle panics on an unknown method, an empty or repeated [:name], or a route with the
    same shape and method as an earlier one ... *)
Theorem C04_register_rejects : forall routes table path method,
  register_all routes = Some table ->
  valid_method method = false
  \/ pattern_ok (pattern path) = false
  \/ (exists r, In r routes /\ same_route (path, method) r = true) ->
  handle table path method = None.
Proof. exact handle_rejects. Qed.
Print Assumptions C04_register_rejects.

(** ... and only then; an accepted route extends the table. *)
Theorem C04_register_accepts : forall routes table path method,
  register_all routes = Some table ->
  (handle table path method <> None <-> accepts routes (path, method) = true).
Proof. exact handle_accepts_iff. Qed.
Print Assumptions C04_register_accepts.

Theorem C04_register_all : forall routes, register_all routes <> None <-> table_ok routes = true.
Proof. exact register_all_iff. Qed.
Print Assumptions C04_register_all.

Theorem C04_register_extends : forall routes table path method table',
  register_all routes = Some table -> handle table path method = Some table' ->
  register_all (routes ++ [(path, method)]) = Some table'.
Proof. exact handle_extends. Qed.
Print Assumptions C04_register_extends.

(** parseRoute's failures are its three error returns, never an index/slice panic. *)
Theorem C04_parse_no_runtime_panic : forall root path method info,
  snd (parse_route root path method info) <> PErr ErrRuntimePanic.
Proof. exact parse_route_no_runtime_panic. Qed.
Print Assumptions C04_parse_no_runtime_panic.

(** * Non-vacuity: a realistic table (literal vs :param vs * at one level, trailing slash,
    "/" itself, exact method vs "*", a pattern without leading slash and with "//") *)
Local Open Scope N_scope.
Definition ex_routes : list (list N * list N) :=
  [ ([47], [71;69;84])   (* 0: GET / *);
    ([47;58;112], [71;69;84])   (* 1: GET /:p *);
    ([47;42], [42])   (* 2: * / * *);
    ([47;97], [71;69;84])   (* 3: GET /a *);
    ([47;97;47;58;120], [71;69;84])   (* 4: GET /a/:x *);
    ([47;97;47;42], [71;69;84])   (* 5: GET /a/ * *);
    ([47;97;47;98], [80;79;83;84])   (* 6: POST /a/b *);
    ([47;97;47;98], [42])   (* 7: * /a/b *);
    ([47;117;47;58;97;47;58;98;47;120], [71;69;84])   (* 8: GET /u/:a/:b/x *);
    ([110;111;108;101;97;100;47;47;122;47], [80;85;84]);   (* 9: PUT nolead//z/ *)
    ([47;115;47;42], [71;69;84])   (* 10: GET /s/ * *) ].

Definition GET := [71;69;84].
Definition PUT := [80;85;84].
Definition ex_serve (path method : list N) :=
  match register_all ex_routes with Some t => serve_http t path method | None => None end.
Definition who_vals (r : option (list event)) :=
  match r with
  | Some [Call t ps] => Some (t, pK ps, v_items (pV ps))
  | _ => None
  end.

Example ex_table_accepted : table_ok ex_routes = true /\ register_all ex_routes <> None.
Proof. split; vm_compute; [reflexivity | discriminate]. Qed.

(** the specification, evaluated, gives the same answer (it must, by C04_dispatch) *)
Definition C04_spec_agrees (routes : list (list N * list N)) (path method : list N) : Prop :=
  match match_spec routes (segments path) method, who_vals (match register_all routes with Some t => serve_http t path method | None => None end) with
  | Some m, Some (Route r, k, v) => m_route m = r /\ m_names m = k /\ m_values m = v
  | None, Some (NoRoute, _, _) => True
  | _, _ => False
  end.

Example ex_slash_itself :   (* GET '/' *)
  who_vals (ex_serve [47] GET) = Some (Route 0%nat, [], [])
  /\ C04_spec_agrees ex_routes [47] GET.
Proof. split; vm_compute; [reflexivity | repeat split]. Qed.

Example ex_slash_other_method_param_first_no_backtracking :   (* PUT '/': "/:p" binds "" and has no PUT; "/ *" is not retried *)
  who_vals (ex_serve [47] PUT) = Some (NoRoute, [], [ [] ])
  /\ C04_spec_agrees ex_routes [47] PUT.
Proof. split; vm_compute; [reflexivity | repeat split]. Qed.

Example ex_empty_path_like_slash :   (* GET '' *)
  who_vals (ex_serve [] GET) = Some (Route 0%nat, [], [])
  /\ C04_spec_agrees ex_routes [] GET.
Proof. split; vm_compute; [reflexivity | repeat split]. Qed.

Example ex_literal_beats_param :   (* GET '/a' *)
  who_vals (ex_serve [47;97] GET) = Some (Route 3%nat, [], [])
  /\ C04_spec_agrees ex_routes [47;97] GET.
Proof. split; vm_compute; [reflexivity | repeat split]. Qed.

Example ex_param_when_no_literal :   (* GET '/zz' *)
  who_vals (ex_serve [47;122;122] GET) = Some (Route 1%nat, [[112]], [[122;122]])
  /\ C04_spec_agrees ex_routes [47;122;122] GET.
Proof. split; vm_compute; [reflexivity | repeat split]. Qed.

Example ex_literal_then_star_method :   (* GET '/a/b' *)
  who_vals (ex_serve [47;97;47;98] GET) = Some (Route 7%nat, [], [])
  /\ C04_spec_agrees ex_routes [47;97;47;98] GET.
Proof. split; vm_compute; [reflexivity | repeat split]. Qed.

Example ex_param_beats_star :   (* GET '/a/c' *)
  who_vals (ex_serve [47;97;47;99] GET) = Some (Route 4%nat, [[120]], [[99]])
  /\ C04_spec_agrees ex_routes [47;97;47;99] GET.
Proof. split; vm_compute; [reflexivity | repeat split]. Qed.

Example ex_trailing_slash_binds_empty_param :   (* GET '/a/' *)
  who_vals (ex_serve [47;97;47] GET) = Some (Route 4%nat, [[120]], [ [] ])
  /\ C04_spec_agrees ex_routes [47;97;47] GET.
Proof. split; vm_compute; [reflexivity | repeat split]. Qed.

Example ex_no_backtracking :   (* GET '/a/c/d' *)
  who_vals (ex_serve [47;97;47;99;47;100] GET) = Some (NoRoute, [], [[99]])
  /\ C04_spec_agrees ex_routes [47;97;47;99;47;100] GET.
Proof. split; vm_compute; [reflexivity | repeat split]. Qed.

Example ex_star_takes_remainder :   (* GET '/s/r//t/' *)
  who_vals (ex_serve [47;115;47;114;47;47;116;47] GET) = Some (Route 10%nat, [any_name], [[114;47;47;116;47]])
  /\ C04_spec_agrees ex_routes [47;115;47;114;47;47;116;47] GET.
Proof. split; vm_compute; [reflexivity | repeat split]. Qed.

Example ex_param_shadows_star_no_backtracking :   (* PUT '/q/r': "/:p" binds q, nothing below; "/ *" is not retried *)
  who_vals (ex_serve [47;113;47;114] PUT) = Some (NoRoute, [], [[113]])
  /\ C04_spec_agrees ex_routes [47;113;47;114] PUT.
Proof. split; vm_compute; [reflexivity | repeat split]. Qed.

Example ex_two_params :   (* GET '/u/1/2/x' *)
  who_vals (ex_serve [47;117;47;49;47;50;47;120] GET) = Some (Route 8%nat, [[97]; [98]], [[49]; [50]])
  /\ C04_spec_agrees ex_routes [47;117;47;49;47;50;47;120] GET.
Proof. split; vm_compute; [reflexivity | repeat split]. Qed.

Example ex_first_byte_ignored_both_sides :   (* PUT 'Xolead/z' *)
  who_vals (ex_serve [88;111;108;101;97;100;47;122] PUT) = Some (Route 9%nat, [], [])
  /\ C04_spec_agrees ex_routes [88;111;108;101;97;100;47;122] PUT.
Proof. split; vm_compute; [reflexivity | repeat split]. Qed.

Example ex_unknown_method_only_star :   (* BOGUS '/a/b' *)
  who_vals (ex_serve [47;97;47;98] [66;79;71;85;83]) = Some (Route 7%nat, [], [])
  /\ C04_spec_agrees ex_routes [47;97;47;98] [66;79;71;85;83].
Proof. split; vm_compute; [reflexivity | repeat split]. Qed.


(** Caveat kept on record (not part of the property, which quantifies over tables whose
    registrations all succeeded): parseRoute creates trie nodes before it detects a bad
    [:name], so a Handle that panicked and was recovered leaves an empty "/:param" node
    behind which shadows a later "*" at that level.  Confirmed on the real Mux. *)
Example rejected_registration_leaves_residue :
  let routes := [([47;97;47;42], GET)] in
  match register_all routes with
  | Some t =>
    match parse_route (t_root t) [47;97;47;58;120;47;58;120] GET 1 with
    | (root', PErr ErrFragment) =>
      who_vals (serve_http {| t_root := root'; t_max_params := 1; t_count := 1 |} [47;97;47;102;111;111] GET) = Some (NoRoute, [], [ [102;111;111] ])
      /\ who_vals (serve_http t [47;97;47;102;111;111] GET) = Some (Route 0%nat, [any_name], [ [102;111;111] ])
    | _ => False
    end
  | None => False
  end.
Proof. vm_compute. split; reflexivity. Qed.
