(** C07 — TaskLane shuts down cleanly when its context is cancelled.

    [cancelled s] is the context's Done state ([Cancel] is the cancel() call or the deadline; once true it
    stays true). [all_dead s]: all 2*laneSize goroutines have returned, i.e. wg.Wait() returns.
    "Wait returns once every started task has returned" is given as: after the cancel, every run of
    internal steps and task returns is finite (bounded by [measure]), and when it cannot be extended every
    goroutine is dead — regardless of what is still buffered or held (those tasks are dropped).
    After the cancel a hand-over that was already enabled may still happen (Go's select picks any ready
    case), so "no task running" is not stable under internal steps; therefore the main statement counts
    task returns among the steps of the run, and the internal-only variant assumes nothing is running at
    the end. Real time and scheduler fairness are outside the model (partial in that sense). *)
From Coq Require Import List Arith Bool.
Import ListNotations.
From Glb Require Import Model.TaskLane Proofs.TaskLaneP Proofs.TaskLaneInv Proofs.TaskLaneLive Proofs.TaskLaneDec.

(** A PushTask call that begins after the cancel returns the context error: it does not touch any
    lane, accepts nothing, and its task is recorded as failed (hence never started: C06_exactly_once). *)
Theorem C07_push_after_cancel : forall qs s p i t s',
  cancelled s = true -> step qs s (PushBegin p i t) = Some s' ->
  result_of s' p = Some RCtxErr /\ lanes s' = lanes s /\ accepted s' = accepted s /\ started s' = started s
  /\ In t (failed s').
Proof. exact push_after_cancel. Qed.
Print Assumptions C07_push_after_cancel.

(** ... and such a call never blocks (fresh task id, producer not inside another call). *)
Theorem C07_push_after_cancel_enabled : forall qs s p i t,
  cancelled s = true -> is_pending (pstate_of s p) = false -> ~ In t (pushed s) ->
  step qs s (PushBegin p i t) <> None.
Proof. exact push_after_cancel_enabled. Qed.
Print Assumptions C07_push_after_cancel_enabled.

(** A producer blocked inside PushTask is released by the cancel: its context-error return is enabled,
    touches no lane and accepts nothing. *)
Theorem C07_blocked_released : forall qs s p i t,
  cancelled s = true -> pstate_of s p = Pending i t ->
  exists s', step qs s (PushCtxErr p) = Some s' /\ result_of s' p = Some RCtxErr /\ lanes s' = lanes s
             /\ accepted s' = accepted s.
Proof. exact blocked_released. Qed.
Print Assumptions C07_blocked_released.

(** After the cancel: every run of internal steps and task returns has at most [measure s] steps, and if
    it cannot be extended ([stuck qs quiet s']) all goroutines are dead. No hypothesis on buffers, held
    tasks, hand-overs in flight, blocked producers. *)
Theorem C07_wait_returns : forall qs s ls s',
  cancelled s = true ->
  forallb quiet ls = true -> run qs s ls = Some s' -> stuck qs quiet s' ->
  all_dead s' /\ length ls <= measure s.
Proof. exact wait_returns. Qed.
Print Assumptions C07_wait_returns.

(** Internal-only variant: a maximal internal run after the cancel that ends with no task inside Start(). *)
Theorem C07_wait_returns_internal : forall qs s ls s',
  cancelled s = true -> forallb internal ls = true -> run qs s ls = Some s' ->
  stuck qs internal s' -> running s' = [] -> all_dead s' /\ length ls <= measure s.
Proof. exact wait_returns_internal. Qed.
Print Assumptions C07_wait_returns_internal.

(** What Wait() can still be waiting for when the lane cannot move: only workers inside Start(). *)
Theorem C07_only_running_tasks_delay_wait : forall qs s,
  cancelled s = true -> stuck qs internal s ->
  Forall (fun l => qalive (q l) = false /\ (walive (w l) = false \/ exists t, w l = WRun t)) (lanes s).
Proof. exact cancelled_stuck_only_running. Qed.
Print Assumptions C07_only_running_tasks_delay_wait.

(** Once all goroutines are dead nothing is ever started again, whatever happens afterwards
    (pushes, Status calls, ...), and they stay dead. *)
Theorem C07_nothing_after_wait : forall qs s ls s',
  all_dead s -> run qs s ls = Some s' -> started s' = started s /\ all_dead s'.
Proof. exact nothing_after_wait. Qed.
Print Assumptions C07_nothing_after_wait.

(** The empty lane (laneSize 0, a legal configuration): there is no goroutine, so Wait() returns at once - cancelled or
    not - and whatever is called on it afterwards, nothing is ever started. (The harness scenario EmptyLane drives this
    configuration; a lane whose Wait() hangs because "the last goroutine closes the channel" was a seeded regression.) *)
Theorem C07_empty_lane : forall qs ls s',
  all_dead (init 0) /\ (run qs (init 0) ls = Some s' -> started s' = [] /\ all_dead s').
Proof.
  intros qs ls s'. assert (H0 : all_dead (init 0)) by (apply Forall_nil).
  split; [exact H0|]. intros Hr. exact (nothing_after_wait qs (init 0) ls s' H0 Hr).
Qed.
Print Assumptions C07_empty_lane.

(** Non-vacuity: 2 lanes, queueSize 1; queue goroutine 0 holds task 10 (counted), 11 is buffered, producer 2 is
    blocked on the full lane, an observer is in the middle of Status(); then Cancel. *)
Definition C07_ex : list label :=
  [PushBegin 0 0 10; PushOk 0; QTake 0; QCount 0;
   PushBegin 1 0 11; PushOk 1;
   PushBegin 2 0 12;
   StatusBegin 0; StatusReadLen 0 0;
   Cancel].
Definition C07_ex_tail : list label := [QCheck 0; QDie 1; WCheck 0; WCheck 1].

Example C07_ex_cancelled :
  option_map (fun s => (cancelled s, pstate_of s 2, map q (lanes s), map buf (lanes s))) (run 1 (init 2) C07_ex)
  = Some (true, Pending 0 12, [QHeld 10; QWait], [[11]; []]).
Proof. vm_compute. reflexivity. Qed.

(** the tail is a run of quiet labels that cannot be extended; all dead; 10 and 11 were dropped, nothing started *)
Example C07_ex_wait :
  option_map (fun s => (forallb quiet C07_ex_tail, quiet_stuckb 1 s, all_deadb s, started s, accepted s))
    (run 1 (init 2) (C07_ex ++ C07_ex_tail))
  = Some (true, true, true, [], [11; 10]).
Proof. vm_compute. reflexivity. Qed.

(** blocked producer released, a later push refused, Status completes; still nothing started *)
Example C07_ex_after :
  option_map (fun s => (result_of s 2, result_of s 3, failed s, snapshots s, started s, all_deadb s))
    (run 1 (init 2) (C07_ex ++ C07_ex_tail ++
       [PushCtxErr 2; PushBegin 3 1 13; StatusReadLen 0 1; StatusReadCnt 0; StatusReadPanic 0]))
  = Some (Some RCtxErr, Some RCtxErr, [13; 12], [(2, None)], [], true).
Proof. vm_compute. reflexivity. Qed.

(** a hand-over can still happen after the cancel (both select cases ready): the reason C07_wait_returns counts task returns *)
Example C07_ex_late_handover :
  option_map (fun s => (cancelled s, running s))
    (run 1 (init 1) [WCheck 0; WTryFail 0; PushBegin 0 0 10; PushOk 0; QTake 0; QCount 0; QCheck 0; QTryFail 0;
                     Cancel; QOfferOwn 0])
  = Some (true, [10]).
Proof. vm_compute. reflexivity. Qed.

Theorem C07_all_dead_check : forall s, all_deadb s = true <-> all_dead s.
Proof. exact all_deadb_sound. Qed.
Print Assumptions C07_all_dead_check.
Theorem C07_stuck_check : forall qs s, quiet_stuckb qs s = true -> stuck qs quiet s.
Proof. exact quiet_stuckb_sound. Qed.
Print Assumptions C07_stuck_check.
