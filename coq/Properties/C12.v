(** C12 — IPv4Filter is safe and consistent under concurrent updates and lookups. *)
From Coq Require Import List Arith NArith Bool.
Import ListNotations.
From Glb Require Import Lib.NetIP Lib.CidrSet Model.Filter Proofs.FilterP Model.FilterConc Proofs.FilterConcP.
Open Scope N_scope.

(** No atomic section of any execution panics: [crashed] is set by the semantics when a
    critical section of Model/Filter.v returns [None] (index out of range, write to a nil
    map, short slice) — no interleaving of any programs reaches such a state, and from a
    reachable state every enabled label leads to a state that has not crashed. *)
Theorem C12_no_crash : forall progs ls s,
  crun (cinit progs) ls = Some s ->
  crashed s = false /\ forall l s', step s l = Some s' -> crashed s' = false.
Proof. intros progs ls s H. split; [exact (no_crash _ _ _ H) | intros l s'; exact (no_crash_step _ _ _ _ _ H)]. Qed.
Print Assumptions C12_no_crash.

(** Any number of threads, any programs of Add / Remove / Contains calls, any
    interleaving [pre] of their atomic actions up to a state [s], then any interleaving
    that starts with thread [t]'s [LoadMatchAll] (the first action of a Contains call)
    and ends with the action at which that call returns ([results_of] of [t] grows exactly
    at the end of the segment): [visited] are the states during the call (the state before
    each of these actions, whoever takes it).
    - If some range — 0.0.0.0/0 or a proper prefix — contains the probe and is in the live
      set at every one of these states, the call returns true.
    - If at none of these states any live range contains the probe, it returns false.
    The live set at a state is the specification's ([Lib/CidrSet]) live set of the updates
    linearised so far. *)
Theorem C12_lookup_sound : forall progs pre s,
  crun (cinit progs) pre = Some s ->
  forall t seg visited s' ip r,
    exec s (LoadMatchAll t :: seg) = Some (visited, s') ->
    results_of s' t = results_of s t ++ [(ip, r)] ->
    (forall v, In v visited -> results_of v t = results_of s t) ->
    ((exists rho, rcovers rho ip = true /\ forall v, In v visited -> rlive v rho) -> r = true)
    /\ ((forall v rho, In v visited -> rlive v rho -> rcovers rho ip = false) -> r = false).
Proof. exact lookup_sound. Qed.
Print Assumptions C12_lookup_sound.

(** Once every thread has finished, the filter answers every probe as the plain set
    obtained by applying thread 0's updates in program order, then thread 1's, ... —
    provided no range is updated by two threads (then the order between threads is
    irrelevant). *)
Theorem C12_quiescent : forall progs,
  disjoint_owners progs ->
  forall ls s, crun (cinit progs) ls = Some s -> finished s = true ->
  forall ip, contains (filt s) ip = Some (spec_contains (concat (map updates_of progs)) ip).
Proof. exact quiescent. Qed.
Print Assumptions C12_quiescent.

(** Without the ownership hypothesis, and at every reachable state: the filter answers as
    the live set of the linearised history (the order in which the atomic sections ran). *)
Theorem C12_linearisable : forall progs ls s,
  crun (cinit progs) ls = Some s -> forall ip, contains (filt s) ip = Some (spec_contains (lin s) ip).
Proof. exact quiescent_linearised. Qed.
Print Assumptions C12_linearisable.

(** No call gets stuck: in every reachable state every unfinished thread can take a step;
    and every step uses up one of finitely many actions, so all executions are finite. *)
Theorem C12_no_stuck : forall progs ls s t th,
  crun (cinit progs) ls = Some s -> nth_error (threads s) t = Some th -> thread_finished th = false ->
  exists l s', thread_of l = t /\ step s l = Some s' /\ crashed s' = false.
Proof. exact no_stuck. Qed.
Print Assumptions C12_no_stuck.

Theorem C12_terminates : forall progs ls v f,
  exec (cinit progs) ls = Some (v, f) -> (length ls + measure f <= measure (cinit progs))%nat.
Proof. exact exec_bounded_init. Qed.
Print Assumptions C12_terminates.

(* ---- non-vacuity ---- *)

Definition net (a b c d n : N) : cidr := mkCidr [a; b; c; d] (bytes_of_u32 (pmask n)).
Definition nth_net (i : nat) : cidr := net 10 (N.of_nat i / 256) (N.of_nat i mod 256) 77 24.

(** thread 0 adds 300 ranges (the list is full after its 256th Add; thread 2's first Add migrates); thread 1 looks up an
    address of range 3 and one that is never covered; thread 2 toggles 0.0.0.0/0 and removes
    its own range.  The first lookup is in flight (between its two labels) while the
    migration happens. *)
Definition progs3 : list (list cop) :=
  [ map (fun i => CUpd (Add (nth_net i))) (seq 0 300);
    [CLookup [10;0;3;9]; CLookup (v4mapped [11;0;0;1]); CLookup [10;1;43;1]];
    [CUpd (Add (net 192 168 1 1 16)); CUpd (Add (net 0 0 0 0 0)); CUpd (Remove (net 9 9 9 9 0));
     CUpd (Remove (net 192 168 200 200 16)); CUpd (Add (mkCidr [1;2;3;4] [255;0;255;0]))] ].

Definition sched3 : list label :=
  map (fun i => LockedAdd 0 (nth_net i)) (seq 0 256)
  ++ [LoadMatchAll 1; LockedAdd 2 (net 192 168 1 1 16)]   (* the 257th Add: the migration, with a lookup in flight *)
  ++ [LockedAdd 0 (nth_net 256)]
  ++ [LockedScan 1; StoreMatchAll 2 true; LoadMatchAll 1; StoreMatchAll 2 false; LoadMatchAll 1]
  ++ map (fun i => LockedAdd 0 (nth_net i)) (seq 257 43)
  ++ [LockedRemove 2 (net 192 168 200 200 16); LockedScan 1; RejectArg 2].

Example C12_example_run :
  match crun (cinit progs3) sched3 with
  | Some s => (finished s, results_of s 1, mode_maps (filt s), length (lin s), crashed s)
  | None => (false, [], false, 0%nat, true)
  end
  = (true, [([10;0;3;9], true); (v4mapped [11;0;0;1], true); ([10;1;43;1], true)], true, 305%nat, false).
Proof. vm_compute. reflexivity. Qed.

Example C12_example_disjoint_owners_final :
  map (spec_contains (concat (map updates_of progs3))) [[10;0;3;9]; [11;0;0;1]; [192;168;7;7]; [10;1;43;1]; [10;1;44;1]]
  = [true; false; false; true; false].
Proof. vm_compute. reflexivity. Qed.

(** a schedule that is not enabled is rejected by the semantics (labels are checked) *)
Example C12_example_not_enabled :
  crun (cinit progs3) [LockedScan 1] = None /\ crun (cinit progs3) [LockedAdd 0 (nth_net 1)] = None
  /\ crun (cinit progs3) [StoreMatchAll 2 true] = None.
Proof. vm_compute. repeat split; reflexivity. Qed.

(** the hypotheses of C12_lookup_sound are met by a concrete call: thread 1's first lookup
    starts in list mode, the migration happens while it is in flight, it ends in map mode *)
Example C12_example_call_segment :
  match crun (cinit progs3) (map (fun i => LockedAdd 0 (nth_net i)) (seq 0 256)) with
  | Some s =>
      match exec s [LoadMatchAll 1; LockedAdd 2 (net 192 168 1 1 16); LockedAdd 0 (nth_net 256); LockedScan 1] with
      | Some (visited, s') =>
          (length visited, results_of s 1, results_of s' 1,
           forallb (fun v => (length (results_of v 1) =? 0)%nat) visited,
           map (fun v => mode_maps (filt v)) visited,
           forallb (fun v => existsb (key_eqb (canon (be32 [10;0;3;9]) 24)) (snd (live_at v))) visited)
      | None => (0%nat, [], [], false, [], false)
      end
  | None => (0%nat, [], [], false, [], false)
  end
  = (4%nat, [], [([10;0;3;9], true)], true, [false; false; true; true], true).
Proof. vm_compute. reflexivity. Qed.

(** the crash outcome of the semantics is real: from a (non-reachable) state whose filter is in
    map mode with nil maps, a LockedAdd crashes the process and then nothing is enabled *)
Example C12_example_model_can_crash :
  let bad := mkC (mkSt false true 0 (repeat (0, 0) 256) (repeat None 32)) []
                 [mkT [] [CUpd (Add (nth_net 1)); CLookup [10;0;1;1]] None []] false in
  match step bad (LockedAdd 0 (nth_net 1)) with
  | Some s' => (crashed s', step s' (LoadMatchAll 0))
  | None => (false, None)
  end = (true, None).
Proof. vm_compute. reflexivity. Qed.
