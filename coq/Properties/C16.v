(** C16 — ShellEscape yields exactly one shell word that evaluates back to the input. *)
From Coq Require Import List NArith.
Import ListNotations.
From Glb Require Import Lib.Shell Model.ShellEscape Proofs.ShellEscapeP.
Open Scope N_scope.

(** For every byte string [s] (NUL or not), in any lexer state that is unquoted —
    i.e. wherever a word may start or continue — reading ShellEscape(s) adds exactly the
    literal characters of [s] to the current word and leaves the shell unquoted, for
    every continuation [rest]: nothing in [s] ends the word, produces an operator or an
    active (expanding / globbing) character. *)
Theorem C16_one_literal_word : forall s st rest,
  lmode st = U ->
  lex_run st (shell_escape s ++ rest) = lex_run (with_cur st (cur_or_nil st ++ lit s)) rest.
Proof. exact escape_appends_literal. Qed.
Print Assumptions C16_one_literal_word.

(** As a whole command line the output is one word, and the word's value is [s]. *)
Theorem C16_alone : forall s home,
  tokens (shell_escape s) = Some [W (lit s)] /\ word_value home (lit s) = Some s.
Proof. intros s home. split; [exact (escape_tokens s) | exact (word_value_lit home s)]. Qed.
Print Assumptions C16_alone.

(** Between other words: after any prefix that leaves the shell between words and
    before a blank, the token list grows by exactly the one word. *)
Theorem C16_in_context : forall s pre post st,
  lex_run lex_init pre = st -> lmode st = U -> cur st = None ->
  lex_run lex_init (pre ++ shell_escape s ++ 32 :: post)
  = lex_run (mkLex U None (toks st ++ [W (lit s)])) post.
Proof. exact escape_then_blank. Qed.
Print Assumptions C16_in_context.

(** ShellEscapeExceptTilde: identical unless [s] starts with [~/]; then the word is the
    tilde-prefix [~] (expanded by the shell to the home directory), [/], and the rest literal. *)
Theorem C16_tilde : forall r home,
  tokens (shell_escape_except_tilde (126 :: 47 :: r)) = Some [W (Act 126 :: Lit 47 :: lit r)]
  /\ word_value home (Act 126 :: Lit 47 :: lit r) = Some (home ++ 47 :: r).
Proof. intros r home. split; [exact (except_tilde_tokens r) | exact (except_tilde_value home r)]. Qed.
Print Assumptions C16_tilde.

Theorem C16_tilde_otherwise : forall s,
  (forall r, s <> 126 :: 47 :: r) -> shell_escape_except_tilde s = shell_escape s.
Proof. exact except_tilde_not_prefix. Qed.
Print Assumptions C16_tilde_otherwise.

(** Non-vacuity: a concrete hostile input. [a'$(id) ;*] *)
Example C16_example :
  tokens ([101;99;104;111;32] ++ shell_escape [97;39;36;40;105;100;41;32;59;42] ++ [32;120])
  = Some [W (lit [101;99;104;111]); W (lit [97;39;36;40;105;100;41;32;59;42]); W (lit [120])].
Proof. vm_compute. reflexivity. Qed.
