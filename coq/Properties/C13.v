(** C13 — Text handler lines parse back unambiguously (statement file; proofs in Proofs/LoggerText*.v). *)
From Coq Require Import List NArith Bool.
Import ListNotations.
From Glb Require Import Lib.Utf8 Lib.GoQuote Lib.TextTok Model.LoggerText.
Open Scope N_scope.
