(** C13 — Text handler lines parse back unambiguously; values cannot forge fields or lines.

    Model: Model/LoggerText.v (logger/text_handler.go, colour off).  Specification:
    Lib/TextTok.v ([tokenize], [expected_pairs], [wf_chain], [wf_record]) with
    strconv.Unquote from Lib/GoQuote.v.  The three Unicode predicates are arbitrary
    functions: nothing at all is assumed about them (the same [isSpace] is used by the
    handler and by the reader; [isPrint] and strconv's [sp_print] only decide *when* and
    *how* something is escaped, never whether it reads back). *)
From Coq Require Import List NArith Bool.
Import ListNotations.
From Glb Require Import Lib.Utf8 Lib.GoQuote Lib.TextTok Model.LoggerText Proofs.LoggerTextQ Proofs.LoggerTextP.
Open Scope N_scope.

(** What the specification deliberately does NOT demand.  The property says a bare item is
    "free of whitespace, '=' and DQUOTE".  [bare_ok] (Lib/TextTok.v) rejects exactly: ASCII
    bytes below 0x20 (all ASCII white space and controls, newline included), ' ', '=', DQUOTE
    and every rune >= 0x80 for which [isSpace] holds.  It ACCEPTS DEL (0x7f), the C1 controls
    other than U+0085, non-printing runes (U+200B, U+00AD, ...) and invalid UTF-8 bytes in a
    bare item: none of them can end an item, start a quoted one or break the line.  The Go
    code quotes those too ([!unicode.IsPrint], [RuneError]); a change that stops doing so
    still satisfies this specification and shows up as byte drift against the model, not
    as a violation.

    The theorem.  For every With/WithGroup chain (group names non-empty) and every record -
    arbitrary bytes (< 256) in message, keys, group names, string-like values and in the
    source file name; arbitrary attribute trees; stdlib-rendered numbers/durations/times
    being non-empty bare items; a source path on which the Go loop of appendTextSource yields
    the path's last two elements ([src_agrees], see [C13_source_cut] and the oddity below) -
    Handle writes [body ++ "\n"], [body] holds no newline, and the tokenizer reads [body]
    back as exactly time, level, [source], msg and the (dotted path, value) pairs in order. *)
Theorem C13_text_line_faithful :
  forall (isSpace isPrint sp_print : N -> bool) (chain : list deriv) (rec : record),
    wf_chain isSpace chain = true -> wf_record isSpace rec = true -> src_agrees rec = true ->
    exists body,
      handle isSpace isPrint sp_print (derive isSpace isPrint sp_print chain) rec = body ++ [10] /\
      ~ In 10 body /\
      tokenize isSpace body = Some (expected_pairs chain rec).
Proof. exact text_line_faithful. Qed.
Print Assumptions C13_text_line_faithful.

(** Stage 1: strconv.Unquote reads back strconv.AppendQuote, for every byte string and
    every continuation; a quoted string holds no newline. *)
Theorem C13_unquote_quote :
  forall (sp_print : N -> bool) (s rest : list N),
    wf_bytes s = true ->
    unquote_prefix (quote sp_print s ++ rest) = Some (s, rest) /\ ~ In 10 (quote sp_print s).
Proof. intros sp s rest H. split; [exact (unquote_quote sp s rest H)|exact (quote_no_newline sp s)]. Qed.
Print Assumptions C13_unquote_quote.

(** Stage 2: whatever appendTextString copies verbatim is a non-empty bare item and
    scanning it stops exactly at its end. *)
Theorem C13_bare_is_safe :
  forall (isSpace isPrint : N -> bool) (s : list N),
    s <> [] -> needs_quote isSpace isPrint s = false ->
    is_bare isSpace s = true /\ forall rest, sep_ok rest -> bare_span (s ++ rest) = (s, rest).
Proof. intros sp pr s. exact (bare_is_safe sp pr (fun _ => false) s). Qed.
Print Assumptions C13_bare_is_safe.

(** Stage 3, per token: a rendered key=value followed by a space or the end is consumed
    exactly and yields the pair, for every key and value text. *)
Theorem C13_token_boundary :
  forall (isSpace isPrint sp_print : N -> bool) (k v rest : list N),
    wf_bytes k = true -> wf_bytes v = true -> (rest = [] \/ exists r, rest = 32 :: r) ->
    parse_token isSpace (text_string isSpace isPrint sp_print k ++ 61 :: text_string isSpace isPrint sp_print v ++ rest)
    = Some ((k, v), rest).
Proof.
  intros sp pr spr k v rest Hk Hv Hr. apply (token_boundary sp); try (apply item_of_text_string; assumption).
  destruct Hr as [->|[r ->]]; [apply sep_ok_nil|apply sep_ok_32].
Qed.
Print Assumptions C13_token_boundary.

(** appendTextSource's byte loop yields the last two path elements on every path with at
    least two '/' (so [src_agrees] holds for every absolute path of a real source file). *)
Theorem C13_source_cut :
  forall pre a b : list N,
    Forall (fun x => x <> 47) a -> Forall (fun x => x <> 47) b ->
    source_cut (pre ++ 47 :: a ++ 47 :: b) = a ++ 47 :: b /\
    last_two (pre ++ 47 :: a ++ 47 :: b) = a ++ 47 :: b.
Proof. intros pre a b Ha Hb. split; [exact (source_cut_two_slashes pre a b Ha Hb)|exact (last_two_two_slashes pre a b Ha Hb)]. Qed.
Print Assumptions C13_source_cut.

(** The known oddity of the Go loop, kept in the model as it is in the code: index 0 is never
    examined and the cut is [f.File[idx+1:]], so a relative path with fewer than two '/' loses
    its first character.  "a/b.go" -> "/b.go", "main.go" -> "ain.go"; "/b.go" -> "b.go",
    "" (PC = 0) -> "" and "/srv/a/b.go" -> "a/b.go" are as intended.  Exactly the first two fail
    [src_agrees]; the line still tokenizes, only the reported file name is wrong. *)
Example C13_source_oddity :
  source_cut [97; 47; 98; 46; 103; 111] = [47; 98; 46; 103; 111]
  /\ last_two [97; 47; 98; 46; 103; 111] = [97; 47; 98; 46; 103; 111]
  /\ source_cut [109; 97; 105; 110; 46; 103; 111] = [97; 105; 110; 46; 103; 111]
  /\ source_cut [47; 98; 46; 103; 111] = [98; 46; 103; 111] /\ last_two [47; 98; 46; 103; 111] = [98; 46; 103; 111]
  /\ source_cut [] = [] /\ last_two [] = []
  /\ source_cut [47; 115; 114; 118; 47; 97; 47; 98; 46; 103; 111] = [97; 47; 98; 46; 103; 111].
Proof. vm_compute. repeat split; reflexivity. Qed.

(** ---- non-vacuity: a small concrete oracle (U+0085, U+00A0, U+2028 are spaces; U+0080..U+00A0,
    U+00AD and the spaces do not print) and hostile inputs ---- *)
Definition ex_space (r : N) : bool := (r =? 133) || (r =? 160) || (r =? 8232).
Definition ex_print (r : N) : bool := negb (ex_space r) && negb (r <? 161) && negb (r =? 173).

Definition ex_chain : list deriv :=
  [DGroup [97; 46; 98];                                   (* group name "a.b" *)
   DAttrs [([113], VStr [34; 255])];                      (* q = DQUOTE + invalid byte 0xff *)
   DGroup [99; 32; 100]].                                 (* group name "c d" *)
Definition ex_rec : record :=
  mkRecord [50; 48; 50; 51] LError (Some ([47; 115; 47; 109; 32; 97; 47; 120; 61; 46; 103; 111], [55]))   (* "/s/m a/x=.go", "7" *)
    [104; 105; 32; 107; 61; 118; 10; 116; 105; 109; 101; 61; 120]                            (* "hi k=v\ntime=x" *)
    [([107], VStr [97; 10; 98]);                          (* newline in a value *)
     ([], VStr []);                                       (* empty key, empty value *)
     ([34; 107; 34], VStr [34; 118; 34]);                 (* DQUOTE-prefixed key and value *)
     ([103; 32; 49], VGroup [([], VGroup [([120], VVerbatim [52; 50])]);    (* inline group *)
                             ([121], VStr [194; 160]);                     (* U+00A0 *)
                             ([122], VStr [226; 128; 168; 239; 191; 189]); (* U+2028, U+FFFD *)
                             ([101], VGroup [])]);                         (* empty group *)
     ([100], VVerbatim [49; 46; 53; 194; 181; 115])].      (* 1.5µs *)

Example C13_example_wf :
  wf_chain ex_space ex_chain = true /\ wf_record ex_space ex_rec = true /\ src_agrees ex_rec = true.
Proof. vm_compute. repeat split; reflexivity. Qed.

Example C13_example_line :
  let line := handle ex_space ex_print ex_print (derive ex_space ex_print ex_print ex_chain) ex_rec in
  tokenize ex_space (removelast line) = Some (expected_pairs ex_chain ex_rec)
  /\ length (expected_pairs ex_chain ex_rec) = 12%nat
  /\ last line 0 = 10.
Proof. vm_compute. repeat split; reflexivity. Qed.

(** the forged text of the message stays inside one quoted item *)
Example C13_example_msg :
  text_string ex_space ex_print ex_print [104; 105; 32; 107; 61; 118; 10; 116; 105; 109; 101; 61; 120]
  = [34; 104; 105; 32; 107; 61; 118; 92; 110; 116; 105; 109; 101; 61; 120; 34].
Proof. vm_compute. reflexivity. Qed.

(** a raw rendering without quoting is rejected or read differently by the tokenizer:
    the specification is not trivially satisfied *)
Example C13_example_spec_rejects :
  tokenize ex_space [109; 115; 103; 61; 97; 32; 98] = None                         (* msg=a b *)
  /\ tokenize ex_space [107; 61; 34; 97; 34; 58; 55] = None                        (* k="a":7 *)
  /\ tokenize ex_space [107; 61; 97; 194; 160; 98] = None                          (* k=a<U+00A0>b *)
  /\ tokenize ex_space [107; 61; 97; 10; 98] = None                                (* k=a<newline>b *)
  /\ tokenize ex_space [107; 61; 118; 32; 32; 120; 61; 49] = None.                 (* double space *)
Proof. vm_compute. repeat split; reflexivity. Qed.
