(** C05 — requests are isolated: pooled per-request state never leaks between requests. *)
From Coq Require Import List NArith.
Import ListNotations.
From Glb Require Import Lib.RouteBytes Lib.RouteSpec Model.Router Model.StorePool Proofs.RouterP Proofs.StorePoolP.

(** Objects (Model/StorePool.v).  A history is a list of labels — atomic actions of single
    goroutines: [LRegister], [LBegin k choice path method] (request k takes ANY pooled Store
    or a fresh one, gets its id, is routed and enters the relay handler), [LWrite k (WriteHeader c | Flush)],
    [LEnd k Returned|Recovered|Escaped] (reset + Put, or — when the panic leaves ServeHTTP —
    the Store is dropped), [LDrop i] (sync.Pool forgets a Store).  Requests overlap freely;
    [run] returns [Ok m], [Disabled] (the list is not a history: unknown request key, pool
    index out of range, or a registration while requests are in flight — the ASSUMPTION of
    this property) or [Panic].  A REJECTED registration is part of a history: Handle panics,
    the caller recovers, the Mux keeps the trie nodes parseRoute created before the error.
    [observe_flight f names] is everything a handler of the request in flight [f] reads
    through its Store; [fresh_core routes path method names] is what the same request reads
    on a fresh Mux on which exactly [routes] were registered (all accepted),
    [fresh_core_attempts] the same for registration attempts some of which may be rejected;
    [registered history] are the registration attempts so far. *)

(** Whatever happened before and whatever else is in flight — other requests matched, not
    matched, half matched, panicked with or without recovery, routes registered in between
    (ACCEPTED OR REJECTED: a rejected Handle panics, the caller recovers, the trie keeps the
    nodes created before the error), any reuse of pooled Stores — a request in flight reads
    exactly what it would read on a fresh Mux on which the same registration attempts were
    made; its id is the Mux prefix followed by its own ticket. *)
Theorem C05_request_isolation : forall prefix history m f names,
  run (new_mux prefix) history = Ok m -> In f (m_flights m) ->
  fresh_core_attempts (registered history) (f_path f) (f_method f) names
  = Some (ob_target (observe_flight f names), ob_vals (observe_flight f names), ob_any (observe_flight f names))
  /\ ob_id (observe_flight f names) = fit9 prefix ++ render_id (f_ticket f).
Proof. exact reachable_isolated_attempts. Qed.
Print Assumptions C05_request_isolation.

(** When every registration so far was accepted, that is what the router specification says
    for these routes ([fresh_core] = C04's [serve_http] on [register_all]), and no parameter
    lookup panics. *)
Theorem C05_request_isolation_accepted : forall prefix history m f names t,
  run (new_mux prefix) history = Ok m -> In f (m_flights m) ->
  register_all (registered history) = Some t ->
  fresh_core (registered history) (f_path f) (f_method f) names
  = Some (ob_target (observe_flight f names), ob_vals (observe_flight f names), ob_any (observe_flight f names))
  /\ ob_id (observe_flight f names) = fit9 prefix ++ render_id (f_ticket f)
  /\ Forall (fun v => v <> None) (ob_vals (observe_flight f names))
  /\ ob_any (observe_flight f names) <> None.
Proof. exact reachable_isolated. Qed.
Print Assumptions C05_request_isolation_accepted.

(** No history makes ServeHTTP panic on its own account, and no further action does. *)
Theorem C05_no_panic : forall prefix history,
  run (new_mux prefix) history <> Panic
  /\ forall m l, run (new_mux prefix) history = Ok m -> step m l <> Panic.
Proof.
  intros prefix history. split.
  - apply run_no_panic. apply Inv_new.
  - intros m l Hr. apply step_no_panic. eapply run_preserves_Inv; [apply Inv_new | exact Hr].
Qed.
Print Assumptions C05_no_panic.

(** At handler entry W.Status is 0 and the request holds the next ticket of the counter. *)
Theorem C05_entry_state : forall prefix history m k choice path method m',
  run (new_mux prefix) history = Ok m -> step m (LBegin k choice path method) = Ok m' ->
  exists f, find_flight k (m_flights m') = Some f
    /\ s_status (f_store f) = 0%N /\ f_ticket f = (m_next_id m + 1)%N /\ m_next_id m' = (m_next_id m + 1)%N
    /\ f_path f = path /\ f_method f = method.
Proof.
  intros prefix history m k choice path method m' Hr. apply begin_entry.
  eapply run_preserves_Inv; [apply Inv_new | exact Hr].
Qed.
Print Assumptions C05_entry_state.

(** Nothing another request (or a registration, or the pool) does changes the Store of
    request k: what k reads — and in particular its id — is constant while it is in flight ... *)
Theorem C05_unaffected_by_others : forall m l m' k,
  step m l = Ok m' ->
  (match l with LBegin k' _ _ _ | LWrite k' _ | LEnd k' _ => k' <> k | _ => True end) ->
  find_flight k (m_flights m') = find_flight k (m_flights m).
Proof.
  intros m l m' k Hs Hne. apply (step_frame m l m' k Hs).
  destruct l; cbn [label_key]; try discriminate; intros E; inversion E; subst; contradiction.
Qed.
Print Assumptions C05_unaffected_by_others.

(** ... except for its own WriteHeader / Flush, which change W.Status only (Flush: the implicit 200). *)
Theorem C05_own_write_header : forall m k op m' f,
  step m (LWrite k op) = Ok m' -> find_flight k (m_flights m) = Some f ->
  exists f', find_flight k (m_flights m') = Some f'
    /\ s_status (f_store f') = apply_wop op (s_status (f_store f)) /\ s_params (f_store f') = s_params (f_store f)
    /\ s_id (f_store f') = s_id (f_store f) /\ f_info f' = f_info f /\ f_ticket f' = f_ticket f.
Proof. exact write_header_own. Qed.
Print Assumptions C05_own_write_header.

(** The ids handed to the requests of a history are pairwise distinct, as long as the
    uint64 counter has not wrapped (2^64 <= 36^13, the bound of the base-36 rendering). *)
Theorem C05_ids_unique : forall prefix history m,
  run (new_mux prefix) history = Ok m -> (m_next_id m < 2 ^ 64)%N ->
  NoDup (begin_ids (new_mux prefix) history).
Proof.
  intros prefix history m Hr Hb. apply (begin_ids_NoDup history (new_mux prefix) m (Inv_new prefix) Hr).
  pose proof uint64_below_bound. unfold id_bound in *. eapply N.lt_le_trans; eauto.
Qed.
Print Assumptions C05_ids_unique.

(** The invariant behind it: every pooled Store is indistinguishable from a new one
    except for the capacity of V — no names, no values, status 0, id cut back to the prefix. *)
Theorem C05_pool_invariant : forall prefix history m,
  run (new_mux prefix) history = Ok m ->
  Forall (fun s => pK (s_params s) = [] /\ v_items (pV (s_params s)) = [] /\ s_status s = 0%N
                   /\ s_id s = fit9 prefix) (m_pool m).
Proof. exact reachable_pool_clean. Qed.
Print Assumptions C05_pool_invariant.

(** * The two repaired defects, refuted on the models of the OLD code *)
Local Open Scope N_scope.
Definition GET := [71;69;84].
Definition pfx : list N := [65;66;67;68;69;70;71;72;45].

(** ServeHTTP did not reset P.K: after /u/:a/:b was served, RouteParam("a") in the no-route
    handler of the next request on the recycled Store indexes an empty V: panic. *)
Definition stale_history : list label :=
  [ LRegister [47;117;47;58;97;47;58;98] GET;
    LBegin 0 None [47;117;47;49;47;50] GET; LEnd 0 Returned;
    LBegin 1 (Some 0%nat) [47;110;111;112;101;47;120] GET ].
Theorem stale_names_refuted : exists history k name,
  match run_gen push_append false (new_mux pfx) history with
  | Ok m => match observe m k [name] with Some o => ob_vals o = [None] | None => False end
  | _ => False
  end.
Proof. exists stale_history, 1%nat, [97]. vm_compute. reflexivity. Qed.
Print Assumptions stale_names_refuted.

(** findRoute wrote values by reslicing within the capacity fixed when the Store was created:
    a Store created when the table had at most one parameter makes /b/1/2 panic after
    /b/:x/:y is registered. *)
Definition frozen_history : list label :=
  [ LRegister [47;97;47;58;120] GET;
    LBegin 0 None [47;97;47;49] GET; LEnd 0 Returned;
    LRegister [47;98;47;58;120;47;58;121] GET;
    LBegin 1 (Some 0%nat) [47;98;47;49;47;50] GET ].
Theorem frozen_capacity_refuted : exists history,
  run_gen push_reslice true (new_mux pfx) history = Panic.
Proof. exists frozen_history. vm_compute. reflexivity. Qed.
Print Assumptions frozen_capacity_refuted.

(** the same two histories on the model of the current code *)
Example stale_history_now :
  match run (new_mux pfx) stale_history with
  | Ok m => option_map ob_vals (observe m 1%nat [[97]]) = Some [Some []]
  | _ => False
  end.
Proof. vm_compute. reflexivity. Qed.
Example frozen_history_now :
  match run (new_mux pfx) frozen_history with
  | Ok m => option_map (fun o => (ob_target o, ob_vals o)) (observe m 1%nat [[120]; [121]])
            = Some (Route 1%nat, [Some [49]; Some [50]])
  | _ => False
  end.
Proof. vm_compute. reflexivity. Qed.

(** * Non-vacuity: a history with overlap, reuse, both kinds of panic and a late registration *)
Definition ex_history : list label :=
  [ LRegister [47;117;47;58;97;47;58;98] GET;
    LBegin 0 None [47;117;47;49;47;50] GET;                 (* request 0 in flight ... *)
    LBegin 1 None [47;110;111;112;101;47;120] GET;                  (* ... while request 1 runs (no route) *)
    LWrite 1 Flush; LWrite 1 (WriteHeader 404); LEnd 1 Returned;
    LWrite 0 (WriteHeader 201); LWrite 0 Flush; LEnd 0 Recovered;    (* request 0: panic recovered by the relay *)
    LBegin 2 (Some 1%nat) [47;117;47;49;47;50] GET; LEnd 2 Escaped;   (* takes request 0's Store; panic escapes: Store dropped *)
    LRegister [47;118;47;58;99;47;58;100;47;58;101] GET;                   (* a route with MORE params than any before *)
    LBegin 3 (Some 0%nat) [47;118;47;55;47;56;47;57] GET;       (* on the Store request 1 used *)
    LBegin 4 None [47;117;47;49] GET ].              (* half matched: /u/1 against /u/:a/:b *)
Example ex_history_runs :
  match run (new_mux pfx) ex_history with
  | Ok m =>
    length (m_flights m) = 2%nat /\ length (m_pool m) = 0%nat
    /\ option_map (fun o => (ob_target o, ob_vals o, ob_status o, ob_id o)) (observe m 3%nat [[97]; [99]; [101]])
       = Some (Route 1%nat, [Some []; Some [55]; Some [57]], 0, pfx ++ [52])
    /\ option_map (fun o => (ob_target o, ob_vals o, ob_status o, ob_id o)) (observe m 4%nat [[97]; [99]; [101]])
       = Some (NoRoute, [Some []; Some []; Some []], 0, pfx ++ [53])
    /\ fresh_core (registered ex_history) [47;118;47;55;47;56;47;57] GET [[97]; [99]; [101]]
       = Some (Route 1%nat, [Some []; Some [55]; Some [57]], Some [])
    /\ begin_ids (new_mux pfx) ex_history = [pfx ++ [49]; pfx ++ [50]; pfx ++ [51]; pfx ++ [52]; pfx ++ [53]]
  | _ => False
  end.
Proof. vm_compute. repeat split; reflexivity. Qed.

(** W.Status: Flush records the implicit 200 only when nothing was written; the next request starts at 0 again *)
Example ex_flush_status :
  match run (new_mux pfx) [LRegister [47;117;47;58;97;47;58;98] GET; LBegin 0 None [47;117;47;49;47;50] GET; LWrite 0 Flush] with
  | Ok m => option_map ob_status (observe m 0%nat []) = Some 200
  | _ => False
  end
  /\ match run (new_mux pfx) [LBegin 0 None [47;117;47;49;47;50] GET; LWrite 0 (WriteHeader 404); LWrite 0 Flush; LEnd 0 Returned;
                              LBegin 1 (Some 0%nat) [47;117;47;49;47;50] GET] with
     | Ok m => option_map ob_status (observe m 1%nat []) = Some 0 /\ length (m_pool m) = 0%nat
     | _ => False
     end.
Proof. vm_compute. repeat split; reflexivity. Qed.

(** rejected registrations inside a history: "/u/:id/:id" is rejected but leaves "/u" and an empty "/:param" node;
    "/u/5" then collects a value although no route exists; the Store is recycled clean, "/u/:id" is registered and the
    next request on that Store reads its own value.  The rejected attempt is visible to every Mux alike: it shadows "/u/ *". *)
Example ex_rejected_registration_in_history :
  match run (new_mux pfx) [LRegister [47;117;47;58;105;100;47;58;105;100] GET; LBegin 0 None [47;117;47;53] GET; LEnd 0 Returned;
                            LRegister [47;117;47;58;105;100] GET; LBegin 1 (Some 0%nat) [47;117;47;55] GET] with
  | Ok m => option_map (fun o => (ob_target o, ob_vals o)) (observe m 1%nat [[105;100]]) = Some (Route 0%nat, [Some [55]])
            /\ fresh_core_attempts [([47;117;47;58;105;100;47;58;105;100], GET); ([47;117;47;58;105;100], GET)] [47;117;47;55] GET [[105;100]] = Some (Route 0%nat, [Some [55]], Some [])
  | _ => False
  end
  /\ match run (new_mux pfx) [LRegister [47;117;47;42] GET; LRegister [47;117;47;58;105;100;47;58;105;100] GET; LBegin 0 None [47;117;47;53] GET] with
     | Ok m => option_map ob_target (observe m 0%nat []) = Some NoRoute
               /\ fresh_core_attempts [([47;117;47;42], GET); ([47;117;47;58;105;100;47;58;105;100], GET)] [47;117;47;53] GET [] = Some (NoRoute, [], Some [])
               /\ fresh_core [([47;117;47;42], GET)] [47;117;47;53] GET [] = Some (Route 0%nat, [], Some [53])
     | _ => False
     end.
Proof. vm_compute. repeat split; reflexivity. Qed.

(** registering while a request is in flight is outside the property: the model refuses it *)
Example register_during_flight_disabled :
  run (new_mux pfx) [LRegister [47;117;47;58;97;47;58;98] GET; LBegin 0 None [47;117;47;49;47;50] GET; LRegister [47;118;47;58;99;47;58;100;47;58;101] GET] = Disabled.
Proof. vm_compute. reflexivity. Qed.
