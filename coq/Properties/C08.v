(** C08 — TaskLane runs at most laneSize tasks at once and shares work across lanes.

    [running s] = the tasks of the workers that are inside Start(). The bound holds in every reachable
    state of every execution. Work sharing is stated as enabledness (the LTS form of "as soon as"):
    with the context live, if some worker is idle and the lane cannot move on its own, then nothing is
    pending; and whenever something is pending the lane can move or every worker is busy. Together with
    the strictly decreasing measure (C06_internal_finite) a task never waits behind a busy worker while
    another worker stays idle in a maximal run. Real time / scheduler fairness are outside the model. *)
From Coq Require Import List Arith Bool.
Import ListNotations.
From Glb Require Import Model.TaskLane Proofs.TaskLaneP Proofs.TaskLaneInv Proofs.TaskLaneLive Proofs.TaskLaneDec.

Theorem C08_bound : forall qs n ls s,
  run qs (init n) ls = Some s -> length (running s) <= n /\ NoDup (running s).
Proof. exact running_bound. Qed.
Print Assumptions C08_bound.

(** running tasks are started and not finished *)
Theorem C08_running_started : forall qs n ls s t,
  run qs (init n) ls = Some s -> In t (running s) -> In t (started s) /\ ~ In t (finished s).
Proof. exact running_started. Qed.
Print Assumptions C08_running_started.

(** Context live, worker [j] idle (at its loop top, its non-blocking or its blocking receive), and no
    internal step enabled: every accepted task has been started. Contrapositive: a pending task and an
    idle worker always leave an internal step enabled (worker advancing to its blocking receive, queue
    goroutine advancing to its blocking offer, or the hand-over over the universal queue itself). *)
Theorem C08_work_sharing : forall qs n ls s j lj,
  run qs (init n) ls = Some s -> cancelled s = false ->
  nth_error (lanes s) j = Some lj -> idle_worker (w lj) = true ->
  stuck qs internal s ->
  forall t, In t (accepted s) -> In t (started s).
Proof. exact work_sharing. Qed.
Print Assumptions C08_work_sharing.

(** ... and if no internal step is enabled while a task is pending, every worker is inside Start(). *)
Theorem C08_pending_all_busy : forall qs n ls s t,
  run qs (init n) ls = Some s -> cancelled s = false -> stuck qs internal s ->
  In t (accepted s) -> ~ In t (started s) -> all_workers_running s = true.
Proof. exact stuck_pending_all_busy. Qed.
Print Assumptions C08_pending_all_busy.

(** a parked offer and a parked worker of ANY lane can always rendezvous on the universal queue *)
Theorem C08_handover_enabled : forall qs s i j bi t wi bj qj,
  nth_error (lanes s) i = Some (mkLane bi (QOffer t) wi) ->
  nth_error (lanes s) j = Some (mkLane bj qj WBlock) ->
  step qs s (QOfferUni i j) <> None.
Proof. exact offer_enabled. Qed.
Print Assumptions C08_handover_enabled.

(** Non-vacuity: worker 0 pinned by task 10; 11 pushed to lane 0 is started by worker 1. *)
Definition C08_ex : list label :=
  [PushBegin 0 0 10; PushOk 0; QTake 0; QCount 0; QCheck 0; WCheck 0; QTryOwn 0; QDecr 0;
   PushBegin 0 0 11; PushOk 0; QTake 0; QCount 0; QCheck 0; QTryFail 0;
   WCheck 1; WTryFail 1; QOfferUni 0 1; QDecr 0].

Example C08_ex_two_running :
  option_map (fun s => (running s, map w (lanes s))) (run 1 (init 2) C08_ex)
  = Some ([10; 11], [WRun 10; WRun 11]).
Proof. vm_compute. reflexivity. Qed.

(** hypotheses of C08_work_sharing: 11 returns, worker 1 parks again, worker 0 still pinned: idle worker, stuck, live *)
Example C08_ex_idle_stuck :
  option_map (fun s => (cancelled s, stuckb 1 s, map (fun l => idle_worker (w l)) (lanes s), accepted s, started s))
    (run 1 (init 2) (C08_ex ++ [WEnd 1 None; WCheck 1; WTryFail 1]))
  = Some (false, true, [false; true], [11; 10], [11; 10]).
Proof. vm_compute. reflexivity. Qed.

(** hypotheses of C08_pending_all_busy: a third task waits in the blocking offer while both workers are busy *)
Example C08_ex_all_busy :
  option_map (fun s => (cancelled s, stuckb 1 s, accepted s, started s, all_workers_running s))
    (run 1 (init 2) (C08_ex ++ [PushBegin 0 0 12; PushOk 0; QTake 0; QCount 0; QCheck 0; QTryFail 0]))
  = Some (false, true, [12; 11; 10], [11; 10], true).
Proof. vm_compute. reflexivity. Qed.

Theorem C08_stuck_check : forall qs s, stuckb qs s = true -> stuck qs internal s.
Proof. exact stuckb_sound. Qed.
Print Assumptions C08_stuck_check.
