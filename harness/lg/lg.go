// Package lg is the shared kit of the C02/C03 harnesses: the three handlers of glb/logger behind one
// interface, derivation chains that can be replayed on a fresh root, hand-built records with a fixed
// time, a capturing writer and a time normaliser for lines produced through Logger (time.Now()).
package lg

import (
	"bytes"
	"context"
	"fmt"
	"io"
	"log/slog"
	"os"
	"regexp"
	"runtime"
	"sync"
	"sync/atomic"
	"time"

	"github.com/whoisnian/glb/logger"
)

type Kind int

const (
	JSON Kind = iota
	Text
	Nano
)

var Kinds = []Kind{JSON, Text, Nano}

func (k Kind) String() string { return [...]string{"json", "text", "nano"}[k] }

func NewHandler(k Kind, w io.Writer, level slog.Level) logger.Handler {
	return NewHandlerOpts(k, w, level, false, false)
}

// NewHandlerOpts: colour and source on request (the yardstick of C02/C03 is the implementation itself, so both may vary).
func NewHandlerOpts(k Kind, w io.Writer, level slog.Level, colorful, addSource bool) logger.Handler {
	opts := logger.NewOptions(level, colorful, addSource)
	switch k {
	case JSON:
		return logger.NewJsonHandler(w, opts)
	case Text:
		return logger.NewTextHandler(w, opts)
	default:
		return logger.NewNanoHandler(w, opts)
	}
}

// Step is one derivation: WithGroup(Group) when Group != "", else WithAttrs(Attrs()).
// Attrs is a constructor so that every replay gets fresh, equal values.
type Step struct {
	Group string
	Attrs func() []slog.Attr
}

func ApplyStep(h logger.Handler, s Step) logger.Handler {
	if s.Group != "" {
		return h.WithGroup(s.Group)
	}
	return h.WithAttrs(s.Attrs())
}

func Apply(h logger.Handler, chain []Step) logger.Handler {
	for _, s := range chain {
		h = ApplyStep(h, s)
	}
	return h
}

var FixedTime = time.Date(2024, 2, 3, 4, 5, 6, 789000000, time.UTC)

// Times: record times in the SAME Unix second and in the adjacent seconds, in several locations with different offsets
// (a relay / aggregator hands records stamped elsewhere to Handler.Handle): the line must show the record's own wall clock.
var Times = func() []time.Time {
	locs := []*time.Location{time.UTC, time.FixedZone("IST", 5*3600+1800), time.FixedZone("PST", -8*3600), time.FixedZone("LINT", 14*3600),
		time.FixedZone("CET", 3600), time.FixedZone("", -(3*3600 + 1800)), time.FixedZone("NPT", 5*3600+2700)}
	var ts []time.Time
	for _, d := range []time.Duration{0, 0, time.Second, -time.Second} {
		for _, l := range locs {
			ts = append(ts, FixedTime.Add(d).In(l))
		}
	}
	return ts
}()

// TimeAt picks one of Times; index 0 is FixedTime in UTC.
func TimeAt(i int) time.Time {
	if i < 0 {
		i = -i
	}
	return Times[i%len(Times)]
}

// NewRecordAt is NewRecordPC with an explicit time.
func NewRecordAt(t time.Time, level slog.Level, msg string, pc uintptr, attrs ...slog.Attr) slog.Record {
	r := slog.NewRecord(t, level, msg, pc)
	r.AddAttrs(attrs...)
	return r
}

var coldSeq atomic.Int64

// Cold makes sure that h (meant to be a FRESH root handler used for a reference line) renders its next record from a cold
// state: it handles one record stamped with a second no test record uses, so that any cache keyed on the record's time -
// per handler family or package-level - misses. The caller discards what this wrote.
func Cold(h logger.Handler) {
	defer func() { recover() }()
	t := time.Unix(1_000_000_000+coldSeq.Add(1), 0).In(time.FixedZone("COLD", -(11*3600 + 600)))
	h.Handle(context.Background(), slog.NewRecord(t, logger.LevelInfo, "cold", 0))
}

func NewRecord(level slog.Level, msg string, attrs ...slog.Attr) slog.Record {
	r := slog.NewRecord(FixedTime, level, msg, 0)
	r.AddAttrs(attrs...)
	return r
}

// PCs are program counters of a few distinct source lines, for hand-built records of handlers with addSource.
var PCs = func() []uintptr {
	var r []uintptr
	for _, f := range []func() uintptr{pcA, pcB, pcC, pcD} {
		r = append(r, f())
	}
	return r
}()

func pcOf() uintptr {
	var pcs [1]uintptr
	runtime.Callers(2, pcs[:])
	return pcs[0]
}
func pcA() uintptr { return pcOf() }
func pcB() uintptr { return pcOf() }
func pcC() uintptr { return pcOf() }
func pcD() uintptr { return pcOf() }

// NewRecordPC is NewRecord with a program counter (0 = none).
func NewRecordPC(level slog.Level, msg string, pc uintptr, attrs ...slog.Attr) slog.Record {
	r := slog.NewRecord(FixedTime, level, msg, pc)
	r.AddAttrs(attrs...)
	return r
}

// Capture records every Write call (bytes copied).
type Capture struct {
	mu     sync.Mutex
	Chunks [][]byte
}

func (c *Capture) Write(p []byte) (int, error) {
	c.mu.Lock()
	c.Chunks = append(c.Chunks, append([]byte(nil), p...))
	c.mu.Unlock()
	return len(p), nil
}

// FdCapture is a Capture that also looks like an *os.File that is not a terminal (Fd() of an open /dev/null).
type FdCapture struct {
	Capture
}

var devNull = func() *os.File { f, _ := os.OpenFile(os.DevNull, os.O_WRONLY, 0); return f }()

func (c *FdCapture) Fd() uintptr {
	if devNull == nil {
		return ^uintptr(0)
	}
	return devNull.Fd()
}

func (c *Capture) Take() [][]byte {
	c.mu.Lock()
	defer c.mu.Unlock()
	r := c.Chunks
	c.Chunks = nil
	return r
}

// Handle calls h.Handle and turns a panic into an error.
func Handle(h logger.Handler, r slog.Record) (err error) {
	defer func() {
		if p := recover(); p != nil {
			err = fmt.Errorf("panic: %v", p)
		}
	}()
	return h.Handle(context.Background(), r)
}

// Solo is the yardstick: the bytes the implementation writes for rec when it is logged alone through a handler
// rebuilt from chain on a fresh root. ok=false when that is not exactly one Write.
func Solo(k Kind, level slog.Level, chain []Step, rec slog.Record) (line []byte, ok bool) {
	var c Capture
	root := NewHandler(k, &c, level)
	Cold(root)
	c.Take()
	h := Apply(root, chain)
	if err := Handle(h, rec); err != nil {
		return []byte("ERR " + err.Error()), false
	}
	if len(c.Chunks) != 1 {
		return bytes.Join(c.Chunks, nil), false
	}
	return c.Chunks[0], true
}

var (
	reJSONTime = regexp.MustCompile(`^\{"time":"[^"]*"`)
	reTextTime = regexp.MustCompile(`^time=\S+`)
	// nano: everything in front of the level label "[I]" (possibly wrapped in colour codes)
	reNanoTime = regexp.MustCompile(`^[^\[\x1b]* ((?:\x1b\[[0-9;]*m)?\[[DIWEF]\])`)
)

// NormTime blanks the time field of a line (for lines produced through Logger, which stamps time.Now()).
func NormTime(k Kind, line []byte) []byte {
	switch k {
	case JSON:
		return reJSONTime.ReplaceAll(line, []byte(`{"time":"T"`))
	case Text:
		return reTextTime.ReplaceAll(line, []byte("time=T"))
	default:
		return reNanoTime.ReplaceAll(line, []byte("T $1"))
	}
}

var reID = regexp.MustCompile(`LOG(\d+)END`)

// RecordID finds the id the harness put into the message ("LOG<id>END"); -1 when absent or ambiguous.
func RecordID(line []byte) int {
	ms := reID.FindAllSubmatch(line, -1)
	if len(ms) != 1 {
		return -1
	}
	n := 0
	fmt.Sscanf(string(ms[0][1]), "%d", &n)
	return n
}

func Msg(id int) string { return fmt.Sprintf("LOG%dEND", id) }
