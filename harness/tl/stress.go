package tl

import (
	"context"
	"sync"
	"time"
)

// StressOpt selects the flavour of one random run.
type StressOpt struct {
	Big        bool // many tasks: history is checked by the monitors only
	PanicPct   int  // share of panicking tasks
	Observers  int  // goroutines polling Status()
	SleepTasks bool // tasks that stay a while in Start() (drives the concurrency level up)
	Kinds      bool // non-panicking tasks are pushed as values of different dynamic types (func adapter, structs with slice / map)
	CancelMode int  // 0 random, 1 after everything accepted has run (progress is then checked), 2 at a random moment, 3 a real context.WithDeadline expires mid-run
}

// Stress: producers push tasks of random kinds to random lanes while observers poll Status(); the
// context is cancelled either at a random moment or after every accepted task has run.
func (en *Engine) Stress(n, q int, o StressOpt, idx int) {
	const fam = "stress"
	rng := en.Rng.Fork()
	name := sname(fam, n, q, o.Big, o.PanicPct, o.Observers, o.CancelMode, idx)
	if en.Skip(fam, name) {
		return
	}
	r := en.New(fam, name, n, q)
	defer en.Finish(fam, r)
	mode := o.CancelMode
	if mode == 0 {
		mode = 1 + rng.Intn(2)
		if rng.Chance(15) {
			mode = 3
		}
	}
	expired := make(chan struct{})
	if mode == 3 {
		// a live standard-library deadline context behind the gate: it ends by its own timer, in the middle of the run.
		// Xb = the deadline is armed (before the lane exists), Xe = the harness has seen Done() closed.
		c, cancel := context.WithDeadline(context.Background(), time.Now().Add(time.Duration(200+rng.Intn(1800))*time.Microsecond))
		r.G = NewGateWrapping(en.ST, c, cancel)
		r.rec("Xb")
		go func() {
			<-c.Done()
			r.rec("Xe")
			close(expired)
		}()
		en.E.Count("stress_real_deadline_runs", 1)
	}
	// the timeout is not what is being measured: any value, from "do not wait" to "for ever"
	timeout := en.longTO()
	if rng.Chance(30) {
		timeout = [...]time.Duration{0, -time.Millisecond, 1, time.Duration(200+rng.Intn(1800)) * time.Microsecond, time.Millisecond}[rng.Intn(5)]
	}
	r.StartExact(timeout)
	prods, per, polls := 2+rng.Intn(2), 1+rng.Intn(3), 2
	if o.Big {
		prods, per, polls = 3+rng.Intn(6), 8+rng.Intn(40), 40
	}
	oneLane := rng.Chance(30)
	lane0 := rng.Intn(n)
	type plan struct {
		t    *Task
		lane int
	}
	plans := make([][]plan, prods)
	for p := range plans {
		for j := 0; j < per; j++ {
			var t *Task
			switch c := rng.Intn(100); {
			case c < o.PanicPct:
				if rng.Chance(12) {
					t = r.NewPanicNilTask() // panic(nil)
				} else {
					t = r.NewTask(false, 0, true)
				}
			case o.SleepTasks && c < o.PanicPct+40:
				t = r.NewTask(false, time.Duration(50+rng.Intn(400))*time.Microsecond, false)
			case c < 70:
				t = r.NewTask(false, 0, false)
			default:
				t = r.NewTask(false, 0, false)
				t.spin = 1 + rng.Intn(20)
			}
			if o.Kinds && t.pv < 0 {
				t.Wrap(IdentityKinds[rng.Intn(len(IdentityKinds))])
			}
			l := lane0
			if !oneLane {
				l = rng.Intn(n)
			}
			plans[p] = append(plans[p], plan{t, l})
		}
	}
	stop := make(chan struct{})
	var obs sync.WaitGroup
	for i := 0; i < o.Observers; i++ {
		obs.Add(1)
		go func() {
			defer obs.Done()
			for k := 0; k < polls; k++ {
				select {
				case <-stop:
					return
				default:
				}
				r.Status()
				time.Sleep(time.Duration(20+k*10) * time.Microsecond)
			}
		}()
	}
	var pw sync.WaitGroup
	for p := range plans {
		pid := r.NewProducer()
		pl := plans[p]
		pw.Add(1)
		go func() {
			defer pw.Done()
			for _, x := range pl {
				r.PushAs(pid, x.t, x.lane)
			}
		}()
	}
	cancelled := false
	if mode == 3 {
		<-expired
		cancelled = true
	}
	if mode == 2 {
		time.Sleep(time.Duration(rng.Intn(1500)) * time.Microsecond)
		r.Cancel(en.ctxErr())
		cancelled = true
	}
	done := make(chan struct{})
	go func() { pw.Wait(); close(done) }()
	select {
	case <-done:
	case <-time.After(LiveBound + min(timeout, time.Second)):
		// every task returns within a millisecond: a producer that waits this long is not being served
		r.Violation("progress: producers still inside PushTask after %v (timeout setting %v, context %v)", LiveBound+min(timeout, time.Second), timeout, r.G.ErrNow())
		mode = 2
		if !cancelled {
			r.Cancel(en.ctxErr())
			cancelled = true
		}
		select {
		case <-done:
		case <-time.After(LiveBound):
			r.stuck.Store(true)
		}
	}
	if mode == 1 && !r.stuck.Load() {
		// the context is live and every task returns: each accepted task must be started
		if !WaitUntil(LiveBound, func() bool {
			r.mu.Lock()
			defer r.mu.Unlock()
			for _, c := range r.calls {
				if c.Res == "ok" && r.nF[c.T.ID] == 0 {
					return false
				}
			}
			return true
		}) {
			r.Violation("progress: an accepted task (kinds not started: %s) was not started within %v although the context is live and every task returns", r.unstartedKinds(), LiveBound)
		} else if last, ok := r.PendingSettles(0, LiveBound); !ok {
			r.Violation("pending-exact: lane at rest, PendingTask=%d want 0", last)
		}
	}
	close(stop)
	obs.Wait()
	en.Shutdown(r, cancelled)
	r.mu.Lock()
	nto, nctx, npan := 0, 0, 0
	for _, c := range r.calls {
		switch c.Res {
		case "to":
			nto++
		case "ctx":
			nctx++
		}
	}
	for _, t := range r.tasks {
		if t.pv >= 0 && r.nF[t.ID] > 0 {
			npan++
		}
	}
	r.mu.Unlock()
	en.E.Count("stress_push_timeouts", nto)
	en.E.Count("stress_push_ctx_errors", nctx)
	en.E.Count("stress_panics_raised", npan)
}
