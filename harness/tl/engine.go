package tl

import (
	"context"
	"fmt"
	"os"
	"sort"
	"strings"
	"time"

	"verifharness/hk"
)

// Engine runs scenarios one after the other (the goroutine dump after Wait needs the process to
// itself) and writes one history line per run:
//
//	HS n q ev...   short history: monitors + acceptor, also re-evaluated inside Coq
//	H  n q ev...   monitors + acceptor
//	M  n q ev...   monitors only (too long / too wide for the belief-set simulation)
//	VIOL <scenario> <expectation> :: <history>   a liveness expectation timed out (judged here)
type Engine struct {
	E   *hk.Env
	ST  *SiteTable
	Rng *hk.Rng

	MaxAcceptEvents int // histories longer than this are tagged M
	MaxAcceptLanes  int
	Only            string // replay: run only the scenario with this name
	progress        string // file that always holds the name of the scenario being run (crash attribution)

	violsByFamily map[string]int
	aborted       bool
	scenarios     int
	histories     map[string]int
	events        int
	unreached     map[string]int
	reached       map[string]int
	maxConc       map[int]int
	families      map[string]int
	multiWait     int
	degraded      []string // reasons why the tie itself no longer covers what it claims
	Caps          Caps     // park-point classes under control (probe.go)
	relabelled    []string // sites whose first-reach position was not their protocol meaning (corrected)
	skippedCtl    map[string]int
	toCycle       int
}

func NewEngine(e *hk.Env) *Engine {
	return &Engine{E: e, ST: NewSiteTable(), Rng: e.Rng.Fork(), MaxAcceptEvents: 64, MaxAcceptLanes: 3,
		violsByFamily: map[string]int{}, histories: map[string]int{}, unreached: map[string]int{}, reached: map[string]int{},
		maxConc: map[int]int{}, families: map[string]int{}, skippedCtl: map[string]int{}}
}

// Skip reports whether a scenario must not run (family gave up after repeated violations, the
// process has stuck goroutines, or a replay selects another scenario).
func (en *Engine) Skip(family, name string) bool {
	if en.aborted || en.violsByFamily[family] >= 2 {
		return true
	}
	if en.Only != "" && en.Only != name {
		return true
	}
	return false
}

func (en *Engine) New(family, name string, n, q int) *Run {
	en.scenarios++
	en.families[family]++
	if en.progress != "" {
		os.WriteFile(en.progress, []byte(name+"\n"), 0o644)
	}
	return NewRun(name, en.ST, n, q)
}

// Finish writes the history and the violations of a run.
func (en *Engine) Finish(family string, r *Run) {
	// never leave anything behind
	r.G.Open()
	r.ReleaseAll()
	if !r.Record {
		for _, v := range r.viols {
			en.violsByFamily[family]++
			en.E.Case("VIOL", r.Name, v, "::", "unrecorded")
		}
		if r.stuck.Load() {
			en.aborted = true
		}
		return
	}
	h := r.History()
	nev := r.Events()
	tag := "M"
	if r.ForceM {
		// events of this history were synthesized from Status() observations: no acceptor
	} else if (nev <= en.MaxAcceptEvents && r.N <= en.MaxAcceptLanes) || (nev <= 40 && r.N <= 4) {
		tag = "H"
		if nev <= 26 && r.N <= 2 {
			tag = "HS"
		}
	}
	en.E.Case(tag, h)
	en.histories[tag]++
	en.events += nev
	if c := r.MaxConcurrency(); c > en.maxConc[r.N] {
		en.maxConc[r.N] = c
	}
	r.mu.Lock()
	viols := append([]string(nil), r.viols...)
	r.mu.Unlock()
	for _, v := range viols {
		en.violsByFamily[family]++
		en.E.Case("VIOL", r.Name, strings.ReplaceAll(v, " ", "_"), "::", h)
	}
	if len(viols) == 0 && en.E.Rng != nil {
		en.E.Sample("samples", map[string]string{"scenario": r.Name, "history": tag + " " + h}, 6)
	}
	if r.stuck.Load() {
		// goroutines of this lane may still be alive: later dumps would blame the wrong run
		en.aborted = true
	}
}

func (en *Engine) WriteStats() {
	s := en.E.Stats
	s["scenarios"] = en.scenarios
	s["scenarios_by_family"] = en.families
	s["histories_by_tag"] = en.histories
	// cases = histories validated against the model (monitors + acceptor); the monitor-only ones are counted apart
	s["cases"] = en.histories["H"] + en.histories["HS"]
	s["histories_monitor_only"] = en.histories["M"]
	s["events"] = en.events
	s["park_points_reached"] = en.reached
	s["park_points_unreached"] = en.unreached
	s["max_concurrency_by_lanesize"] = en.maxConc
	s["context_call_sites"] = en.ST.Describe()
	have, lost := en.Caps.list()
	s["park_point_classes_controlled"] = have
	if len(lost) > 0 {
		// NOT a defect of the code: the way it consults its context leaves the gate fewer places to park goroutines;
		// the scenarios that need them were skipped, the stress families stand in for the forced schedules
		s["schedule_control_reduced"] = lost
		s["scenarios_skipped_for_lack_of_control"] = en.skippedCtl
	}
	if len(en.relabelled) > 0 {
		s["sites_relabelled_by_probe"] = en.relabelled
	}
	s["violations_by_family"] = en.violsByFamily
	s["aborted_after_stuck_goroutines"] = en.aborted
	s["shutdowns_with_concurrent_wait_callers"] = en.multiWait
}

// knownDead: park labels that the current code never reaches by construction (PushTask does not call the
// context a third / fourth time while it is live).
var knownDead = map[string]bool{"pushhook/call2": true, "pushhook/call3": true, "goexit/wait-returned": true, "goexit/long-task-running": true}

// Degraded lists the reasons why this run's tie is weaker than it claims: the context call sites are not the
// expected ones, a class of park points was never reached, or a family did not achieve its set-up. The caller
// turns a non-empty list into a harness error (reported by the runner as "no failing input found": it is the
// correspondence that no longer checks, not the property). Not judged when a violation aborted the run.
func (en *Engine) Degraded() []string {
	d := append([]string(nil), en.degraded...)
	nv := 0
	for _, v := range en.violsByFamily {
		nv += v
	}
	if en.aborted || nv > 0 || en.Only != "" {
		return nil
	}
	if n := en.ST.Drift(); n > 0 {
		d = append(d, fmt.Sprintf("%d context calls on a live context from sites the calibration run never reached", n))
	}
	for label, miss := range en.unreached {
		if en.reached[label] == 0 && !knownDead[label] {
			d = append(d, fmt.Sprintf("park point %s never reached (%d attempts)", label, miss))
		}
	}
	sort.Strings(d)
	return d
}

// ---------------------------------------------------------------- common endings

func (en *Engine) ctxErr() error {
	if en.Rng.Chance(25) {
		return context.DeadlineExceeded
	}
	return context.Canceled
}

// Shutdown: cancel (unless done), a PushTask begun after the cancel, open the gate and release the
// tasks (in either order), producers must come back, Wait must return, no lane goroutine may be
// left, and nothing may start afterwards.
func (en *Engine) Shutdown(r *Run, cancelled bool) {
	if !cancelled {
		r.Cancel(en.ctxErr())
	}
	// begun after Xe: must be answered with the context's error, without enqueuing
	late := r.NewTask(false, 0, false)
	r.Push(late, en.Rng.Intn(r.N))
	if en.Rng.Bool() {
		r.G.Open()
		r.ReleaseAll()
	} else {
		r.ReleaseAll()
		r.G.Open()
	}
	if !r.AwaitCalls(LiveBound) {
		r.stuck.Store(true)
		r.Violation("producer-not-released-after-cancel within %v", LiveBound)
	}
	waiters := 1
	if en.Rng.Chance(25) {
		waiters = 2 + en.Rng.Intn(3) // several goroutines inside Wait() at once
		en.multiWait++
	}
	if !r.WaitMany(waiters, LiveBound) {
		r.Violation("wait-did-not-return within %v after cancel and release of all running tasks (callers of Wait: %d, lane goroutines alive: %d)", LiveBound, waiters, LaneGoroutines())
		return
	}
	r.Leaks()
	late2 := r.NewTask(false, 0, false)
	r.Push(late2, en.Rng.Intn(r.N))
	if en.Rng.Chance(70) {
		r.Status() // Status() is legal at any time, also after Wait (monitor: pending = accepted - started)
	}
	time.Sleep(200 * time.Microsecond) // room for a (wrong) late Start() to show up in the history
}

// PinAll occupies every worker with a gated task; returns the tasks.
func (en *Engine) PinAll(r *Run, lane func(i int) int) ([]*Task, bool) {
	var ts []*Task
	for i := 0; i < r.N; i++ {
		t := r.NewTask(true, 0, false)
		ts = append(ts, t)
		if res := r.Push(t, lane(i)); res != "ok" {
			r.Violation("push-of-pinning-task-%d failed: %s", t.ID, res)
			return ts, false
		}
		// one at a time: the next push needs the queue goroutine back at its receive when queueSize = 0
		if !WaitUntil(LiveBound, func() bool { return r.Started(t) }) {
			r.Violation("progress: accepted task %d not started within %v although %d of %d workers are idle", t.ID, LiveBound, r.N-i, r.N)
			return ts, false
		}
	}
	return ts, true
}

func (en *Engine) waitParked(r *Run, site string, label string) bool {
	ok := WaitUntil(250*time.Millisecond, func() bool { return r.G.Parked(site) > 0 })
	if ok {
		en.reached[label]++
	} else {
		en.unreached[label]++
	}
	return ok
}

// ---------------------------------------------------------------- calibration

// Calibrate drives a 2x1 lane through every path - including a FULL lane, so that a slow path of PushTask is
// seen - while the site table learns which functions are the worker / queue / API functions and where they consult
// the context; then it freezes the table, probes what every site means (probe.go) and fixes the capabilities.
func (en *Engine) Calibrate() {
	r := NewRun("calibrate", en.ST, calibLanes, 1)
	r.Start(10 * time.Second)
	pins, _ := en.PinAll(r, func(int) int { return 0 }) // the second pin finds worker 0 busy: blocking offer
	for l := 0; l < calibLanes; l++ {
		r.Push(r.NewTask(false, 0, false), l) // held by queue l (every worker busy): blocking offer
		r.Push(r.NewTask(false, 0, false), l) // buffered
	}
	r.PendingSettles(2*calibLanes, time.Second)
	blocked := r.PushAsync(r.NewTask(false, 0, false), 0) // lane 0 is full: PushTask's blocking path
	time.Sleep(2 * time.Millisecond)
	for _, t := range pins {
		t.Release()
	}
	WaitUntil(time.Second, blocked.Done)
	r.PendingSettles(0, time.Second)
	for l := 0; l < calibLanes; l++ {
		t := r.NewTask(false, 0, false)
		r.Push(t, l)
		WaitUntil(time.Second, func() bool { return r.Finished(t) })
	}
	time.Sleep(time.Millisecond)
	en.ST.Freeze() // before the cancel: only calls on the live context are sites
	workerEntry = en.ST.WorkerEntry()
	r.Cancel(context.Canceled)
	r.G.Open()
	r.ReleaseAll()
	r.Wait(LiveBound)
	r.Leaks()
	en.E.Case("HS", r.History())
	en.histories["HS"]++
	en.events += r.Events()
	if r.stuck.Load() {
		en.aborted = true
		en.E.Case("VIOL", "calibrate", "wait-did-not-return-or-goroutines-left", "::", r.History())
		return
	}
	if sw := strings.Split(os.Getenv("TL_TEST_SWAP"), ","); len(sw) == 2 {
		en.ST.Swap(sw[0], sw[1]) // self-test of the probes: mislabel two sites on purpose, Probe must put them right
	}
	var deg []string
	en.Caps, deg = en.Probe()
	en.degraded = append(en.degraded, deg...)
}

func sname(parts ...any) string {
	var sb strings.Builder
	for i, p := range parts {
		if i > 0 {
			sb.WriteByte('/')
		}
		fmt.Fprint(&sb, p)
	}
	return strings.ReplaceAll(sb.String(), " ", ",")
}
