package tl

import (
	"context"
	"fmt"
	"sort"
	"time"
)

// Caps: which park-point classes the gate controls on the code under test, established by probes after the
// calibration run (not assumed from the source layout).
type Caps struct {
	Q0, Q0rec     bool // queue goroutine before its blocking receive: at start-up / again after every task
	Q1            bool // after take+count, before the hand-over (the task is taken, counted, not started; a cancel here drops it)
	Q2            bool // before the blocking offer (own worker busy)
	W0, W0rec     bool // worker loop top: at start-up / after every task
	W1, W1rec     bool // before the worker's blocking receive
	P0            bool // PushTask entry check (nothing enqueued yet; a cancel here gives the ctx error)
	P1any, P1full bool // PushTask's blocking select: on every push / only when the lane is full
}

func (c Caps) list() (have, lost []string) {
	for _, x := range []struct {
		n string
		b bool
	}{{"Q0", c.Q0}, {"Q0/after-work", c.Q0rec}, {"Q1", c.Q1}, {"Q2", c.Q2}, {"W0", c.W0}, {"W0/after-work", c.W0rec},
		{"W1", c.W1}, {"W1/after-work", c.W1rec}, {"P0", c.P0}, {"P1/room", c.P1any}, {"P1/full", c.P1full}} {
		if x.b {
			have = append(have, x.n)
		} else {
			lost = append(lost, x.n)
		}
	}
	return
}

// Can tells whether a cancel-point scenario (site, load, start-up park) is controllable.
func (c Caps) Can(site, load string, early bool) bool {
	switch site {
	case "Q0":
		if early {
			return c.Q0
		}
		return c.Q0rec
	case "Q1":
		return c.Q1
	case "Q2":
		if load == "flight" {
			return c.Q2 && c.W1
		}
		return c.Q2
	case "W0":
		if early {
			return c.W0
		}
		return c.W0rec
	case "W1":
		if early {
			return c.W1
		}
		return c.W1rec
	case "P0":
		return c.P0
	case "P1":
		if load == "full" {
			return c.P1full
		}
		return c.P1any
	}
	return false
}

// probeRun is a throw-away 1x1 lane for one probe.
func (en *Engine) probeRun(armEarly string) *Run {
	r := NewRun("probe", en.ST, 1, 1)
	r.Record = false
	if armEarly != "" {
		r.G.Arm(armEarly, -1)
	}
	r.Start(10 * time.Second)
	return r
}

func (en *Engine) probeEnd(r *Run) {
	r.G.Cancel(context.Canceled)
	r.G.Open()
	r.ReleaseAll()
	if !r.Wait(LiveBound) {
		en.aborted = true
	}
	WaitUntil(300*time.Millisecond, func() bool { return LaneGoroutines() == 0 })
}

func parkedSoon(r *Run, site string) bool {
	return WaitUntil(60*time.Millisecond, func() bool { return r.G.Parked(site) > 0 })
}

func rawStarted(r *Run) bool { return r.rawStarts.Load() > 0 }

// idle waits until the lane's goroutines sit in their blocking selects.
func idle(r *Run) {
	WaitUntil(100*time.Millisecond, func() bool { return workersBlockedInSelect() == r.N })
	time.Sleep(200 * time.Microsecond)
}

// probeStartup: armed before New, a goroutine parks there at start-up; a pushed task is accepted but not started
// while it is parked.
func (en *Engine) probeStartup(site string) bool {
	r := en.probeRun(site)
	defer en.probeEnd(r)
	if !parkedSoon(r, site) {
		return false
	}
	c := r.PushAsync(r.NewTask(false, 0, false), 0)
	WaitUntil(60*time.Millisecond, c.Done)
	time.Sleep(time.Millisecond)
	return c.Done() && c.Res == "ok" && !rawStarted(r)
}

// probeStartupBefore: a start-up park at which no other site of the kind has been reached yet (loop top).
func (en *Engine) probeStartupBefore(site string, kind byte) bool {
	r := en.probeRun(site)
	defer en.probeEnd(r)
	if !parkedSoon(r, site) {
		return false
	}
	time.Sleep(500 * time.Microsecond)
	for k, v := range r.G.Hits() {
		if k[0] == kind && k != site && v > 0 {
			return false
		}
	}
	return true
}

// probeTaken (Q1): on an idle lane a pushed task parks the queue goroutine with the task taken and counted
// (PendingTask 1, nothing started); cancelled there, the task is never started.
func (en *Engine) probeTaken(site string) bool {
	r := en.probeRun("")
	defer en.probeEnd(r)
	idle(r)
	r.G.Arm(site, 1)
	r.PushAsync(r.NewTask(false, 0, false), 0)
	if !parkedSoon(r, site) || rawStarted(r) || r.L.Status().PendingTask != 1 {
		return false
	}
	r.G.Cancel(context.Canceled)
	r.G.Open()
	time.Sleep(time.Millisecond)
	return !rawStarted(r)
}

// probeOffer (Q2): with the worker busy a pushed task parks the queue goroutine there (PendingTask 1).
func (en *Engine) probeOffer(site string) bool {
	r := en.probeRun("")
	defer en.probeEnd(r)
	idle(r)
	r.PushAsync(r.NewTask(true, 0, false), 0)
	if !WaitUntil(time.Second, func() bool { return rawStarted(r) }) {
		return false
	}
	r.G.Arm(site, 1)
	r.PushAsync(r.NewTask(false, 0, false), 0)
	return parkedSoon(r, site) && r.rawStarts.Load() == 1 && r.L.Status().PendingTask == 1
}

// probeReachedIdle: is the site reached at all when a task is pushed to an idle lane (worker idle)?
func (en *Engine) probeReachedIdle(site string) bool {
	r := en.probeRun("")
	defer en.probeEnd(r)
	idle(r)
	r.G.Arm(site, 1)
	r.PushAsync(r.NewTask(false, 0, false), 0)
	return parkedSoon(r, site)
}

// probeAfterWork: on an idle lane the site is reached (again) once a pushed task has been started.
func (en *Engine) probeAfterWork(site string) bool {
	r := en.probeRun("")
	defer en.probeEnd(r)
	idle(r)
	r.G.Arm(site, 1)
	r.PushAsync(r.NewTask(false, 0, false), 0)
	return parkedSoon(r, site) && WaitUntil(60*time.Millisecond, func() bool { return rawStarted(r) })
}

// probePush (P0 / P1): a PushTask call parks there with nothing enqueued; first=true: it is the first context call
// of the PushTask call and a cancel while parked gives the ctx error; full: the lane is full (worker busy, one task
// held, one buffered).
func (en *Engine) probePush(site string, first, full bool) bool {
	r := en.probeRun("")
	defer en.probeEnd(r)
	idle(r)
	want := 0
	if full {
		r.PushAsync(r.NewTask(true, 0, false), 0)
		if !WaitUntil(time.Second, func() bool { return rawStarted(r) }) {
			return false
		}
		r.PushAsync(r.NewTask(false, 0, false), 0)
		r.PushAsync(r.NewTask(false, 0, false), 0)
		want = 2
		if !WaitUntil(time.Second, func() bool { return r.L.Status().PendingTask == want }) {
			return false
		}
	}
	pHits := func() int {
		n := 0
		for k, v := range r.G.Hits() {
			if k[0] == 'P' {
				n += v
			}
		}
		return n
	}
	h0 := pHits()
	r.G.Arm(site, 1)
	c := r.PushAsync(r.NewTask(false, 0, false), 0)
	if !parkedSoon(r, site) || r.L.Status().PendingTask != want {
		return false
	}
	if isFirst := pHits()-h0 == 1; first != isFirst {
		return false
	}
	if first {
		r.G.Cancel(context.Canceled)
		r.G.Open()
		return WaitUntil(time.Second, c.Done) && c.Res == "ctx"
	}
	return true
}

// Probe establishes what each site means, corrects a permutation of labels, and returns the capabilities together
// with the reasons (if any) why the structure is not merely different but WRONG (degraded).
func (en *Engine) Probe() (caps Caps, degraded []string) {
	st := en.ST
	assign := func(kind byte, want string, test func(site string) bool, taken map[string]bool) bool {
		labels, _ := st.Labels(kind)
		has := false
		for _, x := range labels {
			if x == want {
				has = true
			}
		}
		if has && !taken[want] && test(want) {
			taken[want] = true
			return true
		}
		for _, l := range labels {
			if l != want && !taken[l] && test(l) {
				// the site first reached in position l is the protocol point `want`: relabel (swap, or rename if unused)
				st.Swap(l, want)
				en.relabelled = append(en.relabelled, fmt.Sprintf("%s->%s", l, want))
				taken[want] = true
				return true
			}
		}
		return false
	}
	// --- queue goroutines
	tq := map[string]bool{}
	caps.Q1 = assign('Q', "Q1", en.probeTaken, tq)
	caps.Q2 = assign('Q', "Q2", func(s string) bool { return en.probeOffer(s) && !en.probeReachedIdle(s) }, tq)
	caps.Q0 = assign('Q', "Q0", en.probeStartup, tq)
	_, recQ := st.Labels('Q')
	caps.Q0rec = caps.Q0 && recQ["Q0"] && en.probeAfterWork("Q0")
	// --- workers
	tw := map[string]bool{}
	caps.W0 = assign('W', "W0", func(s string) bool { return en.probeStartupBefore(s, 'W') }, tw)
	caps.W1 = assign('W', "W1", en.probeStartup, tw)
	_, recW := st.Labels('W')
	caps.W0rec = caps.W0 && recW["W0"] && en.probeAfterWork("W0")
	caps.W1rec = caps.W1 && recW["W1"] && en.probeAfterWork("W1")
	// --- PushTask
	tp := map[string]bool{}
	caps.P0 = assign('P', "P0", func(s string) bool { return en.probePush(s, true, false) }, tp)
	caps.P1any = assign('P', "P1", func(s string) bool { return en.probePush(s, false, false) }, tp)
	if caps.P1any {
		caps.P1full = en.probePush("P1", false, true)
	} else {
		caps.P1full = assign('P', "P1", func(s string) bool { return en.probePush(s, false, true) }, tp)
	}
	// --- wrong rather than different: a goroutine kind that consults the context on every loop iteration must do
	// so at each of its protocol points (queue: loop top, after take+count, blocking offer; worker: loop top,
	// blocking receive). Fewer recurring sites = a check was dropped. None at all = the channel is cached
	// (legal: Done() returns the same channel every time), which only costs schedule control.
	count := func(m map[string]bool) int {
		n := 0
		for _, b := range m {
			if b {
				n++
			}
		}
		return n
	}
	if n := count(recQ); n > 0 && n < 3 {
		degraded = append(degraded, fmt.Sprintf("the lane's non-worker goroutines consult the context at %d points per iteration, the queue goroutine of Model/TaskLane.v at 3 (loop top, after take+count, blocking offer): either a check was dropped or the implementation no longer has the goroutine structure of the model - the theorems do not cover it as it stands", n))
	} else if n >= 3 && !(caps.Q0 && caps.Q1 && caps.Q2) {
		degraded = append(degraded, "the queue goroutine has its three context checks but they no longer mean loop top / after take+count / blocking offer (probes failed)")
	}
	if n := count(recW); n > 0 && n < 2 {
		degraded = append(degraded, fmt.Sprintf("the worker goroutines consult the context at %d points per iteration, the worker of Model/TaskLane.v at 2 (loop top, blocking receive): either a check was dropped or the implementation no longer has the goroutine structure of the model - the theorems do not cover it as it stands", n))
	} else if n >= 2 && !(caps.W0 && caps.W1) {
		degraded = append(degraded, "the worker has its two context checks but they no longer mean loop top / blocking receive (probes failed)")
	}
	sort.Strings(degraded)
	return
}
