package tl

import (
	"context"
	"errors"
	"fmt"
	"os"
	"runtime"
	"strconv"
	"strings"
	"sync"
	"sync/atomic"
	"time"

	"github.com/whoisnian/glb/tasklane"
)

// LiveBound is the "generous" bound of every liveness expectation.
const LiveBound = 5 * time.Second

// ---- panic values of different dynamic types, each carrying its value id ----

type PVStruct struct{ V int }
type pvErr struct{ v int }

func (e *pvErr) Error() string { return "pv:" + strconv.Itoa(e.v) }

// Run is one lane under observation: the recorder of its history and the handles of everything
// the scenario started.
type Run struct {
	Name        string
	N, Q        int
	G           *Gate
	L           *tasklane.TaskLane
	timeout     time.Duration
	panicNilPV  int // value id shared by the panic(nil) tasks of this run
	nilTaskPV   int // value id shared by the nil Tasks of this run (their "panic" is the lane's nil dereference)
	nilShown    any // LastPanic value attributed to the nil tasks
	nilShownSet bool
	ForceM      bool         // histories with synthesized events go to the monitors only
	rawStarts   atomic.Int64 // Start() calls of an unrecorded run
	Record      bool         // false: no events (pure race hunting, no synchronisation added by the recorder)

	mu      sync.Mutex
	evs     []string
	nS      map[int]int
	nF      map[int]int
	cur     int // tasks between S and F
	maxCur  int
	waited  bool
	sAfterW int

	tasks    []*Task
	calls    []*PushCall
	nextTask int
	nextProd int
	nextObs  atomic.Int32
	nextPV   int
	nilPV    int
	viols    []string
	stuck    atomic.Bool // a lane goroutine, producer or Status() call is known to be stuck: later goroutine dumps are unreliable
	aux      sync.WaitGroup
}

func NewRun(name string, st *SiteTable, n, q int) *Run {
	return &Run{Name: name, N: n, Q: q, G: NewGate(st), Record: true, nS: map[int]int{}, nF: map[int]int{}, nilPV: -1}
}

// Start creates the lane. timeout <= 0 keeps the default (1 s).
func (r *Run) Start(timeout time.Duration) {
	r.L = tasklane.New(r.G, r.N, r.Q)
	r.timeout = time.Second
	if timeout > 0 {
		r.timeout = timeout
		r.L.SetTimeout(timeout)
	}
}

// StartExact creates the lane and calls SetTimeout(timeout) whatever the value (zero and negative included).
func (r *Run) StartExact(timeout time.Duration) {
	r.L = tasklane.New(r.G, r.N, r.Q)
	r.timeout = timeout
	r.L.SetTimeout(timeout)
}

// PanicNilIsNil: the process runs with GODEBUG=panicnil=1: panic(nil) makes recover() return nil, i.e. the lane
// cannot tell such a task from one that returned (and LastPanic is not touched). With the default setting
// panic(nil) raises a *runtime.PanicNilError like any other panic value.
var PanicNilIsNil = strings.Contains(os.Getenv("GODEBUG"), "panicnil=1")

func (r *Run) rec(ev string) {
	if !r.Record {
		return
	}
	r.mu.Lock()
	r.evs = append(r.evs, ev)
	r.mu.Unlock()
}

func (r *Run) Violation(format string, a ...any) {
	r.mu.Lock()
	r.viols = append(r.viols, fmt.Sprintf(format, a...))
	r.mu.Unlock()
}

func (r *Run) Events() int {
	r.mu.Lock()
	defer r.mu.Unlock()
	return len(r.evs)
}

// ---- gate tasks ----

type Task struct {
	ID       int
	r        *Run
	gate     chan struct{} // nil: does not block
	sleep    time.Duration
	spin     int
	pv       int // value id, -1 = returns normally
	pval     any
	once     sync.Once
	panicNil bool          // Start() does panic(nil)
	goexit   bool          // Start() ends its goroutine with runtime.Goexit (neither returns nor panics)
	nilSlot  int           // index of the reserved S/F place of an accepted nil task
	isNil    bool          // the value handed to PushTask is the nil Task; this record only carries its id
	kind     string        // dynamic type of the value handed to PushTask (kinds.go)
	wrap     tasklane.Task // the value pushed instead of the *Task itself, nil = the pointer
}

// NewTask: gated tasks block in Start() until Release(); pv >= 0 makes Start() panic with value id pv.
func (r *Run) NewTask(gated bool, sleep time.Duration, panics bool) *Task {
	r.mu.Lock()
	defer r.mu.Unlock()
	r.nextTask++
	t := &Task{ID: r.nextTask, r: r, sleep: sleep, pv: -1}
	if gated {
		t.gate = make(chan struct{})
	}
	if panics {
		r.nextPV++
		t.pv = r.nextPV
		t.pval = r.mkPV(t.pv, t.pv%6)
	}
	r.tasks = append(r.tasks, t)
	return t
}

// Panic value kinds (dynamic types).
const (
	PVString      = 0
	PVError       = 1
	PVInt         = 2
	PVStruct_     = 3
	PVSlice       = 4
	PVNilPtr      = 5
	PVMap         = 6
	PVStructSlice = 7
)

// PVWithSlice is a panic value of a struct type that is not comparable.
type PVWithSlice struct{ V []int }

// NewPanicNilTask: a task whose Start() does panic(nil).
func (r *Run) NewPanicNilTask() *Task {
	t := r.NewTask(false, 0, false)
	r.mu.Lock()
	defer r.mu.Unlock()
	if r.panicNilPV == 0 {
		r.nextPV++
		r.panicNilPV = r.nextPV
	}
	t.pv, t.panicNil = r.panicNilPV, true
	if PanicNilIsNil {
		r.ForceM = true
	}
	return t
}

// NewNilTask: the nil Task value. PushTask accepts it; the worker's call of its Start() is a nil dereference
// that the lane recovers like any task panic. Its start cannot be observed by the task itself: the scenario
// calls MarkNilRan once Status() shows that the lane has dealt with it.
func (r *Run) NewNilTask() *Task {
	t := r.NewTask(false, 0, false)
	r.mu.Lock()
	defer r.mu.Unlock()
	if r.nilTaskPV == 0 {
		r.nextPV++
		r.nilTaskPV = r.nextPV
	}
	t.pv, t.isNil, t.kind = r.nilTaskPV, true, "nil"
	r.ForceM = true
	return t
}

// NilAccepted reserves the place of an accepted nil task's S/F in the history (at acceptance: the context is live,
// it will be taken). What the nil task "did" cannot be recorded by the task itself; it is decided later from what
// Status() shows and filled in with ResolveNil. A place that is never resolved is left out of the history.
func (r *Run) NilAccepted(t *Task) {
	r.mu.Lock()
	defer r.mu.Unlock()
	t.nilSlot = len(r.evs)
	r.evs = append(r.evs, "")
}

// ResolveNil fills in the outcome of an accepted nil task: it was started and returned (panicked = false: an
// implementation may substitute a no-op), or it was started and panicked - with the lane's nil dereference or with
// any value the implementation chose; that value (as shown by LastPanic) becomes the nil tasks' panic value.
func (r *Run) ResolveNil(t *Task, panicked bool, shown any) {
	r.mu.Lock()
	defer r.mu.Unlock()
	if r.nS[t.ID] > 0 || t.nilSlot < 0 || t.nilSlot >= len(r.evs) {
		return
	}
	out := "ret"
	if panicked {
		out = "p" + strconv.Itoa(t.pv)
		r.nilShown, r.nilShownSet = shown, true
	}
	r.evs[t.nilSlot] = "S:" + strconv.Itoa(t.ID) + " F:" + strconv.Itoa(t.ID) + ":" + out
	r.nS[t.ID]++
	r.nF[t.ID]++
}

// sameValue compares two panic values without panicking on uncomparable dynamic types.
func sameValue(a, b any) (eq bool) {
	defer func() {
		if recover() != nil {
			eq = fmt.Sprintf("%T%v", a, a) == fmt.Sprintf("%T%v", b, b)
		}
	}()
	return a == b
}

// RawPendingSettles is PendingSettles without recording the polls (used while it is not yet known how a value
// shown by LastPanic is to be named in the history).
func (r *Run) RawPendingSettles(want int, d time.Duration) (last int, ok bool) {
	streak := 0
	ok = WaitUntil(d, func() bool {
		last = r.L.Status().PendingTask
		if last == want {
			streak++
		} else {
			streak = 0
		}
		return streak >= 3
	})
	return
}

// RawLastPanic is Status().LastPanic as is (unrecorded).
func (r *Run) RawLastPanic() any { return r.L.Status().LastPanic }

// NewSamePanicTask: a task that panics with the SAME value (same id, identical interface value) as prev.
func (r *Run) NewSamePanicTask(prev *Task) *Task {
	t := r.NewTask(false, 0, false)
	t.pv, t.pval = prev.pv, prev.pval
	return t
}

// NewPanicTask: a task whose Start() panics with a value of the given dynamic type.
func (r *Run) NewPanicTask(kind int, gated bool) *Task {
	t := r.NewTask(gated, 0, false)
	r.mu.Lock()
	defer r.mu.Unlock()
	r.nextPV++
	t.pv = r.nextPV
	t.pval = r.mkPV(t.pv, kind)
	return t
}

func (r *Run) mkPV(v, kind int) any {
	switch kind {
	case 0:
		return "pv:" + strconv.Itoa(v)
	case 1:
		return error(&pvErr{v})
	case 2:
		return 100000 + v
	case 3:
		return PVStruct{v}
	case 4:
		return []int{v}
	case PVMap:
		return map[string]int{"pv": v}
	case PVStructSlice:
		return PVWithSlice{V: []int{v}}
	default:
		if r.nilPV < 0 {
			r.nilPV = v
			return (*PVStruct)(nil) // nil-like: a typed nil pointer
		}
		return "pv:" + strconv.Itoa(v)
	}
}

// pvID maps a LastPanic value back to its id: -1 for nil (none), -2 for a value no task raised.
func (r *Run) pvID(x any) int {
	// the value an accepted nil Task "panicked" with, as first shown by LastPanic (the lane's nil dereference, or
	// whatever the implementation substitutes)
	r.mu.Lock()
	if r.nilShownSet && x != nil && sameValue(x, r.nilShown) {
		id := r.nilTaskPV
		r.mu.Unlock()
		return id
	}
	r.mu.Unlock()
	switch v := x.(type) {
	case nil:
		return -1
	case string:
		if strings.HasPrefix(v, "pv:") {
			if n, err := strconv.Atoi(v[3:]); err == nil {
				return n
			}
		}
	case *pvErr:
		if v != nil {
			return v.v
		}
	case int:
		return v - 100000
	case PVStruct:
		return v.V
	case []int:
		if len(v) == 1 {
			return v[0]
		}
	case map[string]int:
		if len(v) == 1 {
			return v["pv"]
		}
	case PVWithSlice:
		if len(v.V) == 1 {
			return v.V[0]
		}
	case *runtime.PanicNilError:
		r.mu.Lock()
		defer r.mu.Unlock()
		if r.panicNilPV > 0 {
			return r.panicNilPV
		}
	case *PVStruct:
		if v == nil {
			r.mu.Lock()
			defer r.mu.Unlock()
			if r.nilPV >= 0 {
				return r.nilPV
			}
		}
	}
	return -2
}

func (t *Task) Release() {
	if t.gate != nil {
		t.once.Do(func() { close(t.gate) })
	}
}

func (t *Task) Start() { t.startWith(nil) }

// startWith is Start() with an optional body run between S and F (after the gate / sleep).
func (t *Task) startWith(body func()) {
	r := t.r
	if r.Record {
		r.mu.Lock()
		r.evs = append(r.evs, "S:"+strconv.Itoa(t.ID))
		r.nS[t.ID]++
		r.cur++
		if r.cur > r.maxCur {
			r.maxCur = r.cur
		}
		if r.waited {
			r.sAfterW++
		}
		r.mu.Unlock()
	}
	r.G.st.NoteWorker()
	if !r.Record {
		r.rawStarts.Add(1)
	}
	if t.gate != nil {
		<-t.gate
	}
	if t.sleep > 0 {
		time.Sleep(t.sleep)
	}
	for i := 0; i < t.spin; i++ {
		runtime.Gosched()
	}
	if body != nil {
		body()
	}
	res := "ret"
	if t.panicNil && PanicNilIsNil {
		// recover() will return nil: a panic whose value is nil. An implementation may notice it (LastPanic becomes nil)
		// or not (LastPanic untouched): value id "nil"; such histories are judged by the monitors only
		res = "pnil"
	} else if t.pv >= 0 {
		res = "p" + strconv.Itoa(t.pv)
	}
	if r.Record {
		r.mu.Lock()
		r.evs = append(r.evs, "F:"+strconv.Itoa(t.ID)+":"+res)
		r.nF[t.ID]++
		r.cur--
		r.mu.Unlock()
	}
	if t.goexit {
		runtime.Goexit() // F was recorded: the task is over, but its goroutine ends here (t.FailNow() in a task does this)
	}
	if t.panicNil {
		var none any
		panic(none) // panic(nil)
	}
	if t.pv >= 0 {
		panic(t.pval) // F was recorded before the panic unwinds into the lane
	}
}

func (r *Run) Started(t *Task) bool {
	r.mu.Lock()
	defer r.mu.Unlock()
	return r.nS[t.ID] > 0
}
func (r *Run) Finished(t *Task) bool {
	r.mu.Lock()
	defer r.mu.Unlock()
	return r.nF[t.ID] > 0
}
func (r *Run) StartedCount() int {
	r.mu.Lock()
	defer r.mu.Unlock()
	return len(r.nS)
}
func (r *Run) curRunning() int {
	r.mu.Lock()
	defer r.mu.Unlock()
	return r.cur
}
func (r *Run) MaxConcurrency() int {
	r.mu.Lock()
	defer r.mu.Unlock()
	return r.maxCur
}

// unstartedKinds lists the dynamic types of accepted tasks that have not been started.
func (r *Run) unstartedKinds() string {
	r.mu.Lock()
	defer r.mu.Unlock()
	seen := map[string]bool{}
	out := ""
	for _, c := range r.calls {
		if c.Res == "ok" && r.nS[c.T.ID] == 0 && !seen[c.T.Kind()] {
			seen[c.T.Kind()] = true
			out += c.T.Kind() + ","
		}
	}
	return out
}

func (r *Run) ReleaseAll() {
	r.mu.Lock()
	ts := append([]*Task(nil), r.tasks...)
	r.mu.Unlock()
	for _, t := range ts {
		t.Release()
	}
}

// ---- PushTask ----

type PushCall struct {
	P, Lane int
	T       *Task
	Res     string // ok | ctx | to | other:<err>
	done    chan struct{}
}

func (c *PushCall) Done() bool {
	select {
	case <-c.done:
		return true
	default:
		return false
	}
}

func (r *Run) NewProducer() int {
	r.mu.Lock()
	defer r.mu.Unlock()
	r.nextProd++
	return r.nextProd
}

// PushAs performs one PushTask call on behalf of producer p (a producer has one call in flight at a time).
func (r *Run) PushAs(p int, t *Task, lane int) string {
	c := &PushCall{P: p, Lane: lane, T: t, done: make(chan struct{})}
	r.mu.Lock()
	r.calls = append(r.calls, c)
	r.mu.Unlock()
	r.doPush(c)
	return c.Res
}

// Push performs one PushTask call and waits for its answer, but never longer than the liveness bound
// (plus the lane's timeout when that is short): a call that is still blocked then is reported and left
// to the shutdown (cancel releases it), so that a deadlocked lane costs seconds, not the lane's timeout.
func (r *Run) Push(t *Task, lane int) string {
	c := r.PushAsync(t, lane)
	d := LiveBound
	if r.timeout < time.Second {
		d += r.timeout
	}
	select {
	case <-c.done:
		return c.Res
	case <-time.After(d):
	}
	r.Violation("progress: PushTask(task %d, lane %d) has not returned after %v (timeout setting %v)", t.ID, lane, d, r.timeout)
	return "blocked"
}

func (r *Run) PushAsync(t *Task, lane int) *PushCall {
	c := &PushCall{P: r.NewProducer(), Lane: lane, T: t, done: make(chan struct{})}
	r.mu.Lock()
	r.calls = append(r.calls, c)
	r.mu.Unlock()
	r.aux.Add(1)
	go func() {
		defer r.aux.Done()
		r.doPush(c)
	}()
	return c
}

func (r *Run) doPush(c *PushCall) {
	r.rec(fmt.Sprintf("B:%d:%d:%d", c.P, c.Lane, c.T.ID))
	var err error
	func() {
		defer func() {
			if x := recover(); x != nil {
				err = fmt.Errorf("panic:%v", x)
			}
		}()
		err = r.L.PushTask(c.T.value(), c.Lane)
	}()
	res := ""
	switch {
	case err == nil:
		res = "ok"
	case errors.Is(err, tasklane.ErrTimeout):
		res = "to"
	case errors.Is(err, context.Canceled) || errors.Is(err, context.DeadlineExceeded):
		res = "ctx"
		if ge := r.G.ErrNow(); ge == nil || !errors.Is(err, ge) {
			res = "other:" + strings.ReplaceAll(err.Error(), " ", "_")
		}
	default:
		res = "other:" + strings.ReplaceAll(err.Error(), " ", "_")
	}
	if c.T.isNil && strings.HasPrefix(res, "other:") {
		// an implementation may refuse a nil Task with an error of its own: a rejected push (never started, no effect)
		res = "rej"
	}
	r.mu.Lock()
	c.Res = res
	if r.Record {
		r.evs = append(r.evs, fmt.Sprintf("R:%d:%s", c.P, res))
	}
	r.mu.Unlock()
	close(c.done)
}

// quiesce waits until every task whose PushTask returned nil so far has run to its end.
func (r *Run) quiesce(d time.Duration) bool {
	return WaitUntil(d, func() bool {
		r.mu.Lock()
		defer r.mu.Unlock()
		for _, c := range r.calls {
			if c.Res == "ok" && r.nF[c.T.ID] == 0 {
				return false
			}
		}
		return true
	})
}

// AwaitCalls waits until every PushTask call made so far has returned.
func (r *Run) AwaitCalls(d time.Duration) bool {
	return WaitUntil(d, func() bool {
		r.mu.Lock()
		defer r.mu.Unlock()
		for _, c := range r.calls {
			if !c.Done() {
				return false
			}
		}
		return true
	})
}

// ---- cancel / status / wait / leaks ----

func (r *Run) Cancel(err error) {
	r.rec("Xb")
	r.G.Cancel(err)
	r.rec("Xe")
}

// Status performs one observed Status() call; lp is the LastPanic value id (-1 none, -2 foreign value).
// Status() must never block (C14): a call that has not returned within the liveness bound is reported
// as "status-blocked" and the run is marked stuck; it then returns (-3, -3).
func (r *Run) Status() (pending, lp int) {
	o := int(r.nextObs.Add(1))
	r.rec("Qb:" + strconv.Itoa(o))
	type ans struct {
		s   *tasklane.LaneStatus
		err any
	}
	ch := make(chan ans, 1)
	go func() {
		var a ans
		defer func() {
			if x := recover(); x != nil {
				a.err = x
			}
			ch <- a
		}()
		a.s = r.L.Status()
	}()
	var s *tasklane.LaneStatus
	select {
	case a := <-ch:
		if a.err != nil {
			r.Violation("status-panicked: Status() panicked: %v", a.err)
			return -3, -3
		}
		s = a.s
	case <-time.After(LiveBound):
		r.stuck.Store(true)
		r.Violation("status-blocked: Status() has not returned after %v (tasks inside Start(): %d)", LiveBound, r.curRunning())
		return -3, -3
	}
	pending, lp = s.PendingTask, r.pvID(s.LastPanic)
	v := "-"
	if lp >= 0 {
		v = strconv.Itoa(lp)
	} else if lp == -2 {
		v = "x"
	}
	r.rec(fmt.Sprintf("Qe:%d:%d:%s", o, pending, v))
	if s.LaneSize != r.N || s.QueueSize != r.Q {
		r.Violation("status-config LaneSize=%d QueueSize=%d", s.LaneSize, s.QueueSize)
	}
	return
}

// PendingSettles polls Status() until PendingTask == want holds on three consecutive reads.
func (r *Run) PendingSettles(want int, d time.Duration) (last int, ok bool) {
	streak := 0
	ok = WaitUntil(d, func() bool {
		last, _ = r.Status()
		if last == want {
			streak++
		} else {
			streak = 0
		}
		return streak >= 3
	})
	return
}

// Wait calls Wait() from `callers` goroutines at once (>= 1) and reports whether all of them returned within d;
// records W when the first one returns.
func (r *Run) Wait(d time.Duration) bool { return r.WaitMany(1, d) }

func (r *Run) WaitMany(callers int, d time.Duration) bool {
	ch := make(chan struct{}, callers)
	var first sync.Once
	for i := 0; i < callers; i++ {
		go func() {
			r.L.Wait()
			first.Do(r.markWaited)
			ch <- struct{}{}
		}()
	}
	deadline := time.After(d)
	for i := 0; i < callers; i++ {
		select {
		case <-ch:
		case <-deadline:
			r.stuck.Store(true)
			return false
		}
	}
	return true
}

func (r *Run) markWaited() {
	r.mu.Lock()
	if r.Record {
		r.evs = append(r.evs, "W")
	}
	r.waited = true
	r.mu.Unlock()
}

// LaneGoroutines counts the goroutines that have a frame of package tasklane on their stack.
func LaneGoroutines() int {
	buf := make([]byte, 1<<20)
	for {
		n := runtime.Stack(buf, true)
		if n < len(buf) {
			buf = buf[:n]
			break
		}
		buf = make([]byte, 2*len(buf))
	}
	c := 0
	for _, g := range strings.Split(string(buf), "\n\n") {
		if strings.Contains(g, "glb/tasklane.") {
			c++
		}
	}
	return c
}

// Leaks records Z:<n> (after polling briefly so that goroutines past their wg.Done() can exit).
func (r *Run) Leaks() int {
	n := 0
	WaitUntil(300*time.Millisecond, func() bool { n = LaneGoroutines(); return n == 0 })
	r.rec("Z:" + strconv.Itoa(n))
	if n != 0 {
		r.stuck.Store(true)
	}
	return n
}

// WaitUntil polls f with a growing sleep until it holds or d has passed.
func WaitUntil(d time.Duration, f func() bool) bool {
	deadline := time.Now().Add(d)
	sl := 20 * time.Microsecond
	for {
		if f() {
			return true
		}
		if time.Now().After(deadline) {
			return false
		}
		time.Sleep(sl)
		if sl < time.Millisecond {
			sl *= 2
		}
	}
}

// History returns the H line body ("<laneSize> <queueSize> ev ev ...").
func (r *Run) History() string {
	r.mu.Lock()
	defer r.mu.Unlock()
	evs := make([]string, 0, len(r.evs))
	for _, e := range r.evs {
		if e != "" {
			evs = append(evs, e)
		}
	}
	return fmt.Sprintf("%d %d %s", r.N, r.Q, strings.Join(evs, " "))
}
