package tl

import (
	"sync/atomic"

	"github.com/whoisnian/glb/tasklane"
)

// Dynamic types of the values handed to PushTask. The lane must treat a Task as an opaque interface
// value: accepted means started exactly once whatever its dynamic type is - hashable or not, comparable
// or not, equal to another pushed value or not. All kinds run the same recorder callbacks.
const (
	KindPtr   = "ptr"   // *Task (pointer, the ordinary case)
	KindFunc  = "func"  // func-typed adapter: not comparable, not hashable
	KindSlice = "slice" // value struct with a slice field: not hashable
	KindMap   = "map"   // value struct with a map field: not hashable
	KindEqual = "equal" // value struct with comparable fields only; several pushes of EQUAL values
	KindZero  = "zero"  // zero-size struct value
)

// IdentityKinds wrap one specific *Task (S/F carry that task's id), usable in every scenario.
var IdentityKinds = []string{KindPtr, KindFunc, KindSlice, KindMap}

type funcTask func()

func (f funcTask) Start() { f() }

type sliceTask struct {
	path []*Task
	note string
}

func (s sliceTask) Start() { s.path[0].Start() }

type mapTask struct {
	byName map[string]*Task
}

func (m mapTask) Start() { m.byName["t"].Start() }

// group: k pushes of indistinguishable values. Each Start() call takes the next task id of the group
// (ids are assigned in push order; the m-th Start of the group belongs to one of at least m begun pushes).
// A Start() beyond the number of pushes re-runs the last id, which the exactly-once monitor reports.
type group struct {
	ids  []*Task
	next atomic.Int32
}

func (g *group) start() {
	i := int(g.next.Add(1)) - 1
	if i >= len(g.ids) {
		i = len(g.ids) - 1
	}
	g.ids[i].Start()
}

type equalTask struct {
	g   *group
	tag int
}

func (e equalTask) Start() { e.g.start() }

// zero-size values cannot carry anything: the group is found through a package variable (scenarios run one at a time)
var zeroGroup atomic.Pointer[group]

type zeroTask struct{}

func (zeroTask) Start() { zeroGroup.Load().start() }

// Wrap makes the value pushed for t one of the identity-preserving kinds.
func (t *Task) Wrap(kind string) *Task {
	t.kind = kind
	switch kind {
	case KindFunc:
		t.wrap = funcTask(t.Start)
	case KindSlice:
		t.wrap = sliceTask{path: []*Task{t}, note: "s"}
	case KindMap:
		t.wrap = mapTask{byName: map[string]*Task{"t": t}}
	default:
		t.kind, t.wrap = KindPtr, nil
	}
	return t
}

func (t *Task) value() tasklane.Task {
	if t.isNil {
		return nil
	}
	if t.wrap != nil {
		return t.wrap
	}
	return t
}

func (t *Task) Kind() string {
	if t.kind == "" {
		return KindPtr
	}
	return t.kind
}

// NewGroup creates k tasks whose pushed values are indistinguishable (equal comparable structs, or zero-size structs).
func (r *Run) NewGroup(kind string, k int) []*Task {
	g := &group{}
	var v tasklane.Task
	if kind == KindZero {
		zeroGroup.Store(g)
		v = zeroTask{}
	} else {
		v = equalTask{g: g, tag: 7}
	}
	for i := 0; i < k; i++ {
		t := r.NewTask(false, 0, false)
		t.kind, t.wrap = kind, v
		g.ids = append(g.ids, t)
	}
	return g.ids
}
