// Package tl is the shared kit of the TaskLane verticals (C06, C07, C08, C14): a gate Context that
// recognises and can park the lane's goroutines at their ctx.Done() call sites, gate Tasks, an
// event recorder producing the history format of docs/TASKLANE.md, and the scenario engine.
// Nothing here needs a hook in the code under test: the lane is driven through its public API and
// through the objects it calls (the Context and the Tasks).
package tl

import (
	"context"
	"fmt"
	"os"
	"reflect"
	"runtime"
	"sort"
	"strings"
	"sync"
	"time"

	"github.com/whoisnian/glb/tasklane"
)

// SiteTable identifies the places where the code under test consults its context (ctx.Done() or ctx.Err())
// WITHOUT relying on function names or line order:
//
//   - the KIND of a call comes from the stack: a call that has a harness frame above it was made on behalf of an API
//     call of the harness (PushTask: 'P'); otherwise it was made by one of the lane's own goroutines, named by its
//     entry function (the outermost tasklane frame of that goroutine = whatever `go` statement in package tasklane
//     started it). The entry function under which a gate task's Start() ran during calibration is the WORKER
//     function ('W'); every other lane entry function is a queue/dispatcher function ('Q');
//   - the SITE is (entry function, line of the immediate caller), as reached while the context was live during the
//     calibration run; sites of a kind are numbered in FIRST-REACH order (protocol order: loop-top check, after
//     take+count, blocking offer / loop top, blocking receive / entry check, blocking select);
//   - the engine then PROBES what each site means (probe.go) and may relabel; keys handed out after that are the
//     protocol labels Q0 Q1 Q2 W0 W1 P0 P1 the scenarios are written against.
type SiteTable struct {
	mu          sync.Mutex
	recs        []*siteRec
	byLoc       map[siteLoc]*siteRec
	workerChain []string // tasklane frames, outside in, of the goroutine under which a gate task's Start() ran
	common      int      // number of outermost frames every lane goroutine shares with the worker (common wrappers)
	workerEntry string   // the outermost DISTINGUISHING frame of the workers
	entries     map[string]bool
	pushFns     map[string]bool // API functions seen under harness frames
	seq         int
	frozen      bool
	drift       int
	cache       map[[stackDepth]uintptr]string
}

const stackDepth = 24

// siteLoc: a call site = the whole call PATH inside package tasklane, from the function that calls the context up
// to the goroutine's root function (lane goroutine) or to the API function the harness called (api), as
// "fn:line<fn:line<...". The path, not the immediate caller, identifies the site: one helper such as
// `func (tl *TaskLane) ended() bool` used by the queue loop, the worker loop and PushTask is reached from
// different places, and each of them is a different point of the protocol.
type siteLoc struct {
	fn   string // the immediate caller (for the description only; part of path)
	path string
	api  bool
}

type siteRec struct {
	loc   siteLoc
	chain []string // lane call: tasklane frames of the goroutine, outside in; api call: the API function
	first int
	hits  int
	kind  byte
	label string
}

func NewSiteTable() *SiteTable {
	return &SiteTable{byLoc: map[siteLoc]*siteRec{}, entries: map[string]bool{}, pushFns: map[string]bool{}, cache: map[[stackDepth]uintptr]string{}}
}

const lanePkg = "glb/tasklane."
const harnessPkg = "verifharness/"

// testWrapper (self-test, TL_TEST_WRAPPER=1): pretend that every lane goroutine was started through one common
// wrapper, as in `tl.spawn(func(){ runWorker(tl,i) })` or `wg.Go(...)`: the outermost frame then says nothing.
var testWrapper = os.Getenv("TL_TEST_WRAPPER") != ""

func outsideIn(inner []string) []string {
	out := make([]string, 0, len(inner)+1)
	if testWrapper {
		out = append(out, "github.com/whoisnian/glb/tasklane.(*TaskLane).commonWrapper.func1")
	}
	for i := len(inner) - 1; i >= 0; i-- {
		out = append(out, inner[i])
	}
	return out
}

// locate walks the stack of a context call: the immediate caller and its line, and whose call it is - an API
// function called by the harness (chain = that function), or a lane goroutine (chain = its tasklane frames).
func locate(pcs []uintptr) (loc siteLoc, chain []string, ok bool) {
	frames := runtime.CallersFrames(pcs)
	var lane []string
	var path strings.Builder
	first := true
	for {
		fr, more := frames.Next()
		if first {
			loc.fn = fr.Function
			first = false
		}
		if strings.Contains(fr.Function, harnessPkg) {
			if len(lane) == 0 {
				return loc, nil, false // the harness itself asked
			}
			loc.api, loc.path = true, path.String()
			return loc, []string{lane[len(lane)-1]}, true
		}
		if strings.Contains(fr.Function, lanePkg) {
			lane = append(lane, fr.Function)
			fmt.Fprintf(&path, "%s:%d<", fr.Function, fr.Line)
		}
		if !more {
			break
		}
	}
	if len(lane) == 0 {
		return loc, nil, false
	}
	loc.path = path.String()
	return loc, outsideIn(lane), true
}

// pushEntry is the API function whose context calls are the push-role sites: PushTask, named through the symbol
// the harness itself calls (no naming convention involved). Context calls made inside other API functions the
// harness calls (New fetching ctx.Done() once, Status, Wait, ...) are not park points.
var pushEntry = runtime.FuncForPC(reflect.ValueOf((*tasklane.TaskLane).PushTask).Pointer()).Name()

// laneGoroutineChains parses a dump of all goroutines: for every goroutine that has tasklane frames, the
// function names of those frames, outside in.
func laneGoroutineChains() [][]string {
	buf := make([]byte, 1<<20)
	buf = buf[:runtime.Stack(buf, true)]
	var res [][]string
	for _, g := range strings.Split(string(buf), "\n\n") {
		var inner []string
		for _, ln := range strings.Split(g, "\n") {
			if strings.HasPrefix(ln, "\t") || strings.HasPrefix(ln, "goroutine ") || strings.HasPrefix(ln, "created by ") {
				continue
			}
			if i := strings.LastIndex(ln, "("); i > 0 {
				ln = ln[:i]
			}
			if strings.Contains(ln, harnessPkg) {
				inner = nil // a goroutine of the harness inside an API call, not a lane goroutine
				break
			}
			if strings.Contains(ln, lanePkg) {
				inner = append(inner, ln)
			}
		}
		if len(inner) > 0 {
			res = append(res, outsideIn(inner))
		}
	}
	return res
}

func lcp(a, b []string) int {
	n := 0
	for n < len(a) && n < len(b) && a[n] == b[n] {
		n++
	}
	return n
}

// key returns the label of the call site described by pcs ("X?" = not a call of the code under test).
func (st *SiteTable) key(pcs [stackDepth]uintptr, n int, live bool) string {
	st.mu.Lock()
	defer st.mu.Unlock()
	if st.frozen {
		if k, ok := st.cache[pcs]; ok {
			if live && k[1] == '?' && (k[0] == 'Q' || k[0] == 'W') {
				st.drift++
			}
			return k
		}
	}
	loc, chain, ok := locate(pcs[:n])
	if ok && loc.api && chain[0] != pushEntry {
		ok = false // a context call inside another API function (New, Status, ...): not a point of the protocol
	}
	if !ok {
		if st.frozen {
			st.cache[pcs] = "X?"
		}
		return "X?"
	}
	if rec := st.byLoc[loc]; rec != nil {
		if st.frozen {
			st.cache[pcs] = rec.label
			return rec.label
		}
		rec.hits++
		return "C?" // calibrating: nobody parks, labels do not exist yet
	}
	if st.frozen {
		// a site the calibration run never reached is classified by ROLE: a call made inside an API call of the harness
		// is a push-role call wherever it sits (e.g. a branch only taken with SetTimeout(<= 0)) and costs nothing but a
		// park point; only an unknown site of a lane goroutine means the calibration no longer covers the protocol
		k := string([]byte{st.kindOf(loc, chain), '?'})
		if live && !loc.api {
			st.drift++
		}
		st.cache[pcs] = k
		return k
	}
	if loc.api {
		st.pushFns[chain[0]] = true
	}
	if live {
		st.seq++
		rec := &siteRec{loc: loc, chain: chain, first: st.seq, hits: 1}
		st.recs = append(st.recs, rec)
		st.byLoc[loc] = rec
	}
	return "C?"
}

// kindOf: API call, worker or queue. A lane goroutine is a worker iff it shares with the worker's chain more
// than the frames that ALL lane goroutines share (the common wrappers): roles are told apart by the outermost
// DISTINGUISHING frame, whatever `go` statement, closure or helper started the goroutine.
func (st *SiteTable) kindOf(loc siteLoc, chain []string) byte {
	switch {
	case loc.api:
		return 'P'
	case lcp(chain, st.workerChain) > st.common:
		return 'W'
	}
	return 'Q'
}

// NoteWorker records the frames of the goroutine that is running a task's Start() (calibration only).
func (st *SiteTable) NoteWorker() {
	st.mu.Lock()
	frozen := st.frozen
	st.mu.Unlock()
	if frozen {
		return
	}
	var pcs [64]uintptr
	n := runtime.Callers(2, pcs[:])
	frames := runtime.CallersFrames(pcs[:n])
	var lane []string
	for {
		fr, more := frames.Next()
		if strings.Contains(fr.Function, lanePkg) {
			lane = append(lane, fr.Function)
		}
		if !more {
			break
		}
	}
	if len(lane) > 0 {
		st.mu.Lock()
		st.workerChain = outsideIn(lane)
		st.mu.Unlock()
	}
}

// Freeze ends the calibration: kinds are fixed, the sites of each kind get their first-reach ordinal as label.
func (st *SiteTable) Freeze() {
	st.mu.Lock()
	defer st.mu.Unlock()
	st.frozen = true
	sort.Slice(st.recs, func(i, j int) bool { return st.recs[i].first < st.recs[j].first })
	// the frames every lane goroutine shares with the worker are common wrappers, not roles
	st.common = -1
	for _, r := range st.recs {
		if !r.loc.api {
			if n := lcp(r.chain, st.workerChain); st.common < 0 || n < st.common {
				st.common = n
			}
		}
	}
	// the lane goroutines as they stand right now (the calibration lane is alive and idle): needed when they never
	// consult the context themselves (channel fetched once in New), so that no site tells the roles apart
	if len(st.workerChain) > 0 {
		for _, c := range laneGoroutineChains() {
			if n := lcp(c, st.workerChain); st.common < 0 || n < st.common {
				st.common = n
			}
		}
	}
	if st.common < 0 {
		st.common = 0
	}
	if st.common < len(st.workerChain) {
		st.workerEntry = st.workerChain[st.common]
	}
	ord := map[byte]int{}
	for _, r := range st.recs {
		r.kind = st.kindOf(r.loc, r.chain)
		r.label = string([]byte{r.kind, byte('0' + ord[r.kind])})
		ord[r.kind]++
		if !r.loc.api && st.common < len(r.chain) {
			st.entries[r.chain[st.common]] = true
		}
	}
}

// Swap exchanges the labels of two sites (a probe found that they mean each other's protocol point); when no site
// carries label b it is a plain rename.
func (st *SiteTable) Swap(a, b string) {
	st.mu.Lock()
	defer st.mu.Unlock()
	for _, r := range st.recs {
		switch r.label {
		case a:
			r.label = b
		case b:
			r.label = a
		}
	}
	st.cache = map[[stackDepth]uintptr]string{}
}

// Labels lists the labels of one kind in first-reach order; recurring tells which of them were reached more often
// than there are goroutines of that kind in the calibration lane (i.e. on every loop iteration, not once per goroutine).
func (st *SiteTable) Labels(kind byte) (labels []string, recurring map[string]bool) {
	st.mu.Lock()
	defer st.mu.Unlock()
	recurring = map[string]bool{}
	for _, r := range st.recs {
		if r.kind == kind {
			labels = append(labels, r.label)
			recurring[r.label] = r.hits > calibLanes
		}
	}
	return
}

const calibLanes = 2

// WorkerEntry is the name of the worker goroutines' entry function (for goroutine dumps).
func (st *SiteTable) WorkerEntry() string {
	st.mu.Lock()
	defer st.mu.Unlock()
	return st.workerEntry
}

// Describe is the discovered structure, for the evidence.
func (st *SiteTable) Describe() map[string]any {
	st.mu.Lock()
	defer st.mu.Unlock()
	short := func(f string) string {
		if i := strings.LastIndex(f, "/"); i >= 0 {
			f = f[i+1:]
		}
		return f
	}
	var sites []string
	for _, r := range st.recs {
		sites = append(sites, fmt.Sprintf("%s=%s#%d(hits %d)", r.label, short(r.loc.fn), r.first, r.hits))
	}
	var ent, api []string
	for e := range st.entries {
		ent = append(ent, short(e))
	}
	for e := range st.pushFns {
		api = append(api, short(e))
	}
	sort.Strings(ent)
	sort.Strings(api)
	return map[string]any{"worker_entry": short(st.workerEntry), "common_wrapper_frames": st.common, "lane_entries": ent, "api_functions_calling_the_context": api, "sites_in_first_reach_order": sites, "calls_from_unknown_sites": st.drift}
}

// Counts returns the number of live call sites per kind (Q, W, P).
func (st *SiteTable) Counts() (q, w, p int) {
	st.mu.Lock()
	defer st.mu.Unlock()
	for _, r := range st.recs {
		switch r.kind {
		case 'Q':
			q++
		case 'W':
			w++
		case 'P':
			p++
		}
	}
	return
}

func (st *SiteTable) Drift() int {
	st.mu.Lock()
	defer st.mu.Unlock()
	return st.drift
}

type parkedG struct {
	key    string
	resume chan struct{}
}

// Gate is a context.Context whose Done() identifies its caller and can park it.
type Gate struct {
	st   *SiteTable
	mu   sync.Mutex
	done chan struct{}
	err  error
	arm  map[string]int // site key -> number of callers still to park there (-1 = all)
	park []*parkedG
	hits map[string]int
	hook func(key string)
	// optional wrapped standard context (context.WithCancel / WithDeadline): Done/Err/Deadline answer from it
	inner       context.Context
	innerCancel context.CancelFunc
	valueParent context.Context
}

// NewGateWithLiveAncestor: a stand-alone gate (own Done channel / Err) whose Value() delegates to a live standard
// cancellable ancestor. The returned stop function releases the ancestor at the end of the scenario.
func NewGateWithLiveAncestor(st *SiteTable) (*Gate, context.CancelFunc) {
	parent, stop := context.WithCancel(context.Background())
	g := NewGate(st)
	g.valueParent = parent
	return g, stop
}

// NewGateWrapping makes a gate around a standard library context: the interception is the gate's,
// the cancellation state is the inner context's.
func NewGateWrapping(st *SiteTable, inner context.Context, cancel context.CancelFunc) *Gate {
	g := NewGate(st)
	g.inner, g.innerCancel = inner, cancel
	return g
}

func NewGate(st *SiteTable) *Gate {
	return &Gate{st: st, done: make(chan struct{}), arm: map[string]int{}, hits: map[string]int{}}
}

func (g *Gate) Deadline() (time.Time, bool) {
	if g.inner != nil {
		return g.inner.Deadline()
	}
	return time.Time{}, false
}

// Value: a hand-written context usually delegates Value to the context it was derived from. valueParent, when
// set, is such an ancestor - a standard cancellable context that is still LIVE while this gate is done (legal: a
// context may end before its ancestors). Code that asks the standard library about "the" cancellation through
// Value (context.Cause) then hears about the ancestor, not about this context; only Err() is this context's answer.
func (g *Gate) Value(k any) any {
	if g.inner != nil {
		return g.inner.Value(k)
	}
	if g.valueParent != nil {
		return g.valueParent.Value(k)
	}
	return nil
}

// intercept identifies the caller of Done()/Err(), runs the hook, and parks the caller if the site is armed.
func (g *Gate) intercept() {
	var pcs [stackDepth]uintptr
	n := runtime.Callers(3, pcs[:])
	key := g.st.key(pcs, n, g.ErrNow() == nil)
	g.mu.Lock()
	hook := g.hook
	g.mu.Unlock()
	if hook != nil && key != "X?" {
		hook(key)
	}
	g.mu.Lock()
	g.hits[key]++
	var p *parkedG
	if n := g.arm[key]; n != 0 {
		if n > 0 {
			g.arm[key] = n - 1
		}
		p = &parkedG{key: key, resume: make(chan struct{})}
		g.park = append(g.park, p)
	}
	g.mu.Unlock()
	if p != nil {
		<-p.resume
	}
}

// Done records the call site, parks the caller if the site is armed, and returns the shared channel.
func (g *Gate) Done() <-chan struct{} {
	g.intercept()
	if g.inner != nil {
		return g.inner.Done()
	}
	return g.done
}

// Err is intercepted exactly like Done (same site table, hook BEFORE the answer is computed, parking): code
// written in the `if ctx.Err() != nil` style stays as controllable as code written with selects, and a scenario
// can let things happen between the moment the code decides to ask and the answer it gets.
func (g *Gate) Err() error {
	g.intercept()
	return g.ErrNow()
}

// ErrNow is the harness's own view of the context state (no interception).
func (g *Gate) ErrNow() error {
	if g.inner != nil {
		return g.inner.Err()
	}
	g.mu.Lock()
	defer g.mu.Unlock()
	return g.err
}

// SetHook installs a function called at the beginning of every Done() / Err() call made by the code
// under test, with the site key, in the calling goroutine.
func (g *Gate) SetHook(h func(key string)) {
	g.mu.Lock()
	g.hook = h
	g.mu.Unlock()
}

// LaneHits is the number of Done()/Err() calls made so far by the lane's own goroutines (startQueue / startWorker).
func (g *Gate) LaneHits() int {
	g.mu.Lock()
	defer g.mu.Unlock()
	n := 0
	for k, v := range g.hits {
		if k[0] == 'Q' || k[0] == 'W' {
			n += v
		}
	}
	return n
}

// Cancel ends the context with the given error (context.Canceled or context.DeadlineExceeded).
func (g *Gate) Cancel(err error) {
	if g.inner != nil {
		g.innerCancel()
		return
	}
	g.mu.Lock()
	defer g.mu.Unlock()
	if g.err == nil {
		g.err = err
		close(g.done)
	}
}

// Arm makes the next n callers of the site park there (n < 0: every caller).
func (g *Gate) Arm(key string, n int) {
	g.mu.Lock()
	g.arm[key] = n
	g.mu.Unlock()
}

// Parked is the number of goroutines currently parked at the site ("" = anywhere).
func (g *Gate) Parked(key string) int {
	g.mu.Lock()
	defer g.mu.Unlock()
	n := 0
	for _, p := range g.park {
		if key == "" || p.key == key {
			n++
		}
	}
	return n
}

// Resume releases up to n goroutines parked at the site ("" = any site, n < 0 = all); returns how many.
func (g *Gate) Resume(key string, n int) int {
	g.mu.Lock()
	var keep []*parkedG
	c := 0
	for _, p := range g.park {
		if (key == "" || p.key == key) && (n < 0 || c < n) {
			close(p.resume)
			c++
		} else {
			keep = append(keep, p)
		}
	}
	g.park = keep
	g.mu.Unlock()
	return c
}

// Open disarms every site and releases everybody.
func (g *Gate) Open() {
	g.mu.Lock()
	g.arm = map[string]int{}
	g.mu.Unlock()
	g.Resume("", -1)
}

func (g *Gate) Hits() map[string]int {
	g.mu.Lock()
	defer g.mu.Unlock()
	m := map[string]int{}
	for k, v := range g.hits {
		m[k] = v
	}
	return m
}

var _ context.Context = (*Gate)(nil)
