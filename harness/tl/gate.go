// Package tl is the shared kit of the TaskLane verticals (C06, C07, C08, C14): a gate Context that
// recognises and can park the lane's goroutines at their ctx.Done() call sites, gate Tasks, an
// event recorder producing the history format of docs/TASKLANE.md, and the scenario engine.
// Nothing here needs a hook in the code under test: the lane is driven through its public API and
// through the objects it calls (the Context and the Tasks).
package tl

import (
	"context"
	"runtime"
	"sort"
	"strings"
	"sync"
	"time"
)

// SiteTable maps a call site of the context (ctx.Done() or ctx.Err(), function kind, source line) to a stable key
// "<kind><ordinal>" where the ordinal is the rank of the line among the distinct call-site lines of that
// function that were reached WHILE THE CONTEXT WAS LIVE during the calibration run - i.e. the places where the
// code under test asks "has the context ended?" before going on. Absolute line numbers never leave this table,
// and it does not matter whether the code asks through `select { case <-ctx.Done(): ... default: }` or through
// `if ctx.Err() != nil`. Calls made only after the context ended (`return ctx.Err()`) are not park points and get "<kind>?".
//
// Expected on the current code: Q0 (queue loop top, before the blocking receive), Q1 (after take+count),
// Q2 (before the blocking offer), W0 (worker loop top), W1 (before the worker's blocking receive),
// P0 (PushTask entry), P1 (PushTask blocking select).
type SiteTable struct {
	mu     sync.Mutex
	lines  map[byte][]int
	frozen bool
	drift  int // calls on a live context from lines not in the frozen table
}

func NewSiteTable() *SiteTable { return &SiteTable{lines: map[byte][]int{}} }

func (st *SiteTable) key(kind byte, line int, live bool) string {
	st.mu.Lock()
	defer st.mu.Unlock()
	ls := st.lines[kind]
	i := sort.SearchInts(ls, line)
	if i < len(ls) && ls[i] == line {
		return string([]byte{kind, byte('0' + i)})
	}
	if st.frozen || !live {
		if live {
			st.drift++
		}
		return string([]byte{kind, '?'})
	}
	ls = append(ls, 0)
	copy(ls[i+1:], ls[i:])
	ls[i] = line
	st.lines[kind] = ls
	return string([]byte{kind, byte('0' + i)})
}

func (st *SiteTable) Freeze() {
	st.mu.Lock()
	st.frozen = true
	st.mu.Unlock()
}

// Counts returns the number of distinct Done() sites per function kind (Q, W, P).
func (st *SiteTable) Counts() (q, w, p int) {
	st.mu.Lock()
	defer st.mu.Unlock()
	return len(st.lines['Q']), len(st.lines['W']), len(st.lines['P'])
}

func (st *SiteTable) Drift() int {
	st.mu.Lock()
	defer st.mu.Unlock()
	return st.drift
}

// Expected reports whether the site structure is the one the exact-state expectations were written for.
func (st *SiteTable) Expected() bool {
	q, w, p := st.Counts()
	return q == 3 && w == 2 && p == 2
}

type parkedG struct {
	key    string
	resume chan struct{}
}

// Gate is a context.Context whose Done() identifies its caller and can park it.
type Gate struct {
	st   *SiteTable
	mu   sync.Mutex
	done chan struct{}
	err  error
	arm  map[string]int // site key -> number of callers still to park there (-1 = all)
	park []*parkedG
	hits map[string]int
	hook func(key string)
	// optional wrapped standard context (context.WithCancel / WithDeadline): Done/Err/Deadline answer from it
	inner       context.Context
	innerCancel context.CancelFunc
	valueParent context.Context
}

// NewGateWithLiveAncestor: a stand-alone gate (own Done channel / Err) whose Value() delegates to a live standard
// cancellable ancestor. The returned stop function releases the ancestor at the end of the scenario.
func NewGateWithLiveAncestor(st *SiteTable) (*Gate, context.CancelFunc) {
	parent, stop := context.WithCancel(context.Background())
	g := NewGate(st)
	g.valueParent = parent
	return g, stop
}

// NewGateWrapping makes a gate around a standard library context: the interception is the gate's,
// the cancellation state is the inner context's.
func NewGateWrapping(st *SiteTable, inner context.Context, cancel context.CancelFunc) *Gate {
	g := NewGate(st)
	g.inner, g.innerCancel = inner, cancel
	return g
}

func NewGate(st *SiteTable) *Gate {
	return &Gate{st: st, done: make(chan struct{}), arm: map[string]int{}, hits: map[string]int{}}
}

func (g *Gate) Deadline() (time.Time, bool) {
	if g.inner != nil {
		return g.inner.Deadline()
	}
	return time.Time{}, false
}

// Value: a hand-written context usually delegates Value to the context it was derived from. valueParent, when
// set, is such an ancestor - a standard cancellable context that is still LIVE while this gate is done (legal: a
// context may end before its ancestors). Code that asks the standard library about "the" cancellation through
// Value (context.Cause) then hears about the ancestor, not about this context; only Err() is this context's answer.
func (g *Gate) Value(k any) any {
	if g.inner != nil {
		return g.inner.Value(k)
	}
	if g.valueParent != nil {
		return g.valueParent.Value(k)
	}
	return nil
}

func classify(fn string) byte {
	switch {
	case strings.Contains(fn, "startQueue"):
		return 'Q'
	case strings.Contains(fn, "startWorker"):
		return 'W'
	case strings.Contains(fn, "PushTask"):
		return 'P'
	}
	return 'X'
}

// intercept identifies the caller of Done()/Err(), runs the hook, and parks the caller if the site is armed.
func (g *Gate) intercept() {
	// the call site is the line of the immediate caller; the function kind is that of the nearest enclosing
	// startQueue / startWorker / PushTask on the stack, so a helper extracted from one of them (nextTask(), ...)
	// keeps its park points
	var pcs [8]uintptr
	key := "X?"
	if n := runtime.Callers(3, pcs[:]); n > 0 {
		frames := runtime.CallersFrames(pcs[:n])
		line := -1
		for {
			fr, more := frames.Next()
			if line < 0 {
				line = fr.Line
			}
			if k := classify(fr.Function); k != 'X' {
				key = g.st.key(k, line, g.ErrNow() == nil)
				break
			}
			if !more || !strings.Contains(fr.Function, "glb/tasklane.") {
				break
			}
		}
	}
	g.mu.Lock()
	hook := g.hook
	g.mu.Unlock()
	if hook != nil && key != "X?" {
		hook(key)
	}
	g.mu.Lock()
	g.hits[key]++
	var p *parkedG
	if n := g.arm[key]; n != 0 {
		if n > 0 {
			g.arm[key] = n - 1
		}
		p = &parkedG{key: key, resume: make(chan struct{})}
		g.park = append(g.park, p)
	}
	g.mu.Unlock()
	if p != nil {
		<-p.resume
	}
}

// Done records the call site, parks the caller if the site is armed, and returns the shared channel.
func (g *Gate) Done() <-chan struct{} {
	g.intercept()
	if g.inner != nil {
		return g.inner.Done()
	}
	return g.done
}

// Err is intercepted exactly like Done (same site table, hook BEFORE the answer is computed, parking): code
// written in the `if ctx.Err() != nil` style stays as controllable as code written with selects, and a scenario
// can let things happen between the moment the code decides to ask and the answer it gets.
func (g *Gate) Err() error {
	g.intercept()
	return g.ErrNow()
}

// ErrNow is the harness's own view of the context state (no interception).
func (g *Gate) ErrNow() error {
	if g.inner != nil {
		return g.inner.Err()
	}
	g.mu.Lock()
	defer g.mu.Unlock()
	return g.err
}

// SetHook installs a function called at the beginning of every Done() / Err() call made by the code
// under test, with the site key, in the calling goroutine.
func (g *Gate) SetHook(h func(key string)) {
	g.mu.Lock()
	g.hook = h
	g.mu.Unlock()
}

// LaneHits is the number of Done()/Err() calls made so far by the lane's own goroutines (startQueue / startWorker).
func (g *Gate) LaneHits() int {
	g.mu.Lock()
	defer g.mu.Unlock()
	n := 0
	for k, v := range g.hits {
		if k[0] == 'Q' || k[0] == 'W' {
			n += v
		}
	}
	return n
}

// Cancel ends the context with the given error (context.Canceled or context.DeadlineExceeded).
func (g *Gate) Cancel(err error) {
	if g.inner != nil {
		g.innerCancel()
		return
	}
	g.mu.Lock()
	defer g.mu.Unlock()
	if g.err == nil {
		g.err = err
		close(g.done)
	}
}

// Arm makes the next n callers of the site park there (n < 0: every caller).
func (g *Gate) Arm(key string, n int) {
	g.mu.Lock()
	g.arm[key] = n
	g.mu.Unlock()
}

// Parked is the number of goroutines currently parked at the site ("" = anywhere).
func (g *Gate) Parked(key string) int {
	g.mu.Lock()
	defer g.mu.Unlock()
	n := 0
	for _, p := range g.park {
		if key == "" || p.key == key {
			n++
		}
	}
	return n
}

// Resume releases up to n goroutines parked at the site ("" = any site, n < 0 = all); returns how many.
func (g *Gate) Resume(key string, n int) int {
	g.mu.Lock()
	var keep []*parkedG
	c := 0
	for _, p := range g.park {
		if (key == "" || p.key == key) && (n < 0 || c < n) {
			close(p.resume)
			c++
		} else {
			keep = append(keep, p)
		}
	}
	g.park = keep
	g.mu.Unlock()
	return c
}

// Open disarms every site and releases everybody.
func (g *Gate) Open() {
	g.mu.Lock()
	g.arm = map[string]int{}
	g.mu.Unlock()
	g.Resume("", -1)
}

func (g *Gate) Hits() map[string]int {
	g.mu.Lock()
	defer g.mu.Unlock()
	m := map[string]int{}
	for k, v := range g.hits {
		m[k] = v
	}
	return m
}

var _ context.Context = (*Gate)(nil)
